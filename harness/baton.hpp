// baton.hpp - engine E1: controlled-schedule execution of real pika code.
//
// K logical threads (plain OS threads, or pika tasks pinned to their worker) run the
// real primitives; exactly one of them runs at any time (the baton).  A thread gives
// up the baton only at *preemption points*:
//   - PIKA_VERIF_POINT hooks compiled into pika (phase 0),
//   - calls pika makes on the execution agent (suspend / yield_k / sleep_until ...),
//     which reach the verif_agent installed with reset_agent,
//   - the harness' own points (operation invocation, critical-section markers).
// Everything between two preemption points is one atomic block.  The controller
// draws the next thread from a PRNG stream seeded by the case, so a case replays
// exactly.  The log (grant events + PIKA_VERIF_POST payload events + inv/ret
// events) is an exact linearisation and is what the Lean acceptor replays.
//
// Time is virtual: sleep_until parks the thread until the controller *chooses* the
// event "deadline of t expires".
#pragma once

#include <pika/config.hpp>
#include <pika/execution_base/agent_base.hpp>
#include <pika/execution_base/context_base.hpp>
#include <pika/execution_base/this_thread.hpp>

#include <condition_variable>
#include <cstdint>
#include <cstdio>
#include <cstdlib>
#include <functional>
#include <map>
#include <mutex>
#include <string>
#include <thread>
#include <unistd.h>
#include <vector>

namespace verif {

    struct rng
    {
        std::uint64_t s;
        explicit rng(std::uint64_t seed = 1)
          : s(seed)
        {
        }
        std::uint64_t next()
        {
            std::uint64_t z = (s += 0x9e3779b97f4a7c15ull);
            z = (z ^ (z >> 30)) * 0xbf58476d1ce4e5b9ull;
            z = (z ^ (z >> 27)) * 0x94d049bb133111ebull;
            return z ^ (z >> 31);
        }
        std::uint32_t below(std::uint32_t n) { return n == 0 ? 0 : std::uint32_t(next() % n); }
    };

    enum class tstate
    {
        not_started,
        runnable,
        spinning,
        parked,
        sleeping,
        done
    };

    struct controller;
    inline thread_local int my_tid = -1;
    inline controller* g_ctl = nullptr;

    struct controller
    {
        struct tctl
        {
            tstate st = tstate::not_started;
            int tokens = 0;
            bool aborted = false;
            std::condition_variable cv;
            int priority = 0;    // PCT priority
        };

        int n;
        std::vector<tctl> th;
        std::mutex m;
        int current = -1;
        rng r;
        std::vector<std::string> log;
        std::map<void const*, int> objids;
        std::size_t steps = 0, max_steps = 20000;
        std::size_t spin_streak = 0, max_spin_streak = 400;
        int strategy = 0;    // 0 uniform, 1 pct-like priorities, 2 sticky (few switches)
        std::vector<std::size_t> pct_change_points;
        std::string status = "ok";
        std::function<void()> on_finish;    // called (with m held) when the case ends
        bool finished = false;
        // optional directed schedule: thread ids to prefer at the next preemption points (a
        // scripted id that is not schedulable at its turn is skipped); PRNG choices afterwards
        std::vector<int> script;
        std::size_t script_pos = 0;

        controller(int nthreads, std::uint64_t seed, int strat)
          : n(nthreads)
          , th(nthreads)
          , r(seed)
          , strategy(strat)
        {
            for (int i = 0; i < n; ++i) th[i].priority = int(r.below(1000));
            if (strategy == 1)
                for (int i = 0; i < 3; ++i) pct_change_points.push_back(r.below(60));
        }

        int obj(void const* p)
        {
            if (p == nullptr) return 0;
            auto it = objids.find(p);
            if (it != objids.end()) return it->second;
            int id = int(objids.size()) + 1;
            objids[p] = id;
            return id;
        }
        // give an object a stable id before first use (so ids do not depend on the schedule)
        void name_obj(void const* p)
        {
            std::lock_guard<std::mutex> l(m);
            obj(p);
        }

        void logf(int tid, char const* site, int o, long long a, long long b)
        {
            char buf[160];
            std::snprintf(buf, sizeof buf, "%d %s %d %lld %lld", tid, site, o, a, b);
            log.emplace_back(buf);
        }

        // ---- choosing who runs next (m held) ---------------------------------------
        int pick()
        {
            std::vector<int> run, spin, sleep;
            for (int i = 0; i < n; ++i)
            {
                if (th[i].st == tstate::runnable) run.push_back(i);
                else if (th[i].st == tstate::spinning) spin.push_back(i);
                else if (th[i].st == tstate::sleeping) sleep.push_back(i);
            }
            if (run.empty() && spin.empty() && sleep.empty()) return -1;
            while (script_pos < script.size())
            {
                int want = script[script_pos++];
                if (want >= 0 && want < n &&
                    (th[want].st == tstate::runnable || th[want].st == tstate::spinning ||
                        th[want].st == tstate::sleeping))
                    return want;
            }
            // a spinning thread cannot progress until someone else does: prefer the others,
            // but keep a small chance so that spin loops are exercised as well
            std::vector<int> cand;
            if (!run.empty() || !sleep.empty())
            {
                cand = run;
                // deadline expiry is an environment event; make it rarer than ordinary steps
                // unless nothing else can run
                if (run.empty() || r.below(4) == 0) cand.insert(cand.end(), sleep.begin(), sleep.end());
                if (!spin.empty() && r.below(8) == 0) cand.insert(cand.end(), spin.begin(), spin.end());
                if (cand.empty()) cand = sleep;
            }
            else { cand = spin; }
            bool only_spin = run.empty() && sleep.empty();
            if (only_spin)
            {
                if (++spin_streak > max_spin_streak) return -2;
            }
            else { spin_streak = 0; }
            if (strategy == 1)
            {
                for (auto cp : pct_change_points)
                    if (cp == steps && current >= 0) th[current].priority = -int(steps);
                int best = cand[0];
                for (int c : cand)
                    if (th[c].priority > th[best].priority) best = c;
                if (only_spin) best = cand[r.below(std::uint32_t(cand.size()))];
                return best;
            }
            if (strategy == 2 && current >= 0 && r.below(8) != 0)
            {
                for (int c : cand)
                    if (c == current) return c;
            }
            return cand[r.below(std::uint32_t(cand.size()))];
        }

        [[noreturn]] void finish(std::unique_lock<std::mutex>&)
        {
            finished = true;
            if (on_finish) on_finish();
            for (auto const& l : log) std::puts(l.c_str());
            std::printf("end %s\n", status.c_str());
            std::fflush(stdout);
            _exit(0);
        }

        // hand the baton on and wait until it comes back (m held via l)
        void switch_from(int me, std::unique_lock<std::mutex>& l)
        {
            if (++steps > max_steps)
            {
                status = "steplimit";
                finish(l);
            }
            int nx = pick();
            if (nx == -1)
            {
                bool all_done = true;
                for (auto& t : th)
                    if (t.st != tstate::done) all_done = false;
                status = all_done ? "ok" : "deadlock";
                finish(l);
            }
            if (nx == -2)
            {
                status = "livelock";
                finish(l);
            }
            current = nx;
            if (nx != me)
            {
                th[nx].cv.notify_one();
                if (me >= 0) th[me].cv.wait(l, [&] { return current == me; });
            }
        }

        // ---- entry points for the logical threads ---------------------------------
        void thread_begin(int tid)
        {
            my_tid = tid;
            std::unique_lock<std::mutex> l(m);
            th[tid].st = tstate::runnable;
            th[tid].cv.wait(l, [&] { return current == tid; });
        }
        void thread_end(int tid)
        {
            std::unique_lock<std::mutex> l(m);
            logf(tid, "done", 0, 0, 0);
            th[tid].st = tstate::done;
            my_tid = -1;
            switch_from(-1, l);
        }
        // started by the main thread once all logical threads are waiting
        void start_all()
        {
            std::unique_lock<std::mutex> l(m);
            for (;;)
            {
                bool all = true;
                for (auto& t : th)
                    if (t.st == tstate::not_started) all = false;
                if (all) break;
                l.unlock();
                std::this_thread::yield();
                l.lock();
            }
            switch_from(-1, l);
        }

        // preemption point; the grant is logged when the thread continues
        void point(int tid, char const* site, void const* o, long long a, long long b,
            tstate st = tstate::runnable)
        {
            std::unique_lock<std::mutex> l(m);
            th[tid].st = st;
            switch_from(tid, l);
            if (th[tid].st == tstate::sleeping)
            {
                // chosen while sleeping: its deadline expires now
                logf(tid, "ag.timeout", 0, 0, 0);
            }
            th[tid].st = tstate::runnable;
            logf(tid, site, obj(o), a, b);
        }
        void note(int tid, char const* site, void const* o, long long a, long long b)
        {
            std::unique_lock<std::mutex> l(m);
            logf(tid, site, obj(o), a, b);
        }

        void agent_suspend(int tid)
        {
            std::unique_lock<std::mutex> l(m);
            logf(tid, "ag.suspend", 0, th[tid].tokens, 0);
            if (th[tid].tokens > 0) { th[tid].st = tstate::runnable; }
            else { th[tid].st = tstate::parked; }
            switch_from(tid, l);
            th[tid].st = tstate::runnable;
            th[tid].tokens--;
            logf(tid, "ag.woke", 0, th[tid].tokens, th[tid].aborted ? 1 : 0);
        }
        void agent_resume(int target, bool abort)
        {
            std::unique_lock<std::mutex> l(m);
            int me = my_tid;
            if (th[target].st == tstate::sleeping)
            {
                // pika's task agent: a resume aimed at a thread that polls a deadline is a no-op
                logf(me, "ag.resume.dropped", 0, target, 0);
                return;
            }
            th[target].tokens++;
            if (abort) th[target].aborted = true;
            if (th[target].st == tstate::parked) th[target].st = tstate::runnable;
            logf(me, abort ? "ag.abort" : "ag.resume", 0, target, th[target].tokens);
        }
        void agent_sleep(int tid)
        {
            std::unique_lock<std::mutex> l(m);
            logf(tid, "ag.sleep", 0, 0, 0);
            th[tid].tokens = 0;
            th[tid].st = tstate::sleeping;
            switch_from(tid, l);
            // "ag.timeout" logged by whoever granted; if we come here directly:
            if (th[tid].st == tstate::sleeping) logf(tid, "ag.timeout", 0, 0, 0);
            th[tid].st = tstate::runnable;
        }
    };

    // ---- the agent installed on every logical thread ----------------------------------
    struct verif_context : pika::execution::detail::context_base
    {
        pika::execution::detail::resource_base const& resource() const override { return res_; }
        pika::execution::detail::resource_base res_;
    };

    struct verif_agent : pika::execution::detail::agent_base
    {
        int tid;
        controller* c;
        verif_context ctx_;
        verif_agent(int t, controller* cc)
          : tid(t)
          , c(cc)
        {
        }
        std::string description() const override { return "verif_agent"; }
        verif_context const& context() const override { return ctx_; }
        void yield(char const*) override { c->point(tid, "ag.yield", nullptr, 0, 0, tstate::spinning); }
        void yield_k(std::size_t, char const*) override
        {
            c->point(tid, "ag.yield", nullptr, 0, 0, tstate::spinning);
        }
        void spin_k(std::size_t, char const*) override
        {
            c->point(tid, "ag.yield", nullptr, 0, 0, tstate::spinning);
        }
        void suspend(char const*) override
        {
            c->agent_suspend(tid);
            if (c->th[tid].aborted)
            {
                c->th[tid].aborted = false;
                throw std::runtime_error("verif_agent: aborted");
            }
        }
        void resume(char const*) override { c->agent_resume(tid, false); }
        void abort(char const*) override { c->agent_resume(tid, true); }
        void sleep_for(pika::chrono::steady_duration const&, char const*) override
        {
            c->agent_sleep(tid);
        }
        void sleep_until(pika::chrono::steady_time_point const&, char const*) override
        {
            c->agent_sleep(tid);
        }
    };

#if defined(PIKA_VERIF_HOOKS)
    inline void e1_sink(int phase, char const* site, void const* o, std::uint64_t a,
        std::uint64_t b) noexcept
    {
        int tid = my_tid;
        if (tid < 0 || g_ctl == nullptr || g_ctl->finished) return;
        if (phase == 0) g_ctl->point(tid, site, o, (long long) a, (long long) b);
        else g_ctl->note(tid, site, o, (long long) a, (long long) b);
    }
#endif

    // Convenience for harness bodies
    inline void pt(char const* site, void const* o = nullptr, long long a = 0, long long b = 0)
    {
        g_ctl->point(my_tid, site, o, a, b);
    }
    inline void nt(char const* site, void const* o = nullptr, long long a = 0, long long b = 0)
    {
        g_ctl->note(my_tid, site, o, a, b);
    }

    // Run `bodies` as logical threads on plain OS threads under the baton.  Never returns:
    // the controller prints the log and _exit()s when the case ends.
    [[noreturn]] inline void run_os_threads(controller& c, std::vector<std::function<void()>> bodies)
    {
        g_ctl = &c;
#if defined(PIKA_VERIF_HOOKS)
        pika::verif::sink.store(&e1_sink);
#endif
        std::vector<std::thread> ts;
        for (int i = 0; i < c.n; ++i)
        {
            ts.emplace_back([&c, i, &bodies] {
                verif_agent ag(i, &c);
                pika::execution::this_thread::detail::reset_agent ra(ag);
                c.thread_begin(i);
                bodies[i]();
                c.thread_end(i);
            });
        }
        c.start_all();
        for (;;) pause();
    }
}    // namespace verif

// ---- logical threads as pika tasks (for primitives that need a pika task identity) --------
#if defined(VERIF_WITH_PIKA_TASKS)
# include <pika/execution.hpp>
# include <pika/init.hpp>
# include <pika/thread.hpp>
namespace verif {
    // Start a runtime with K+1 workers in this (child) process, run body i as a pika task that
    // installs the verif_agent and then occupies its worker for the whole case.  The tasks never
    // reach pika's scheduler through the agent (all agent calls are intercepted), so a task stays
    // on its worker and `my_tid` (thread_local) stays valid.
    [[noreturn]] inline void run_pika_tasks(controller& c, std::vector<std::function<void()>> bodies)
    {
        g_ctl = &c;
        std::string threads = "--pika:threads=" + std::to_string(c.n + 1);
        char const* argv[] = {"e1", threads.c_str(), "--pika:bind=none", nullptr};
        pika::start(nullptr, 3, argv);
# if defined(PIKA_VERIF_HOOKS)
        pika::verif::sink.store(&e1_sink);
# endif
        namespace ex = pika::execution::experimental;
        for (int i = 0; i < c.n; ++i)
        {
            ex::start_detached(ex::schedule(ex::thread_pool_scheduler{}) | ex::then([&c, i, &bodies] {
                verif_agent ag(i, &c);
                pika::execution::this_thread::detail::reset_agent ra(ag);
                c.thread_begin(i);
                bodies[i]();
                c.thread_end(i);
                for (;;) ::pause();    // never give the worker back: the case ends by _exit
            }));
        }
        c.start_all();
        for (;;) ::pause();
    }
}    // namespace verif
#endif
