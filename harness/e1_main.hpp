// e1_main.hpp - case-file reader and fork-per-case runner shared by the E1 harnesses.
//
// Case file (text):
//   case <id> key=value key=value ...
//   thread <i>: op arg arg ; op arg ; ...
//   ...
//   endcase
// For every case the runner forks; the child runs the case under the baton controller
// (which prints the event log and `end <status>` and _exit()s); the parent copies the
// child's output to stdout framed by the `case` header line.  A crash or sanitizer abort
// in the child is reported as `end crash <signal/exit code>`; a wall-clock stall (which the
// controller cannot cause by construction) as `end stall`.
#pragma once

#include <cstdio>
#include <cstdlib>
#include <cstring>
#include <fstream>
#include <functional>
#include <iostream>
#include <map>
#include <sstream>
#include <string>
#include <sys/wait.h>
#include <unistd.h>
#include <vector>

namespace verif {
    struct op_t
    {
        std::string name;
        std::vector<long long> args;
    };
    struct case_t
    {
        std::string id;
        std::string header;
        std::map<std::string, std::string> kv;
        std::vector<std::vector<op_t>> threads;
        long long geti(std::string const& k, long long d = 0) const
        {
            auto it = kv.find(k);
            return it == kv.end() ? d : std::atoll(it->second.c_str());
        }
        std::string gets(std::string const& k, std::string const& d = "") const
        {
            auto it = kv.find(k);
            return it == kv.end() ? d : it->second;
        }
    };

    inline std::vector<case_t> read_cases(std::istream& in)
    {
        std::vector<case_t> out;
        std::string line;
        case_t cur;
        bool open = false;
        while (std::getline(in, line))
        {
            if (line.rfind("case ", 0) == 0)
            {
                cur = case_t{};
                cur.header = line;
                std::istringstream is(line.substr(5));
                is >> cur.id;
                std::string kvs;
                while (is >> kvs)
                {
                    auto p = kvs.find('=');
                    if (p != std::string::npos) cur.kv[kvs.substr(0, p)] = kvs.substr(p + 1);
                }
                open = true;
            }
            else if (line.rfind("thread ", 0) == 0 && open)
            {
                auto c = line.find(':');
                std::vector<op_t> ops;
                std::istringstream is(line.substr(c + 1));
                std::string tok;
                op_t o;
                bool have = false;
                while (is >> tok)
                {
                    if (tok == ";")
                    {
                        if (have) ops.push_back(o);
                        o = op_t{};
                        have = false;
                    }
                    else if (!have)
                    {
                        o.name = tok;
                        have = true;
                    }
                    else { o.args.push_back(std::atoll(tok.c_str())); }
                }
                if (have) ops.push_back(o);
                cur.threads.push_back(ops);
            }
            else if (line == "endcase" && open)
            {
                out.push_back(cur);
                open = false;
            }
        }
        return out;
    }

    // run every case of the file in its own child process
    inline int run_case_file(char const* path, std::function<void(case_t const&)> run_one,
        int wall_timeout_s = 60)
    {
        std::ifstream f(path);
        if (!f)
        {
            std::fprintf(stderr, "cannot open %s\n", path);
            return 2;
        }
        auto cases = read_cases(f);
        for (auto const& c : cases)
        {
            std::printf("%s\n", c.header.c_str());
            for (std::size_t i = 0; i < c.threads.size(); ++i)
            {
                std::printf("thread %zu:", i);
                for (auto const& o : c.threads[i])
                {
                    std::printf(" %s", o.name.c_str());
                    for (auto a : o.args) std::printf(" %lld", a);
                    std::printf(" ;");
                }
                std::printf("\n");
            }
            std::fflush(stdout);
            pid_t pid = fork();
            if (pid == 0)
            {
                alarm(wall_timeout_s);
                run_one(c);
                _exit(0);
            }
            int st = 0;
            waitpid(pid, &st, 0);
            if (WIFSIGNALED(st))
            {
                if (WTERMSIG(st) == SIGALRM) std::printf("end stall\n");
                else std::printf("end crash signal=%d\n", WTERMSIG(st));
            }
            else if (WIFEXITED(st) && WEXITSTATUS(st) != 0)
            {
                std::printf("end crash exit=%d\n", WEXITSTATUS(st));
            }
            std::printf("endcase\n");
            std::fflush(stdout);
        }
        return 0;
    }
}    // namespace verif
