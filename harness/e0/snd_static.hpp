// snd_static.hpp (C03s) - statically typed pipelines for the E0 tie of C03.  Included by snd.cpp
// after the common definitions (P, V, Node, apply, the leaf/inline-scheduler senders, probe, ...).
//
// The erased builder (`build`) puts a unique_any_sender between every two stages: errors and values
// then travel BY VALUE through any_receiver and every stage's operation state is a heap block of its
// own, which hides lifetime defects of the adaptors themselves (a reference into an operation state
// that the adaptor has already destroyed).  Case attribute `static=1|2` selects this file instead:
//
//  * PURE catalogue (static=1, consumer=recv, term matches a catalogue shape): the pipeline is ONE
//    statically typed expression of pika's adaptors, connected directly to the statically typed probe
//    and the terminal receiver - no erasure of any kind.  Shapes: see `pure_catalogue` below.
//  * REF tier (everything else with static>=1): `SB<D>` builds ANY term to adaptor depth D as the
//    sender type T<D> = alt<then<T<D-1>>, let_value<T<D-1>>, ..., T<D-1>>.  `alt` is a sum of sender
//    types; its operation state holds the downstream receiver and, IN PLACE (a union member, no heap
//    block), the operation state of the chosen alternative connected to `rr`, a handle that erases
//    only the receiver's TYPE: rr::set_value / set_error take and forward REFERENCES (V&&, V const&,
//    exception_ptr&&, exception_ptr const&), nothing is copied and nothing is allocated.  So the
//    adaptor code between two stages sees exactly the reference arguments and the nesting of operation
//    states of a fully static pipeline; only the number of template instantiations is linear in D.
//    Below depth D a subterm is a `hole`: built by the same machinery and erased once
//    (unique_any_sender); holes are counted in the `xl end` line.
//
// Leaves and callables carry the same observable payloads as the erased builder, so the expected
// lines (Lean model `Snd`) are the same.  Differences that matter for lifetimes:
//  * `sleaf` (err/stop/arg, and every leaf of the pure catalogue) keeps its values / its
//    exception_ptr in ITS OPERATION STATE and completes with references to them (as `just` does);
//  * let_value's callable writes f(values) back into the predecessor values (it gets them by lvalue
//    reference) and the body's `arg()` leaves read them through that reference when they are
//    STARTED; the body is wrapped in `envchk`, which checks at the body's completion that the values
//    (let_error: the stored exception) are still alive;
//  * every callable carries a `ctok` (ledger object + hollow flag): invoking a callable whose state
//    was moved away, or a destroyed one, is reported.
#pragma once

// ---------------------------------------------------------------- callable token
struct ctok
{
    P p{7};
    bool hollow = false;
    ctok() = default;
    ctok(ctok const& o) : p(o.p), hollow(o.hollow) {}
    ctok(ctok&& o) noexcept : p(o.p), hollow(o.hollow) { o.hollow = true; }
    ctok& operator=(ctok const&) = delete;
    void use(char const* who) const
    {
        P::chk(&p);
        if (hollow)
        {
            {
                std::lock_guard<std::mutex> g(L().m);
                L().bad++;
            }
            out("xl callable-hollow %s", who);
        }
    }
};

// ---------------------------------------------------------------- environment of a let body
struct senv
{
    V const* ref = nullptr;                       // let_value: the predecessor values in its operation state
    std::shared_ptr<V const> own;                 // let_error / top level
    std::exception_ptr const* xref = nullptr;     // let_error: the error stored in its operation state
    V const& get() const { return ref ? *ref : *own; }
    void check(char const* where) const
    {
        if (ref)
            for (auto const& p : *ref) P::chk(&p);
        if (xref)
        {
            xinfo x = inspect(*xref);
            if (!x.alive || !x.same) out("xl exc %s %s origin=%ld code=%lld same=%d", where,
                x.null ? "null" : (x.alive ? "alive" : "dead"), x.origin, x.code, int(x.same));
        }
    }
};

// ---------------------------------------------------------------- static leaf
template <class R>
struct sleaf_op
{
    std::decay_t<R> r;
    char kind;
    V vals;
    long long code;
    senv env;
    std::exception_ptr ep;
    void start() & noexcept
    {
        if (kind == 'a') vals = V(env.get());    // read through the reference NOW
        if (kind == 'e')
        {
            ep = std::make_exception_ptr(verif_exc{code});
            ex::set_error(std::move(r), std::move(ep));    // a reference into this operation state
        }
        else if (kind == 's') ex::set_stopped(std::move(r));
        else ex::set_value(std::move(r), std::move(vals));    // dto.
    }
};
struct sleaf
{
    SND_TRAITS(V)
    char kind;    // v | e | s | a
    V vals;
    long long code;
    senv env;
    template <class R>
    sleaf_op<R> connect(R&& r) &&
    {
        return {std::forward<R>(r), kind, std::move(vals), code, std::move(env), nullptr};
    }
};
static bool is_sleaf(Node const& n) { return n.op == "just" || n.op == "err" || n.op == "stop" || n.op == "arg"; }
static sleaf mk_sleaf(Node const& n, senv const& env)
{
    if (n.op == "just") return sleaf{'v', mk(n.ints), 0, {}};
    if (n.op == "err") return sleaf{'e', {}, n.ints[0], {}};
    if (n.op == "stop") return sleaf{'s', {}, 0, {}};
    return sleaf{'a', {}, 0, env};
}

// ---------------------------------------------------------------- transparent adaptors
// forwards every completion unchanged (perfect forwarding), after `Pol::on_*`
template <class Pol, class R>
struct fwd_recv
{
    PIKA_STDEXEC_RECEIVER_CONCEPT
    R r;
    Pol pol;
    template <class T>
    void set_value(T&& v) && noexcept
    {
        auto s = std::move(*this);
        s.pol.value(static_cast<V const&>(v));
        ex::set_value(std::move(s.r), std::forward<T>(v));
    }
    template <class E>
    void set_error(E&& e) && noexcept
    {
        auto s = std::move(*this);
        s.pol.error(static_cast<std::exception_ptr const&>(e));
        ex::set_error(std::move(s.r), std::forward<E>(e));
    }
    void set_stopped() && noexcept
    {
        auto s = std::move(*this);
        s.pol.stopped();
        ex::set_stopped(std::move(s.r));
    }
    constexpr ex::empty_env get_env() const& noexcept { return {}; }
};
template <class Pol, class X>
struct fwd_snd
{
    SND_TRAITS(V)
    X inner;
    Pol pol;
    template <class R>
    auto connect(R&& r) &&
    {
        return ex::connect(std::move(inner), fwd_recv<Pol, std::decay_t<R>>{std::forward<R>(r), std::move(pol)});
    }
};
// boundary to a receiver that takes its arguments BY VALUE (any_receiver, the terminal receiver): the
// copy is made here, from whatever reference arrives, BEFORE the downstream receiver runs
template <class R>
struct byval_recv
{
    PIKA_STDEXEC_RECEIVER_CONCEPT
    R r;
    template <class T>
    void set_value(T&& v) && noexcept
    {
        auto s = std::move(*this);
        V local(std::forward<T>(v));
        ex::set_value(std::move(s.r), std::move(local));
    }
    template <class E>
    void set_error(E&& e) && noexcept
    {
        auto s = std::move(*this);
        std::exception_ptr local(std::forward<E>(e));
        ex::set_error(std::move(s.r), std::move(local));
    }
    void set_stopped() && noexcept
    {
        auto s = std::move(*this);
        ex::set_stopped(std::move(s.r));
    }
    constexpr ex::empty_env get_env() const& noexcept { return {}; }
};
template <class X>
struct byval
{
    SND_TRAITS(V)
    X inner;
    template <class R>
    auto connect(R&& r) &&
    {
        return ex::connect(std::move(inner), byval_recv<std::decay_t<R>>{std::forward<R>(r)});
    }
};
struct envchk_pol
{
    senv env;
    void value(V const&) const { env.check("let-body-value"); }
    void error(std::exception_ptr const&) const { env.check("let-body-error"); }
    void stopped() const { env.check("let-body-stopped"); }
};
template <class X>
using envchk = fwd_snd<envchk_pol, X>;
struct nop_pol
{
    void value(V const&) const {}
    void error(std::exception_ptr const&) const {}
    void stopped() const {}
};
struct sprobe_pol
{
    void value(V const& v) const
    {
        late_check("probe");
        out("sig value%s", show(v).c_str());
    }
    void error(std::exception_ptr const& e) const
    {
        late_check("probe");
        xinfo x = inspect(e);
        observe_exc("probe", e);
        if (x.alive) out("sig error %lld", x.code);
        else out("sig error %s", x.null ? "null" : "dead");
    }
    void stopped() const
    {
        late_check("probe");
        out("sig stopped");
    }
};
template <class X>
using sprobe = fwd_snd<sprobe_pol, X>;

// ---------------------------------------------------------------- callables
struct f_then
{
    Node const* np;
    ctok tk;
    V operator()(V v)
    {
        tk.use("then");
        return apply(np->f, std::move(v));
    }
};
struct f_empty
{
    ctok tk;
    V operator()()
    {
        tk.use("empty");
        return V{};
    }
};
struct f_halves
{
    ctok tk;
    std::tuple<V, V> operator()(V v)
    {
        tk.use("halves");
        auto mid = v.begin() + std::ptrdiff_t(v.size() / 2);
        return std::tuple<V, V>(V(v.begin(), mid), V(mid, v.end()));
    }
};
struct f_pair
{
    ctok tk;
    std::tuple<V, V> operator()(V v)
    {
        tk.use("pair");
        V w(v.rbegin(), v.rend());
        return std::tuple<V, V>(std::move(v), std::move(w));
    }
};
struct f_cat
{
    ctok tk;
    V operator()(V a)
    {
        tk.use("cat");
        return a;
    }
    V operator()(V a, V b)
    {
        tk.use("cat");
        return cat(std::move(a), b);
    }
    V operator()(V a, V b, V c)
    {
        tk.use("cat");
        return cat(cat(std::move(a), b), c);
    }
    V operator()(V a, V b, V c, V d)
    {
        tk.use("cat");
        return cat(cat(cat(std::move(a), b), c), d);
    }
    V operator()(std::vector<V> vv)
    {
        tk.use("cat");
        V r;
        for (auto& x : vv) r = cat(std::move(r), x);
        return r;
    }
};
struct f_bulk
{
    Node const* np;
    ctok tk;
    void operator()(int i, V& v)
    {
        tk.use("bulk");
        v = apply(np->f, cat(v, V{P(i)}));
    }
};
// let_value / let_error callables: BLD::build(node, env) builds the body; its type is BLD::type
template <class BLD>
struct f_lv
{
    Node const* np;
    ctok tk;
    envchk<typename BLD::type> operator()(V& v)
    {
        tk.use("let_value");
        V r = apply(np->f, v);
        v = std::move(r);    // the body refers to the values kept by let_value's operation state
        senv e{&v, nullptr, nullptr};
        return {BLD::build(np->kids[1], e), {e}};
    }
};
template <class BLD>
struct f_le
{
    Node const* np;
    ctok tk;
    envchk<typename BLD::type> operator()(std::exception_ptr& ep)
    {
        tk.use("let_error");
        xinfo x = inspect(ep);
        if (!x.alive || !x.same) observe_exc("let-error-arg", ep);
        V r = apply(np->f, V{P(x.code)});
        senv e{nullptr, std::make_shared<V const>(std::move(r)), &ep};
        return {BLD::build(np->kids[1], e), {e}};
    }
};

// ---------------------------------------------------------------- stages (shared by both tiers)
static bool g_spre = false;    // case attribute spre=1: every split is consumed once by a sink BEFORE the
                               // real consumer connects (the predecessor has then already completed)
struct sink_state
{
    void* op = nullptr;
    void (*del)(void*) = nullptr;
};
struct sink_recv
{
    PIKA_STDEXEC_RECEIVER_CONCEPT
    sink_state* st;
    void done()
    {
        auto s = st;
        s->del(s->op);
        delete s;
    }
    template <class T>
    void set_value(T&&) && noexcept
    {
        done();
    }
    template <class E>
    void set_error(E&&) && noexcept
    {
        done();
    }
    void set_stopped() && noexcept { done(); }
    constexpr ex::empty_env get_env() const& noexcept { return {}; }
};
template <class S>
static void preconsume(S const& s)
{
    using op_t = ex::connect_result_t<S, sink_recv>;
    auto* st = new sink_state;
    auto* op = new op_t(ex::connect(S(s), sink_recv{st}));
    st->op = op;
    st->del = [](void* p) { delete static_cast<op_t*>(p); };
    ex::start(*op);
}

template <class X>
static auto mk_then(X&& x, Node const* np)
{
    return ex::then(std::move(x), f_then{np, {}});
}
template <class X>
static auto mk_dos(X&& x)
{
    return ex::drop_operation_state(std::move(x));
}
template <class X>
static auto mk_rs(X&& x)
{
    return ex::require_started(std::move(x));
}
template <class X, class Sch>
static auto mk_co(X&& x, Sch sch)
{
    return ex::continues_on(std::move(x), sch);
}
template <class X>
static auto mk_dv(X&& x)
{
    return std::move(x) | ex::drop_value() | ex::then(f_empty{});
}
template <class X>
static auto mk_un(X&& x)
{
    return std::move(x) | ex::then(f_halves{}) | ex::unpack() | ex::then(f_cat{});
}
template <class X>
static auto mk_sp(X&& x)
{
    auto s = ex::split(std::move(x));
    if (g_spre) preconsume(s);
    return s;
}
template <class X>
static auto mk_es(X&& x)
{
    return ex::ensure_started(std::move(x));
}
template <class X>
static auto mk_bulk(X&& x, Node const* np)
{
    // bulk hands the predecessor's values to the callable as they arrive; a predecessor that sends
    // `V const&` (split) cannot feed a mutating callable, so a by-value `then` normalises first
    return std::move(x) | ex::then(f_cat{}) | ex::bulk(int(np->ints[0]), f_bulk{np, {}});
}
template <class... X>
static auto mk_wa(X&&... x)
{
    return ex::when_all(std::move(x)...) | ex::then(f_cat{});
}
template <class X>
static auto mk_wv(std::vector<X>&& v)
{
    return ex::when_all_vector(std::move(v)) | ex::then(f_cat{});
}
template <std::size_t I, class X>
static auto mk_st(X&& x)
{
    auto tup = ex::split_tuple(std::move(x) | ex::then(f_pair{}));
    return std::get<I>(std::move(tup));    // the other element is dropped without ever being connected
}
template <class BLD, class X>
static auto mk_lv(X&& x, Node const* np)
{
    return ex::let_value(std::move(x), f_lv<BLD>{np, {}});
}
template <class BLD, class X>
static auto mk_le(X&& x, Node const* np)
{
    return ex::let_error(std::move(x), f_le<BLD>{np, {}});
}
template <class Sch>
static auto mk_tj(Sch sch, Node const& n)
{
    return ex::transfer_just(sch, mk(n.ints));
}
template <class Sch>
static auto mk_sd(Sch sch)
{
    return ex::schedule(sch) | ex::then(f_empty{});
}

static long g_holes = 0;
#ifdef SND_REF
// ---------------------------------------------------------------- REF tier: rr, alt
struct rr_vt
{
    void (*vrv)(void*, V&&) noexcept;
    void (*vcr)(void*, V const&) noexcept;
    void (*erv)(void*, std::exception_ptr&&) noexcept;
    void (*ecr)(void*, std::exception_ptr const&) noexcept;
    void (*stp)(void*) noexcept;
};
template <class R>
struct rr_impl
{
    static R&& self(void* o) { return std::move(*static_cast<R*>(o)); }
    static void vrv(void* o, V&& v) noexcept { ex::set_value(self(o), std::move(v)); }
    static void vcr(void* o, V const& v) noexcept { ex::set_value(self(o), v); }
    static void erv(void* o, std::exception_ptr&& e) noexcept { ex::set_error(self(o), std::move(e)); }
    static void ecr(void* o, std::exception_ptr const& e) noexcept { ex::set_error(self(o), e); }
    static void stp(void* o) noexcept { ex::set_stopped(self(o)); }
    static constexpr rr_vt vt{&vrv, &vcr, &erv, &ecr, &stp};
};
// receiver handle: erases the TYPE of the receiver it points to, passes references through
struct rr
{
    PIKA_STDEXEC_RECEIVER_CONCEPT
    void* obj;
    rr_vt const* vt;
    void set_value(V&& v) && noexcept { vt->vrv(obj, std::move(v)); }
    void set_value(V const& v) && noexcept { vt->vcr(obj, v); }
    void set_error(std::exception_ptr&& e) && noexcept { vt->erv(obj, std::move(e)); }
    void set_error(std::exception_ptr const& e) && noexcept { vt->ecr(obj, e); }
    void set_stopped() && noexcept { vt->stp(obj); }
    constexpr ex::empty_env get_env() const& noexcept { return {}; }
};

template <class R, class... As>
struct alt_op
{
    template <std::size_t I>
    using op_t = ex::connect_result_t<std::variant_alternative_t<I, std::variant<As...>>, rr>;
    template <std::size_t... I>
    static constexpr std::size_t max_size(std::index_sequence<I...>)
    {
        return std::max({sizeof(op_t<I>)...});
    }
    template <std::size_t... I>
    static constexpr std::size_t max_align(std::index_sequence<I...>)
    {
        return std::max({alignof(op_t<I>)...});
    }
    using idx_t = std::index_sequence_for<As...>;

    R r;    // the downstream receiver lives here, next to (not inside) the chosen alternative's state
    int idx;
    alignas(max_align(idx_t{})) unsigned char buf[max_size(idx_t{})];

    template <std::size_t I>
    void construct(std::variant<As...>& s)
    {
        if constexpr (I < sizeof...(As))
        {
            if (idx == int(I))
                ::new (static_cast<void*>(buf)) op_t<I>(ex::connect(std::move(*std::get_if<I>(&s)), rr{&r, &rr_impl<R>::vt}));
            else construct<I + 1>(s);
        }
    }
    template <std::size_t I>
    void destroy() noexcept
    {
        if constexpr (I < sizeof...(As))
        {
            if (idx == int(I)) reinterpret_cast<op_t<I>*>(buf)->~op_t<I>();
            else destroy<I + 1>();
        }
    }
    template <std::size_t I>
    void start_i() noexcept
    {
        if constexpr (I < sizeof...(As))
        {
            if (idx == int(I)) ex::start(*reinterpret_cast<op_t<I>*>(buf));
            else start_i<I + 1>();
        }
    }
    template <class R_>
    alt_op(std::variant<As...>&& s, R_&& r_)
      : r(std::forward<R_>(r_))
      , idx(int(s.index()))
    {
        construct<0>(s);
    }
    alt_op(alt_op&&) = delete;
    alt_op& operator=(alt_op&&) = delete;
    ~alt_op() { destroy<0>(); }
    void start() & noexcept { start_i<0>(); }
};
template <class... As>
struct alt
{
    SND_TRAITS(V)
    std::variant<As...> s;
    template <class A>
    alt(std::in_place_type_t<A> t, A&& a)
      : s(t, std::move(a))
    {
    }
    alt(alt&&) = default;
    alt& operator=(alt&&) = default;
    template <class R>
    auto connect(R&& r) &&
    {
        return alt_op<std::decay_t<R>, As...>(std::move(s), std::forward<R>(r));
    }
};

template <class T, class A>
static T into(A&& a)
{
    return T(std::in_place_type<std::decay_t<A>>, std::forward<A>(a));
}
static snd build_hole(Node const& n, senv const& env);

template <int D>
struct SB;
// T<D> is a NAMED type (a struct deriving from the alt), so that the names of the nested sender and
// operation state types stay short: with a plain alias the type name of T<D> contains that of T<D-1>
// twenty times (object file 30 MB, compile time dominated by symbol handling)
template <int D>
struct TT : SB<D>::alt_t
{
    using SB<D>::alt_t::alt_t;
};
template <>
struct SB<0>
{
    using just_t = decltype(ex::just(std::declval<V>()));
    using tji_t = decltype(mk_tj(inline_scheduler{}, std::declval<Node const&>()));
    using tjp_t = decltype(mk_tj(ex::thread_pool_scheduler{}, std::declval<Node const&>()));
    using sdi_t = decltype(mk_sd(inline_scheduler{}));
    using sdp_t = decltype(mk_sd(ex::thread_pool_scheduler{}));
    using alt_t = alt<just_t, sleaf, tji_t, tjp_t, sdi_t, sdp_t, snd>;
    using type = TT<0>;
    static type build(Node const& n, senv const& env)
    {
        auto const& o = n.op;
        if (o == "just") return into<type>(ex::just(mk(n.ints)));    // the real factory
        if (is_sleaf(n)) return into<type>(mk_sleaf(n, env));
        if (o == "tj")
        {
            if (n.s == 'p') return into<type>(mk_tj(ex::thread_pool_scheduler{}, n));
            return into<type>(mk_tj(inline_scheduler{n.s, n.scode}, n));
        }
        if (o == "sd")
        {
            if (n.s == 'p') return into<type>(mk_sd(ex::thread_pool_scheduler{}));
            return into<type>(mk_sd(inline_scheduler{n.s, n.scode}));
        }
        ++g_holes;
        return into<type>(build_hole(n, env));
    }
};
template <int D>
struct SB
{
    using B = SB<D - 1>;
    using X = typename B::type;
    static X dx();    // never defined
    static Node const* dn();
    using then_t = decltype(mk_then(dx(), dn()));
    using lv_t = decltype(mk_lv<B>(dx(), dn()));
    using le_t = decltype(mk_le<B>(dx(), dn()));
    using dv_t = decltype(mk_dv(dx()));
    using un_t = decltype(mk_un(dx()));
    using coi_t = decltype(mk_co(dx(), inline_scheduler{}));
    using cop_t = decltype(mk_co(dx(), ex::thread_pool_scheduler{}));
    using sp_t = decltype(mk_sp(dx()));
    using es_t = decltype(mk_es(dx()));
    using rs_t = decltype(mk_rs(dx()));
    using dos_t = decltype(mk_dos(dx()));
    using wa1_t = decltype(mk_wa(dx()));
    using wa2_t = decltype(mk_wa(dx(), dx()));
    using wa3_t = decltype(mk_wa(dx(), dx(), dx()));
    using wv_t = decltype(mk_wv(std::declval<std::vector<X>>()));
    // st / bulk / when_all of 4 are not alternatives (compile time): they are built as erased stages over
    // statically built children (`build_hole`)
    using alt_t = alt<then_t, lv_t, le_t, dv_t, un_t, coi_t, cop_t, sp_t, es_t, rs_t, dos_t, wa1_t, wa2_t, wa3_t, wv_t,
        X, snd>;
    using type = TT<D>;
    static type build(Node const& n, senv const& env)
    {
        auto const& o = n.op;
        auto k = [&](std::size_t i) { return B::build(n.kids[i], env); };
        if (o == "then") return into<type>(mk_then(k(0), &n));
        if (o == "lv") return into<type>(mk_lv<B>(k(0), &n));
        if (o == "le") return into<type>(mk_le<B>(k(0), &n));
        if (o == "dv") return into<type>(mk_dv(k(0)));
        if (o == "un") return into<type>(mk_un(k(0)));
        if (o == "co")
        {
            if (n.s == 'p') return into<type>(mk_co(k(0), ex::thread_pool_scheduler{}));
            return into<type>(mk_co(k(0), inline_scheduler{n.s, n.scode}));
        }
        if (o == "sp") return into<type>(mk_sp(k(0)));
        if (o == "es") return into<type>(mk_es(k(0)));
        if (o == "st" || o == "bulk" || (o == "wa" && n.kids.size() > 3))
        {
            ++g_holes;
            return into<type>(build_hole(n, env));
        }
        if (o == "rs") return into<type>(mk_rs(k(0)));
        if (o == "dos") return into<type>(mk_dos(k(0)));
        if (o == "wa")
        {
            // children are built left to right, as in the erased builder
            std::vector<X> c;
            for (std::size_t i = 0; i < n.kids.size(); ++i) c.push_back(k(i));
            switch (c.size())
            {
            case 1: return into<type>(mk_wa(std::move(c[0])));
            case 2: return into<type>(mk_wa(std::move(c[0]), std::move(c[1])));
            default: return into<type>(mk_wa(std::move(c[0]), std::move(c[1]), std::move(c[2])));
            }
        }
        if (o == "wv")
        {
            std::vector<X> c;
            for (std::size_t i = 0; i < n.kids.size(); ++i) c.push_back(k(i));
            return into<type>(mk_wv(std::move(c)));
        }
        return into<type>(B::build(n, env));    // a leaf
    }
};
#ifndef SND_STATIC_DEPTH
#define SND_STATIC_DEPTH 3
#endif
using SBTop = SB<SND_STATIC_DEPTH>;
static snd build_static_erased(Node const& n, senv const& env)
{
    return snd(byval<SBTop::type>{SBTop::build(n, env)});
}
static snd build_hole(Node const& n, senv const& env)
{
    Node const* np = &n;
    if (n.op == "st")
    {
        auto tup = ex::split_tuple(tuple_glue{build_static_erased(n.kids[0], env)});
        if (n.ints[0] == 0) return snd(std::get<0>(std::move(tup)));
        return snd(std::get<1>(std::move(tup)));
    }
    if (n.op == "bulk")
        return build_static_erased(n.kids[0], env) | ex::bulk(int(n.ints[0]), [np](int i, V& v) {
            v = apply(np->f, cat(v, V{P(i)}));
        });
    if (n.op == "wa" && n.kids.size() == 4)
    {
        std::vector<snd> k;
        for (auto const& c : n.kids) k.push_back(build_static_erased(c, env));
        return ex::when_all(std::move(k[0]), std::move(k[1]), std::move(k[2]), std::move(k[3])) |
            ex::then([](V a, V b, V c, V d) { return cat(cat(cat(std::move(a), b), c), d); });
    }
    return build_static_erased(n, env);
}
#endif    // SND_REF

// consumer=recv on a statically typed sender
template <class S>
static void run_recv_static(S&& s)
{
    using op_t = ex::connect_result_t<sprobe<std::decay_t<S>>, byval_recv<term_recv>>;
    static op_t* op = nullptr;
    op = new op_t(ex::connect(sprobe<std::decay_t<S>>{std::move(s), {}}, byval_recv<term_recv>{term_recv{}}));
    g_release_static = [] {
        delete op;
        op = nullptr;
    };
    ex::start(*op);
}
// never completed: releasing an unfinished operation is legal
static void drop_unfinished_static()
{
    if (g_release_static)
    {
        auto f = g_release_static;
        g_release_static = nullptr;
        f();
    }
}
#ifdef SND_PURE
// ---------------------------------------------------------------- PURE catalogue
// shape tags; PB<Shape>::match(node) / build(node, env)
struct sL {};                                   // any of just / err / stop / arg as `sleaf`
struct sJ {};                                   // just(...) as ex::just
template <class S> struct sThen {};
template <class S> struct sLv {};               // body: leaf
template <class S> struct sLe {};               // body: leaf
template <class S> struct sCo {};               // inline scheduler (v | e | s)
template <class S> struct sUn {};
template <class S> struct sDv {};
template <class S> struct sRs {};
template <class S> struct sDos {};
template <class S> struct sSp {};
template <class S> struct sEs {};
template <class S> struct sWv {};               // any number (>= 1) of children of shape S
template <class... S> struct sWa {};

template <class Shape>
struct PB;
template <class Shape>
using pb_type = decltype(PB<Shape>::build(std::declval<Node const&>(), std::declval<senv const&>()));
template <>
struct PB<sL>
{
    using type = sleaf;
    static bool match(Node const& n) { return is_sleaf(n); }
    static sleaf build(Node const& n, senv const& env) { return mk_sleaf(n, env); }
};
template <>
struct PB<sJ>
{
    using type = decltype(ex::just(std::declval<V>()));
    static bool match(Node const& n) { return n.op == "just"; }
    static type build(Node const& n, senv const&) { return ex::just(mk(n.ints)); }
};
#define PB_UNARY(TAG, OPNAME, EXTRA, EXPR)                                                         \
    template <class S>                                                                             \
    struct PB<TAG<S>>                                                                              \
    {                                                                                              \
        static bool match(Node const& n) { return n.op == OPNAME && (EXTRA) && PB<S>::match(n.kids[0]); } \
        static auto build(Node const& n, senv const& env)                                          \
        {                                                                                          \
            auto x = PB<S>::build(n.kids[0], env);                                                 \
            return EXPR;                                                                           \
        }                                                                                          \
    };
PB_UNARY(sThen, "then", true, mk_then(std::move(x), &n))
PB_UNARY(sLv, "lv", PB<sL>::match(n.kids[1]), mk_lv<PB<sL>>(std::move(x), &n))
PB_UNARY(sLe, "le", PB<sL>::match(n.kids[1]), mk_le<PB<sL>>(std::move(x), &n))
// let_error directly over split: pinned pika does not compile this (split declares the error types
// exception_ptr AND exception_ptr const&, let_error decays both into one variant with a duplicate
// alternative; repaired on hooks-C03s by a `fix:` commit).  So that the harness builds on either tree
// a transparent forwarder that declares the single error type exception_ptr sits between them; it
// forwards split's `exception_ptr const&` as the same reference.
template <class S>
struct PB<sLe<sSp<S>>>
{
    static bool match(Node const& n)
    {
        return n.op == "le" && PB<sL>::match(n.kids[1]) && PB<sSp<S>>::match(n.kids[0]);
    }
    static auto build(Node const& n, senv const& env)
    {
        auto x = PB<sSp<S>>::build(n.kids[0], env);
        return mk_le<PB<sL>>(fwd_snd<nop_pol, decltype(x)>{std::move(x), {}}, &n);
    }
};
PB_UNARY(sCo, "co", n.s != 'p', mk_co(std::move(x), inline_scheduler{n.s, n.scode}))
PB_UNARY(sUn, "un", true, mk_un(std::move(x)))
PB_UNARY(sDv, "dv", true, mk_dv(std::move(x)))
PB_UNARY(sRs, "rs", true, mk_rs(std::move(x)))
PB_UNARY(sDos, "dos", true, mk_dos(std::move(x)))
PB_UNARY(sSp, "sp", true, mk_sp(std::move(x)))
PB_UNARY(sEs, "es", true, mk_es(std::move(x)))
template <class S>
struct PB<sWv<S>>
{
    static bool match(Node const& n)
    {
        if (n.op != "wv" || n.kids.empty()) return false;
        for (auto const& k : n.kids)
            if (!PB<S>::match(k)) return false;
        return true;
    }
    static auto build(Node const& n, senv const& env)
    {
        // non-stdexec build: every pika adaptor declares sends_done = false although it forwards
        // set_stopped, and when_all_vector then reaches PIKA_UNREACHABLE when such a child is stopped
        // (`wv(dos(stop()))` aborts; finding 2 of notes/C03.md, an assumption of the E0 tie).  As in the erased
        // builder a transparent forwarder with sends_done = true sits below when_all_vector.
        using child_t = fwd_snd<nop_pol, pb_type<S>>;
        std::vector<child_t> c;
        for (auto const& k : n.kids) c.push_back(child_t{PB<S>::build(k, env), {}});
        return mk_wv(std::move(c));
    }
};
template <class... S>
struct PB<sWa<S...>>
{
    template <std::size_t... I>
    static bool match_i(Node const& n, std::index_sequence<I...>)
    {
        return (PB<S>::match(n.kids[I]) && ...);
    }
    static bool match(Node const& n)
    {
        return n.op == "wa" && n.kids.size() == sizeof...(S) && match_i(n, std::index_sequence_for<S...>{});
    }
    template <std::size_t... I>
    static auto build_i(Node const& n, senv const& env, std::index_sequence<I...>)
    {
        // braced initialisation: children are built left to right
        std::tuple<pb_type<S>...> c{PB<S>::build(n.kids[I], env)...};
        return mk_wa(std::move(std::get<I>(c))...);
    }
    static auto build(Node const& n, senv const& env) { return build_i(n, env, std::index_sequence_for<S...>{}); }
};

template <class... T>
struct tl {};
template <class A, class B>
struct tl_cat;
template <class... A, class... B>
struct tl_cat<tl<A...>, tl<B...>>
{
    using type = tl<A..., B...>;
};
template <class... L>
struct tl_join;
template <>
struct tl_join<>
{
    using type = tl<>;
};
template <class L0, class... L>
struct tl_join<L0, L...>
{
    using type = typename tl_cat<L0, typename tl_join<L...>::type>::type;
};
// every unary adaptor over each shape of a list
template <class L>
struct over_all;
template <class... S>
struct over_all<tl<S...>>
{
    using type = tl<sThen<S>..., sLv<S>..., sLe<S>..., sCo<S>..., sUn<S>..., sDv<S>..., sRs<S>..., sDos<S>...>;
};
template <template <class> class U, class L>
struct map_tl;
template <template <class> class U, class... S>
struct map_tl<U, tl<S...>>
{
    using type = tl<U<S>...>;
};

// the "storing" predecessors over leaves: when_all of 1-3 children, when_all_vector, split, ensure_started
using storing = tl<sWa<sL>, sWa<sL, sL>, sWa<sL, sL, sL>, sWv<sL>, sSp<sL>, sEs<sL>>;
using storing4 = tl<sWa<sL, sL>, sWv<sL>, sSp<sL>, sEs<sL>>;
using storing3 = tl<sWa<sL, sL>, sSp<sL>, sEs<sL>>;
using storing2s = tl<sWa<sL, sL>, sSp<sL>>;
using unary_over_leaf = typename over_all<tl<sL>>::type;                 //  8: U(L)
using unary_over_just = tl<sThen<sJ>, sDos<sJ>, sLv<sJ>, sCo<sJ>>;       //  4: U(just)
using unary_over_storing = typename tl_join<typename over_all<storing4>::type,    // 32: U(S(L..)), S = wa2 wv sp es
    tl<sDos<sWa<sL>>, sDos<sWa<sL, sL, sL>>, sThen<sWa<sL, sL, sL>>, sLe<sWa<sL, sL, sL>>>>::type;
// two unary adaptors over each other: outer then/lv/le/co/rs/dos, inner all eight
template <class L>
struct over_six;
template <class... S>
struct over_six<tl<S...>>
{
    using type = tl<sThen<S>..., sLv<S>..., sLe<S>..., sCo<S>..., sRs<S>..., sDos<S>...>;
};
using unary2 = typename over_six<unary_over_leaf>::type;                 // 48: U(U(L))
// two levels over a storing predecessor: the resetting / storing adaptors outermost
using two_over_storing = typename tl_join<typename map_tl<sDos, typename over_all<storing2s>::type>::type,    // 16: dos(U(S))
    typename map_tl<sLe, typename map_tl<sDos, storing3>::type>::type,                             //  3: le(dos(S))
    typename map_tl<sCo, typename map_tl<sDos, storing3>::type>::type,                             //  3: co(dos(S))
    typename map_tl<sThen, typename map_tl<sDos, storing3>::type>::type>::type;                    //  3: then(dos(S))
// storing predecessors over unary adaptors / over each other
using storing2 = tl<sWa<sThen<sL>, sL>, sWa<sL, sDos<sL>>, sWa<sCo<sL>, sLe<sL>>, sWa<sSp<sL>, sEs<sL>>,
    sWa<sWa<sL, sL>, sL>, sWv<sThen<sL>>, sWv<sDos<sL>>, sSp<sWa<sL, sL>>, sEs<sWa<sL, sL>>, sSp<sSp<sL>>,
    sSp<sThen<sL>>, sEs<sThen<sL>>, sSp<sDos<sL>>, sEs<sDos<sL>>, sSp<sLe<sL>>, sEs<sCo<sL>>>;
#ifdef SND_PURE_SMALL
// the ASan build of the pure tier (compile time): without U(U(L)) and the mixed storing shapes; the check
// re-runs what this binary does not recognise on the REF tier's ASan build
using pure_catalogue = typename tl_join<tl<sL, sJ>, storing, unary_over_leaf, unary_over_just, unary_over_storing,
    two_over_storing>::type;
#else
using pure_catalogue = typename tl_join<tl<sL, sJ>, storing, unary_over_leaf, unary_over_just, unary_over_storing,
    unary2, two_over_storing, storing2>::type;
#endif

template <class L>
struct tl_size;
template <class... S>
struct tl_size<tl<S...>>
{
    static constexpr std::size_t value = sizeof...(S);
};

template <class Shape>
static bool try_pure(Node const& n, senv const& env)
{
    if (!PB<Shape>::match(n)) return false;
    run_recv_static(PB<Shape>::build(n, env));
    return true;
}
template <class... S>
static int run_pure(Node const& n, senv const& env, tl<S...>)
{
    int i = 0, hit = -1;
    ((hit < 0 && (try_pure<S>(n, env) ? (hit = i, true) : (++i, false))) || ...);
    return hit;
}
#endif    // SND_PURE
