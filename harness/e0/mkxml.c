/* mkxml.c - write an hwloc XML description of an ASYMMETRIC machine (C15 tie).
 *
 * usage: mkxml <packs> <cores> <pus> <keep> <out.xml>
 *   keep: string of 0/1, one character per PU of the symmetric machine pack:P core:C pu:U in
 *         logical order; PUs marked 0 are removed (with every core / package that becomes empty).
 * The kept PUs get OS indices 0..k-1 in logical order (so OS index = logical index in the
 * resulting machine), the removed ones k..N-1; the symmetric synthetic topology is restricted to
 * the kept PUs with hwloc_topology_restrict and exported.  pika then loads it through
 * HWLOC_XMLFILE like any machine description.
 */
#include <hwloc.h>
#include <stdio.h>
#include <stdlib.h>
#include <string.h>

int main(int argc, char** argv)
{
    if (argc < 6) { fprintf(stderr, "usage: mkxml P C U keep out.xml\n"); return 2; }
    int P = atoi(argv[1]), C = atoi(argv[2]), U = atoi(argv[3]);
    const char* keep = argv[4];
    int N = P * C * U;
    if ((int) strlen(keep) != N) { fprintf(stderr, "keep must have %d characters\n", N); return 2; }
    int k = 0;
    for (int i = 0; i < N; ++i) if (keep[i] == '1') ++k;
    if (k == 0) { fprintf(stderr, "empty machine\n"); return 2; }
    char* desc = malloc(64 + 12 * (size_t) N);
    int off = sprintf(desc, "pack:%d core:%d pu:%d(indexes=", P, C, U);
    int nk = 0, nr = k;
    for (int i = 0; i < N; ++i)
        off += sprintf(desc + off, "%s%d", i ? "," : "", keep[i] == '1' ? nk++ : nr++);
    sprintf(desc + off, ")");
    hwloc_topology_t t;
    hwloc_topology_init(&t);
    if (hwloc_topology_set_synthetic(t, desc)) { fprintf(stderr, "bad synthetic %s\n", desc); return 3; }
    if (hwloc_topology_load(t)) { fprintf(stderr, "load failed\n"); return 3; }
    hwloc_bitmap_t set = hwloc_bitmap_alloc();
    hwloc_bitmap_set_range(set, 0, k - 1);
    if (hwloc_topology_restrict(t, set, 0)) { fprintf(stderr, "restrict failed\n"); return 3; }
    if (hwloc_topology_export_xml(t, argv[5], 0)) { fprintf(stderr, "export failed\n"); return 3; }
    hwloc_topology_destroy(t);
    return 0;
}
