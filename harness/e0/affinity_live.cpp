// e0/affinity_live.cpp - live part of the C15 tie: start the real pika runtime on the machine
// the check runs on and report, for every worker thread, its pool, the PU number and mask the
// resource partitioner holds for it, and the affinity the kernel really applies to the worker's
// OS thread (pthread_getaffinity_np).  Exercises command_line_handling (threads=cores/all,
// --pika:process-mask, --pika:ignore-process-mask, --pika:cores), affinity_data::init, the
// resource partitioner (create_thread_pool / add_resource / configure_pools) and the binding
// done in scheduled_thread_pool::thread_func.
//
// Case file:  case <id> kind=live bind=<compact|scatter|balanced|numa-balanced|none>
//                  threads=<n|cores|all> use=<0|1> mask=<all|i.j.k> cores=<0|k> pools=<-|a.b/c>
//             endcase
//   pools: extra pool j (1, 2, ...) receives the PUs with the given ordinals in the
//   partitioner's PU list (sockets -> cores -> pus order); the rest goes to the default pool.
// Output per case:
//   case <header>
//   topo nc=.. npus=.. ns=.. pus=.. socks=.. pm=<effective logical mask> hwc=..
//   live ok threads=<n> pools=<k> os0=<affinity of the process before start>
//   w <global worker> pool=<pool index> pu=<get_pu_num> mask=<bits of get_pu_mask> os=<kernel affinity bits>
//   ... | live error <kind>
//   end ok
//   endcase
#include <csignal>
#include <ctime>
#include <signal.h>
#include <time.h>
#include <unistd.h>
#include <cstring>
#include <pika/init.hpp>
#include <pika/modules/resource_partitioner.hpp>
#include <pika/runtime/thread_pool_helpers.hpp>
#include <pika/topology/cpu_mask.hpp>
#include <pika/topology/topology.hpp>

#include <pthread.h>
#include <sched.h>

#include <cstdio>
#include <cstdlib>
#include <cstring>
#include <fstream>
#include <map>
#include <sstream>
#include <string>
#include <sys/wait.h>
#include <unistd.h>
#include <vector>

namespace pt = pika::threads::detail;

struct kase
{
    std::string header;
    std::map<std::string, std::string> kv;
    std::string gets(std::string const& k, std::string const& d = "") const
    {
        auto it = kv.find(k);
        return it == kv.end() ? d : it->second;
    }
};

static std::vector<kase> read_cases(std::istream& in)
{
    std::vector<kase> out;
    std::string line;
    while (std::getline(in, line))
    {
        if (line.rfind("case ", 0) == 0)
        {
            kase c;
            c.header = line;
            std::istringstream ss(line.substr(5));
            std::string tok;
            ss >> tok;
            while (ss >> tok)
            {
                auto p = tok.find('=');
                if (p != std::string::npos) c.kv[tok.substr(0, p)] = tok.substr(p + 1);
            }
            out.push_back(c);
        }
    }
    return out;
}

static std::vector<std::size_t> dots(std::string const& s)
{
    std::vector<std::size_t> v;
    std::istringstream ss(s);
    std::string tok;
    while (std::getline(ss, tok, '.'))
        if (!tok.empty()) v.push_back(std::strtoul(tok.c_str(), nullptr, 10));
    return v;
}

static std::string bits(pt::mask_cref_type m)
{
    std::string s;
    for (std::size_t i = 0; i < pt::mask_size(m); ++i)
        if (pt::test(m, i)) s += (s.empty() ? "" : ".") + std::to_string(i);
    return s;
}

static std::string cpuset_bits(cpu_set_t const& cs)
{
    std::string s;
    for (int i = 0; i < CPU_SETSIZE; ++i)
        if (CPU_ISSET(i, &cs)) s += (s.empty() ? "" : ".") + std::to_string(i);
    return s;
}

static std::string err_kind(std::string const& what)
{
    if (what.find("is larger than number of") != std::string::npos) return "tooMany";
    if (what.find("does not match the number of threads to bind") != std::string::npos)
        return "notAllBound";
    if (what.find("can be assigned only") != std::string::npos) return "puTaken";
    if (what.find("provided on the command-line") != std::string::npos) return "poolThreads";
    if (what.find("has no threads assigned") != std::string::npos) return "emptyDefault";
    if (what.find("Pools empty of resources") != std::string::npos) return "emptyPool";
    std::string w = what.substr(0, 70);
    for (auto& ch : w)
        if (ch == ' ' || ch == '\n') ch = '_';
    return "other:" + w;
}

static std::string os0;

static int pika_main()
{
    auto& rp = pika::resource::get_partitioner();
    std::size_t np = rp.get_num_pools();
    std::printf("live ok threads=%zu pools=%zu os0=%s\n", rp.get_num_threads(), np, os0.c_str());
    for (std::size_t i = 0; i < np; ++i)
    {
        auto& pool = pika::resource::get_thread_pool(i);
        std::size_t off = pool.get_thread_offset();
        for (std::size_t j = 0; j < pool.get_os_thread_count(); ++j)
        {
            std::size_t g = off + j;
            cpu_set_t cs;
            CPU_ZERO(&cs);
            pthread_getaffinity_np(pool.get_os_thread_handle(g).native_handle(), sizeof(cs), &cs);
            std::printf("w %zu pool=%zu pu=%zu mask=%s os=%s\n", g, i, rp.get_pu_num(g),
                bits(rp.get_pu_mask(g)).c_str(), cpuset_bits(cs).c_str());
        }
    }
    std::fflush(stdout);
    pika::finalize();
    return 0;
}

// A start-up that never returns (a decoder loop that does not terminate) burns CPU on THIS thread; pika_main runs on a
// worker while this thread sleeps, so a limit on this thread's own CPU time (not wall-clock, not process-wide) can only
// fire when the start-up itself spins.
static void on_startup_cpu_limit(int)
{
    char const* msg = "live diverge\nend ok\nendcase\n";
    (void) !write(1, msg, std::strlen(msg));
    _exit(0);
}
static void arm_startup_cpu_limit(int seconds)
{
    std::signal(SIGUSR2, on_startup_cpu_limit);
    struct sigevent sev;
    std::memset(&sev, 0, sizeof(sev));
    sev.sigev_notify = SIGEV_SIGNAL;
    sev.sigev_signo = SIGUSR2;
    timer_t tid;
    if (timer_create(CLOCK_THREAD_CPUTIME_ID, &sev, &tid) != 0) return;
    struct itimerspec its;
    std::memset(&its, 0, sizeof(its));
    its.it_value.tv_sec = seconds;
    timer_settime(tid, 0, &its, nullptr);
}

static void run_case(kase const& c)
{
    std::printf("%s\n", c.header.c_str());
    {
        pt::topology& t = pt::get_topology();
        std::string pus, socks;
        std::size_t nc = t.get_number_of_cores();
        for (std::size_t i = 0; i < nc; ++i)
            pus += (i ? "." : "") + std::to_string(t.get_number_of_core_pus(i));
        std::size_t ns = t.get_number_of_sockets();
        for (std::size_t i = 0; i < ns; ++i)
            socks += (i ? "." : "") + std::to_string(t.get_number_of_socket_cores(i));
        std::printf("topo nc=%zu npus=%zu ns=%zu pus=%s socks=%s pm=%s hwc=%u\n", nc,
            t.get_number_of_pus(), ns, pus.c_str(), socks.c_str(),
            bits(t.get_cpubind_mask_main_thread()).c_str(), pt::hardware_concurrency());
    }
    cpu_set_t cs;
    CPU_ZERO(&cs);
    sched_getaffinity(0, sizeof(cs), &cs);
    os0 = cpuset_bits(cs);
    std::fflush(stdout);

    std::vector<std::string> args = {"e0_affinity_live", "--pika:bind=" + c.gets("bind", "balanced"),
        "--pika:threads=" + c.gets("threads", "all")};
    if (c.gets("use", "1") == "0") args.push_back("--pika:ignore-process-mask");
    if (c.gets("mask", "all") != "all")
    {
        unsigned long long m = 0;
        for (auto i : dots(c.gets("mask"))) m |= 1ull << i;
        char buf[64];
        std::snprintf(buf, sizeof(buf), "--pika:process-mask=0x%llx", m);
        args.push_back(buf);
    }
    if (c.gets("cores", "0") != "0") args.push_back("--pika:cores=" + c.gets("cores"));
    std::vector<char*> argv;
    for (auto& a : args) argv.push_back(a.data());
    argv.push_back(nullptr);

    std::vector<std::vector<std::size_t>> pools;
    if (c.gets("pools", "-") != "-")
    {
        std::istringstream ss(c.gets("pools"));
        std::string tok;
        while (std::getline(ss, tok, '/')) pools.push_back(dots(tok));
    }

    pika::init_params params;
    params.rp_callback = [&](pika::resource::partitioner& rp,
                             pika::program_options::variables_map const&) {
        std::vector<pika::resource::pu const*> all;
        for (auto const& s : rp.sockets())
            for (auto const& co : s.cores())
                for (auto const& p : co.pus()) all.push_back(&p);
        for (std::size_t j = 0; j < pools.size(); ++j)
        {
            std::string name = "pool" + std::to_string(j + 1);
            rp.create_thread_pool(name);
            for (auto ord : pools[j])
                if (ord < all.size()) rp.add_resource(*all[ord], name);
        }
    };
    try
    {
        std::fflush(stdout);
        arm_startup_cpu_limit(5);
        pika::init(pika_main, static_cast<int>(args.size()), argv.data(), params);
    }
    catch (std::exception const& e)
    {
        std::printf("live error %s\n", err_kind(e.what()).c_str());
    }
    std::printf("end ok\nendcase\n");
    std::fflush(stdout);
}

int main(int argc, char** argv)
{
    if (argc < 2) return 2;
    std::ifstream in(argv[1]);
    auto cases = read_cases(in);
    for (auto const& c : cases)
    {
        std::fflush(stdout);
        pid_t pid = fork();
        if (pid == 0)
        {
            run_case(c);
            _exit(0);
        }
        int st = 0;
        waitpid(pid, &st, 0);
        if (!(WIFEXITED(st) && WEXITSTATUS(st) == 0))
            std::printf("end crash %d\nendcase\n", WIFSIGNALED(st) ? WTERMSIG(st) : WEXITSTATUS(st));
    }
    return 0;
}
