// e0/affinity_cmd.cpp - E0 (differential) harness for C15, command-line layer (follow-up C15t).
//
// One process per machine topology (HWLOC_SYNTHETIC / HWLOC_XMLFILE as for e0/affinity.cpp).
// No runtime is started; the real start-up path of pika::init is called up to the point where
// the masks are stored, exactly as libs/pika/init_runtime/src/init_runtime.cpp:run_or_start does:
//   pika::detail::command_line_handling::call     --pika:threads=<n|cores|all> --pika:cores=<k|all>
//                                                 --pika:ignore-process-mask --pika:process-mask=0x..
//                                                 --pika:bind=<mode>   (handle_num_threads,
//                                                 handle_num_cores, get_number_of_default_*)
//   pika::detail::affinity_data::init             with the configuration entries call() produced
// so the clause "a request that cannot be satisfied is rejected with an error instead of silently
// oversubscribing" is observed for every combination of these options on multi-socket / SMT /
// asymmetric machines (the live tier only sees the machine the check runs on).
//
// Case file:   case <id> kind=cmd bind=<compact|scatter|balanced|numa-balanced|none>
//                   threads=<n|cores|all|-> cores=<k|all|-> use=<0|1> mask=<all|i.j.k> topo=...
//              endcase            ("-": option not given)
// Output per case:
//   case <header as given>
//   topo nc=.. npus=.. ns=.. pus=.. socks=.. pm=<effective logical mask> hwc=..
//   cmd ok threads=<pika.os_threads> cores=<pika.cores> use=<0|1> bind=<pika.bind>  | cmd error <kind>
//   init ok <thread>:<mask bits>:<pu number> ... | init unbound ... | init error <kind> | init diverge
//   end ok
//   endcase
// A start-up that does not return is detected by a CPU-time (not wall-clock) limit of the
// per-case child process (ITIMER_VIRTUAL, 0.3 s of user time for a computation of milliseconds).
#include <pika/affinity/affinity_data.hpp>
#include <pika/command_line_handling/command_line_handling.hpp>
#include <pika/modules/errors.hpp>
#include <pika/modules/program_options.hpp>
#include <pika/modules/runtime_configuration.hpp>
#include <pika/topology/cpu_mask.hpp>
#include <pika/topology/topology.hpp>
#include <pika/util/get_entry_as.hpp>

#include <csignal>
#include <cstdio>
#include <cstdlib>
#include <cstring>
#include <fstream>
#include <map>
#include <sstream>
#include <string>
#include <sys/time.h>
#include <sys/wait.h>
#include <unistd.h>
#include <vector>

namespace pt = pika::threads::detail;

struct kase
{
    std::string header;
    std::map<std::string, std::string> kv;
    std::string gets(std::string const& k, std::string const& d = "") const
    {
        auto it = kv.find(k);
        return it == kv.end() ? d : it->second;
    }
};

static std::vector<kase> read_cases(std::istream& in)
{
    std::vector<kase> out;
    std::string line;
    while (std::getline(in, line))
    {
        if (line.rfind("case ", 0) == 0)
        {
            kase c;
            c.header = line;
            std::istringstream ss(line.substr(5));
            std::string tok;
            ss >> tok;
            while (ss >> tok)
            {
                auto p = tok.find('=');
                if (p != std::string::npos) c.kv[tok.substr(0, p)] = tok.substr(p + 1);
            }
            out.push_back(c);
        }
    }
    return out;
}

static std::string bits(pt::mask_cref_type m)
{
    std::string s;
    for (std::size_t i = 0; i < pt::mask_size(m); ++i)
        if (pt::test(m, i)) s += (s.empty() ? "" : ".") + std::to_string(i);
    return s;
}

static std::string err_kind(std::string const& what)
{
    if (what.find("is larger than number of") != std::string::npos) return "tooMany";
    if (what.find("has already been set") != std::string::npos) return "alreadySet";
    if (what.find("does not match the number of threads to bind") != std::string::npos)
        return "notAllBound";
    if (what.find("must be greater than 0") != std::string::npos) return "zeroThreads";
    std::string w = what.substr(0, 60);
    for (auto& ch : w)
        if (ch == ' ' || ch == '\n') ch = '_';
    return "other:" + w;
}

// hexadecimal string with the given bits set (any number of PUs)
static std::string hex_mask(std::string const& spec, std::size_t npus)
{
    std::vector<bool> b(npus + 4, false);
    if (spec == "all")
        for (std::size_t i = 0; i < npus; ++i) b[i] = true;
    else
    {
        std::istringstream ss(spec);
        std::string tok;
        while (std::getline(ss, tok, '.'))
            if (!tok.empty())
            {
                std::size_t i = std::strtoul(tok.c_str(), nullptr, 10);
                if (i < b.size()) b[i] = true;
            }
    }
    std::size_t digits = (npus + 3) / 4;
    if (digits == 0) digits = 1;
    std::string s = "0x";
    for (std::size_t d = digits; d-- > 0;)
    {
        int v = 0;
        for (int k = 0; k < 4; ++k)
            if (d * 4 + k < b.size() && b[d * 4 + k]) v |= 1 << k;
        s += "0123456789abcdef"[v];
    }
    return s;
}

static volatile int phase = 0;

static void on_cpu_limit(int)
{
    char const* msg = phase == 0 ? "cmd diverge\nend ok\nendcase\n" : "init diverge\nend ok\nendcase\n";
    (void) !write(1, msg, std::strlen(msg));
    _exit(0);
}

static void arm(long ms)
{
    itimerval it{};
    it.it_value.tv_sec = ms / 1000;
    it.it_value.tv_usec = (ms % 1000) * 1000;
    setitimer(ITIMER_VIRTUAL, &it, nullptr);
}

static std::string dotted(std::vector<std::size_t> const& v)
{
    std::string s;
    for (std::size_t i = 0; i < v.size(); ++i) s += (i ? "." : "") + std::to_string(v[i]);
    return s;
}

static void run_case(kase const& c)
{
    pt::topology& t = pt::get_topology();
    std::size_t const npus = t.get_number_of_pus();
    std::printf("%s\n", c.header.c_str());

    std::vector<std::string> args = {"e0_affinity_cmd", "--pika:bind=" + c.gets("bind", "balanced")};
    if (c.gets("threads", "-") != "-") args.push_back("--pika:threads=" + c.gets("threads"));
    if (c.gets("cores", "-") != "-") args.push_back("--pika:cores=" + c.gets("cores"));
    if (c.gets("use", "1") == "0") args.push_back("--pika:ignore-process-mask");
    // the process mask is always given explicitly: under a synthetic topology the binding of
    // the calling process means nothing
    args.push_back("--pika:process-mask=" + hex_mask(c.gets("mask", "all"), npus));
    std::vector<char const*> argv;
    for (auto& a : args) argv.push_back(a.c_str());
    argv.push_back(nullptr);

    phase = 0;
    std::fflush(stdout);
    arm(300);
    pika::detail::command_line_handling cmdline{pika::util::runtime_configuration(argv[0]), {},
        [](pika::program_options::variables_map&) { return 0; }};
    try
    {
        pika::program_options::options_description desc("e0_affinity_cmd");
        pika::detail::verif_command_line_call(cmdline, desc, static_cast<int>(args.size()), argv.data());
    }
    catch (std::exception const& e)
    {
        arm(0);
        std::printf("cmd error %s\nend ok\nendcase\n", err_kind(e.what()).c_str());
        std::fflush(stdout);
        return;
    }
    arm(0);
    {
        std::vector<std::size_t> pus, socks;
        std::size_t nc = t.get_number_of_cores();
        for (std::size_t i = 0; i < nc; ++i) pus.push_back(t.get_number_of_core_pus(i));
        std::size_t ns = t.get_number_of_sockets();
        for (std::size_t i = 0; i < ns; ++i) socks.push_back(t.get_number_of_socket_cores(i));
        std::printf("topo nc=%zu npus=%zu ns=%zu pus=%s socks=%s pm=%s hwc=%u\n", nc, npus, ns,
            dotted(pus).c_str(), dotted(socks).c_str(),
            bits(t.get_cpubind_mask_main_thread()).c_str(), pt::hardware_concurrency());
    }
    std::size_t const n = pika::detail::get_entry_as<std::size_t>(cmdline.rtcfg_, "pika.os_threads", 0);
    std::size_t const cores = pika::detail::get_entry_as<std::size_t>(cmdline.rtcfg_, "pika.cores", 0);
    bool const use = !pika::detail::get_entry_as<bool>(cmdline.rtcfg_, "pika.ignore_process_mask", false);
    std::string const bind = cmdline.rtcfg_.get_entry("pika.bind", "");
    std::printf("cmd ok threads=%zu cores=%zu use=%d bind=%s\n", n, cores, use ? 1 : 0, bind.c_str());

    phase = 1;
    std::fflush(stdout);
    std::string line;
    arm(300);
    try
    {
        // as in run_or_start
        pika::detail::affinity_data ad;
        ad.init(n, cores,
            pika::detail::get_entry_as<std::size_t>(cmdline.rtcfg_, "pika.pu_offset", 0),
            pika::detail::get_entry_as<std::size_t>(cmdline.rtcfg_, "pika.pu_step", 0), 0,
            cmdline.rtcfg_.get_entry("pika.affinity", ""), bind, use);
        arm(0);
        line = bind == "none" ? "init unbound" : "init ok";
        for (std::size_t i = 0; i < n; ++i)
            line += " " + std::to_string(i) + ":" + bits(ad.get_pu_mask(t, i)) + ":" +
                std::to_string(ad.get_pu_num(i));
    }
    catch (std::exception const& e)
    {
        arm(0);
        line = "init error " + err_kind(e.what());
    }
    std::printf("%s\nend ok\nendcase\n", line.c_str());
    std::fflush(stdout);
}

int main(int argc, char** argv)
{
    if (argc < 2)
    {
        std::fprintf(stderr, "usage: e0_affinity_cmd <casefile>\n");
        return 2;
    }
    std::ifstream in(argv[1]);
    auto cases = read_cases(in);
    // configuration defaults: os_threads = ${PIKA_THREADS:cores}, cores = ${PIKA_CORES:all}
    unsetenv("PIKA_THREADS");
    unsetenv("PIKA_CORES");
    unsetenv("PIKA_PROCESS_MASK");
    unsetenv("PIKA_IGNORE_PROCESS_MASK");
    unsetenv("PIKA_BIND");
    for (auto const& c : cases)
    {
        std::fflush(stdout);
        pid_t pid = fork();
        if (pid == 0)
        {
            std::signal(SIGVTALRM, on_cpu_limit);
            run_case(c);
            _exit(0);
        }
        int st = 0;
        waitpid(pid, &st, 0);
        if (!(WIFEXITED(st) && WEXITSTATUS(st) == 0))
            std::printf("end crash %d\nendcase\n", WIFSIGNALED(st) ? WTERMSIG(st) : WEXITSTATUS(st));
    }
    return 0;
}
