// C16 probe: started as a real process with a generated argv / environment.  Reports, from
// inside the running pika runtime, what the runtime actually uses: worker count, scheduling
// policy, per-worker PU masks, stack size of a default (small-stack) task, configuration
// entries, the argv seen by the entry function - or the start-up error.
//
// Output: lines starting with "R " on stdout (strings hex-encoded), terminated by "R end".
#include <pika/execution.hpp>
#include <pika/init.hpp>
#include <pika/runtime/config_entry.hpp>
#include <pika/runtime/runtime.hpp>
#include <pika/resource_partitioner/detail/partitioner.hpp>
#include <pika/thread.hpp>
#include <pika/threading_base/thread_helpers.hpp>
#include <pika/topology/topology.hpp>

#include <pika/program_options.hpp>

#include <chrono>
#include <cstdarg>
#include <cstdio>
#include <cstdlib>
#include <exception>
#include <string>
#include <thread>
#include <typeinfo>
#include <vector>

static std::string hex(std::string const& s)
{
    static char const* d = "0123456789abcdef";
    std::string r;
    for (unsigned char c : s)
    {
        r += d[c >> 4];
        r += d[c & 15];
    }
    return r.empty() ? std::string("-") : r;
}

static std::vector<std::string> cfg_keys;
static bool entered = false;

// C16f: entry-point variants.  VERIF_ENTRY = argv (default: pika::init with f(int, char**), the
// init_helper path), vm (pika::init with f(variables_map&): positional arguments are read from
// vm["pika:positional"]), null (pika::start(nullptr, ...): no entry function, the application keeps
// using its own argv; the report is produced by a task submitted from main).
static std::string out_buf;
static bool buffered = false;
static void outf(char const* fmt, ...)
{
    char b[8192];
    va_list ap;
    va_start(ap, fmt);
    std::vsnprintf(b, sizeof b, fmt, ap);
    va_end(ap);
    if (buffered) out_buf += b;
    else std::fputs(b, stdout);
}

static std::string mask_str(pika::threads::detail::mask_cref_type m)
{
    std::string r;
    std::size_t n = pika::threads::detail::mask_size(m);
    for (std::size_t i = 0; i < n; ++i)
        if (pika::threads::detail::test(m, i)) r += (r.empty() ? "" : ",") + std::to_string(i);
    return r.empty() ? std::string("-") : r;
}

static void report_runtime();

static int entry(int argc, char** argv)
{
    entered = true;
    std::printf("R entry %d\n", argc);
    for (int i = 0; i < argc; ++i) std::printf("R argv %d %s\n", i, hex(argv[i]).c_str());
    report_runtime();
    std::fflush(stdout);
    pika::finalize();
    return 0;
}

static int entry_vm(pika::program_options::variables_map& vm)
{
    entered = true;
    std::vector<std::string> pos;
    if (vm.count("pika:positional")) pos = vm["pika:positional"].as<std::vector<std::string>>();
    std::printf("R entry %zu\n", pos.size() + 1);
    std::printf("R argv 0 %s\n", hex("probe").c_str());
    for (std::size_t i = 0; i < pos.size(); ++i) std::printf("R argv %zu %s\n", i + 1, hex(pos[i]).c_str());
    report_runtime();
    std::fflush(stdout);
    pika::finalize();
    return 0;
}

static void report_runtime()
{
    outf("R workers %zu\n", pika::get_num_worker_threads());
    auto& rp = pika::resource::get_partitioner();
    auto* pool = pika::this_thread::get_pool();
    outf("R pool %s %zu\n", hex(pool->get_pool_name()).c_str(), pool->get_os_thread_count());
    outf("R sched %d %s\n", int(rp.which_scheduler(pool->get_pool_name())),
        hex(pool->get_scheduler()->get_description()).c_str());
    for (std::size_t i = 0; i < pika::get_num_worker_threads(); ++i)
        outf("R mask %zu %s\n", i, mask_str(rp.get_pu_mask(i)).c_str());

    // a default task: thread_pool_scheduler with default properties (small stack)
    std::ptrdiff_t size = 0, avail = 0;
    namespace ex = pika::execution::experimental;
    namespace tt = pika::this_thread::experimental;
    tt::sync_wait(ex::schedule(ex::thread_pool_scheduler{}) | ex::then([&] {
        size = pika::threads::detail::get_self_stacksize();
        avail = pika::this_thread::get_available_stack_space();
    }));
    outf("R stack %td %td\n", size, avail);
    outf("R stacksizes %td %td %td %td\n",
        pika::detail::get_runtime().get_config().get_stack_size(pika::execution::thread_stacksize::small_),
        pika::detail::get_runtime().get_config().get_stack_size(pika::execution::thread_stacksize::medium),
        pika::detail::get_runtime().get_config().get_stack_size(pika::execution::thread_stacksize::large),
        pika::detail::get_runtime().get_config().get_stack_size(pika::execution::thread_stacksize::huge));

    for (auto const& k : cfg_keys)
        outf("R cfg %s %s\n", k.c_str(), hex(pika::detail::get_config_entry(k, "<unset>")).c_str());
}

int main(int argc, char** argv)
{
    std::setvbuf(stdout, nullptr, _IOLBF, 0);
    if (char const* ks = std::getenv("VERIF_CFG_KEYS"))
    {
        std::string s(ks), cur;
        for (char c : s)
        {
            if (c == ',') { if (!cur.empty()) cfg_keys.push_back(cur); cur.clear(); }
            else cur += c;
        }
        if (!cur.empty()) cfg_keys.push_back(cur);
    }
    pika::init_params p;
    if (char const* cs = std::getenv("VERIF_INIT_CFG"))
    {
        std::string s(cs), cur;
        for (char c : s)
        {
            if (c == '\x1f') { p.cfg.push_back(cur); cur.clear(); }
            else cur += c;
        }
        if (!cur.empty()) p.cfg.push_back(cur);
    }
    std::printf("R begin\n");
    {
        auto& top = pika::threads::detail::get_topology();
        std::printf("R machine pus=%u cores=%zu maskpus=%zu\n", pika::threads::detail::hardware_concurrency(),
            top.get_number_of_cores(), pika::threads::detail::count(top.get_cpubind_mask_main_thread()));
    }
    int rc = 0;
    try
    {
        std::string kind = std::getenv("VERIF_ENTRY") ? std::getenv("VERIF_ENTRY") : "argv";
        std::printf("R entrykind %s\n", kind.c_str());
        if (kind == "vm")
            rc = pika::init(std::function<int(pika::program_options::variables_map&)>(&entry_vm), argc, argv, p);
        else if (kind == "null")
        {
            std::vector<std::string> own(argv, argv + argc);    // what the application itself sees
            pika::start(nullptr, argc, argv, p);
            // state-based wait (never a time limit): run_helper sets `running` on both of its paths
            while (!pika::detail::is_running()) std::this_thread::sleep_for(std::chrono::milliseconds(1));
            buffered = true;
            namespace ex = pika::execution::experimental;
            namespace tt = pika::this_thread::experimental;
            tt::sync_wait(ex::schedule(ex::thread_pool_scheduler{}) | ex::then([] { report_runtime(); }));
            buffered = false;
            pika::finalize();
            rc = pika::stop();
            if (rc == 0)
            {
                entered = true;
                std::printf("R entry %d\n", argc);
                for (int i = 0; i < argc; ++i)
                    std::printf("R argv %d %s\n", i, hex(argv[i]).c_str());
                bool same = int(own.size()) == argc;
                for (int i = 0; same && i < argc; ++i) same = own[i] == argv[i];
                std::printf("R ownargv %d\n", int(same));
                std::fputs(out_buf.c_str(), stdout);
            }
        }
        else
            rc = pika::init(std::function<int(int, char**)>(&entry), argc, argv, p);
        std::printf("R rc %d %d\n", rc, int(entered));
    }
    catch (std::exception const& e)
    {
        std::string w = e.what();
        std::printf("R error %s %s\n", hex(typeid(e).name()).c_str(), hex(w).c_str());
        std::printf("R errtext %s\n", w.substr(0, 200).c_str());
    }
    catch (...)
    {
        std::printf("R error %s %s\n", hex("unknown").c_str(), hex("unknown").c_str());
    }
    std::printf("R end\n");
    std::fflush(stdout);
    std::_Exit(0);
}
