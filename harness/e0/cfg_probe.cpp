// C16 probe: started as a real process with a generated argv / environment.  Reports, from
// inside the running pika runtime, what the runtime actually uses: worker count, scheduling
// policy, per-worker PU masks, stack size of a default (small-stack) task, configuration
// entries, the argv seen by the entry function - or the start-up error.
//
// Output: lines starting with "R " on stdout (strings hex-encoded), terminated by "R end".
#include <pika/execution.hpp>
#include <pika/init.hpp>
#include <pika/runtime/config_entry.hpp>
#include <pika/runtime/runtime.hpp>
#include <pika/resource_partitioner/detail/partitioner.hpp>
#include <pika/thread.hpp>
#include <pika/threading_base/thread_helpers.hpp>
#include <pika/topology/topology.hpp>

#include <cstdio>
#include <cstdlib>
#include <exception>
#include <string>
#include <typeinfo>
#include <vector>

static std::string hex(std::string const& s)
{
    static char const* d = "0123456789abcdef";
    std::string r;
    for (unsigned char c : s)
    {
        r += d[c >> 4];
        r += d[c & 15];
    }
    return r.empty() ? std::string("-") : r;
}

static std::vector<std::string> cfg_keys;
static bool entered = false;

static std::string mask_str(pika::threads::detail::mask_cref_type m)
{
    std::string r;
    std::size_t n = pika::threads::detail::mask_size(m);
    for (std::size_t i = 0; i < n; ++i)
        if (pika::threads::detail::test(m, i)) r += (r.empty() ? "" : ",") + std::to_string(i);
    return r.empty() ? std::string("-") : r;
}

static int entry(int argc, char** argv)
{
    entered = true;
    std::printf("R entry %d\n", argc);
    for (int i = 0; i < argc; ++i) std::printf("R argv %d %s\n", i, hex(argv[i]).c_str());

    std::printf("R workers %zu\n", pika::get_num_worker_threads());
    auto& rp = pika::resource::get_partitioner();
    auto* pool = pika::this_thread::get_pool();
    std::printf("R pool %s %zu\n", hex(pool->get_pool_name()).c_str(), pool->get_os_thread_count());
    std::printf("R sched %d %s\n", int(rp.which_scheduler(pool->get_pool_name())),
        hex(pool->get_scheduler()->get_description()).c_str());
    for (std::size_t i = 0; i < pika::get_num_worker_threads(); ++i)
        std::printf("R mask %zu %s\n", i, mask_str(rp.get_pu_mask(i)).c_str());

    // a default task: thread_pool_scheduler with default properties (small stack)
    std::ptrdiff_t size = 0, avail = 0;
    namespace ex = pika::execution::experimental;
    namespace tt = pika::this_thread::experimental;
    tt::sync_wait(ex::schedule(ex::thread_pool_scheduler{}) | ex::then([&] {
        size = pika::threads::detail::get_self_stacksize();
        avail = pika::this_thread::get_available_stack_space();
    }));
    std::printf("R stack %td %td\n", size, avail);
    std::printf("R stacksizes %td %td %td %td\n",
        pika::detail::get_runtime().get_config().get_stack_size(pika::execution::thread_stacksize::small_),
        pika::detail::get_runtime().get_config().get_stack_size(pika::execution::thread_stacksize::medium),
        pika::detail::get_runtime().get_config().get_stack_size(pika::execution::thread_stacksize::large),
        pika::detail::get_runtime().get_config().get_stack_size(pika::execution::thread_stacksize::huge));

    for (auto const& k : cfg_keys)
        std::printf("R cfg %s %s\n", k.c_str(), hex(pika::detail::get_config_entry(k, "<unset>")).c_str());
    std::fflush(stdout);
    pika::finalize();
    return 0;
}

int main(int argc, char** argv)
{
    std::setvbuf(stdout, nullptr, _IOLBF, 0);
    if (char const* ks = std::getenv("VERIF_CFG_KEYS"))
    {
        std::string s(ks), cur;
        for (char c : s)
        {
            if (c == ',') { if (!cur.empty()) cfg_keys.push_back(cur); cur.clear(); }
            else cur += c;
        }
        if (!cur.empty()) cfg_keys.push_back(cur);
    }
    pika::init_params p;
    if (char const* cs = std::getenv("VERIF_INIT_CFG"))
    {
        std::string s(cs), cur;
        for (char c : s)
        {
            if (c == '\x1f') { p.cfg.push_back(cur); cur.clear(); }
            else cur += c;
        }
        if (!cur.empty()) p.cfg.push_back(cur);
    }
    std::printf("R begin\n");
    {
        auto& top = pika::threads::detail::get_topology();
        std::printf("R machine pus=%u cores=%zu maskpus=%zu\n", pika::threads::detail::hardware_concurrency(),
            top.get_number_of_cores(), pika::threads::detail::count(top.get_cpubind_mask_main_thread()));
    }
    int rc = 0;
    try
    {
        rc = pika::init(std::function<int(int, char**)>(&entry), argc, argv, p);
        std::printf("R rc %d %d\n", rc, int(entered));
    }
    catch (std::exception const& e)
    {
        std::string w = e.what();
        std::printf("R error %s %s\n", hex(typeid(e).name()).c_str(), hex(w).c_str());
        std::printf("R errtext %s\n", w.substr(0, 200).c_str());
    }
    catch (...)
    {
        std::printf("R error %s %s\n", hex("unknown").c_str(), hex("unknown").c_str());
    }
    std::printf("R end\n");
    std::fflush(stdout);
    std::_Exit(0);
}
