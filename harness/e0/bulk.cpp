// E0 / live harness for C11: the real bulk code of thread_pool_scheduler_bulk.hpp.
//
// Every case runs in its own child process (e1_main.hpp) with its own pika runtime:
// `threads=T` workers, the second half of which form a second pool "bulk-pool".
//
//   case <id> kind=arith threads=2
//   thread 0: gcs <S> <w> <n> ; iq <w> <k> <nc> ; chunk <S> <j> <c> <n> ; ...
//       direct calls of the real get_chunk_size / init_queue / do_work_chunk (shape code S:
//       0 int, 1 unsigned, 2 long, 3 unsigned long); one result line per op:
//         r.gcs   a = chunk size, b = 1 if the call did not return within 2 s of *thread CPU time*
//         r.iq    a = part_begin, b = part_end (read back from the queue)
//         r.chunk a = first index passed to f (or -1), b = number of calls (capped at 64);
//                 r.chunk2 a = 1 if the indices were consecutive, b = 1 if a signed overflow was
//                 reported by -fsanitize=signed-integer-overflow during the call
//   case <id> kind=live threads=T pool=<0|1> S=<code> n=<n> nthrow=<k> seed=<s> slow=<0|1>
//       the real bulk through the public API (schedule(sched) | then(token) | bulk(n, f));
//       f counts calls per index, checks the forwarded value, throws on the PRNG-chosen indices.
//       Output: the hook trace (exact linearisation: instrumented atomic operations are
//       serialised by the sink) followed by summary lines live.* (see below).
//
// Log line format as in E1: `tid site obj a b`.
#include "../e1_main.hpp"

#include <pika/execution.hpp>
#include <pika/executors/thread_pool_scheduler_bulk.hpp>
#include <pika/init.hpp>
#include <pika/modules/resource_partitioner.hpp>
#include <pika/thread.hpp>

#include <atomic>
#include <dirent.h>
#include <sys/syscall.h>
#include <unistd.h>
#include <chrono>
#include <csetjmp>
#include <sys/syscall.h>
#include <unistd.h>
#include <csignal>
#include <cstdint>
#include <cstdio>
#include <cstring>
#include <ctime>
#include <map>
#include <memory>
#include <mutex>
#include <string>
#include <thread>
#include <type_traits>
#include <vector>

namespace ex = pika::execution::experimental;
namespace tt = pika::this_thread::experimental;
using verif::case_t;

// ---------------------------------------------------------------------------------------------
// signed-overflow reports (the harness is compiled with -fsanitize=signed-integer-overflow; the
// handlers below replace libubsan's, record the event and return: execution continues with the
// wrapped result, which is what the Lean model computes)
static thread_local int g_ub = 0;
extern "C" {
void __ubsan_handle_add_overflow(void*, void*, void*) { g_ub = 1; }
void __ubsan_handle_sub_overflow(void*, void*, void*) { g_ub = 1; }
void __ubsan_handle_mul_overflow(void*, void*, void*) { g_ub = 1; }
void __ubsan_handle_negate_overflow(void*, void*) { g_ub = 1; }
void __ubsan_handle_divrem_overflow(void*, void*, void*) { g_ub = 1; }
}

// ---------------------------------------------------------------------------------------------
// log (hook sink)
struct ev
{
    int tid;
    char const* site;
    int obj;
    long long a, b;
};
static std::atomic_flag g_lock = ATOMIC_FLAG_INIT;
static std::vector<ev> g_log;
static std::map<void const*, int> g_obj;
static std::atomic<int> g_next_tid{0};
static std::atomic<long long> g_progress{0};
static thread_local int t_tid = -1;
static thread_local bool t_held = false;
static bool g_trace = false;
static std::atomic<bool> g_overflow{false};

// C11c: calls of f made by this OS thread since its last logged event, compressed to one
// `live.run first count` line (consecutive indices, each call got the expected value and
// returned); flushed under the log lock right before the thread's next logged event, so the
// position of the calls relative to the worker's own pops / decrement is exact
struct run_t
{
    long long first = -1, count = 0;
};
static thread_local run_t t_run;
static bool g_explicit_calls = false;
static int g_token = 0;

// C11c directed program `stall=1`: every participant that is not unwinding from a throwing call
// waits at the point `bulk.dec` (before the log lock is taken), i.e. between whatever finish()
// did before the decrement and `--tasks_remaining`; the thrower does not wait there, so it records
// its exception and decrements while the others sit in that window (a perturbation only: no
// verdict depends on the delays)
static bool g_stall = false;
static thread_local bool t_threw = false;
// rendezvous of the directed program: a participant that did not throw waits at `bulk.dec` until
// the thrower has decremented; the thrower waits at `bulk.excx` (before its exchange) until the
// other g_pool_w - 1 participants are waiting.  Both waits are bounded (30 ms): they only steer
// the schedule, nothing is concluded from them.
static std::atomic<int> g_waiting{0};
static std::atomic<bool> g_thrower_done{false};
static int g_pool_w = 0;
template <typename P>
static void bounded_wait(P&& done)
{
    auto const end = std::chrono::steady_clock::now() + std::chrono::milliseconds(30);
    while (!done() && std::chrono::steady_clock::now() < end)
        std::this_thread::sleep_for(std::chrono::microseconds(50));
}

static void lock_log()
{
    while (g_lock.test_and_set(std::memory_order_acquire)) {}
}
static void unlock_log() { g_lock.clear(std::memory_order_release); }
static int my_tid()
{
    if (t_tid < 0) t_tid = g_next_tid++;
    return t_tid;
}
static void append(char const* site, void const* o, long long a, long long b)
{
    int id = 0;
    if (o != nullptr)
    {
        auto it = g_obj.find(o);
        if (it == g_obj.end()) it = g_obj.emplace(o, int(g_obj.size()) + 1).first;
        id = it->second;
    }
    if (t_run.count > 0)
    {
        g_log.push_back(ev{my_tid(), "live.run", 0, t_run.first, t_run.count});
        t_run.count = 0;
    }
    g_log.push_back(ev{my_tid(), site, id, a, b});
    // a healthy run logs O(chunks * workers) events; a runaway one (e.g. a worker popping from
    // memory that is not a queue) is cut off and reported
    if (g_log.size() >= 200000) g_overflow = true;
}
// phase 0 = point before an instrumented atomic operation: take the log lock so that the
// operation and its post event are one step of the linearisation; phase 2 = post: append, unlock.
static void sink(int phase, char const* site, void const* o, std::uint64_t a, std::uint64_t b) noexcept
{
    g_progress.fetch_add(1, std::memory_order_relaxed);
    if (!g_trace || g_overflow.load(std::memory_order_relaxed)) return;
    // only the hooks of the index queue and of bulk itself (a task does not suspend or migrate
    // between one of their points and the following post; other modules' hooks may)
    if (std::strncmp(site, "ciq.", 4) != 0 && std::strncmp(site, "bulk.", 5) != 0) return;
    if (phase == 2 && std::strcmp(site, "bulk.task") == 0) t_threw = false;
    if (phase == 0 && g_stall && !t_held)
    {
        if (!t_threw && std::strcmp(site, "bulk.dec") == 0)
        {
            g_waiting.fetch_add(1);
            bounded_wait([] { return g_thrower_done.load(); });
        }
        else if (t_threw && std::strcmp(site, "bulk.excx") == 0)
            bounded_wait([] { return g_waiting.load() >= g_pool_w - 1; });
    }
    if (phase == 0)
    {
        if (!t_held)
        {
            lock_log();
            t_held = true;
        }
        return;
    }
    if (phase == 2)
    {
        if (!t_held) lock_log();
        append(site, o, (long long) a, (long long) b);
        t_held = false;
        unlock_log();
        if (g_stall && t_threw && (std::strcmp(site, "bulk.last") == 0 || std::strcmp(site, "bulk.notlast") == 0))
            g_thrower_done.store(true);
    }
}
static void note(char const* site, void const* o, long long a, long long b)
{
    lock_log();
    append(site, o, a, b);
    unlock_log();
}
static void dump_log()
{
    for (auto const& e : g_log) std::printf("%d %s %d %lld %lld\n", e.tid, e.site, e.obj, e.a, e.b);
    g_log.clear();
}

// ---------------------------------------------------------------------------------------------
struct idx_error
{
    long long index;
};

template <typename Shape>
struct probe
{
    struct nop_f
    {
        void operator()(Shape) const {}
    };
    struct rec
    {
        long long first = -1, count = 0, prev = 0;
        bool consecutive = true;
    };
    struct rec_f
    {
        rec* r;
        void operator()(Shape i) const
        {
            if (r->count == 0) r->first = (long long) i;
            else if ((long long) i != r->prev + 1) r->consecutive = false;
            r->prev = (long long) i;
            if (++r->count >= 64) throw idx_error{(long long) i};
        }
    };
    struct null_receiver
    {
        PIKA_STDEXEC_RECEIVER_CONCEPT
        template <typename... Ts>
        void set_value(Ts&&...) && noexcept
        {
        }
        template <typename E>
        void set_error(E&&) && noexcept
        {
        }
        void set_stopped() && noexcept {}
        constexpr ex::empty_env get_env() const& noexcept { return {}; }
    };
    using sender_t = decltype(ex::just());
    using op_t = pika::thread_pool_bulk_detail::operation_state<sender_t, Shape, rec_f, null_receiver>;
    using brecv = typename op_t::bulk_receiver;

    static sigjmp_buf jb;
    static void on_timer(int) { siglongjmp(jb, 1); }

    // direct call of the static member, guarded by a timer on this thread's CPU time
    static void gcs(std::uint32_t w, Shape n)
    {
        volatile bool hung = false;
        std::uint32_t c = 0;
        struct sigaction sa;
        std::memset(&sa, 0, sizeof sa);
        sa.sa_handler = &on_timer;
        sigaction(SIGUSR2, &sa, nullptr);
        timer_t tm;
        struct sigevent se;
        std::memset(&se, 0, sizeof se);
        se.sigev_notify = SIGEV_THREAD_ID;
        se.sigev_signo = SIGUSR2;
        se._sigev_un._tid = (int) syscall(SYS_gettid);
        timer_create(CLOCK_THREAD_CPUTIME_ID, &se, &tm);
        struct itimerspec its;
        std::memset(&its, 0, sizeof its);
        its.it_value.tv_sec = 2;
        if (sigsetjmp(jb, 1) == 0)
        {
            timer_settime(tm, 0, &its, nullptr);
            c = brecv::get_chunk_size(w, n);
        }
        else { hung = true; }
        timer_delete(tm);
        std::printf("0 r.gcs 0 %lld %d\n", (long long) c, hung ? 1 : 0);
    }

    static std::unique_ptr<op_t> make_op(rec* r)
    {
        return std::make_unique<op_t>(
            ex::thread_pool_scheduler{}, ex::just(), Shape(0), rec_f{r}, null_receiver{});
    }

    static void iq(std::uint64_t w, std::uint32_t k, std::uint32_t nc)
    {
        rec r;
        auto op = make_op(&r);
        op->num_worker_threads = w;
        op->queues.resize(std::size_t(k) + 1);
        brecv br{op.get()};
        br.init_queue(k, nc);
        auto& q = op->queues[k].data_;
        long long b = -1, e = -1;
        auto l = q.pop_left();
        if (!l) { b = e = 0; std::printf("0 r.iq 0 -1 -1\n"); return; }
        b = *l;
        auto rr = q.pop_right();
        e = rr ? (long long) *rr + 1 : b + 1;
        std::printf("0 r.iq 0 %lld %lld\n", b, e);
    }

    static void chunk(std::uint32_t j, std::uint32_t c, Shape n)
    {
        rec r;
        auto op = make_op(&r);
        typename brecv::task_function tf{op.get(), n, c, 0};
        typename brecv::set_value_loop_visitor v{op.get(), &tf};
        std::tuple<> ts;
        g_ub = 0;
        try
        {
            v.do_work_chunk(ts, j);
        }
        catch (idx_error const&)
        {
        }
        std::printf("0 r.chunk 0 %lld %lld\n", r.first, r.count);
        std::printf("0 r.chunk2 0 %d %d\n", r.consecutive ? 1 : 0, g_ub);
    }
};
template <typename Shape>
sigjmp_buf probe<Shape>::jb;

template <typename F>
static void with_shape(long long code, F&& f)
{
    switch (code)
    {
    case 0: f(int{}); break;
    case 1: f(unsigned{}); break;
    case 2: f(long{}); break;
    default: f((unsigned long) 0); break;
    }
}

static void run_arith(case_t const& c)
{
    for (auto const& op : c.threads[0])
    {
        auto A = [&](std::size_t i) { return i < op.args.size() ? op.args[i] : 0; };
        if (op.name == "gcs")
            with_shape(A(0), [&](auto s) { probe<decltype(s)>::gcs(std::uint32_t(A(1)), (decltype(s)) A(2)); });
        else if (op.name == "iq")
            probe<int>::iq(std::uint64_t(A(0)), std::uint32_t(A(1)), std::uint32_t(A(2)));
        else if (op.name == "chunk")
            with_shape(A(0), [&](auto s) {
                probe<decltype(s)>::chunk(std::uint32_t(A(1)), std::uint32_t(A(2)), (decltype(s)) A(3));
            });
        std::fflush(stdout);
    }
}

// ---------------------------------------------------------------------------------------------
// live runs
static constexpr long long max_counted = 1 << 22;
static std::atomic<unsigned char>* g_counts = nullptr;
static std::atomic<long long> g_calls{0}, g_oob{0}, g_badval{0}, g_inflight{0};
static std::atomic<int> g_vsig{0}, g_esig{0};

struct rng64
{
    std::uint64_t s;
    std::uint64_t next()
    {
        std::uint64_t z = (s += 0x9e3779b97f4a7c15ull);
        z = (z ^ (z >> 30)) * 0xbf58476d1ce4e5b9ull;
        z = (z ^ (z >> 27)) * 0x94d049bb133111ebull;
        return z ^ (z >> 31);
    }
};

// the predecessor's value: a type whose moved-from state is observable (a moved-from int would look unchanged), so
// that "the values are passed unchanged / forwarded" also catches a use of the values after they were moved away
struct vtok
{
    std::vector<int> v;
    explicit vtok(int t)
      : v(1, t)
    {
    }
    int get() const { return v.size() == 1 ? v[0] : -777; }
};

template <typename Shape>
static void run_live(case_t const& c, ex::thread_pool_scheduler sched)
{
    Shape const n = (Shape) c.geti("n", 0);
    long long const nn = (long long) n;
    int const nthrow = int(c.geti("nthrow", 0));
    bool const slow = c.geti("slow", 0) != 0;
    bool const logcalls = nn >= 0 && nn <= 64;
    rng64 r{std::uint64_t(c.geti("seed", 1))};
    std::vector<long long> thr;
    for (int i = 0; i < nthrow && nn > 0; ++i) thr.push_back((long long) (r.next() % std::uint64_t(nn)));
    long long const counted = nn < 0 ? 0 : (nn < max_counted ? nn : max_counted);
    g_counts = new std::atomic<unsigned char>[std::size_t(counted) + 1];
    for (long long i = 0; i <= counted; ++i) g_counts[i].store(0, std::memory_order_relaxed);
    int const token = 4711 + int(c.geti("seed", 1) % 1000);
    for (auto t : thr) note("live.throws", nullptr, t, 0);
    // C11c: the predecessor's value pack (token) and whether every call is logged individually
    g_stall = c.geti("stall", 0) != 0;
    g_token = token;
    g_explicit_calls = nn >= 0 && nn <= 256;
    note("live.tok", nullptr, token, g_explicit_calls ? 1 : 0);

    long long calls_at_signal = -1, inflight_at_signal = -1, err_index = -1;
    int out = 0;
    g_trace = true;
    try
    {
        out = tt::sync_wait(ex::schedule(sched) | ex::then([token] { return vtok{token}; }) |
            ex::bulk(n,
                [&, token, nn, counted, slow, logcalls](Shape i, vtok const& vv) {
                    int const v = vv.get();
                    g_inflight.fetch_add(1, std::memory_order_acq_rel);
                    g_progress.fetch_add(1, std::memory_order_relaxed);
                    long long const ii = (long long) i;
                    if (ii < 0 || ii >= nn) g_oob.fetch_add(1);
                    else if (ii < counted)
                    {
                        unsigned char old = g_counts[ii].load(std::memory_order_relaxed);
                        while (old < 250 && !g_counts[ii].compare_exchange_weak(old, (unsigned char) (old + 1))) {}
                    }
                    if (v != token) g_badval.fetch_add(1);
                    if (logcalls) note("live.call", nullptr, ii, v == token ? 1 : 0);
                    // C11c: events of the composed model: call begins (index, value pack seen)
                    bool t0 = false;
                    for (auto x : thr) t0 = t0 || x == ii;
                    bool const expl = g_explicit_calls || t0 || v != token ||
                        (t_run.count > 0 && ii != t_run.first + t_run.count);
                    if (expl) note("live.cbeg", nullptr, ii, v);
                    if (slow)
                    {
                        auto const end = std::chrono::steady_clock::now() + std::chrono::microseconds(15);
                        while (std::chrono::steady_clock::now() < end) {}
                    }
                    g_calls.fetch_add(1, std::memory_order_acq_rel);
                    bool t = false;
                    for (auto x : thr) t = t || x == ii;
                    g_inflight.fetch_sub(1, std::memory_order_acq_rel);
                    // C11c: call returns / throws
                    if (expl) note(t ? "live.cthrow" : "live.cret", nullptr, ii, 0);
                    else
                    {
                        if (t_run.count == 0) t_run.first = ii;
                        ++t_run.count;
                    }
                    if (t) t_threw = true;
                    if (t) throw idx_error{ii};
                }) |
            ex::then([&](vtok vv) {
                int const v = vv.get();
                calls_at_signal = g_calls.load();
                inflight_at_signal = g_inflight.load();
                g_vsig.fetch_add(1);
                note("live.value", nullptr, v, calls_at_signal);
                return v;
            }));
    }
    catch (idx_error const& e)
    {
        calls_at_signal = g_calls.load();
        inflight_at_signal = g_inflight.load();
        g_esig.fetch_add(1);
        err_index = e.index;
        note("live.error", nullptr, e.index, calls_at_signal);
    }
    catch (...)
    {
        g_esig.fetch_add(1);
        err_index = -2;
        note("live.error", nullptr, -2, g_calls.load());
    }
    // let stragglers (calls still running after the receiver was signalled) show themselves
    for (int i = 0; i < 200; ++i) std::this_thread::yield();
    std::this_thread::sleep_for(std::chrono::milliseconds(slow ? 20 : 3));
    g_trace = false;
    long long bad = 0, firstbad = -1, maxc = 0;
    for (long long i = 0; i < counted; ++i)
    {
        long long k = g_counts[i].load();
        if (k > maxc) maxc = k;
        if (k != 1)
        {
            if (bad == 0) firstbad = i;
            ++bad;
        }
    }
    dump_log();
    std::printf("0 live.sig 0 %d %d\n", g_vsig.load(), g_esig.load());
    std::printf("0 live.calls 0 %lld %lld\n", g_calls.load(), calls_at_signal);
    std::printf("0 live.idx 0 %lld %lld\n", bad, firstbad);
    std::printf("0 live.max 0 %lld %lld\n", maxc, g_oob.load());
    std::printf("0 live.val 0 %lld %d\n", g_badval.load(), (g_vsig.load() == 0 || out == token) ? 1 : 0);
    std::printf("0 live.err 0 %lld %lld\n", err_index, inflight_at_signal);
    std::fflush(stdout);
}

// ---------------------------------------------------------------------------------------------
static case_t const* g_case = nullptr;

static int pika_main()
{
    case_t const& c = *g_case;
    std::string kind = c.gets("kind", "arith");
    if (kind == "arith") { run_arith(c); }
    else
    {
        auto& pool = pika::resource::get_thread_pool(c.geti("pool", 0) == 0 ? "default" : "bulk-pool");
        ex::thread_pool_scheduler sched{&pool};
        g_pool_w = int(pool.get_os_thread_count());
        std::printf("0 live.pool 0 %lld %lld\n", (long long) pool.get_os_thread_count(), c.geti("pool", 0));
        with_shape(c.geti("S", 2), [&](auto s) { run_live<decltype(s)>(c, sched); });
    }
    std::printf("end ok\n");
    std::fflush(stdout);
    _exit(0);
}

static void rp_handler(pika::resource::partitioner& rp, pika::program_options::variables_map const&)
{
    std::vector<pika::resource::pu const*> pus;
    for (auto const& s : rp.sockets())
        for (auto const& co : s.cores())
            for (auto const& p : co.pus()) pus.push_back(&p);
    std::size_t const total = rp.get_number_requested_threads();
    std::size_t const usable = total < pus.size() ? total : pus.size();
    if (usable < 2) return;
    rp.create_thread_pool("bulk-pool");
    for (std::size_t k = usable - usable / 2; k < usable; ++k) rp.add_resource(*pus[k], "bulk-pool");
}

// true if some thread of this process other than `self` is runnable (R) or in uninterruptible wait (D) right now
static bool any_thread_runnable(int self)
{
    DIR* d = opendir("/proc/self/task");
    if (!d) return true;
    bool any = false;
    while (dirent* e = readdir(d))
    {
        if (e->d_name[0] == '.') continue;
        if (std::atoi(e->d_name) == self) continue;
        char path[96], buf[512];
        std::snprintf(path, sizeof(path), "/proc/self/task/%s/stat", e->d_name);
        FILE* f = std::fopen(path, "r");
        if (!f) continue;
        std::size_t n = std::fread(buf, 1, sizeof(buf) - 1, f);
        std::fclose(f);
        buf[n] = 0;
        char const* q = std::strrchr(buf, ')');
        if (q && q[1] == ' ' && (q[2] == 'R' || q[2] == 'D')) any = true;
    }
    closedir(d);
    return any;
}

static void run_one(case_t const& c)
{
    g_case = &c;
    pika::verif::sink.store(&sink);
    // watchdog (live runs only; the direct calls of kind=arith are bounded, get_chunk_size is
    // guarded by a CPU-time timer): the operation is declared stuck when there was no hook event
    // and no call of f for 25 s of wall time during which this process consumed >= 8 s of CPU
    // time (so a starved machine never produces the verdict)
    if (c.gets("kind", "arith") != "arith")
        std::thread([] {
            long long last = -1;
            int idle = 0, blocked = 0;
            std::clock_t cpu0 = std::clock();
            int const self = int(syscall(SYS_gettid));
            for (;;)
            {
                std::this_thread::sleep_for(std::chrono::milliseconds(100));
                long long p = g_progress.load();
                if (p != last)
                {
                    idle = 0;
                    blocked = 0;
                    cpu0 = std::clock();
                }
                else
                {
                    ++idle;
                    // second form of the verdict, for a hang in which nobody burns CPU: no progress and, sample after
                    // sample, no thread of the process is runnable or in disk wait (a starved machine shows runnable
                    // threads, never "all asleep")
                    if (any_thread_runnable(self)) blocked = 0;
                    else ++blocked;
                }
                last = p;
                if (g_overflow.load() || (idle >= 250 && double(std::clock() - cpu0) / CLOCKS_PER_SEC >= 8.0) || blocked >= 200)
                {
                    bool const ovf = g_overflow.load();
                    g_trace = false;
                    if (ovf) { g_log.resize(2000); }
                    dump_log();
                    std::printf(ovf ? "end runaway\n" : "end hang\n");
                    std::fflush(stdout);
                    _exit(0);
                }
            }
        }).detach();
    std::string threads = "--pika:threads=" + std::to_string(c.geti("threads", 2));
    char const* argv[] = {"e0_bulk", threads.c_str(), "--pika:bind=none", nullptr};
    pika::init_params ip;
    ip.rp_callback = &rp_handler;
    pika::init(&pika_main, 3, argv, ip);
    _exit(0);
}

int main(int argc, char** argv)
{
    if (argc < 2) return 2;
    return verif::run_case_file(argv[1], run_one, 600);
}
