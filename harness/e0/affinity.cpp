// e0/affinity.cpp - E0 (differential) harness for C15: worker-to-PU binding.
//
// One process per machine topology: the topology comes from hwloc, which honours
// HWLOC_SYNTHETIC / HWLOC_XMLFILE, so pika's topology singleton describes the machine the
// check asks for.  The real pika code is called directly (no runtime is started):
//   pika::threads::detail::topology      accessors + set_cpubind_mask_main_thread
//   pika::detail::parse_affinity_options the four decoders + check_num_threads
//   pika::detail::affinity_data::init    count_initialized check, bind=none
//
// Case file:   case <id> mode=<compact|scatter|balanced|numa-balanced|none|topo> n=<threads>
//                   use=<0|1> used=<used_cores> maxc=<max_cores> mask=<all|i.j.k> [topo=...]
//              endcase
// Output per case (canonical; compared with the Lean model by lean/Driver/AffDrv.lean):
//   case <header as given>
//   topo nc=<cores> npus=<pus> ns=<sockets> pus=<per core, dot separated> socks=<cores per socket> pm=<effective logical mask>
//   dec ok <thread>:<mask bits>:<pu number> ...     | dec error <kind> | dec diverge | dec skip
//   init ok <thread>:<mask bits>:<pu number> ...    | init unbound <thread>:<pu> ... | init error <kind> | init diverge
//   (mode=topo:)  pu <core> <pu> <get_pu_number> <mask bits of init_thread_affinity_mask> <get_number_of_core_pus(core)>
//   end ok
//   endcase
// A decoder that does not return is detected by a CPU-time (not wall-clock) limit of the
// worker process: ITIMER_VIRTUAL, 0.3 s of user time for a computation that needs microseconds.
#include <pika/affinity/affinity_data.hpp>
#include <pika/affinity/parse_affinity_options.hpp>
#include <pika/modules/errors.hpp>
#include <pika/topology/cpu_mask.hpp>
#include <pika/topology/topology.hpp>

#include <csignal>
#include <cstdio>
#include <cstdlib>
#include <cstring>
#include <fstream>
#include <map>
#include <sstream>
#include <string>
#include <sys/mman.h>
#include <sys/time.h>
#include <sys/wait.h>
#include <unistd.h>
#include <vector>

namespace pt = pika::threads::detail;

struct kase
{
    std::string header;
    std::map<std::string, std::string> kv;
    std::string gets(std::string const& k, std::string const& d = "") const
    {
        auto it = kv.find(k);
        return it == kv.end() ? d : it->second;
    }
    long geti(std::string const& k, long d = 0) const
    {
        auto it = kv.find(k);
        return it == kv.end() ? d : std::atol(it->second.c_str());
    }
};

static std::vector<kase> read_cases(std::istream& in)
{
    std::vector<kase> out;
    std::string line;
    while (std::getline(in, line))
    {
        if (line.rfind("case ", 0) == 0)
        {
            kase c;
            c.header = line;
            std::istringstream ss(line.substr(5));
            std::string tok;
            ss >> tok;
            c.kv["id"] = tok;
            while (ss >> tok)
            {
                auto p = tok.find('=');
                if (p != std::string::npos) c.kv[tok.substr(0, p)] = tok.substr(p + 1);
            }
            out.push_back(c);
        }
    }
    return out;
}

static std::string bits(pt::mask_cref_type m)
{
    std::string s;
    for (std::size_t i = 0; i < pt::mask_size(m); ++i)
        if (pt::test(m, i))
        {
            if (!s.empty()) s += ".";
            s += std::to_string(i);
        }
    return s;
}

static std::string err_kind(std::string const& what)
{
    if (what.find("is larger than number of") != std::string::npos) return "tooMany";
    if (what.find("has already been set") != std::string::npos) return "alreadySet";
    if (what.find("does not match the number of threads to bind") != std::string::npos)
        return "notAllBound";
    std::string w = what.substr(0, 60);
    for (auto& ch : w)
        if (ch == ' ' || ch == '\n') ch = '_';
    return "other:" + w;
}

// progress shared between the supervisor and the worker process
struct progress
{
    volatile long next_case;
    volatile int phase;    // 0 = decoder, 1 = affinity_data::init
};
static progress* prog = nullptr;

static void on_cpu_limit(int)
{
    // the decoder (or init) of case prog->next_case did not return
    char const* msg = prog->phase == 0 ? "dec diverge\n" : "init diverge\nend ok\nendcase\n";
    (void) !write(1, msg, std::strlen(msg));
    if (prog->phase == 0) { prog->phase = 1; }
    else
    {
        prog->phase = 0;
        prog->next_case = prog->next_case + 1;
    }
    _exit(0);
}

static void arm(long ms)
{
    itimerval it{};
    it.it_value.tv_sec = ms / 1000;
    it.it_value.tv_usec = (ms % 1000) * 1000;
    setitimer(ITIMER_VIRTUAL, &it, nullptr);
}

static pt::mask_type parse_mask(std::string const& s, std::size_t npus)
{
    pt::mask_type m = pt::mask_type();
    pt::resize(m, npus);
    if (s == "all")
    {
        for (std::size_t i = 0; i < npus; ++i) pt::set(m, i);
        return m;
    }
    std::istringstream ss(s);
    std::string tok;
    while (std::getline(ss, tok, '.'))
        if (!tok.empty()) pt::set(m, std::strtoul(tok.c_str(), nullptr, 10));
    return m;
}

static std::string dotted(std::vector<std::size_t> const& v)
{
    std::string s;
    for (std::size_t i = 0; i < v.size(); ++i) s += (i ? "." : "") + std::to_string(v[i]);
    return s;
}

static void run_case(kase const& c, bool resume_init)
{
    pt::topology& t = pt::get_topology();
    std::size_t const npus = t.get_number_of_pus();
    std::string mode = c.gets("mode");
    std::size_t n = static_cast<std::size_t>(c.geti("n", 1));
    bool use = c.geti("use", 1) != 0;
    std::size_t used = static_cast<std::size_t>(c.geti("used", 0));
    std::size_t maxc = static_cast<std::size_t>(c.geti("maxc", 0));

    // process mask: given in OS indices; pika converts to logical indices
    t.set_cpubind_mask_main_thread(parse_mask(c.gets("mask", "all"), npus));

    if (!resume_init)
    {
        std::printf("%s\n", c.header.c_str());
        std::vector<std::size_t> pus, socks;
        std::size_t nc = t.get_number_of_cores();
        for (std::size_t i = 0; i < nc; ++i) pus.push_back(t.get_number_of_core_pus(i));
        std::size_t ns = t.get_number_of_sockets();
        for (std::size_t i = 0; i < ns; ++i) socks.push_back(t.get_number_of_socket_cores(i));
        std::printf("topo nc=%zu npus=%zu ns=%zu pus=%s socks=%s pm=%s hwc=%u\n", nc, npus, ns,
            dotted(pus).c_str(), dotted(socks).c_str(),
            bits(t.get_cpubind_mask_main_thread()).c_str(), pt::hardware_concurrency());
    }

    if (mode == "topo")
    {
        // accessor table, including the wrap-around of out-of-range core / pu indices
        std::size_t nc = t.get_number_of_cores();
        for (std::size_t core = 0; core < 2 * nc + 1; ++core)
        {
            std::size_t cp = t.get_number_of_core_pus(core);
            for (std::size_t pu = 0; pu < cp + 2; ++pu)
                std::printf("pu %zu %zu %zu %s %zu\n", core, pu, t.get_pu_number(core, pu),
                    bits(t.init_thread_affinity_mask(core, pu)).c_str(), cp);
        }
        std::printf("end ok\nendcase\n");
        std::fflush(stdout);
        return;
    }

    if (!resume_init)
    {
        prog->phase = 0;
        if (mode == "none") { std::printf("dec skip\n"); }
        else
        {
            std::fflush(stdout);
            std::string line;
            arm(300);
            try
            {
                std::vector<pt::mask_type> aff;
                std::vector<std::size_t> pn;
                pika::detail::parse_affinity_options(mode, aff, used, maxc, n, pn, use);
                arm(0);
                line = "dec ok";
                for (std::size_t i = 0; i < n; ++i)
                    line += " " + std::to_string(i) + ":" + (i < aff.size() ? bits(aff[i]) : "?") +
                        ":" + (i < pn.size() ? std::to_string(pn[i]) : "?");
            }
            catch (std::exception const& e)
            {
                arm(0);
                line = "dec error " + err_kind(e.what());
            }
            std::printf("%s\n", line.c_str());
        }
    }

    prog->phase = 1;
    std::fflush(stdout);
    {
        std::string line;
        arm(300);
        try
        {
            pika::detail::affinity_data ad;
            ad.init(n, maxc, std::size_t(-1), 1, used, "pu", mode, use);
            arm(0);
            if (mode == "none")
            {
                line = "init unbound";
                for (std::size_t i = 0; i < n; ++i)
                {
                    auto const& m = ad.get_pu_mask(t, i);
                    line += " " + std::to_string(i) + ":" + bits(m) + ":" +
                        std::to_string(ad.get_pu_num(i));
                }
            }
            else
            {
                line = "init ok";
                for (std::size_t i = 0; i < n; ++i)
                    line += " " + std::to_string(i) + ":" + bits(ad.get_pu_mask(t, i)) + ":" +
                        std::to_string(ad.get_pu_num(i));
            }
        }
        catch (std::exception const& e)
        {
            arm(0);
            line = "init error " + err_kind(e.what());
        }
        std::printf("%s\nend ok\nendcase\n", line.c_str());
    }
    std::fflush(stdout);
}

int main(int argc, char** argv)
{
    if (argc < 2)
    {
        std::fprintf(stderr, "usage: e0_affinity <casefile>\n");
        return 2;
    }
    std::ifstream in(argv[1]);
    auto cases = read_cases(in);
    prog = static_cast<progress*>(
        mmap(nullptr, sizeof(progress), PROT_READ | PROT_WRITE, MAP_SHARED | MAP_ANONYMOUS, -1, 0));
    prog->next_case = 0;
    prog->phase = 0;
    while (prog->next_case < static_cast<long>(cases.size()))
    {
        std::fflush(stdout);
        pid_t pid = fork();
        if (pid == 0)
        {
            std::signal(SIGVTALRM, on_cpu_limit);
            bool resume = prog->phase == 1;
            while (prog->next_case < static_cast<long>(cases.size()))
            {
                run_case(cases[prog->next_case], resume);
                resume = false;
                prog->phase = 0;
                prog->next_case = prog->next_case + 1;
            }
            std::fflush(stdout);
            _exit(0);
        }
        int st = 0;
        waitpid(pid, &st, 0);
        if (!(WIFEXITED(st) && WEXITSTATUS(st) == 0))
        {
            // crash inside pika code: report and skip the case
            std::printf("end crash %d\nendcase\n", WIFSIGNALED(st) ? WTERMSIG(st) : WEXITSTATUS(st));
            prog->phase = 0;
            prog->next_case = prog->next_case + 1;
        }
    }
    return 0;
}
