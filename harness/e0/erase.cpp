// E0 harness for C18: type-erased wrappers (function / unique_function / unique_any_sender /
// any_sender) driven by a line protocol.  One history = one case; one operation per step over
// <= 6 wrapper slots holding the REAL pika wrappers; the wrapped objects are instrumented
// payloads that report every construction / destruction (ids in construction order) and
// their own address stability.  Output per operation:
//
//   o <op> <args...> => <result> | <ledger events>
//
// which the Lean driver (lean/Driver/EraseDrv.lean) recomputes from the model.
//
// Build: g++ -fsanitize=address,undefined (see checks/C18.py).
#include "../e1_main.hpp"

#include <pika/execution_base/any_sender.hpp>
#include <pika/execution_base/operation_state.hpp>
#include <pika/execution_base/receiver.hpp>
#include <pika/execution_base/sender.hpp>
#include <pika/functional/function.hpp>
#include <pika/functional/unique_function.hpp>
#include <pika/modules/errors.hpp>

#include <cstdio>
#include <exception>
#include <new>
#include <optional>
#include <sstream>
#include <string>
#include <type_traits>
#include <utility>

#if defined(PIKA_DETAIL_ENABLE_ANY_SENDER_SBO)
// Opt-in embedded-storage configuration (reported separately, not claimed): the define changes the
// layout of movable_sbo_storage, libpika.so was built without it, so the out-of-line members of
// any_sender.hpp's classes are compiled into the harness with the matching layout (the
// executable's definitions take precedence for the harness' calls).
# include ERASE_ANY_SENDER_CPP
#endif

namespace ex = pika::execution::experimental;
using namespace verif;

// ------------------------------------------------------------------------------- ledger
static int g_next = 0;           // next object id
static std::string g_evs;        // events of the current operation
static unsigned copy_variant = 0, move_variant = 0;    // rotate the spelling of copy / move (reset per case)
static int g_arm = 0;            // countdown: the g_arm-th payload copy/move construction throws
static bool g_reloc = false;     // last call: callable observed `this` != address it was constructed at
static constexpr unsigned ALIVE = 0xA11CE5u, GONE = 0xDEADu;

static void ev(char const* k, long a)
{
    g_evs += ' ';
    g_evs += k;
    g_evs += std::to_string(a);
}
static void ev(char const* k, long a, long b)
{
    ev(k, a);
    g_evs += ':';
    g_evs += std::to_string(b);
}

struct no_pad
{
};
struct big_pad
{
    char bytes[72];
};
template <bool Big>
using pad_t = std::conditional_t<Big, big_pad, no_pad>;

struct payload_error
{
    int v;
};

// id for a copy/move-constructed payload; throws instead when the payloads are armed for this
// construction (op `arm k`: the k-th copy/move construction from now on throws)
static int fresh_id_or_throw(int src_id, int src_val)
{
    if (g_arm > 0 && --g_arm == 0)
    {
        ev("F", src_id);
        throw payload_error{src_val};
    }
    return g_next++;
}

struct track
{
    int id;
    int val;
    unsigned magic;
    explicit track(int v)
      : id(g_next++)
      , val(v)
      , magic(ALIVE)
    {
        ev("C", id, v);
    }
    track(track const& o)
      : id(fresh_id_or_throw(o.id, o.val))
      , val(o.val)
      , magic(ALIVE)
    {
        ev(o.magic == ALIVE ? "K" : "K!", id, o.id);
    }
    track(track&& o)
      : id(fresh_id_or_throw(o.id, o.val))
      , val(o.val)
      , magic(ALIVE)
    {
        ev(o.magic == ALIVE ? "M" : "M!", id, o.id);
    }
    track& operator=(track const&) = delete;
    ~track()
    {
        ev(magic == ALIVE ? "D" : "D!", id);    // "D!" = destructor on a dead object
        magic = GONE;
    }
};

// ------------------------------------------------------------------------------ callables
template <bool Big, bool Copy, int Mode>
struct FP
{
    track t;
    FP* self;
    [[no_unique_address]] pad_t<Big> pad;

    explicit FP(int v)
      : t(v)
      , self(this)
    {
    }
    FP(FP&& o)
      : t(std::move(o.t))
      , self(this)
    {
    }
    FP(FP const& o)
        requires Copy
      : t(o.t)
      , self(this)
    {
    }
    int operator()(int x)
    {
        g_reloc = (self != this);
        if (t.magic != ALIVE) ev("CALL!", t.id);
        if constexpr (Mode == 1) throw payload_error{t.val};
        return t.val + x;
    }
};
static_assert(sizeof(FP<false, true, 0>) <= pika::util::detail::function_storage_size);
static_assert(sizeof(FP<true, true, 0>) > pika::util::detail::function_storage_size);
static_assert(!std::is_copy_constructible_v<FP<false, false, 0>>);

// -------------------------------------------------------------------------------- senders
static bool g_conv = false;    // case option conv=1, see operation_state::start
struct conv_int
{
    int v;
    operator int() const { throw payload_error{v}; }
};
template <bool Big, bool Copy>
struct SP
{
    PIKA_STDEXEC_SENDER_CONCEPT

    track t;
    int mode;
    [[no_unique_address]] pad_t<Big> pad;

    template <template <class...> class Tuple, template <class...> class Variant>
    using value_types = Variant<Tuple<int>>;
    template <template <class...> class Variant>
    using error_types = Variant<std::exception_ptr>;
    static constexpr bool sends_done = true;
    using completion_signatures = ex::completion_signatures<ex::set_value_t(int),
        ex::set_error_t(std::exception_ptr), ex::set_stopped_t()>;

    SP(int v, int mode)
      : t(v)
      , mode(mode)
    {
    }
    SP(SP&& o)
      : t(std::move(o.t))
      , mode(o.mode)
    {
    }
    SP(SP const& o)
        requires Copy
      : t(o.t)
      , mode(o.mode)
    {
    }

    template <typename R>
    struct operation_state
    {
        std::decay_t<R> r;
        int val;
        int mode;
        void start() & noexcept
        {
            if (mode == 0) ex::set_value(std::move(r), int(val));
            else if (mode == 1 && g_conv)
            {
                // case option conv=1: the error completion of a mode-1 sender is realised as a VALUE completion whose
                // conversion to the wrapper's value type throws payload_error(val): the type-erased receiver must turn
                // that into set_error(payload_error(val)) - the same completion the model gives a mode-1 sender
                ex::set_value(std::move(r), conv_int{val});
            }
            else if (mode == 1)
                ex::set_error(std::move(r), std::make_exception_ptr(payload_error{val}));
            else
                ex::set_stopped(std::move(r));
        }
    };

    template <typename R>
    operation_state<R> connect(R&& r) &&
    {
        ev(t.magic == ALIVE ? "X" : "X!", t.id);
        if (mode == 3) throw payload_error{t.val};
        return {std::forward<R>(r), t.val, mode};
    }
    template <typename R>
    operation_state<R> connect(R&& r) const&
        requires Copy
    {
        ev(t.magic == ALIVE ? "L" : "L!", t.id);
        if (mode == 3) throw payload_error{t.val};
        return {std::forward<R>(r), t.val, mode};
    }
};
static_assert(sizeof(SP<false, true>) <= 4 * sizeof(void*));
static_assert(sizeof(SP<true, true>) > 4 * sizeof(void*));

struct completion
{
    int count = 0;
    std::string what;
};

struct recv
{
    PIKA_STDEXEC_RECEIVER_CONCEPT
    completion* c;
    void set_value(int v) && noexcept
    {
        ++c->count;
        c->what = "value " + std::to_string(v);
    }
    void set_error(std::exception_ptr ep) && noexcept
    {
        ++c->count;
        try
        {
            std::rethrow_exception(ep);
        }
        catch (payload_error const& e)
        {
            c->what = "error " + std::to_string(e.v);
        }
        catch (...)
        {
            c->what = "error other";
        }
    }
    void set_stopped() && noexcept
    {
        ++c->count;
        c->what = "stopped";
    }
    constexpr ex::empty_env get_env() const& noexcept { return {}; }
};

// --------------------------------------------------------------------------------- slots
using fn_t = pika::util::detail::function<int(int)>;
using ufn_t = pika::util::detail::unique_function<int(int)>;
using uas_t = ex::unique_any_sender<int>;
using as_t = ex::any_sender<int>;

struct slot
{
    char kind = 'F';    // F function, Q unique_function, U unique_any_sender, A any_sender
    std::optional<fn_t> f;
    std::optional<ufn_t> q;
    std::optional<uas_t> u;
    std::optional<as_t> a;
    bool live() const { return f || q || u || a; }
    bool is_fn() const { return kind == 'F' || kind == 'Q'; }
    bool copyable() const { return kind == 'F' || kind == 'A'; }
};

static slot S[6];
static int N = 0;

// dispatch a payload class (big, copy, mode) to a generic lambda taking a type tag
template <typename T>
struct tag
{
    using type = T;
};

template <typename G>
static void with_fp(bool big, bool copy, int mode, G&& g)
{
    if (big)
    {
        if (copy) { mode ? g(tag<FP<true, true, 1>>{}) : g(tag<FP<true, true, 0>>{}); }
        else { mode ? g(tag<FP<true, false, 1>>{}) : g(tag<FP<true, false, 0>>{}); }
    }
    else
    {
        if (copy) { mode ? g(tag<FP<false, true, 1>>{}) : g(tag<FP<false, true, 0>>{}); }
        else { mode ? g(tag<FP<false, false, 1>>{}) : g(tag<FP<false, false, 0>>{}); }
    }
}

template <typename G>
static void with_sp(bool big, bool copy, G&& g)
{
    if (big) { copy ? g(tag<SP<true, true>>{}) : g(tag<SP<true, false>>{}); }
    else { copy ? g(tag<SP<false, true>>{}) : g(tag<SP<false, false>>{}); }
}

static bool admits(slot const& s, bool copy, int mode, bool cp)
{
    if (s.copyable() && !copy) return false;
    if (cp && !copy) return false;
    return s.is_fn() ? (mode >= 0 && mode < 2) : (mode >= 0 && mode < 4);
}

// store a payload: construction (fresh) or assignment
static std::string do_store(slot& s, bool big, bool copy, int mode, int v, bool cp, bool fresh)
{
    if (s.live() == fresh || !admits(s, copy, mode, cp)) return "invalid";
    if (s.is_fn())
    {
        with_fp(big, copy, mode, [&](auto tg) {
            using T = typename decltype(tg)::type;
            T tmp(v);
            if constexpr (std::is_copy_constructible_v<T>)
            {
                if (s.kind == 'F')
                {
                    if (fresh) { cp ? (void) s.f.emplace(tmp) : (void) s.f.emplace(std::move(tmp)); }
                    else
                    {
                        if (cp) *s.f = tmp;
                        else *s.f = std::move(tmp);
                    }
                    return;
                }
            }
            if (s.kind == 'Q')
            {
                if constexpr (std::is_copy_constructible_v<T>)
                {
                    if (cp)
                    {
                        if (fresh) s.q.emplace(tmp);
                        else *s.q = tmp;
                        return;
                    }
                }
                if (fresh) s.q.emplace(std::move(tmp));
                else *s.q = std::move(tmp);
            }
        });
    }
    else
    {
        with_sp(big, copy, [&](auto tg) {
            using T = typename decltype(tg)::type;
            T tmp(v, mode);
            if constexpr (std::is_copy_constructible_v<T>)
            {
                if (s.kind == 'A')
                {
                    if (fresh) { cp ? (void) s.a.emplace(tmp) : (void) s.a.emplace(std::move(tmp)); }
                    else
                    {
                        if (cp) *s.a = tmp;
                        else *s.a = std::move(tmp);
                    }
                    return;
                }
            }
            if (s.kind == 'U')
            {
                if constexpr (std::is_copy_constructible_v<T>)
                {
                    if (cp)
                    {
                        if (fresh) s.u.emplace(tmp);
                        else *s.u = tmp;
                        return;
                    }
                }
                if (fresh) s.u.emplace(std::move(tmp));
                else *s.u = std::move(tmp);
            }
        });
    }
    return "ok";
}

static bool moves_from(char ki, char kj) { return ki == kj || (ki == 'U' && kj == 'A'); }

template <typename W>
static std::string do_run(W&& w)
{
    completion c;
    {
        auto os = ex::connect(std::forward<W>(w), recv{&c});
        ex::start(os);
    }
    if (c.count != 1) return "completions " + std::to_string(c.count);
    return c.what;
}

static std::string do_op(op_t const& o)
{
    auto arg = [&](std::size_t k) -> long long { return k < o.args.size() ? o.args[k] : 0; };
    long long i = arg(0);
    std::string const& n = o.name;
    if (n == "arm")
    {
        g_arm = int(i < 0 ? 0 : i);
        return "ok";
    }
    if (i < 0 || i >= N) return "invalid";
    slot& s = S[i];
    if (n == "new")
    {
        if (s.live()) return "invalid";
        switch (s.kind)
        {
        case 'F': s.f.emplace(); break;
        case 'Q': s.q.emplace(); break;
        case 'U': s.u.emplace(); break;
        default: s.a.emplace(); break;
        }
        return "ok";
    }
    if (n == "newp" || n == "set")
    {
        // args: slot big copyable mode val cp
        return do_store(s, arg(1) != 0, arg(2) != 0, int(arg(3)), int(arg(4)), arg(5) != 0, n == "newp");
    }
    if (n == "del")
    {
        if (!s.live()) return "invalid";
        s.f.reset();
        s.q.reset();
        s.u.reset();
        s.a.reset();
        return "ok";
    }
    if (n == "reset")
    {
        if (!s.live()) return "invalid";
        switch (s.kind)
        {
        case 'F': s.f->reset(); break;
        case 'Q': s.q->reset(); break;
        case 'U': s.u->reset(); break;
        default: s.a->reset(); break;
        }
        return "ok";
    }
    if (n == "empty")
    {
        if (!s.live()) return "invalid";
        bool e = false, b = false;
        switch (s.kind)
        {
        case 'F': e = s.f->empty(); b = bool(*s.f); break;
        case 'Q': e = s.q->empty(); b = bool(*s.q); break;
        case 'U': e = s.u->empty(); b = bool(*s.u); break;
        default: e = s.a->empty(); b = bool(*s.a); break;
        }
        if (e == b) return "bool inconsistent";
        return e ? "bool 1" : "bool 0";
    }
    if (n == "call")
    {
        if (!s.live() || !s.is_fn()) return "invalid";
        int x = int(arg(1));
        g_reloc = false;
        int r = s.kind == 'F' ? (*s.f)(x) : (*s.q)(x);
        return "ret " + std::to_string(r) + " " + (g_reloc ? "1" : "0");
    }
    if (n == "run")
    {
        if (!s.live() || s.is_fn()) return "invalid";
        return s.kind == 'U' ? do_run(std::move(*s.u)) : do_run(std::move(*s.a));
    }
    if (n == "runc")
    {
        if (!s.live() || s.kind != 'A') return "invalid";
        return do_run(static_cast<as_t const&>(*s.a));
    }
    // two-slot operations
    long long j = arg(1);
    if (j < 0 || j >= N) return "invalid";
    slot& t = S[j];
    if (n == "copy")
    {
        if (!s.live() || !t.live() || s.kind != t.kind || !s.copyable()) return "invalid";
        // the copy is taken through one of the equivalent spellings the API offers (rotating): assignment from a const
        // lvalue, assignment from a non-const lvalue, reset(non-const lvalue), reset(const lvalue)
        // (only while no construction is armed to throw: the spellings differ in how many payload constructions they
        // perform, and the model counts the constructions of the plain assignment)
        unsigned const v = g_arm > 0 ? 0 : copy_variant++ % 4;
        if (s.kind == 'F')
        {
            if (v & 1) *s.f = *t.f;
            else *s.f = static_cast<fn_t const&>(*t.f);
        }
        else if (v == 0) *s.a = static_cast<as_t const&>(*t.a);
        else if (v == 1) *s.a = *t.a;
        else if (v == 2) s.a->reset(*t.a);
        else s.a->reset(static_cast<as_t const&>(*t.a));
        return "ok";
    }
    if (n == "move")
    {
        if (!s.live() || !t.live() || !moves_from(s.kind, t.kind)) return "invalid";
        if (s.kind == 'F') *s.f = std::move(*t.f);
        else if (s.kind == 'Q') *s.q = std::move(*t.q);
        else
        {
            // assignment or reset(rvalue), rotating
            // reset(rvalue) is the same as move assignment only between wrappers of the SAME type; unique.reset(any&&)
            // stores the any_sender as an ordinary sender (a non-empty wrapper around a possibly empty any_sender)
            bool const viareset = (g_arm > 0 || s.kind != t.kind) ? false : (move_variant++ & 1) != 0;
            if (s.kind == 'A')
            {
                if (viareset) s.a->reset(std::move(*t.a));
                else *s.a = std::move(*t.a);
            }
            else if (t.kind == 'U')
            {
                if (viareset) s.u->reset(std::move(*t.u));
                else *s.u = std::move(*t.u);
            }
            else
            {
                if (viareset) s.u->reset(std::move(*t.a));
                else *s.u = std::move(*t.a);
            }
        }
        return "ok";
    }
    if (n == "cctor")
    {
        if (s.live() || !t.live() || s.kind != t.kind || !s.copyable()) return "invalid";
        if (s.kind == 'F') s.f.emplace(static_cast<fn_t const&>(*t.f));
        else s.a.emplace(static_cast<as_t const&>(*t.a));
        return "ok";
    }
    if (n == "mctor")
    {
        if (s.live() || !t.live() || !moves_from(s.kind, t.kind)) return "invalid";
        if (s.kind == 'F') s.f.emplace(std::move(*t.f));
        else if (s.kind == 'Q') s.q.emplace(std::move(*t.q));
        else if (s.kind == 'A') s.a.emplace(std::move(*t.a));
        else if (t.kind == 'U') s.u.emplace(std::move(*t.u));
        else s.u.emplace(std::move(*t.a));
        return "ok";
    }
    if (n == "swap")
    {
        if (!s.live() || !t.live() || s.kind != t.kind || !s.is_fn()) return "invalid";
        if (s.kind == 'F') s.f->swap(*t.f);
        else s.q->swap(*t.q);
        return "ok";
    }
    return "invalid";
}

static void run_one(case_t const& c)
{
    std::string kinds = c.gets("kinds", "FQUA");
    g_conv = c.geti("conv", 0) != 0;
    N = int(kinds.size() > 6 ? 6 : kinds.size());
    for (int i = 0; i < N; ++i) S[i].kind = kinds[i];
    if (c.threads.empty())
    {
        std::printf("end ok\n");
        return;
    }
    for (auto const& o : c.threads[0])
    {
        g_evs.clear();
        std::string res;
        try
        {
            res = do_op(o);
        }
        catch (payload_error const& e)
        {
            res = "perr " + std::to_string(e.v);
        }
        catch (pika::exception const& e)
        {
            res = e.get_error() == pika::error::bad_function_call ? std::string("badcall") :
                                                                    "pikaerr " + std::to_string(int(e.get_error()));
        }
        catch (std::exception const& e)
        {
            res = std::string("stdexc ") + e.what();
        }
        std::printf("o %s", o.name.c_str());
        for (auto a : o.args) std::printf(" %lld", a);
        std::printf(" => %s |%s\n", res.c_str(), g_evs.c_str());
        std::fflush(stdout);    // keep the history up to a crash
    }
    std::fflush(stdout);
    std::printf("end ok\n");
    std::fflush(stdout);
}

// Runner: one child process runs the cases one after the other (the wrappers and the ledger are
// reset between cases); if it dies (sanitizer abort, signal) the parent reports `end crash` for
// the case that was running and starts a new child at the next case.  (Forking per case, as
// e1_main.hpp does, costs more than the cases themselves under ASan.)
#include <sys/mman.h>

static void reset_world()
{
    for (auto& s : S)
    {
        s.f.reset();
        s.q.reset();
        s.u.reset();
        s.a.reset();
    }
    g_next = 0;
    g_arm = 0;
    copy_variant = 0;
    move_variant = 0;
    g_evs.clear();
}

int main(int argc, char** argv)
{
    if (argc < 2)
    {
        std::fprintf(stderr, "usage: %s <case-file>\n", argv[0]);
        return 2;
    }
    std::ifstream f(argv[1]);
    if (!f)
    {
        std::fprintf(stderr, "cannot open %s\n", argv[1]);
        return 2;
    }
    auto cases = read_cases(f);
    auto* progress = static_cast<volatile long*>(
        mmap(nullptr, sizeof(long), PROT_READ | PROT_WRITE, MAP_SHARED | MAP_ANONYMOUS, -1, 0));
    std::size_t start = 0;
    while (start < cases.size())
    {
        *progress = long(start);
        std::fflush(stdout);
        pid_t pid = fork();
        if (pid == 0)
        {
            alarm(600);
            for (std::size_t k = start; k < cases.size(); ++k)
            {
                *progress = long(k);
                auto const& c = cases[k];
                std::printf("%s\n", c.header.c_str());
                std::fflush(stdout);
                reset_world();
                run_one(c);
                std::printf("endcase\n");
                std::fflush(stdout);
            }
            *progress = long(cases.size());
            _exit(0);
        }
        int st = 0;
        waitpid(pid, &st, 0);
        std::size_t at = std::size_t(*progress);
        if (at >= cases.size()) break;
        if (WIFSIGNALED(st)) std::printf("\nend crash signal=%d\n", WTERMSIG(st));
        else std::printf("\nend crash exit=%d\n", WIFEXITED(st) ? WEXITSTATUS(st) : -1);
        std::printf("endcase\n");
        start = at + 1;
    }
    return 0;
}
