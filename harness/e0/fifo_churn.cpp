// Monitor-only tier of the C17 FIFO sub-check: producer-thread CHURN on the real back-end
// (pika::threads::detail::lockfree_fifo_backend over the third-party moodycamel queue).  The Lean spec QSpec speaks about
// elements, not about OS threads; what this program adds is the usage pattern "threads that produced exit while the queue
// lives on, new threads (possibly re-using thread ids / TLS addresses) produce concurrently": the queue's implicit-producer
// registry must hand every live thread its own sub-queue.  Verdict from values only: after each round the quiescent queue is
// drained and every value pushed in that round must come out exactly once (no loss, duplicate, invented value).
// usage: e0_fifo_churn <rounds> <pushers> <per_pusher>
//        e0_fifo_churn bulk <rounds> <consumers> <items> <producers>   (batch consumers on the raw third-party queue, see bulk_main)
//        e0_fifo_churn token <rounds> <items>                          (producer-token sub-queues of the raw queue, see token_main)
#include <pika/concurrency/concurrentqueue.hpp>
#include <pika/schedulers/lockfree_queue_backends.hpp>

#include <atomic>
#include <csignal>
#include <cstdint>
#include <cstdio>
#include <cstdlib>
#include <memory>
#include <string>
#include <thread>
#include <unistd.h>
#include <vector>

using backend = pika::threads::detail::lockfree_fifo_backend<std::uint64_t>;

static void on_crash(int sig)
{
    char buf[96];
    int n = std::snprintf(buf, sizeof(buf), "churn FAIL crash signal=%d inside the queue\n", sig);
    (void) !write(1, buf, std::size_t(n));
    _exit(0);
}

// "bulk": the batch overloads of the third-party queue (try_dequeue_bulk; pika's back-ends only use enqueue / try_dequeue /
// size_approx, but the header is pika's container and the property speaks about every operation mix).  A few producers
// feed values in small bursts, consumers poll the nearly empty queue for batches of 2..16 (every third consumer takes
// single elements), so that batch consumers regularly compete for the same few elements.  Verdict from values only: when
// the producers are done and every consumer has seen the queue empty many times, the quiescent queue is drained (single
// and batch pops); every value must have come out exactly once and the drained queue must report size 0.
static int bulk_main(int rounds, int consumers, long items, int producers)
{
    using queue_type = pika::concurrency::detail::ConcurrentQueue<std::uint64_t>;
    long lost = 0, dup = 0, invented = 0, bad_rounds = 0, stuck = 0;
    for (int r = 0; r < rounds; ++r)
    {
        queue_type q;
        std::unique_ptr<std::atomic<unsigned char>[]> seen(new std::atomic<unsigned char>[std::size_t(items)]);
        for (long i = 0; i < items; ++i) seen[std::size_t(i)].store(0, std::memory_order_relaxed);
        std::atomic<long> inv{0};
        std::atomic<int> prod_done{0}, ready{0};
        int const nthreads = consumers + producers;
        auto rec = [&](std::uint64_t v) {
            if (v >= std::uint64_t(items)) inv.fetch_add(1);
            else seen[std::size_t(v)].fetch_add(1, std::memory_order_relaxed);
        };
        auto together = [&] {
            ready.fetch_add(1);
            while (ready.load() != nthreads) {}
        };
        std::vector<std::thread> ts;
        for (int p = 0; p < producers; ++p)
            ts.emplace_back([&, p] {
                together();
                std::uint32_t g = 12345u + 977u * std::uint32_t(p) + 31u * std::uint32_t(r);
                // producer p owns the values congruent p modulo `producers`
                for (long i = p; i < items;)
                {
                    g = g * 1664525u + 1013904223u;
                    int burst = 1 + int((g >> 24) % 5);
                    for (int k = 0; k < burst && i < items; ++k, i += producers) q.enqueue(std::uint64_t(i));
                    std::uint32_t spins = (g >> 16) % 64;
                    for (std::uint32_t sp = 0; sp < spins; ++sp) asm volatile("pause");
                }
                prod_done.fetch_add(1);
            });
        for (int c = 0; c < consumers; ++c)
            ts.emplace_back([&, c] {
                together();
                std::uint64_t buf[16];
                std::size_t const batch = (c % 3 == 2) ? 1 : std::size_t(2 + (c * 5 + r) % 15);
                int empty_after_done = 0;
                while (empty_after_done < 1000)
                {
                    bool done = prod_done.load() == producers;
                    std::size_t n = batch == 1 ? std::size_t(q.try_dequeue(buf[0]) ? 1 : 0) : q.try_dequeue_bulk(buf, batch);
                    for (std::size_t i = 0; i < n; ++i) rec(buf[i]);
                    if (n == 0 && done) ++empty_after_done;
                    else if (n != 0) empty_after_done = 0;
                }
            });
        for (auto& t : ts) t.join();
        // quiescent: whatever is still inside must be handed out by a pop
        std::uint64_t v = 0, buf[16];
        while (q.try_dequeue(v)) rec(v);
        for (std::size_t n; (n = q.try_dequeue_bulk(buf, 16)) != 0;)
            for (std::size_t i = 0; i < n; ++i) rec(buf[i]);
        long l = 0, d = 0;
        for (long i = 0; i < items; ++i)
        {
            unsigned char c = seen[std::size_t(i)].load(std::memory_order_relaxed);
            if (c == 0) ++l;
            else if (c > 1) ++d;
        }
        lost += l;
        dup += d;
        invented += inv.load();
        stuck += long(q.size_approx());
        if (l || d || inv.load() || q.size_approx() != 0) ++bad_rounds;
    }
    if (bad_rounds)
        std::printf("churn FAIL bulk rounds=%d bad_rounds=%ld pushed=%ld lost=%ld duplicated=%ld invented=%ld left_in_drained_queue=%ld\n", rounds,
            bad_rounds, long(rounds) * items, lost, dup, invented, stuck);
    else
        std::printf("churn ok bulk rounds=%d pushed=%ld\n", rounds, long(rounds) * items);
    return 0;
}

// "token": the producer-token API of the third-party queue (explicit producers; pika's back-ends use the implicit
// producers only, but the header is pika's container).  Part 1, single-threaded and deterministic: with one token, enqueue a
// block's worth, dequeue it completely, then enqueue a backlog several blocks long (re-use of fully drained blocks) and
// drain: every value exactly once and in FIFO order (one producer).  Part 2: a token producer with growing bursts and a
// concurrent consumer (plain and token-directed pops).  Verdict from values only.
static int token_main(int rounds, long items)
{
    using queue_type = pika::concurrency::detail::ConcurrentQueue<std::uint64_t>;
    long lost = 0, dup = 0, invented = 0, order = 0, bad_rounds = 0, total = 0;
    for (int r = 0; r < rounds; ++r)
    {
        long l = 0, d = 0, inv = 0, ord = 0;
        {
            queue_type q;
            pika::concurrency::detail::ProducerToken tok(q);
            std::uint64_t next = 0, expect = 0, v = 0;
            // drain k completely after every burst of `burst` values, with bursts of 1 .. 4 blocks (block size 32)
            for (int step = 0; step < 12; ++step)
            {
                long burst = 32L * (1 + (step + r) % 4) + (step % 3);
                for (long i = 0; i < burst; ++i) q.enqueue(tok, next++);
                long take = (step % 2 == 0) ? burst : burst / 2;    // sometimes leave a backlog behind
                for (long i = 0; i < take && q.try_dequeue(v); ++i)
                {
                    if (v != expect) { ++ord; if (v < expect) ++d; else l += long(v - expect); expect = v + 1; }
                    else ++expect;
                }
            }
            while (q.try_dequeue(v))
            {
                if (v != expect) { ++ord; if (v < expect) ++d; else l += long(v - expect); expect = v + 1; }
                else ++expect;
            }
            if (expect < next) l += long(next - expect);
            total += long(next);
        }
        {
            queue_type q;
            std::unique_ptr<std::atomic<unsigned char>[]> seen(new std::atomic<unsigned char>[std::size_t(items)]);
            for (long i = 0; i < items; ++i) seen[std::size_t(i)].store(0, std::memory_order_relaxed);
            std::atomic<bool> done{false};
            std::atomic<long> invc{0};
            auto rec = [&](std::uint64_t v) {
                if (v >= std::uint64_t(items)) invc.fetch_add(1);
                else seen[std::size_t(v)].fetch_add(1, std::memory_order_relaxed);
            };
            std::thread prod([&] {
                pika::concurrency::detail::ProducerToken tok(q);
                long i = 0;
                int burst = 8;
                while (i < items)
                {
                    for (int k = 0; k < burst && i < items; ++k, ++i) q.enqueue(tok, std::uint64_t(i));
                    burst = burst >= 100 ? 8 : burst + 7;
                    for (int sp = 0; sp < 200; ++sp) asm volatile("pause");
                }
                done.store(true);
            });
            std::thread cons([&] {
                std::uint64_t v = 0;
                int empty_after_done = 0;
                while (empty_after_done < 1000)
                {
                    bool dn = done.load();
                    if (q.try_dequeue(v)) { rec(v); empty_after_done = 0; }
                    else if (dn) ++empty_after_done;
                }
            });
            prod.join();
            cons.join();
            std::uint64_t v = 0;
            while (q.try_dequeue(v)) rec(v);
            for (long i = 0; i < items; ++i)
            {
                unsigned char c = seen[std::size_t(i)].load(std::memory_order_relaxed);
                if (c == 0) ++l;
                else if (c > 1) ++d;
            }
            inv += invc.load();
            total += items;
        }
        lost += l; dup += d; invented += inv; order += ord;
        if (l || d || inv || ord) ++bad_rounds;
    }
    if (bad_rounds)
        std::printf("churn FAIL token rounds=%d bad_rounds=%ld pushed=%ld lost=%ld duplicated=%ld invented=%ld out_of_order=%ld\n", rounds, bad_rounds,
            total, lost, dup, invented, order);
    else
        std::printf("churn ok token rounds=%d pushed=%ld\n", rounds, total);
    return 0;
}

int main(int argc, char** argv)
{
    std::signal(SIGSEGV, on_crash);
    std::signal(SIGBUS, on_crash);
    std::signal(SIGABRT, on_crash);
    if (argc > 1 && std::string(argv[1]) == "token") return token_main(argc > 2 ? std::atoi(argv[2]) : 3, argc > 3 ? std::atol(argv[3]) : 20000);
    if (argc > 1 && std::string(argv[1]) == "bulk")
        return bulk_main(argc > 2 ? std::atoi(argv[2]) : 4, argc > 3 ? std::atoi(argv[3]) : 6, argc > 4 ? std::atol(argv[4]) : 100000,
            argc > 5 ? std::atoi(argv[5]) : 1);
    int rounds = argc > 1 ? std::atoi(argv[1]) : 12;
    int pushers = argc > 2 ? std::atoi(argv[2]) : 16;
    long per = argc > 3 ? std::atol(argv[3]) : 4000;
    std::signal(SIGSEGV, on_crash);
    std::signal(SIGBUS, on_crash);
    std::signal(SIGABRT, on_crash);
    backend q(128);
    std::atomic<bool> stop_res{false};
    std::vector<std::thread> residents;
    std::uint64_t next_value = 1;
    long lost = 0, dup = 0, invented = 0, bad_rounds = 0, total = 0;
    for (int r = 0; r < rounds; ++r)
    {
        // one more resident producer: pushes one value and stays alive (its registry entry stays)
        std::uint64_t rv = next_value++;
        std::atomic<bool> pushed{false};
        residents.emplace_back([&q, &stop_res, &pushed, rv] {
            q.push(rv);
            pushed.store(true);
            while (!stop_res.load()) std::this_thread::sleep_for(std::chrono::milliseconds(1));
        });
        while (!pushed.load()) std::this_thread::yield();
        std::uint64_t lo = rv;
        // short-lived producers: push one value each and exit (joined before the next step)
        {
            std::vector<std::thread> sl;
            for (int i = 0; i < 8; ++i)
            {
                std::uint64_t v = next_value++;
                sl.emplace_back([&q, v] { q.push(v); });
            }
            for (auto& t : sl) t.join();
        }
        // new threads push concurrently
        {
            std::vector<std::thread> ps;
            std::atomic<int> go{0};
            for (int i = 0; i < pushers; ++i)
            {
                std::uint64_t base = next_value;
                next_value += std::uint64_t(per);
                ps.emplace_back([&q, &go, base, per] {
                    while (go.load() == 0) std::this_thread::yield();
                    for (long k = 0; k < per; ++k) q.push(base + std::uint64_t(k));
                });
            }
            go.store(1);
            for (auto& t : ps) t.join();
        }
        std::uint64_t hi = next_value;    // values of this round: [lo, hi)
        std::vector<unsigned char> seen(std::size_t(hi - lo), 0);
        std::uint64_t v = 0;
        long l = 0, d = 0, inv = 0;
        while (q.pop(v, false))
        {
            if (v < lo || v >= hi) ++inv;
            else if (seen[std::size_t(v - lo)]++) ++d;
        }
        for (auto s : seen)
            if (!s) ++l;
        total += long(hi - lo);
        lost += l;
        dup += d;
        invented += inv;
        if (l || d || inv) ++bad_rounds;
    }
    stop_res.store(true);
    for (auto& t : residents) t.join();
    if (bad_rounds)
        std::printf("churn FAIL rounds=%d bad_rounds=%ld pushed=%ld lost=%ld duplicated=%ld invented=%ld\n", rounds, bad_rounds, total, lost, dup,
            invented);
    else
        std::printf("churn ok rounds=%d pushed=%ld\n", rounds, total);
    return 0;
}
