// Monitor-only tier of the C17 FIFO sub-check: producer-thread CHURN on the real back-end
// (pika::threads::detail::lockfree_fifo_backend over the third-party moodycamel queue).  The Lean spec QSpec speaks about
// elements, not about OS threads; what this program adds is the usage pattern "threads that produced exit while the queue
// lives on, new threads (possibly re-using thread ids / TLS addresses) produce concurrently": the queue's implicit-producer
// registry must hand every live thread its own sub-queue.  Verdict from values only: after each round the quiescent queue is
// drained and every value pushed in that round must come out exactly once (no loss, duplicate, invented value).
// usage: e0_fifo_churn <rounds> <pushers> <per_pusher>
#include <pika/schedulers/lockfree_queue_backends.hpp>

#include <atomic>
#include <csignal>
#include <cstdint>
#include <cstdio>
#include <cstdlib>
#include <memory>
#include <thread>
#include <unistd.h>
#include <vector>

using backend = pika::threads::detail::lockfree_fifo_backend<std::uint64_t>;

static void on_crash(int sig)
{
    char buf[96];
    int n = std::snprintf(buf, sizeof(buf), "churn FAIL crash signal=%d inside the queue\n", sig);
    (void) !write(1, buf, std::size_t(n));
    _exit(0);
}

int main(int argc, char** argv)
{
    int rounds = argc > 1 ? std::atoi(argv[1]) : 12;
    int pushers = argc > 2 ? std::atoi(argv[2]) : 16;
    long per = argc > 3 ? std::atol(argv[3]) : 4000;
    std::signal(SIGSEGV, on_crash);
    std::signal(SIGBUS, on_crash);
    std::signal(SIGABRT, on_crash);
    backend q(128);
    std::atomic<bool> stop_res{false};
    std::vector<std::thread> residents;
    std::uint64_t next_value = 1;
    long lost = 0, dup = 0, invented = 0, bad_rounds = 0, total = 0;
    for (int r = 0; r < rounds; ++r)
    {
        // one more resident producer: pushes one value and stays alive (its registry entry stays)
        std::uint64_t rv = next_value++;
        std::atomic<bool> pushed{false};
        residents.emplace_back([&q, &stop_res, &pushed, rv] {
            q.push(rv);
            pushed.store(true);
            while (!stop_res.load()) std::this_thread::sleep_for(std::chrono::milliseconds(1));
        });
        while (!pushed.load()) std::this_thread::yield();
        std::uint64_t lo = rv;
        // short-lived producers: push one value each and exit (joined before the next step)
        {
            std::vector<std::thread> sl;
            for (int i = 0; i < 8; ++i)
            {
                std::uint64_t v = next_value++;
                sl.emplace_back([&q, v] { q.push(v); });
            }
            for (auto& t : sl) t.join();
        }
        // new threads push concurrently
        {
            std::vector<std::thread> ps;
            std::atomic<int> go{0};
            for (int i = 0; i < pushers; ++i)
            {
                std::uint64_t base = next_value;
                next_value += std::uint64_t(per);
                ps.emplace_back([&q, &go, base, per] {
                    while (go.load() == 0) std::this_thread::yield();
                    for (long k = 0; k < per; ++k) q.push(base + std::uint64_t(k));
                });
            }
            go.store(1);
            for (auto& t : ps) t.join();
        }
        std::uint64_t hi = next_value;    // values of this round: [lo, hi)
        std::vector<unsigned char> seen(std::size_t(hi - lo), 0);
        std::uint64_t v = 0;
        long l = 0, d = 0, inv = 0;
        while (q.pop(v, false))
        {
            if (v < lo || v >= hi) ++inv;
            else if (seen[std::size_t(v - lo)]++) ++d;
        }
        for (auto s : seen)
            if (!s) ++l;
        total += long(hi - lo);
        lost += l;
        dup += d;
        invented += inv;
        if (l || d || inv) ++bad_rounds;
    }
    stop_res.store(true);
    for (auto& t : residents) t.join();
    if (bad_rounds)
        std::printf("churn FAIL rounds=%d bad_rounds=%ld pushed=%ld lost=%ld duplicated=%ld invented=%ld\n", rounds, bad_rounds, total, lost, dup,
            invented);
    else
        std::printf("churn ok rounds=%d pushed=%ld\n", rounds, total);
    return 0;
}
