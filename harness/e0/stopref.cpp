// E0 harness for C14 (sequential half): histories of stop_source / stop_token special members
// on the real classes; after every operation one canonical observation line is printed.
//
// case <id> H=<slots>
// thread 0: snew 0 ; scopy 1 0 ; tget 0 1 ; sassign 1 0 ; rs 0 ; ...
//
// Observation: o <op-index> S:<per source slot: - or possible+2*requested> T:<same for tokens>
//              ES:<per source slot: - or first slot comparing equal> ET:<same> R:<request_stop result or ->
#include "../e1_main.hpp"

#include <pika/synchronization/stop_token.hpp>

#include <optional>
#include <string>
#include <vector>

using namespace verif;

static void run_one(case_t const& c)
{
    int H = int(c.geti("H", 6));
    std::vector<std::optional<pika::stop_source>> S(H);
    std::vector<std::optional<pika::stop_token>> T(H);
    int idx = 0;
    auto ok = [&](long long i) { return i >= 0 && i < H; };
    for (auto const& op : c.threads.at(0))
    {
        long long a = op.args.size() > 0 ? op.args[0] : -1, b = op.args.size() > 1 ? op.args[1] : -1;
        std::string ret = "-";
        bool legal = true;
        auto const& n = op.name;
        if (n == "snew") { legal = ok(a) && !S[a]; if (legal) S[a].emplace(); }
        else if (n == "snone") { legal = ok(a) && !S[a]; if (legal) S[a].emplace(pika::nostopstate); }
        else if (n == "scopy") { legal = ok(a) && ok(b) && !S[a] && S[b]; if (legal) S[a].emplace(*S[b]); }
        else if (n == "smove") { legal = ok(a) && ok(b) && !S[a] && S[b]; if (legal) S[a].emplace(std::move(*S[b])); }
        else if (n == "sassign") { legal = ok(a) && ok(b) && S[a] && S[b]; if (legal) *S[a] = *S[b]; }
        else if (n == "smassign") { legal = ok(a) && ok(b) && S[a] && S[b]; if (legal) *S[a] = std::move(*S[b]); }
        else if (n == "sswap") { legal = ok(a) && ok(b) && S[a] && S[b]; if (legal) S[a]->swap(*S[b]); }
        else if (n == "sdel") { legal = ok(a) && S[a]; if (legal) S[a].reset(); }
        else if (n == "tget") { legal = ok(a) && ok(b) && !T[a] && S[b]; if (legal) T[a].emplace(S[b]->get_token()); }
        else if (n == "tnew") { legal = ok(a) && !T[a]; if (legal) T[a].emplace(); }
        else if (n == "tcopy") { legal = ok(a) && ok(b) && !T[a] && T[b]; if (legal) T[a].emplace(*T[b]); }
        else if (n == "tmove") { legal = ok(a) && ok(b) && !T[a] && T[b]; if (legal) T[a].emplace(std::move(*T[b])); }
        else if (n == "tassign") { legal = ok(a) && ok(b) && T[a] && T[b]; if (legal) *T[a] = *T[b]; }
        else if (n == "tmassign") { legal = ok(a) && ok(b) && T[a] && T[b]; if (legal) *T[a] = std::move(*T[b]); }
        else if (n == "tswap") { legal = ok(a) && ok(b) && T[a] && T[b]; if (legal) T[a]->swap(*T[b]); }
        else if (n == "tdel") { legal = ok(a) && T[a]; if (legal) T[a].reset(); }
        else if (n == "rs") { legal = ok(a) && S[a].has_value(); if (legal) ret = S[a]->request_stop() ? "1" : "0"; }
        else legal = false;
        if (!legal)
        {
            std::printf("o %d illegal\n", idx++);
            continue;
        }
        std::string s = "S:", t = " T:", es = " ES:", et = " ET:";
        for (int i = 0; i < H; ++i)
        {
            // stop_source::stop_possible() is "owns a state"; the word-level answer is the token's
            if (!S[i]) { s += '-'; es += '-'; }
            else
            {
                s += char('0' + (S[i]->stop_possible() ? 1 : 0) + (S[i]->stop_requested() ? 2 : 0));
                int r = i;
                for (int j = 0; j < i; ++j)
                    if (S[j] && *S[j] == *S[i]) { r = j; break; }
                es += char('0' + r);
            }
            if (!T[i]) { t += '-'; et += '-'; }
            else
            {
                t += char('0' + (T[i]->stop_possible() ? 1 : 0) + (T[i]->stop_requested() ? 2 : 0));
                int r = i;
                for (int j = 0; j < i; ++j)
                    if (T[j] && *T[j] == *T[i]) { r = j; break; }
                et += char('0' + r);
            }
        }
        std::printf("o %d %s%s%s%s R:%s\n", idx++, s.c_str(), t.c_str(), es.c_str(), et.c_str(), ret.c_str());
    }
    std::printf("end ok\n");
    std::fflush(stdout);
}

int main(int argc, char** argv)
{
    if (argc < 2) return 2;
    return run_case_file(argv[1], run_one);
}
