// E0 harness for C17 (FIFO back-end): REAL OS threads drive the real
// pika::threads::detail::lockfree_fifo_backend<std::uint64_t> (a thin wrapper around the third-party
// moodycamel ConcurrentQueue, which has no hook points - so there is no baton here; the real
// interleaving is not observable and the log is checked against the interval-order consequences of
// the Lean specification QSpec, see lean/PikaVerif/Model/Fifo.lean and lean/Driver/FifoDrv.lean).
//
//   case <id> mode=0|1 init=<initial_size> pre=<K> lim=<L> oe=<0|1> jit=<seed>
//   thread <i>: prod <N> ;       N pushes
//   thread <i>: cons [K] ;       pops until all producers are done AND a pop failed afterwards (or K pops succeeded)
//   thread <i>: mix <N> ;        N times: one push, then one pop attempt
//   thread <i>: mixprod <K> <N> ; K times push+pop, then N pushes (index growth of a wrapped block index)
//   thread <i>: ucons ;          (mode 1) like cons, but with the move loop's unguarded pop
//   endcase
//
// mode 0: the back-end alone (push / pop / empty).
// mode 1: thread_queue's counter protocol around the real back-end, re-implemented verbatim
//         (std::atomic<std::int64_t> + backend, same statement order; the source lines are quoted below).
//
// Every thread records its own operation sequence in a thread-local vector: (event kind, value,
// stamp) where the stamp is drawn from one global atomic counter *before* an inner-queue operation
// begins and *after* it has ended, so the real operation interval lies inside the stamped one.
// Counter operations of mode 1 are executed together with their stamp under one global spin lock
// (they never block), so their stamp order is their real order.  After join the main thread (tid T)
// observes empty(), drains the queue single-threaded and observes empty() again; the per-thread
// vectors are merged in stamp order and printed in the framework's line format
//   <tid> <site> <obj> <a> <stamp>      (obj = steal threshold `lim` on load lines, else 0)
// sites: enqB(a=value) enqE(a=result) deqB deqE(a=value or -1) empty(a=0|1) phase(a=1 threads start,
//        2 threads joined) inc(a=value) load(a=count) dec retF.
// Values are unique: producer tid * 2^32 + index.
#include "../e1_main.hpp"

#include <pika/schedulers/lockfree_queue_backends.hpp>

#include <algorithm>
#include <atomic>
#include <cstdint>
#include <thread>
#include <vector>

using namespace verif;

namespace {
    enum kind_t : std::uint8_t { ENQB, ENQE, DEQB, DEQE, EMPTY, PHASE, INC, LOAD, DEC, RETF };
    char const* const kind_name[] = {"enqB", "enqE", "deqB", "deqE", "empty", "phase", "inc", "load", "dec", "retF"};

    struct rec_t
    {
        std::uint64_t stamp;
        long long a;
        long long obj;
        std::uint32_t tid;
        kind_t kind;
    };

    using backend_t = pika::threads::detail::lockfree_fifo_backend<std::uint64_t>;

    std::atomic<std::uint64_t> g_seq{0};
    std::atomic<std::uint64_t> g_pushes_done{0};
    std::atomic<int> g_producers_done{0};
    std::atomic<int> g_go{0};
    std::atomic<int> g_arrived{0};
    std::atomic_flag g_lock = ATOMIC_FLAG_INIT;

    struct lock_t
    {
        lock_t()
        {
            while (g_lock.test_and_set(std::memory_order_acquire)) std::this_thread::yield();
        }
        ~lock_t() { g_lock.clear(std::memory_order_release); }
    };

    struct actor
    {
        std::uint32_t tid;
        std::vector<rec_t> log;
        std::uint64_t next_index = 0;
        std::uint64_t rng = 0;    // timing perturbation (jit=<seed> in the case header; 0 = off)
        void jitter()
        {
            if (rng == 0) return;
            rng ^= rng << 13;
            rng ^= rng >> 7;
            rng ^= rng << 17;
            unsigned r = unsigned(rng >> 33) & 31u;
            if (r == 0) std::this_thread::yield();
            else if (r < 4)
                for (volatile unsigned i = 0; i < (r * 40u); i = i + 1) {}
        }
        void rec(kind_t k, long long a)
        {
            if (k == ENQB || k == DEQB) jitter();
            log.push_back(rec_t{g_seq.fetch_add(1), a, 0, tid, k});
        }
        // stamp taken while the caller holds g_lock
        void rec_locked(kind_t k, long long a, long long obj = 0)
        {
            log.push_back(rec_t{g_seq.fetch_add(1), a, obj, tid, k});
        }
        std::uint64_t fresh() { return (std::uint64_t(tid) << 32) + next_index++; }
    };

    // ---------------------------------------------------------------- mode 0: the back-end alone
    struct plain_queue
    {
        backend_t q;
        bool other_end;
        plain_queue(std::uint64_t init, bool oe) : q(init), other_end(oe) {}
        void push(actor& a, std::uint64_t v)
        {
            a.rec(ENQB, (long long) v);
            bool r = q.push(v, other_end);
            a.rec(ENQE, r ? 1 : 0);
        }
        bool pop(actor& a, bool /*unguarded*/)
        {
            std::uint64_t v = 0;
            a.rec(DEQB, 0);
            bool r = q.pop(v, other_end);
            a.rec(DEQE, r ? (long long) v : -1);
            return r;
        }
        void no_steal_limit() {}
        void observe_empty(actor& a)
        {
            bool e = q.empty();
            a.rec(EMPTY, e ? 1 : 0);
        }
    };

    // ---------------------------------------------------------------- mode 1: thread_queue's counter protocol
    struct counted_queue
    {
        backend_t work_items_;
        std::atomic<std::int64_t> work_items_count_{0};
        std::int64_t lim;    // allow_stealing ? parameters_.min_tasks_to_steal_pending_ : 0
        bool other_end;
        counted_queue(std::uint64_t init, std::int64_t l, bool oe) : work_items_(init), lim(l), other_end(oe) {}

        // thread_queue.hpp, schedule_thread:
        //     ++work_items_count_.data_;
        //     work_items_.push(thrd.detach(), other_end);
        void push(actor& a, std::uint64_t v)
        {
            {
                lock_t l;
                ++work_items_count_;
                a.rec_locked(INC, (long long) v);
            }
            a.rec(ENQB, (long long) v);
            bool r = work_items_.push(v, other_end);
            a.rec(ENQE, r ? 1 : 0);
        }

        // thread_queue.hpp, get_next_thread:
        //     std::int64_t work_items_count = work_items_count_.data_.load(std::memory_order_relaxed);
        //     if (allow_stealing && parameters_.min_tasks_to_steal_pending_ > work_items_count) { return false; }
        //     thread_description_ptr next_thrd;
        //     if (0 != work_items_count && work_items_.pop(next_thrd, steal))
        //     {
        //         thrd.reset(next_thrd, false);
        //         --work_items_count_.data_;
        //         return true;
        //     }
        //     return false;
        // thread_queue.hpp, move_work_items_from (source side; `unguarded`):
        //     while (src->work_items_.pop(trd)) { --src->work_items_count_.data_; ...
        bool pop(actor& a, bool unguarded)
        {
            std::uint64_t v = 0;
            if (!unguarded)
            {
                std::int64_t work_items_count;
                {
                    lock_t l;
                    work_items_count = work_items_count_.load(std::memory_order_relaxed);
                    a.rec_locked(LOAD, work_items_count, lim);
                }
                if (lim > work_items_count)
                {
                    a.rec(RETF, 0);
                    return false;
                }
                if (0 == work_items_count)
                {
                    a.rec(RETF, 0);
                    return false;
                }
            }
            a.rec(DEQB, 0);
            bool r = work_items_.pop(v, other_end);
            a.rec(DEQE, r ? (long long) v : -1);
            if (r)
            {
                lock_t l;
                --work_items_count_;
                a.rec_locked(DEC, 0);
                return true;
            }
            a.rec(RETF, 0);
            return false;
        }
        void no_steal_limit() { lim = 0; }
        void observe_empty(actor& a)
        {
            bool e = work_items_.empty();
            a.rec(EMPTY, e ? 1 : 0);
        }
    };

    template <typename Q>
    void consumer(Q& q, actor& a, int nprod, bool unguarded, long long max_success)
    {
        long long got = 0;
        for (;;)
        {
            std::uint64_t seen = g_pushes_done.load();
            bool done_before = g_producers_done.load() == nprod;
            if (q.pop(a, unguarded))
            {
                if (max_success > 0 && ++got >= max_success) break;    // leaves work for the final drain
                continue;
            }
            if (done_before) break;
            // retry only after something new was pushed (bounds the number of failed pops)
            while (g_pushes_done.load() == seen && g_producers_done.load() != nprod) std::this_thread::yield();
        }
    }

    template <typename Q>
    void run_threads(Q& q, case_t const& c)
    {
        std::size_t T = c.threads.size();
        std::vector<actor> actors(T + 1);
        for (std::size_t i = 0; i <= T; ++i)
        {
            actors[i].tid = std::uint32_t(i);
            actors[i].log.reserve(1 << 14);
            long long jit = c.geti("jit", 0);
            actors[i].rng = jit ? std::uint64_t(jit) * 0x9e3779b97f4a7c15ull + i * 0xbf58476d1ce4e5b9ull + 1 : 0;
        }
        actor& me = actors[T];
        int nprod = 0;
        for (auto const& t : c.threads)
            if (!t.empty() && (t[0].name == "prod" || t[0].name == "mix" || t[0].name == "mixprod")) ++nprod;

        // phase 0: single-threaded prefill
        long long pre = c.geti("pre", 0);
        q.observe_empty(me);
        for (long long i = 0; i < pre; ++i) q.push(me, me.fresh());
        if (pre > 0) q.observe_empty(me);
        me.rec(PHASE, 1);

        std::vector<std::thread> th;
        for (std::size_t i = 0; i < T; ++i)
        {
            th.emplace_back([&, i] {
                actor& a = actors[i];
                g_arrived.fetch_add(1);
                while (g_go.load(std::memory_order_acquire) == 0) std::this_thread::yield();
                if (c.threads[i].empty()) return;
                auto const& op = c.threads[i][0];
                long long n = op.args.empty() ? 0 : op.args[0];
                if (op.name == "prod")
                {
                    for (long long k = 0; k < n; ++k)
                    {
                        q.push(a, a.fresh());
                        g_pushes_done.fetch_add(1);
                    }
                    g_producers_done.fetch_add(1);
                }
                else if (op.name == "mix")
                {
                    for (long long k = 0; k < n; ++k)
                    {
                        q.push(a, a.fresh());
                        g_pushes_done.fetch_add(1);
                        q.pop(a, false);
                    }
                    g_producers_done.fetch_add(1);
                }
                else if (op.name == "mixprod")
                {
                    // n times push+pop (blocks get consumed, the producer's block index ring advances), then a backlog of
                    // args[1] pushes by the same producer
                    long long m = op.args.size() > 1 ? op.args[1] : 0;
                    for (long long k = 0; k < n; ++k)
                    {
                        q.push(a, a.fresh());
                        g_pushes_done.fetch_add(1);
                        q.pop(a, false);
                    }
                    for (long long k = 0; k < m; ++k)
                    {
                        q.push(a, a.fresh());
                        g_pushes_done.fetch_add(1);
                    }
                    g_producers_done.fetch_add(1);
                }
                else if (op.name == "cons") { consumer(q, a, nprod, false, n); }
                else if (op.name == "ucons") { consumer(q, a, nprod, true, n); }
            });
        }
        // start all threads together (the wait is for arrival only, never for a verdict)
        while (g_arrived.load() != int(T)) std::this_thread::yield();
        g_go.store(1, std::memory_order_release);
        for (auto& t : th) t.join();

        // phase 2: quiescent; observe, drain single-threaded, observe
        me.rec(PHASE, 2);
        q.observe_empty(me);
        q.no_steal_limit();    // the drain is a plain get_next_thread (allow_stealing = false)
        while (q.pop(me, false)) {}
        // mode 1: the guarded pop stops at count == 0 without touching the queue; ask the queue itself as well
        q.observe_empty(me);

        std::vector<rec_t> all;
        for (auto& a : actors) all.insert(all.end(), a.log.begin(), a.log.end());
        std::sort(all.begin(), all.end(), [](rec_t const& x, rec_t const& y) { return x.stamp < y.stamp; });
        for (auto const& r : all) std::printf("%u %s %lld %lld %llu\n", r.tid, kind_name[r.kind], r.obj, r.a, (unsigned long long) r.stamp);
        std::printf("end ok\n");
        std::fflush(stdout);
    }

    void run_one(case_t const& c)
    {
        std::uint64_t init = std::uint64_t(c.geti("init", 0));
        bool oe = c.geti("oe", 0) != 0;
        if (c.geti("mode", 0) == 0)
        {
            plain_queue q(init, oe);
            run_threads(q, c);
        }
        else
        {
            counted_queue q(init, c.geti("lim", 0), oe);
            run_threads(q, c);
        }
    }
}    // namespace

int main(int argc, char** argv)
{
    if (argc < 2) return 2;
    // real threads on a possibly very loaded machine: generous wall limit (a stall is never a verdict)
    return run_case_file(argv[1], run_one, 3600);
}
