// E0 interpreter harness for C03: builds *runtime* sender pipelines from a term string and runs
// them on pika's own sender adaptors (PIKA_WITH_STDEXEC=OFF).  Without a pool scheduler in the term
// no pika runtime is started and the pipeline completes inline on the calling OS thread; a term
// that uses scheduler `p` (pika's thread_pool_scheduler) starts the runtime (2 workers) in the
// case's child process, completions then arrive on worker threads and the main thread waits for
// the runtime to become idle (state based, no timeout) before it prints `count` and the ledger.  All stages are type-erased into
// unique_any_sender<V>, V = std::vector<P>, P = ledger-instrumented payload.
//
// Build (from the framework root):
//   g++ -O1 harness/e0/snd.cpp $(tools/pika_flags.sh hooks) -o build/bin/e0_snd
// ASan: adding `-g -fsanitize=address -fno-omit-frame-pointer` works against the (uninstrumented)
// libpika.so: same output as the plain build, no false positives (13 s compile, ~4x slower run).
// The terminal receiver of consumer=recv deletes the heap operation state from inside the
// completion call, so any touch of the operation state after completion is an ASan report.
//
// Case file:  case <id> term=<T> consumer=<recv|detached|sync> [static=1|2] [spre=1] / endcase   (grammar: see parse())
// Output per case: `sig ...` (probe), `recv ...`/`ret ...`, `count n`, `xl ...` (C03s monitors), `ledger ...`, `end ok`.
//
// C03s: with -DSND_PURE / -DSND_REF the binary also has a STATICALLY TYPED builder (snd_static.hpp) used for cases
// with `static=1` (pure catalogue: no erasure at all) resp. `static=2` (REF tier: any term, references preserved).
// All binaries print the `xl` lines: exception ledger observations (`xl exc <where> alive|dead|null ...`), late
// deliveries, hollow callables and `xl end` (tier, holes, exception ledger totals).
#include "../e1_main.hpp"

#include <pika/execution.hpp>
#include <pika/execution_base/any_sender.hpp>
#include <pika/init.hpp>

#include <atomic>
#include <mutex>
#include <thread>

#include <cstdarg>
#include <exception>
#include <memory>
#include <optional>
#include <string>
#include <tuple>
#include <unordered_map>
#include <unordered_set>
#include <utility>
#include <variant>
#include <vector>
#include <algorithm>

#pragma GCC diagnostic ignored "-Wdeprecated-declarations"    // transfer_just

namespace ex = pika::execution::experimental;
namespace tt = pika::this_thread::experimental;
using verif::case_t;

// every line is flushed immediately so that it survives an abort of the child
static void out(char const* fmt, ...)
{
    va_list ap;
    va_start(ap, fmt);
    std::vprintf(fmt, ap);
    va_end(ap);
    std::fputc('\n', stdout);
    std::fflush(stdout);
}

// ---------------------------------------------------------------- EXCEPTION LEDGER (C03s)
// Every exception object of the harness is an instance of verif_exc with an instance ledger: the
// constructor (and the copy constructor: make_exception_ptr / throw copy the temporary into the
// exception object) registers the address, the destructor removes it.  `origin` numbers the logical
// exception (one per throw site execution / error leaf start), copies keep it.  An exception_ptr is
// inspected WITHOUT touching the exception object unless the ledger says it is alive (libstdc++:
// the first word of an exception_ptr is the address of the exception object).
struct xledger_t
{
    std::mutex m;
    std::unordered_map<void const*, long> live;    // exception object -> origin
    std::vector<long long> origin_code;            // origin -> code
    long ctor = 0, dtor = 0, bad = 0;
};
static xledger_t& XL()
{
    static xledger_t* l = new xledger_t;    // leaked on purpose
    return *l;
}
struct verif_exc
{
    long long code;
    long origin;
    std::string msg;
    explicit verif_exc(long long c)
      : code(c)
      , msg("verif_exc " + std::to_string(c))
    {
        std::lock_guard<std::mutex> g(XL().m);
        origin = long(XL().origin_code.size());
        XL().origin_code.push_back(c);
        if (!XL().live.emplace(this, origin).second) XL().bad++;
        XL().ctor++;
    }
    verif_exc(verif_exc const& o)
      : code(o.code)
      , origin(o.origin)
      , msg(o.msg)
    {
        std::lock_guard<std::mutex> g(XL().m);
        if (!XL().live.count(&o)) XL().bad++;    // copied from a destroyed exception object
        if (!XL().live.emplace(this, origin).second) XL().bad++;
        XL().ctor++;
    }
    verif_exc& operator=(verif_exc const&) = delete;
    ~verif_exc()
    {
        std::lock_guard<std::mutex> g(XL().m);
        if (!XL().live.erase(this)) XL().bad++;    // destroyed twice
        XL().dtor++;
    }
};
struct xinfo
{
    bool null = false, alive = false, same = false;    // same: object, origin, code and message agree
    long long code = -1;
    long origin = -1;
};
static xinfo inspect(std::exception_ptr const& ep)
{
    xinfo x;
    if (!ep)
    {
        x.null = true;
        return x;
    }
    static_assert(sizeof(std::exception_ptr) == sizeof(void*), "libstdc++ layout of exception_ptr expected");
    void const* raw = nullptr;
    std::memcpy(&raw, &ep, sizeof raw);    // libstdc++ layout: the address of the exception object
    {
        std::lock_guard<std::mutex> g(XL().m);
        auto it = XL().live.find(raw);
        if (it == XL().live.end()) return x;    // dead (or foreign): never dereferenced
        x.alive = true;
        x.origin = it->second;
    }
    try
    {
        std::rethrow_exception(ep);
    }
    catch (verif_exc const& e)
    {
        x.code = e.code;
        std::lock_guard<std::mutex> g(XL().m);
        x.same = static_cast<void const*>(&e) == raw && e.origin == x.origin &&
            std::size_t(e.origin) < XL().origin_code.size() && XL().origin_code[e.origin] == e.code &&
            e.msg == "verif_exc " + std::to_string(e.code);
    }
    catch (...)
    {
    }
    return x;
}
// the delivered exception at a named observation point: one `xl exc` line for the monitors
static long long observe_exc(char const* where, std::exception_ptr const& ep)
{
    xinfo x = inspect(ep);
    out("xl exc %s %s origin=%ld code=%lld same=%d", where, x.null ? "null" : (x.alive ? "alive" : "dead"),
        x.origin, x.code, int(x.same));
    return x.code;
}
static long long code_of(std::exception_ptr const& ep) { return inspect(ep).code; }

// ---------------------------------------------------------------- LEDGER
struct ledger_t
{
    std::mutex m;    // pool cases: payloads are created and destroyed on worker threads as well
    std::unordered_set<void const*> live;
    long ctor = 0, dtor = 0, bad = 0;
};
static ledger_t& L()
{
    static ledger_t* l = new ledger_t;    // leaked on purpose: no static destruction order issue
    return *l;
}
struct P
{
    long long v;
    bool moved = false;    // C03s: a moved-from payload that is delivered prints as M<v>
    void reg()
    {
        std::lock_guard<std::mutex> g(L().m);
        if (!L().live.insert(this).second) L().bad++;    // constructed over a live object
        L().ctor++;
    }
    static void chk(P const* p)
    {
        std::lock_guard<std::mutex> g(L().m);
        if (!L().live.count(p)) L().bad++;
    }
    P(long long x = 0) : v(x) { reg(); }
    P(P const& o) : v(o.v) { chk(&o), reg(); }
    P(P&& o) noexcept : v(o.v), moved(o.moved) { chk(&o), reg(), o.moved = true; }
    P& operator=(P const& o) { return chk(&o), chk(this), v = o.v, moved = o.moved, *this; }
    P& operator=(P&& o) noexcept { return chk(&o), chk(this), v = o.v, moved = o.moved, o.moved = true, *this; }
    ~P()
    {
        std::lock_guard<std::mutex> g(L().m);
        if (!L().live.erase(this)) L().bad++;
        L().dtor++;
    }
};
using V = std::vector<P>;
using snd = ex::unique_any_sender<V>;

static std::string show(V const& v)
{
    std::string s;
    for (auto const& p : v)
    {
        P::chk(&p);    // a delivered payload must be a live object
        s += (p.moved ? " M" : " ") + std::to_string(p.v);
    }
    return s;
}
static V mk(std::vector<long long> const& is)
{
    V v;
    v.reserve(is.size());
    for (auto i : is) v.emplace_back(i);
    return v;
}
static V cat(V a, V const& b)
{
    a.insert(a.end(), b.begin(), b.end());
    return a;
}

// ---------------------------------------------------------------- TERMS
struct Fn
{
    std::string name;
    std::vector<long long> a;
};
struct Node
{
    std::string op;
    std::vector<long long> ints;
    Fn f;
    char s = 'v';    // scheduler: inline completing with v | e | s, or p = thread_pool_scheduler
    long long scode = 0;
    std::vector<Node> kids;
};

struct parse_error
{
    std::string msg;
};
struct parser
{
    std::string const& s;
    std::size_t p = 0;
    [[noreturn]] void fail(std::string m) { throw parse_error{m + " at " + std::to_string(p)}; }
    char peek() const { return p < s.size() ? s[p] : '\0'; }
    void expect(char c)
    {
        if (peek() != c) fail(std::string("expected '") + c + "'");
        ++p;
    }
    std::string ident()
    {
        std::size_t b = p;
        while (std::isalpha((unsigned char) peek())) ++p;
        if (b == p) fail("expected identifier");
        return s.substr(b, p - b);
    }
    long long integer()
    {
        std::size_t b = p;
        if (peek() == '-') ++p;
        while (std::isdigit((unsigned char) peek())) ++p;
        if (b == p || (s[b] == '-' && p == b + 1)) fail("expected integer");
        return std::atoll(s.substr(b, p - b).c_str());
    }
    std::vector<long long> ints()    // possibly empty, ':' separated
    {
        std::vector<long long> r;
        if (peek() != '-' && !std::isdigit((unsigned char) peek())) return r;
        r.push_back(integer());
        while (peek() == ':')
        {
            ++p;
            r.push_back(integer());
        }
        return r;
    }
    Fn fn()
    {
        Fn f;
        f.name = ident();
        if (peek() == ':')
        {
            ++p;
            f.a = ints();
        }
        static char const* known[] = {"add", "rev", "sum", "dup", "id", "thr", "throdd", "const"};
        bool ok = false;
        for (auto k : known) ok = ok || f.name == k;
        if (!ok) fail("unknown function " + f.name);
        if ((f.name == "add" || f.name == "thr" || f.name == "throdd") && f.a.size() != 1)
            fail(f.name + " needs one argument");
        return f;
    }
    void sched(Node& n)
    {
        std::string k = ident();
        if (k == "v" || k == "s" || k == "p") n.s = k[0];
        else if (k == "e")
        {
            expect(':');
            n.s = 'e';
            n.scode = integer();
        }
        else fail("bad scheduler " + k);
    }
    Node term()
    {
        Node n;
        n.op = ident();
        expect('(');
        auto const& o = n.op;
        if (o == "just") n.ints = ints();
        else if (o == "err") n.ints.push_back(integer());
        else if (o == "stop" || o == "arg") {}
        else if (o == "then" || o == "lv" || o == "le")
        {
            n.f = fn();
            expect(',');
            n.kids.push_back(term());
            if (o != "then")
            {
                expect(',');
                n.kids.push_back(term());
            }
        }
        else if (o == "dv" || o == "un" || o == "sp" || o == "es" || o == "rs" || o == "dos")
            n.kids.push_back(term());
        else if (o == "sd") sched(n);
        else if (o == "bulk")
        {
            n.ints.push_back(integer());
            if (n.ints[0] < 0 || n.ints[0] > 4) fail("bulk shape must be 0..4");
            expect(',');
            n.f = fn();
            expect(',');
            n.kids.push_back(term());
        }
        else if (o == "co")
        {
            sched(n);
            expect(',');
            n.kids.push_back(term());
        }
        else if (o == "tj")
        {
            sched(n);
            expect(',');
            n.ints = ints();
        }
        else if (o == "wa" || o == "wv")
        {
            if (peek() != ')')
            {
                n.kids.push_back(term());
                while (peek() == ',')
                {
                    ++p;
                    n.kids.push_back(term());
                }
            }
            if (o == "wa" && (n.kids.empty() || n.kids.size() > 4)) fail("wa takes 1..4 children");
        }
        else if (o == "st")
        {
            n.ints.push_back(integer());
            if (n.ints[0] != 0 && n.ints[0] != 1) fail("st index must be 0 or 1");
            expect(',');
            n.kids.push_back(term());
        }
        else fail("unknown operator " + o);
        expect(')');
        return n;
    }
};

static V apply(Fn const& f, V v)
{
    auto sum = [&] {
        long long s = 0;
        for (auto const& p : v) s += p.v;
        return s;
    };
    if (f.name == "add")
    {
        for (auto& p : v) p.v += f.a[0];
        return v;
    }
    if (f.name == "rev") return V(v.rbegin(), v.rend());
    if (f.name == "sum") return V{P(sum())};
    if (f.name == "dup") return cat(v, v);
    if (f.name == "thr") throw verif_exc{f.a[0]};
    if (f.name == "throdd" && sum() % 2 != 0) throw verif_exc{f.a[0]};
    if (f.name == "const") return mk(f.a);
    return v;    // id, throdd (even)
}

// ---------------------------------------------------------------- CUSTOM SENDERS
#define SND_TRAITS(VAL)                                                                            \
    PIKA_STDEXEC_SENDER_CONCEPT                                                                    \
    template <template <class...> class Tuple, template <class...> class Variant>                  \
    using value_types = Variant<Tuple<VAL>>;                                                       \
    template <template <class...> class Variant>                                                   \
    using error_types = Variant<std::exception_ptr>;                                               \
    static constexpr bool sends_done = true;

// leaf completing inline: kind 'v' set_value(vals...) / 'e' set_error(verif_exc{code}) / 's' stopped
template <class R, class... Vals>
struct leaf_op
{
    std::decay_t<R> r;
    char kind;
    long long code;
    void start() & noexcept
    {
        auto rr = std::move(r);
        if (kind == 'e') ex::set_error(std::move(rr), std::make_exception_ptr(verif_exc{code}));
        else if (kind == 's') ex::set_stopped(std::move(rr));
        else if constexpr (sizeof...(Vals) == 0) ex::set_value(std::move(rr));
    }
};
struct leaf_sender    // err(e), stop(): value channel declared (V) but never used
{
    SND_TRAITS(V)
    char kind;
    long long code;
    template <class R>
    leaf_op<R, V> connect(R&& r) const
    {
        return {std::forward<R>(r), kind, code};
    }
};

struct inline_scheduler
{
    char kind;
    long long code;
    struct sender
    {
        PIKA_STDEXEC_SENDER_CONCEPT
        template <template <class...> class Tuple, template <class...> class Variant>
        using value_types = Variant<Tuple<>>;
        template <template <class...> class Variant>
        using error_types = Variant<std::exception_ptr>;
        static constexpr bool sends_done = true;
        char kind;
        long long code;
        template <class R>
        leaf_op<R> connect(R&& r) const
        {
            return {std::forward<R>(r), kind, code};
        }
        struct env
        {
            char kind;
            long long code;
            friend inline_scheduler tag_invoke(
                ex::get_completion_scheduler_t<ex::set_value_t>, env const& e) noexcept
            {
                return {e.kind, e.code};
            }
        };
        env get_env() const& noexcept { return {kind, code}; }
    };
    friend sender tag_invoke(ex::schedule_t, inline_scheduler s) { return {s.kind, s.code}; }
    bool operator==(inline_scheduler const& o) const noexcept
    {
        return kind == o.kind && code == o.code;
    }
    bool operator!=(inline_scheduler const& o) const noexcept { return !(*this == o); }
};

// forwarding adaptor over an erased sender; Pol decides what happens on each channel
template <class Pol, class R>
struct wrap_recv
{
    PIKA_STDEXEC_RECEIVER_CONCEPT
    std::decay_t<R> r;
    void set_value(V v) && noexcept
    {
        auto rr = std::move(r);    // our storage may be released by the downstream completion
        Pol::value(std::move(rr), std::move(v));
    }
    void set_error(std::exception_ptr e) && noexcept
    {
        auto rr = std::move(r);
        Pol::error(e);
        ex::set_error(std::move(rr), std::move(e));
    }
    void set_stopped() && noexcept
    {
        auto rr = std::move(r);
        Pol::stopped();
        ex::set_stopped(std::move(rr));
    }
    constexpr ex::empty_env get_env() const& noexcept { return {}; }
};
template <class Pol>
struct wrap
{
    SND_TRAITS(typename Pol::out_t)
    snd inner;
    template <class R>
    auto connect(R&& r) &&
    {
        return ex::connect(std::move(inner), wrap_recv<Pol, R>{std::forward<R>(r)});
    }
};
// C03s: set once the terminal receiver has destroyed the operation state; any signal that reaches
// the probe or the terminal receiver afterwards is reported (`xl late`)
static std::atomic<bool> g_released{false};
static std::atomic<int> g_late{0};
static void late_check(char const* where)
{
    if (g_released.load())
    {
        ++g_late;
        out("xl late %s", where);
    }
}
struct glue_pol    // forwards everything; only purpose: sends_done = true
{
    using out_t = V;
    template <class R>
    static void value(R&& r, V v)
    {
        ex::set_value(std::move(r), std::move(v));
    }
    static void error(std::exception_ptr const&) {}
    static void stopped() {}
};
struct tuple_pol : glue_pol    // v -> tuple(v, reversed v)
{
    using out_t = std::tuple<V, V>;
    template <class R>
    static void value(R&& r, V v)
    {
        V w(v.rbegin(), v.rend());
        ex::set_value(std::move(r), std::tuple<V, V>(std::move(v), std::move(w)));
    }
};
struct probe_pol    // prints one `sig` line per completion signal, then forwards
{
    using out_t = V;
    template <class R>
    static void value(R&& r, V v)
    {
        out_("sig value", show(v));
        ex::set_value(std::move(r), std::move(v));
    }
    static void error(std::exception_ptr const& e)
    {
        late_check("probe");
        out("sig error %lld", observe_exc("probe", e));
    }
    static void stopped()
    {
        late_check("probe");
        out("sig stopped");
    }
    static void out_(char const* h, std::string const& s)
    {
        late_check("probe");
        out("%s%s", h, s.c_str());
    }
};
using glue = wrap<glue_pol>;
using tuple_glue = wrap<tuple_pol>;
using probe = wrap<probe_pol>;

// ---------------------------------------------------------------- BUILDER
using env_t = std::shared_ptr<V const>;
static snd build(Node const& n, env_t env);

template <std::size_t>
using Vt = V;
template <std::size_t... I>
static snd build_wa(Node const& n, env_t const& env, std::index_sequence<I...>)
{
    std::vector<snd> k;    // built left to right
    for (auto const& c : n.kids) k.push_back(build(c, env));
    return ex::when_all(std::move(k[I])...) | ex::then([](Vt<I>... vs) {
        V r;
        ((r = cat(std::move(r), vs)), ...);
        return r;
    });
}

static snd build(Node const& n, env_t env)
{
    Node const* np = &n;    // the parse tree outlives every sender
    auto const& o = n.op;
    if (o == "just") return ex::just(mk(n.ints));
    if (o == "err") return leaf_sender{'e', n.ints[0]};
    if (o == "stop") return leaf_sender{'s', 0};
    if (o == "arg") return ex::just(V(*env));
    if (o == "then")
        return build(n.kids[0], env) | ex::then([np](V v) -> V { return apply(np->f, std::move(v)); });
    if (o == "lv")
        return build(n.kids[0], env) | ex::let_value([np](V& v) -> snd {
            V r = apply(np->f, v);
            return build(np->kids[1], std::make_shared<V const>(std::move(r)));
        });
    if (o == "le")
        return build(n.kids[0], env) | ex::let_error([np](std::exception_ptr& ep) -> snd {
            V r = apply(np->f, V{P(code_of(ep))});
            return build(np->kids[1], std::make_shared<V const>(std::move(r)));
        });
    if (o == "dv") return build(n.kids[0], env) | ex::drop_value() | ex::then([] { return V{}; });
    if (o == "un")
        return build(n.kids[0], env) | ex::then([](V v) {
            auto mid = v.begin() + std::ptrdiff_t(v.size() / 2);
            return std::tuple<V, V>(V(v.begin(), mid), V(mid, v.end()));
        }) | ex::unpack() |
            ex::then([](V a, V b) { return cat(std::move(a), b); });
    if (o == "co")
    {
        if (n.s == 'p') return ex::continues_on(build(n.kids[0], env), ex::thread_pool_scheduler{});
        return ex::continues_on(build(n.kids[0], env), inline_scheduler{n.s, n.scode});
    }
    if (o == "tj")
    {
        if (n.s == 'p') return ex::transfer_just(ex::thread_pool_scheduler{}, mk(n.ints));
        return ex::transfer_just(inline_scheduler{n.s, n.scode}, mk(n.ints));
    }
    if (o == "sd")
    {
        if (n.s == 'p') return ex::schedule(ex::thread_pool_scheduler{}) | ex::then([] { return V{}; });
        return ex::schedule(inline_scheduler{n.s, n.scode}) | ex::then([] { return V{}; });
    }
    if (o == "bulk")    // every stage is erased, so no completion scheduler: the generic fallback
        return build(n.kids[0], env) | ex::bulk(int(n.ints[0]), [np](int i, V& v) {
            v = apply(np->f, cat(v, V{P(i)}));
        });
    if (o == "rs") return ex::require_started(build(n.kids[0], env));
    if (o == "dos") return ex::drop_operation_state(build(n.kids[0], env));
    if (o == "wa")
    {
        switch (n.kids.size())
        {
        case 1: return build_wa(n, env, std::make_index_sequence<1>{});
        case 2: return build_wa(n, env, std::make_index_sequence<2>{});
        case 3: return build_wa(n, env, std::make_index_sequence<3>{});
        default: return build_wa(n, env, std::make_index_sequence<4>{});
        }
    }
    if (o == "wv")
    {
        std::vector<glue> vec;
        for (auto const& c : n.kids) vec.push_back(glue{build(c, env)});
        return ex::when_all_vector(std::move(vec)) | ex::then([](std::vector<V> vv) {
            V r;
            for (auto& x : vv) r = cat(std::move(r), x);
            return r;
        });
    }
    if (o == "sp") return ex::split(build(n.kids[0], env));
    if (o == "es") return ex::ensure_started(build(n.kids[0], env));
    if (o == "st")
    {
        auto tup = ex::split_tuple(tuple_glue{build(n.kids[0], env)});
        // the other element is dropped without ever being connected
        if (n.ints[0] == 0) return snd(std::get<0>(std::move(tup)));
        return snd(std::get<1>(std::move(tup)));
    }
    std::abort();    // unreachable: the parser rejects unknown operators
}

// ---------------------------------------------------------------- CONSUMERS
static std::atomic<int> g_calls{0};
static void release_op();
struct term_recv
{
    PIKA_STDEXEC_RECEIVER_CONCEPT
    // each completion call releases the heap operation state from inside the call
    void set_value(V v) && noexcept
    {
        late_check("recv");
        ++g_calls;
        out("recv value%s", show(v).c_str());
        release_op();
    }
    void set_error(std::exception_ptr e) && noexcept
    {
        late_check("recv");
        ++g_calls;
        out("recv error %lld", observe_exc("recv", e));
        release_op();
        // the operation state is gone; the exception must still be alive through our own reference
        observe_exc("after-release", e);
    }
    void set_stopped() && noexcept
    {
        late_check("recv");
        ++g_calls;
        out("recv stopped");
        release_op();
    }
    constexpr ex::empty_env get_env() const& noexcept { return {}; }
};
using term_op = ex::connect_result_t<probe, term_recv>;
static term_op* g_op = nullptr;
static void (*g_release_static)() = nullptr;    // C03s: deleter of the statically typed operation state
static void release_op()
{
    if (g_release_static)
    {
        auto f = g_release_static;
        g_release_static = nullptr;
        f();
    }
    delete g_op;    // a second completion call shows up as count 2 (and as ASan use-after-free)
    g_op = nullptr;
    g_released = true;
}

#if defined(SND_REF) || defined(SND_PURE)
#include "snd_static.hpp"
#endif

static bool uses_pool(Node const& n)
{
    if (n.s == 'p') return true;
    for (auto const& k : n.kids)
        if (uses_pool(k)) return true;
    return false;
}
// pool cases: wait until the runtime is idle (every task, including the tail of the task that made
// the completion call, has finished).  State based; repeated because idleness is only a snapshot.
static void quiesce(bool pool, bool need_signal)
{
    if (!pool) return;
    for (int i = 0; i < 1000; ++i)
    {
        pika::wait();
        if (!need_signal || g_calls.load() > 0) break;
        std::this_thread::yield();
    }
    pika::wait();
}

static void run_one(case_t const& c)
{
    std::string term = c.gets("term"), consumer = c.gets("consumer", "recv");
    Node root;
    try
    {
        parser ps{term};
        root = ps.term();
        if (ps.p != term.size()) ps.fail("trailing input");
        if (consumer != "recv" && consumer != "detached" && consumer != "sync")
            throw parse_error{"unknown consumer " + consumer};
    }
    catch (parse_error const& e)
    {
        out("parse-error %s", e.msg.c_str());
        out("end ok");
        return;
    }
    bool const pool = uses_pool(root);
    if (pool)
    {
        char const* argv[] = {"e0", "--pika:threads=2", "--pika:bind=none", nullptr};
        pika::start(nullptr, 3, argv);
    }
    long const smode = long(c.geti("static", 0));
    char const* tier = "erased";
    int shape = -1;
    long holes = 0;
#if defined(SND_REF) || defined(SND_PURE)
    g_spre = c.geti("spre", 0) != 0;
#endif
    if (smode >= 1)
    {
        // C03s: statically typed pipeline (see snd_static.hpp); a binary has one of the two tiers
#if defined(SND_PURE)
        senv env0{nullptr, std::make_shared<V const>(), nullptr};
        if (consumer == "recv") shape = run_pure(root, env0, pure_catalogue{});
        if (shape < 0)
        {
            out("xl nomatch");    // not a catalogue shape: the check re-runs the case on the REF tier
            out("end ok");
            return;
        }
        tier = "pure";
        quiesce(pool, true);
        out("count %d", g_calls.load());
        if (g_calls == 0) drop_unfinished_static();
#elif defined(SND_REF)
        senv env0{nullptr, std::make_shared<V const>(), nullptr};
        tier = "ref";
        auto make = [&] { return sprobe<SBTop::type>{SBTop::build(root, env0), {}}; };
        if (consumer == "recv")
        {
            run_recv_static(SBTop::build(root, env0));
            quiesce(pool, true);
            out("count %d", g_calls.load());
            if (g_calls == 0) drop_unfinished_static();
        }
        else if (consumer == "detached")
        {
            ex::start_detached(make());
            quiesce(pool, false);
            out("count 1");
        }
        else
        {
            try
            {
                V r = tt::sync_wait(make());
                quiesce(pool, false);
                out("ret value%s", show(r).c_str());
            }
            catch (verif_exc const& e)
            {
                quiesce(pool, false);
                observe_exc("ret", std::current_exception());
                out("ret error %lld", e.code);
            }
            catch (...)
            {
                out("ret error -1");
            }
        }
        holes = g_holes;
#else
        out("xl nostatic");    // this binary has no static tier
        out("end ok");
        return;
#endif
    }
    else
    {
        auto make = [&] { return probe{build(root, std::make_shared<V const>())}; };
        if (consumer == "recv")
        {
            g_op = new auto(ex::connect(make(), term_recv{}));
            ex::start(*g_op);
            quiesce(pool, true);
            out("count %d", g_calls.load());
            if (g_calls == 0)    // never completed: releasing an unfinished operation is legal
            {
                delete g_op;
                g_op = nullptr;
            }
        }
        else if (consumer == "detached")
        {
            ex::start_detached(make());    // error completion terminates by design
            quiesce(pool, false);
            out("count 1");
        }
        else
        {
            try
            {
                V r = tt::sync_wait(make());    // stopped terminates by design
                quiesce(pool, false);
                out("ret value%s", show(r).c_str());
            }
            catch (verif_exc const& e)
            {
                quiesce(pool, false);
                observe_exc("ret", std::current_exception());
                out("ret error %lld", e.code);
            }
            catch (...)
            {
                out("ret error -1");
            }
        }
    }
    {
        std::lock_guard<std::mutex> g(XL().m);
        out("xl end tier=%s shape=%d holes=%ld late=%d xctor=%ld xdtor=%ld xlive=%zu xbad=%ld", tier, shape, holes,
            g_late.load(), XL().ctor, XL().dtor, XL().live.size(), XL().bad);
    }
    out("ledger ctor=%ld dtor=%ld live=%zu bad=%ld", L().ctor, L().dtor, L().live.size(), L().bad);
    out("end ok");
}

int main(int argc, char** argv)
{
    if (argc < 2)
    {
        std::fprintf(stderr, "usage: %s <case-file>\n", argv[0]);
        return 2;
    }
    return verif::run_case_file(argv[1], run_one);
}
