import PikaVerif.Model.WhenAll
/-!
# Life cycle of the `when_all` / `when_all_vector` operation state (C03, follow-up C03w)

A *layer* on `Model/WhenAll.lean` (which is unchanged: every Stage-2b theorem keeps holding and applies
to the projection `s.b`).  The protocol underneath is the code as it is
(`libs/pika/execution/include/pika/execution/algorithms/when_all.hpp`, `when_all_vector.hpp`): `n`
child receivers run concurrently (on any threads, or inline in the start loop); each child

* `sig`   - accesses the flag `set_stopped_error_called` and stores its result: a value child loads the
            flag and, if it is clear, emplaces its value (`store` note); an error child does
            `exchange(true)` and, if it won, stores its error (`latch` note); a stopped child stores `true`;
* `dec`   - `finish()`: `--predecessors_remaining` (the old value is `remaining` of the pre-state);
* the child whose decrement reached zero, and only that one, goes on: `zero` (reads the flag and
  `error.has_value()`), `rcv` (reads the stored results and completes the downstream receiver with value /
  error / stopped), then returns.

when_all has no stop source: a failing child does **not** request stop of its siblings (nothing to model).

What the layer adds (history fields, never tested by `step` except in the `n = 0` branch):

* `started`, `starterT` - `start()` was called, by thread `starterT`;
* `cur t`   - the child whose receiver call thread `t` is executing;
* `lastC`   - the child whose decrement reached zero; `issuer` / `issuerT` - the child / thread that called
              the downstream receiver;
* `freed`, `nfree`, `uaf` - the downstream receiver may destroy the whole operation state inside its
  completion call (`selfdel`: `start_detached`, `sync_wait`'s owner, the harness' `self_deleting_op`); an event
  that reads or writes the operation state (`touches`) after that sets `uaf`.  The acceptor never refuses
  such an event.
* `vector` - `when_all_vector`: `n = 0` is allowed and `start()` completes the downstream receiver directly
  with the empty vector (when_all: `static_assert(num_predecessors > 0)`, no event is accepted for `n = 0`).
-/
namespace PikaVerif.WhenAllLife
open PikaVerif PikaVerif.WhenAll

structure Cfg where
  /-- `when_all_vector` (any `n`), otherwise `when_all` (`n ≥ 1`) -/
  vector : Bool
  /-- the downstream receiver destroys the operation state inside its completion call -/
  selfdel : Bool
  deriving DecidableEq, Repr

structure St where
  b : WhenAll.St
  cfg : Cfg
  started : Bool
  starterT : Nat
  cur : Nat → Option Nat
  lastC : Option Nat
  issuer : Option Nat
  issuerT : Option Nat
  freed : Bool
  nfree : Nat
  uaf : Bool

def init (c : Cfg) (n : Nat) : St :=
  { b := WhenAll.init n, cfg := c, started := false, starterT := 0, cur := fun _ => none, lastC := none, issuer := none,
    issuerT := none, freed := false, nfree := 0, uaf := false }

/-- Events that read or write the operation state: `start()` (reads the child operation states), a leaf
    completing its receiver (the leaf's operation state is a member of the when_all operation state), every
    step of a child receiver call.  `invComplete` only touches the harness' trigger, `ret` / `tdone` are
    returns. -/
def touches : Ev → Bool
  | .invComplete _ _ _ _ | .ret _ | .tdone _ => false
  | _ => true

/-- The child on whose behalf an event is made (`none`: the starter / the harness). -/
def actor (s : St) : Ev → Option Nat
  | .fire _ i _ _ => some i
  | .sig t _ | .latch t | .store t _ | .dec t | .zero t _ _ | .rcv t _ _ => s.cur t
  | _ => none

def curAfter (s : St) : Ev → Nat → Option Nat
  | .fire t i _ _ => upd s.cur t (some i)
  | .dec t => if s.b.remaining = 1 then s.cur else upd s.cur t none
  | .rcv t _ _ => upd s.cur t none
  | _ => s.cur

def lastAfter (s : St) : Ev → Option Nat
  | .dec t => if s.b.remaining = 1 then s.cur t else s.lastC
  | _ => s.lastC

def starterAfter (s : St) : Ev → Nat
  | .invStart t => t
  | _ => s.starterT

def isRcv : Ev → Bool
  | .rcv _ _ _ => true
  | _ => false

def tidOf : Ev → Nat
  | .invStart t | .invComplete t _ _ _ | .fire t _ _ _ | .sig t _ | .latch t | .store t _ | .dec t
  | .zero t _ _ | .rcv t _ _ | .ret t | .tdone t => t

def b2n (b : Bool) : Nat := if b then 1 else 0

/-- `when_all_vector` without predecessors: `start()` calls `set_value(receiver, {})` and returns. -/
def step0 (s : St) : Ev → Option St
  | .invStart t =>
    if s.b.pc t = .idle ∧ s.started = false then
      some { s with b := { s.b with pc := upd s.b.pc t .starting }, started := true, starterT := t, uaf := s.uaf || s.freed }
    else none
  | .rcv t ch v =>
    if s.b.pc t = .starting ∧ s.b.delivered = 0 ∧ ch = 0 ∧ v = 0 then
      some { s with b := { s.b with delivered := 1, result := some (0, 0) }, issuerT := some t,
                    freed := s.cfg.selfdel, nfree := b2n s.cfg.selfdel, uaf := s.uaf || s.freed }
    else none
  | .ret t =>
    if s.b.pc t = .starting ∧ s.b.delivered = 1 then
      some { s with b := { s.b with pc := upd s.b.pc t .idle } }
    else none
  | .tdone t =>
    if s.b.pc t = .idle then some { s with b := { s.b with pc := upd s.b.pc t .fin } } else none
  | _ => none

def step (s : St) (e : Ev) : Option St :=
  if s.b.n = 0 then (if s.cfg.vector = true then step0 s e else none)
  else
    match WhenAll.step s.b e with
    | none => none
    | some b' =>
      some { s with b := b', started := true, starterT := starterAfter s e, cur := curAfter s e, lastC := lastAfter s e,
                    issuer := if isRcv e then s.cur (tidOf e) else s.issuer,
                    issuerT := if isRcv e then some (tidOf e) else s.issuerT,
                    freed := s.freed || (isRcv e && s.cfg.selfdel),
                    nfree := s.nfree + b2n (isRcv e && s.cfg.selfdel),
                    uaf := s.uaf || (s.freed && touches e) }

end PikaVerif.WhenAllLife
