import PikaVerif.Core.Basic
/-!
# Model of pika's sender adaptors, sequential part (C03, stage 1)

A term language for sender pipelines, its *denotation* (the completion signal the composition
stands for) and an *operational* semantics that follows the C++ of
`libs/pika/execution/include/pika/execution/algorithms/*.hpp` (non-stdexec build):

* every adaptor is rendered as what its `connect`/`start` and its receiver do: receivers are
  state transformers `Sig → M → M` (a call of `set_value/set_error/set_stopped`), operation
  states with mutable members (`when_all`'s counter / latch / error / value slots, the
  `split`/`ensure_started`/`split_tuple` shared state, `schedule_from`'s parked values) are
  cells of a heap inside the machine state `M`;
* user callables (`Fn`) are total functions that may throw;
* `PIKA_UNREACHABLE` / `std::terminate` is the machine flag `aborted`;
* the connected (terminal) receiver may destroy the whole operation state inside its completion
  function (`released`), and `drop_operation_state` destroys the operation states of its
  predecessor inside the predecessor's completion call (`freed`); every later access of a member
  of a destroyed operation state by adaptor code (`touch a`) raises `uaf`.

All leaves complete inline in `start` here; the race between the predecessor's completion and
consumers of the shared-state adaptors is the subject of `Model/Shared.lean` (stage 2).
The code variants that matter for the property are parameters (`Cfg`), so that the pinned tree
(`Cfg.pinned`) and the repaired tree (`Cfg.fixed`) are both instances of the same model.
-/
namespace PikaVerif.Snd

/-- A completion signal: `set_value(vs)`, `set_error(exception with code e)`, `set_stopped()`. -/
inductive Sig where
  | value (vs : List Int)
  | error (e : Int)
  | stopped
  deriving DecidableEq, Repr

/-- User callables of the harness (total, may throw the exception with code `e`). -/
inductive Fn where
  | add (k : Int) | rev | sum | dup | id | thr (e : Int) | thrOdd (e : Int) | const (vs : List Int)
  deriving DecidableEq, Repr

def isum : List Int → Int
  | [] => 0
  | x :: xs => x + isum xs

def Fn.apply : Fn → List Int → Except Int (List Int)
  | .add k, vs => .ok (vs.map (· + k))
  | .rev, vs => .ok vs.reverse
  | .sum, vs => .ok [isum vs]
  | .dup, vs => .ok (vs ++ vs)
  | .id, vs => .ok vs
  | .thr e, _ => .error e
  | .thrOdd e, vs => if isum vs % 2 ≠ 0 then .error e else .ok vs
  | .const c, _ => .ok c

/-- The inline scheduler of the harness: its `schedule()` sender completes inline with
    `set_value()`, `set_error(code)` or `set_stopped()`. -/
inductive Sch where
  | v | e (c : Int) | s
  | p     -- pika's `thread_pool_scheduler` on a running pool: completes with `set_value()` on a
          -- worker thread (placement is not part of the completion signal)
  deriving DecidableEq, Repr

inductive Term where
  | just (vs : List Int)
  | err (e : Int)
  | stop
  | arg                                   -- `just(values bound by the innermost let_*)`
  | thn (f : Fn) (p : Term)               -- then
  | lv (f : Fn) (p b : Term)              -- let_value: callable = `f`, then the sender `b`
  | le (f : Fn) (p b : Term)              -- let_error
  | dv (p : Term)                         -- drop_value
  | un (p : Term)                         -- then(to pair) | unpack | then(concat)
  | co (sc : Sch) (p : Term)              -- continues_on / schedule_from
  | tj (sc : Sch) (vs : List Int)         -- transfer_just
  | wa (c : Term) (cs : List Term)        -- when_all (at least one predecessor)
  | wv (cs : List Term)                   -- when_all_vector
  | sp (p : Term)                         -- split (one consumer)
  | es (p : Term)                         -- ensure_started
  | st (i : Nat) (p : Term)               -- split_tuple of (v, reverse v), element i
  | bulk (n : Nat) (f : Fn) (p : Term)    -- bulk (generic fallback): `f` on `(values, i)`, i < n
  | rs (p : Term)                         -- require_started
  | dos (p : Term)                        -- drop_operation_state
  | sd (sc : Sch)                         -- schedule(sc) (| then(-> empty vector))
  deriving Repr

/-! ## Denotation -/

/-- `when_all`: the first predecessor (in completion order) that does not complete with a value
    decides; otherwise the values are concatenated in predecessor order. -/
def joinAux (acc : List Int) : List Sig → Sig
  | [] => .value acc
  | .value vs :: r => joinAux (acc ++ vs) r
  | .error e :: _ => .error e
  | .stopped :: _ => .stopped

def join (l : List Sig) : Sig := joinAux [] l

def applyThen (f : Fn) : Sig → Sig
  | .value vs => match f.apply vs with
    | .ok r => .value r
    | .error e => .error e
  | o => o

def applySch (sc : Sch) : Sig → Sig
  | .value vs => match sc with
    | .v => .value vs
    | .e c => .error c
    | .s => .stopped
    | .p => .value vs
  | o => o

/-- `bulk(n, f)` (generic fallback `bulk_receiver::set_value`): `f(i, values...)` for
    `i = 0 … n-1` on the values by reference — the harness' callable replaces the values by
    `f (values ++ [i])` — stopping at the first exception. -/
def bulkRun (f : Fn) : Nat → Nat → List Int → Except Int (List Int)
  | _, 0, vs => .ok vs
  | i, n + 1, vs => match f.apply (vs ++ [(i : Int)]) with
    | .ok r => bulkRun f (i + 1) n r
    | .error e => .error e

/-- the rest of a bulk loop that has reached index `i` with `n` iterations to go -/
def applyBulkFrom (i n : Nat) (f : Fn) (vs : List Int) : Sig :=
  match bulkRun f i n vs with
  | .ok r => .value r
  | .error e => .error e

def applyBulk (n : Nat) (f : Fn) : Sig → Sig
  | .value vs => match bulkRun f 0 n vs with
    | .ok r => .value r
    | .error e => .error e
  | o => o

def pick (i : Nat) (vs : List Int) : List Int := if i = 0 then vs else vs.reverse

mutual
def denote : Term → List Int → Sig
  | .just vs, _ => .value vs
  | .err e, _ => .error e
  | .stop, _ => .stopped
  | .arg, env => .value env
  | .thn f p, env => applyThen f (denote p env)
  | .lv f p b, env =>
    match denote p env with
    | .value vs => match f.apply vs with
      | .ok r => denote b r
      | .error e => .error e
    | o => o
  | .le f p b, env =>
    match denote p env with
    | .error e => match f.apply [e] with
      | .ok r => denote b r
      | .error e' => .error e'
    | o => o
  | .dv p, env => match denote p env with
    | .value _ => .value []
    | o => o
  | .un p, env => denote p env
  | .co sc p, env => applySch sc (denote p env)
  | .tj sc vs, _ => applySch sc (.value vs)
  | .wa c cs, env => join (denote c env :: denotes cs env)
  | .wv cs, env => join (denotes cs env)
  | .sp p, env => denote p env
  | .es p, env => denote p env
  | .st i p, env => match denote p env with
    | .value vs => .value (pick i vs)
    | o => o
  | .bulk n f p, env => applyBulk n f (denote p env)
  | .rs p, env => denote p env
  | .dos p, env => denote p env
  | .sd sc, _ => applySch sc (.value [])
def denotes : List Term → List Int → List Sig
  | [], _ => []
  | c :: cs, env => denote c env :: denotes cs env
end

/-! ## Operational semantics -/

/-- Code variants. -/
structure Cfg where
  /-- `split`'s `split_receiver::set_stopped` stores `stopped_type` in the shared state -/
  splitStoresStopped : Bool
  /-- the same for `split_tuple` -/
  tupleStoresStopped : Bool
  /-- `sender_traits<Sender>::sends_done` of the sender type given to `when_all_vector`
      (true for the harness' glue sender) -/
  wvSendsDone : Bool
  deriving DecidableEq, Repr

/-- The pinned tree (commit d5f7faa + hooks). -/
def Cfg.pinned : Cfg := { splitStoresStopped := false, tupleStoresStopped := false, wvSendsDone := true }
/-- The tree with the two one-line repairs. -/
def Cfg.fixed : Cfg := { splitStoresStopped := true, tupleStoresStopped := true, wvSendsDone := true }
def Cfg.ok (c : Cfg) : Bool := c.splitStoresStopped && c.tupleStoresStopped && c.wvSendsDone

/-- The variant `v` of the shared state of split / ensure_started / split_tuple. -/
inductive Stored where
  | mono | stopped | error (e : Int) | value (vs : List Int)
  deriving DecidableEq, Repr

/-- Mutable members of one operation state. -/
structure Cell where
  remaining : Nat := 0                       -- when_all: predecessors_remaining
  latch : Bool := false                      -- when_all: set_stopped_error_called
  err : Option Int := none                   -- when_all: error
  slots : List (Option (List Int)) := []     -- when_all: ts (one optional per predecessor)
  stored : Stored := .mono                   -- shared state `v` / schedule_from `ts`
  done : Bool := false                       -- shared state predecessor_done
  deriving DecidableEq, Repr

structure M where
  cells : Nat → Cell
  next : Nat
  log : List Sig          -- calls received by the terminal receiver
  released : Bool         -- the terminal receiver has destroyed the operation state
  freed : Nat → Bool      -- operation states destroyed by `drop_operation_state`
  uaf : Bool              -- adaptor code touched an operation state after its destruction
  aborted : Bool          -- PIKA_UNREACHABLE / std::terminate

def M.init : M :=
  { cells := fun _ => {}, next := 0, log := [], released := false, freed := fun _ => false,
    uaf := false, aborted := false }

/-- A receiver: what a call of one of its three completion functions does to the machine. -/
abbrev Rc := Sig → M → M

/-- adaptor code accesses a member of the operation state at `a` -/
def touch (a : Nat) (s : M) : M := if s.released || s.freed a then { s with uaf := true } else s

/-- `drop_operation_state`: the operation states `lo ≤ x < hi` (everything the predecessor
    allocated) are destroyed. -/
def freeRange (lo hi : Nat) (s : M) : M :=
  { s with freed := fun x => (decide (lo ≤ x) && decide (x < hi)) || s.freed x }

def alloc (c : Cell) (s : M) : M := { s with cells := upd s.cells s.next c, next := s.next + 1 }

def setCell (a : Nat) (c : Cell) (s : M) : M := { s with cells := upd s.cells a c }

def abort (s : M) : M := { s with aborted := true }

def deliver : Option Sig → Rc → M → M
  | some sig, k, s => k sig s
  | none, _, s => abort s

/-- `then_receiver`: forwards error/stopped, on a value runs `f` inside try/catch. -/
def thenR (f : Fn) (k : Rc) : Rc := fun sig s => k (applyThen f sig) s

def dropR (k : Rc) : Rc := fun sig s =>
  match sig with
  | .value _ => k (.value []) s
  | o => k o s

/-- glue then(to pair) | unpack | then(concat) -/
def unR (k : Rc) : Rc := fun sig s =>
  match sig with
  | .value vs => k (.value (vs.take (vs.length / 2) ++ vs.drop (vs.length / 2))) s
  | o => k o s

/-- `when_all_receiver::set_*` without `finish()`: how one predecessor's signal changes the
    operation state. -/
def waStep (i : Nat) (w : Cell) : Sig → Cell
  | .error e => if w.latch then w else { w with latch := true, err := some e }
  | .stopped => { w with latch := true }
  | .value vs => if w.latch then w else { w with slots := w.slots.set i (some vs) }

def allSome : List (Option (List Int)) → Option (List Int)
  | [] => some []
  | none :: _ => none
  | some v :: r => match allSome r with
    | some vs => some (v ++ vs)
    | none => none

/-- The signal `finish()` sends when the counter reaches zero (`none`: dereferences an empty
    optional / `PIKA_UNREACHABLE`). -/
def waFinish (sendsDone : Bool) (w : Cell) : Option Sig :=
  if !w.latch then (allSome w.slots).map Sig.value
  else match w.err with
    | some e => some (.error e)
    | none => if sendsDone then some .stopped else none

/-- `when_all_receiver` / `when_all_vector_receiver` number `i` of the operation state at `a`. -/
def waR (sendsDone : Bool) (a i : Nat) (k : Rc) : Rc := fun sig s =>
  let s := touch a s
  let w := waStep i (s.cells a) sig
  let w := { w with remaining := w.remaining - 1 }
  let s := setCell a w s
  if w.remaining = 0 then deliver (waFinish sendsDone w) k s else s

/-- `split_receiver` etc.: store the completion, set `predecessor_done`; no continuation has
    been added yet in the sequential setting. -/
def storeR (storesStopped : Bool) (a : Nat) : Rc := fun sig s =>
  let s := touch a s
  let c := s.cells a
  let v := match sig with
    | .value vs => Stored.value vs
    | .error e => Stored.error e
    | .stopped => if storesStopped then Stored.stopped else c.stored
  setCell a { c with stored := v, done := true } s

/-- `add_continuation` when `predecessor_done` is already set: visit the variant. -/
def visit (a : Nat) (sel : List Int → List Int) (k : Rc) (s : M) : M :=
  if s.aborted then s else
  let s := touch a s
  let c := s.cells a
  if c.done then
    match c.stored with
    | .mono => abort s
    | .stopped => k .stopped s
    | .error e => k (.error e) s
    | .value vs => k (.value (sel vs)) s
  else s    -- continuation stored, never run: no signal

/-- `schedule_from`: park the values, run the scheduler's sender, forward. -/
def schedR (sc : Sch) (a : Nat) (k : Rc) : Rc := fun sig s =>
  match sig with
  | .value vs =>
    let s := setCell a { (touch a s).cells a with stored := .value vs } (touch a s)
    match sc with
    | .v => match (s.cells a).stored with
      | .value ws => k (.value ws) (touch a s)
      | _ => abort s
    | .e c => k (.error c) (touch a s)
    | .s => k .stopped (touch a s)
    | .p => match (s.cells a).stored with
      | .value ws => k (.value ws) (touch a s)
      | _ => abort s
  | o => k o (touch a s)

/-- `bulk_receiver`: forwards error/stopped; on a value runs the loop inside try/catch. -/
def bulkR (n : Nat) (f : Fn) (k : Rc) : Rc := fun sig s => k (applyBulk n f sig) s

/-- `require_started_receiver`: reaches the downstream receiver through its own operation state
    (at `a`), forwards the signal unchanged. -/
def fwdR (a : Nat) (k : Rc) : Rc := fun sig s => k sig (touch a s)

/-- `drop_op_state_receiver`: (copies the values,) resets the predecessor's operation state —
    every operation state allocated after its own, up to now — and forwards the signal through
    its own operation state (at `a`). -/
def dropOpR (a : Nat) (k : Rc) : Rc := fun sig s =>
  let s := touch a s
  k sig (freeRange (a + 1) s.next s)

mutual
/-- `connect` + `start` of the operation for term `t` with receiver `k`. -/
def start (cfg : Cfg) (t : Term) (env : List Int) (k : Rc) (s : M) : M :=
  if s.aborted then s else
  match t with
  | .just vs => k (.value vs) s
  | .err e => k (.error e) s
  | .stop => k .stopped s
  | .arg => k (.value env) s
  | .thn f p => start cfg p env (thenR f k) s
  | .lv f p b =>
    start cfg p env (fun sig s =>
      match sig with
      | .value vs => match f.apply vs with
        | .ok r => start cfg b r k s
        | .error e => k (.error e) s
      | o => k o s) s
  | .le f p b =>
    start cfg p env (fun sig s =>
      match sig with
      | .error e => match f.apply [e] with
        | .ok r => start cfg b r k s
        | .error e' => k (.error e') s
      | o => k o s) s
  | .dv p => start cfg p env (dropR k) s
  | .un p => start cfg p env (unR k) s
  | .co sc p => start cfg p env (schedR sc s.next k) (alloc {} s)
  | .tj sc vs => schedR sc s.next k (.value vs) (alloc {} s)
  | .wa c cs =>
    let n := cs.length + 1
    let a := s.next
    let s := alloc { remaining := n, slots := List.replicate n none } s
    startAll cfg cs env (fun i => waR true a i k) a 1 (start cfg c env (waR true a 0 k) (touch a s))
  | .wv cs =>
    if cs.isEmpty then k (.value []) s
    else
      let n := cs.length
      startAll cfg cs env (fun i => waR cfg.wvSendsDone s.next i k) s.next 0
        (alloc { remaining := n, slots := List.replicate n none } s)
  | .sp p =>
    visit s.next (fun v => v) k (start cfg p env (storeR cfg.splitStoresStopped s.next) (alloc {} s))
  | .es p =>
    visit s.next (fun v => v) k (start cfg p env (storeR true s.next) (alloc {} s))
  | .st i p =>
    visit s.next (pick i) k (start cfg p env (storeR cfg.tupleStoresStopped s.next) (alloc {} s))
  | .bulk n f p => start cfg p env (bulkR n f k) s
  | .rs p => start cfg p env (fwdR s.next k) (alloc { done := true } s)     -- `started = true`
  | .dos p => start cfg p env (dropOpR s.next k) (alloc {} s)
  | .sd sc => k (applySch sc (.value [])) s
termination_by structural t
/-- The loop of `start()` over the predecessors' operation states (members of the operation
    state at `a`). -/
def startAll (cfg : Cfg) (cs : List Term) (env : List Int) (r : Nat → Rc) (a i : Nat) (s : M) : M :=
  match cs with
  | [] => s
  | c :: cs' => startAll cfg cs' env r a (i + 1) (start cfg c env (r i) (touch a s))
termination_by structural cs
end

/-- The instrumented terminal receiver: records the call and destroys the operation state. -/
def termR : Rc := fun sig s => { s with log := s.log ++ [sig], released := true }

/-- What an observer sees of one run. -/
structure Outcome where
  log : List Sig
  aborted : Bool
  uaf : Bool
  deriving DecidableEq, Repr

def M.outcome (s : M) : Outcome := { log := s.log, aborted := s.aborted, uaf := s.uaf }

/-- connect the pipeline to the terminal receiver and start it. -/
def run (cfg : Cfg) (t : Term) : Outcome := (start cfg t [] termR M.init).outcome

/-! Consumers `start_detached` and `sync_wait` (what the harness observes of them). -/
inductive Consumer where
  | recv | detached | sync
  deriving DecidableEq, Repr

/-- Observable result of a consumer for a pipeline completing with `sig`:
    `some line` = the consumer returns (and what `sync_wait` returns / rethrows),
    `none` = the process terminates by design (`start_detached` on an error, `sync_wait` on
    stopped). -/
def consume : Consumer → Sig → Option Sig
  | .recv, sig => some sig
  | .detached, .error _ => none
  | .detached, sig => some sig
  | .sync, .stopped => none
  | .sync, sig => some sig

end PikaVerif.Snd
