import PikaVerif.Core.Basic
import PikaVerif.Core.Sum
/-!
# Model of the worker / join-counter protocol of `thread_pool_scheduler_bulk.hpp` (C11)

`w` worker tasks (task `k` owns queue `k`), the thread that runs `bulk_receiver::set_value`
(on worker `L`) spawns the others and then acts as task `L`.  Granularity = the hook events
compiled into the file: `bulk.spawn`, `bulk.skip`, `bulk.task`, the index-queue pops (atomic
here: `Props/C17Index.lean` shows each `pop_*` takes effect at its successful CAS or at the
load that saw the queue empty), `bulk.chunk`, `bulk.exc`, `bulk.last` / `bulk.notlast`, and
the receiver's signal as observed by the harness.

Queue `k` is initialised with the chunk indices `[a k, a (k+1))` for cut points `a`
(`Props/C11.lean`: under `SafeC` the generated arithmetic gives `a k = k·nc/w`).
-/
namespace PikaVerif.Bulk
open PikaVerif

inductive Pc where
  | idle                        -- nothing happened for this worker yet
  | spawned                     -- `register_work` done, task not started
  | run (off : Nat)             -- in `do_work`, about to pop from queue `(k + off) % w`
                                --   (`off = 0`: own queue, `pop_left`; else `pop_right`)
  | work (off : Nat) (j : Nat)  -- inside `do_work_chunk` for chunk `j`
  | fin (threw : Bool)          -- `do_work` returned / threw (or the queue was empty at spawn
                                --   time): about to decrement `tasks_remaining`
  | decd                        -- decremented
  deriving DecidableEq, Repr

inductive Ev where
  | spawn (k : Nat)
  | skip (k : Nat)
  | task (k : Nat)
  | pop (k q : Nat) (r : Option Nat)
  | chunk (k j : Nat)
  | exc (k : Nat)                  -- first exception: `exception_thrown.exchange(true)` was false
  | dec (k : Nat) (last : Bool)
  | sig (err : Bool)               -- the receiver is signalled (value / error)
  deriving Repr

structure St where
  w : Nat
  L : Nat
  a : Nat → Nat                 -- cut points of the initial queue ranges
  qs : Nat → Nat × Nat          -- current range of queue `k`
  pc : Nat → Pc
  next : Nat                    -- spawner loop variable
  remaining : Nat
  excThrown : Bool
  outcome : Option Bool         -- set by the last decrement: `some true` = error
  signals : Nat
  /-- history -/
  popped : Nat → Nat            -- how often chunk `j` was popped
  threw : Nat                   -- number of tasks that left `do_work` by an exception
  sawAll : Bool                 -- some task finished `do_work` normally

def init (w L : Nat) (a : Nat → Nat) : St :=
  { w := w, L := L, a := a, qs := fun k => (a k, a (k + 1)), pc := fun _ => .idle, next := 0,
    remaining := w, excThrown := false, outcome := none, signals := 0, popped := fun _ => 0,
    threw := 0, sawAll := false }

/-- the worker the spawner loop handles next (it skips the local worker) -/
def cur (s : St) : Nat := if s.next = s.L then s.next + 1 else s.next

def qEmpty (r : Nat × Nat) : Bool := decide (r.2 ≤ r.1)

/-- pc after a pop at offset `off` returned nothing -/
def afterEmpty (w off : Nat) : Pc := if off + 1 < w then .run (off + 1) else .fin false

def step (s : St) : Ev → Option St
  | .spawn k =>
    if k < s.w ∧ k = cur s ∧ s.pc k = .idle ∧ qEmpty (s.qs k) = false then
      some { s with pc := upd s.pc k .spawned, next := k + 1 }
    else none
  | .skip k =>
    if k < s.w ∧ k = cur s ∧ s.pc k = .idle ∧ qEmpty (s.qs k) = true then
      some { s with pc := upd s.pc k (.fin false), next := k + 1 }
    else none
  | .task k =>
    if k < s.w then
      if k = s.L then
        if s.w ≤ cur s ∧ s.pc k = .idle then some { s with pc := upd s.pc k (.run 0) } else none
      else
        if s.pc k = .spawned then some { s with pc := upd s.pc k (.run 0) } else none
    else none
  | .pop k q r =>
    if k < s.w then
      match s.pc k with
      | .run off | .work off _ =>
        if q = (k + off) % s.w then
          match r with
          | none =>
            if qEmpty (s.qs q) = true then
              some { s with pc := upd s.pc k (afterEmpty s.w off),
                            sawAll := s.sawAll || decide (s.w ≤ off + 1) }
            else none
          | some j =>
            if qEmpty (s.qs q) = false ∧ j = (if off = 0 then (s.qs q).1 else (s.qs q).2 - 1) then
              some { s with qs := upd s.qs q (if off = 0 then ((s.qs q).1 + 1, (s.qs q).2)
                                              else ((s.qs q).1, (s.qs q).2 - 1)),
                            popped := upd s.popped j (s.popped j + 1),
                            pc := upd s.pc k (.work off j) }
            else none
        else none
      | _ => none
    else none
  | .chunk k j =>
    -- `bulk.chunk`: confirms which chunk the task is processing
    if k < s.w then
      match s.pc k with
      | .work _ j' => if j = j' then some s else none
      | _ => none
    else none
  | .exc k =>
    if k < s.w ∧ s.excThrown = false then
      match s.pc k with
      | .work _ _ => some { s with pc := upd s.pc k (.fin true), excThrown := true, threw := s.threw + 1 }
      | _ => none
    else none
  | .dec k last =>
    if k < s.w ∧ 1 ≤ s.remaining ∧ last = decide (s.remaining = 1) then
      match s.pc k with
      | .fin _ =>
        some { s with pc := upd s.pc k .decd, remaining := s.remaining - 1,
                      outcome := if last then some s.excThrown else s.outcome }
      | .work _ _ =>
        -- an exception that was not the first one: no hook between the throw and the decrement
        if s.excThrown = true then
          some { s with pc := upd s.pc k .decd, remaining := s.remaining - 1, threw := s.threw + 1,
                        outcome := if last then some s.excThrown else s.outcome }
        else none
      | _ => none
    else none
  | .sig err =>
    if s.outcome = some err ∧ s.signals = 0 then some { s with signals := 1 } else none

end PikaVerif.Bulk
