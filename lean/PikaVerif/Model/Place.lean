import PikaVerif.Core.Basic
/-!
# Model `Place`: where work runs (C10)

Follows, at the granularity of the placement hook events (`place.*`, `phase.*`, harness `x.*`):

* `thread_pool_scheduler::execute` → `register_work(data, pool_)` → `create_work(sched of pool_)` →
  `Scheduler::create_thread` (`local_priority_queue_scheduler.hpp`, `local_queue_scheduler.hpp`):
  queue selection from the hint (`pickIdx`: mode `thread` → the `int16` hint converted to `size_t`,
  `size_t(-1)` → round-robin counter, otherwise `mod n`), `select_active_pu` (identity unless the
  elasticity mode is on), priority → queue class (`classOf`), high queue index `mod nhp`;
  `thread_queue::create_thread` (staged entry) and `thread_queue::add_new` (staged → thread object,
  pushed into the converting worker's own queue; from a victim's staged queue only when stealing);
* `schedule_thread{,_last}`: the scheduling loop re-queues with hint = own worker index
  (`allow_fallback = true`; `pending_boost` → priority `boost`), `set_thread_state` re-queues on the
  task's own `scheduler_base_` with the hint its caller read from `last_worker_thread_num_`
  (`execution_agent::do_resume`, `set_active_state`; the read is *not* atomic with the use, so the
  model lets it return any value the field has had since the object was (re)bound);
* `get_next_thread`: a worker pops from its own normal/high queue, from the low queue of its
  scheduler, or — only when the scheduler steals — from another queue of the *same* scheduler;
* `schedule_from`/`continues_on` is a start of the target scheduler's schedule operation performed
  by whoever completes the predecessor; `std_thread_scheduler` = a fresh `std::thread`.

Objects: pools `p`, queues `q` (registered by `place.queue` with pool, class, index), staged
entries `e` (task descriptions; the driver renames re-used addresses), thread objects `o`,
actors `a` (OS threads), sender operations `k` (harness numbering).
The round-robin counter is not part of this model (any index `< n` is accepted for an unhinted
placement); its exact sequence is checked sequentially by the E0 part of the driver with `pickIdx`.
-/
namespace PikaVerif.Place

abbrev cNormal : Nat := 0
abbrev cHigh : Nat := 1
abbrev cLow : Nat := 2
abbrev pLow : Nat := 1
abbrev pNormal : Nat := 2
abbrev pHighRec : Nat := 3
abbrev pBoost : Nat := 4
abbrev pHigh : Nat := 5
/-- pseudo pool index used as target of `std_thread_scheduler` operations -/
abbrev poolStd : Nat := 99
abbrev rPending : Nat := 2
abbrev rBoost : Nat := 7

structure Pool where
  known : Bool := false
  n : Nat := 0            -- workers = normal queues
  nhp : Nat := 0          -- high priority queues
  prioQ : Bool := false   -- local_priority family (high/low queues exist)
  steal : Bool := false   -- workers may take work from other queues of this scheduler
  elastic : Bool := false -- select_active_pu may redirect
  opq : Bool := false  -- queue structure not modelled (shared_priority): pool-level only
  deriving Repr

structure QInfo where
  pool : Nat
  cls : Nat
  idx : Nat
  deriving DecidableEq, Repr

/-! ## The placement function -/

/-- `std::size_t(hint)` for an `int16` hint; `none` = `size_t(-1)` (treated as "no hint") -/
def hintNum (v : Int) : Option Nat :=
  if v = -1 then none else if v < 0 then some (18446744073709551616 + v).toNat else some v.toNat

/-- queue index requested by a hint: `none` = take the round-robin counter -/
def pickIdx (n mode : Nat) (v : Int) : Option Nat :=
  if mode = 1 then (match hintNum v with | some m => some (m % n) | none => none) else none

/-- round-robin pick -/
def rrIdx (n rr : Nat) : Nat := rr % n

def isHighPrio (prio : Nat) : Bool := prio == pHighRec || prio == pHigh || prio == pBoost

def classOf (prioQ : Bool) (prio : Nat) : Nat :=
  if prioQ then (if isHighPrio prio then cHigh else if prio == pLow then cLow else cNormal) else cNormal

def idxOf (P : Pool) (cls idx : Nat) : Nat :=
  if cls = cHigh then idx % P.nhp else if cls = cLow then P.n - 1 else idx

/-- is `idx` a legal result of hint selection + `select_active_pu` -/
def okIdx (P : Pool) (mode : Nat) (v : Int) (idx : Nat) : Bool :=
  decide (idx < P.n) && (P.elastic || (match pickIdx P.n mode v with | some i => idx == i | none => true))

structure Entry where
  live : Bool := false
  sched : Nat := 0
  prio : Nat := 0
  hint : Option Int := none
  payload : Option Nat := none
  q : Nat := 0
  qpool : Nat := 0
  qcls : Nat := 0
  qidx : Nat := 0
  deriving Repr

structure Task where
  live : Bool := false
  sched : Nat := 0              -- pool of `scheduler_base_`
  prio : Nat := 0               -- `priority_`
  hint : Option Int := none     -- ghost: thread-mode hint given at creation
  payload : Option Nat := none  -- ghost: sender operation whose start created it
  loc : Option Nat := none      -- queue holding its entry
  lpool : Nat := 0
  lcls : Nat := 0
  lidx : Nat := 0
  holder : Option Nat := none   -- worker that popped it (until re-queue / suspension / end)
  hpool : Nat := 0
  hidx : Nat := 0
  inPhase : Bool := false
  lw : List Int := [-1]         -- values `last_worker_thread_num_` has had since (re)bind
  strayed : Bool := false       -- ghost: re-queued by `set_thread_state` with a hint that names no worker
  deriving Repr

structure Actor where
  seen : Bool := false
  worker : Option (Nat × Nat) := none
  starting : Option Nat := none
  hintFor : Option (Nat × Nat × Int) := none
  deriving Repr

structure Op where
  started : Bool := false
  target : Nat := 0
  created : Bool := false
  ran : Bool := false
  deriving Repr

inductive Ev where
  | poolCfg (a p n nhp : Nat) (prioQ steal elastic opq : Bool)
  | queueReg (a q p cls idx n nhp : Nat)
  | worker (a p w : Nat)
  | create (a e p idx mode : Nat) (v : Int) (prio q : Nat)
  | createNow (a o p idx mode : Nat) (v : Int) (prio q bp bprio : Nat)
  | convert (a e o qd qs bp bprio : Nat)
  | bindOnly (a o bp bprio : Nat)
  | sched (a o p idx mode : Nat) (v : Int) (prio : Nat) (allow : Bool) (q : Nat)
  | pop (a o q : Nat)
  | phaseBegin (a o w : Nat)
  | phaseEnd (a o r : Nat)
  | lwStore (a o : Nat) (v : Int)
  | stsHint (a o mode : Nat) (v : Int)
  | start (a k p : Nat)
  | started (a k : Nat)
  | run (a o k : Nat)
  | runStd (a k : Nat)
  | obs (a o p w : Nat)
  deriving Repr

structure St where
  pool : Nat → Pool
  qinfo : Nat → Option QInfo
  ent : Nat → Entry
  task : Nat → Task
  act : Nat → Actor
  op : Nat → Op

def init : St :=
  { pool := fun _ => {}, qinfo := fun _ => none, ent := fun _ => {}, task := fun _ => {},
    act := fun _ => {}, op := fun _ => {} }

def Ev.actor : Ev → Nat
  | .poolCfg a .. => a | .queueReg a .. => a | .worker a .. => a | .create a .. => a
  | .createNow a .. => a | .convert a .. => a | .bindOnly a .. => a | .sched a .. => a
  | .pop a .. => a | .phaseBegin a .. => a | .phaseEnd a .. => a | .lwStore a .. => a
  | .stsHint a .. => a | .start a .. => a | .started a .. => a | .run a .. => a
  | .runStd a .. => a | .obs a .. => a

/-- a thread object may be (re)initialised when nothing refers to it -/
def taskFree (T : Task) : Bool := T.loc.isNone && T.holder.isNone && !T.inPhase

/-- `local_priority_queue_scheduler::create_thread` turns priority `boost` into `normal` after choosing the high queue -/
def storedPrio (prioQ : Bool) (prio : Nat) : Nat := if prioQ = true ∧ prio = pBoost then pNormal else prio

def core (s : St) : Ev → Option St
  | .poolCfg _ p n nhp prioQ steal elastic opq =>
    if (s.pool p).known = false then
      some { s with pool := upd s.pool p { known := true, n := n, nhp := nhp, prioQ := prioQ, steal := steal,
                                            elastic := elastic, opq := opq } }
    else none
  | .queueReg _ q p cls idx n nhp =>
    let P := s.pool p
    if s.qinfo q = none ∧ P.known = true ∧ n = P.n ∧ idx < P.n ∧
        (cls = cNormal ∨ (P.prioQ = true ∧ nhp = P.nhp ∧ ((cls = cHigh ∧ idx < P.nhp) ∨ (cls = cLow ∧ idx = P.n - 1)))) then
      some { s with qinfo := upd s.qinfo q (some ⟨p, cls, idx⟩) }
    else none
  | .worker a p w =>
    let P := s.pool p
    if (s.act a).worker = none ∧ P.known = true ∧ w < P.n then
      some { s with act := upd s.act a { s.act a with worker := some (p, w) } }
    else none
  | .create a e p idx mode v prio q =>
    -- Scheduler::create_thread (staged): register_work → create_work on the scheduler of pool p
    let P := s.pool p
    let cls := classOf P.prioQ prio
    let qi := idxOf P cls idx
    if P.known = true ∧ P.opq = false ∧ (s.ent e).live = false ∧ okIdx P mode v idx = true ∧
        s.qinfo q = some ⟨p, cls, qi⟩ then
      let E : Entry := { live := true, sched := p, prio := storedPrio P.prioQ prio, hint := (if mode = 1 then some v else none),
                         payload := none, q := q, qpool := p, qcls := cls, qidx := qi }
      match (s.act a).starting with
      | none => some { s with ent := upd s.ent e E }
      | some k =>
        -- `scheduler.execute` inside `operation_state::start`: the work goes to the scheduler's own pool
        if (s.op k).target = p ∧ (s.op k).created = false then
          some { s with ent := upd s.ent e { E with payload := some k },
                        op := upd s.op k { s.op k with created := true } }
        else none
    else none
  | .createNow a o p idx mode v prio q bp bprio =>
    -- run_now path (register_thread): the object is created and queued at once
    let P := s.pool p
    let cls := classOf P.prioQ prio
    let qi := idxOf P cls idx
    if P.known = true ∧ P.opq = false ∧ taskFree (s.task o) = true ∧ okIdx P mode v idx = true ∧
        s.qinfo q = some ⟨p, cls, qi⟩ ∧ bp = p ∧ bprio = storedPrio P.prioQ prio then
      let T : Task := { live := true, sched := p, prio := storedPrio P.prioQ prio,
                        hint := (if mode = 1 then some v else none), payload := none,
                        loc := some q, lpool := p, lcls := cls, lidx := qi }
      match (s.act a).starting with
      | none => some { s with task := upd s.task o T }
      | some k =>
        if (s.op k).target = p ∧ (s.op k).created = false then
          some { s with task := upd s.task o { T with payload := some k },
                        op := upd s.op k { s.op k with created := true } }
        else none
    else none
  | .convert a e o qd qs bp bprio =>
    -- thread_queue::add_new executed by a worker inside wait_or_add_new: staged entry e of queue qs
    -- becomes thread object o, pushed into the worker's own queue qd
    let E := s.ent e
    match (s.act a).worker with
    | none => none
    | some (p, w) =>
      let P := s.pool p
      if E.live = true ∧ E.q = qs ∧ E.qpool = p ∧ taskFree (s.task o) = true ∧ bp = E.sched ∧ bprio = E.prio ∧
          P.opq = false then
        if qs = qd then
          -- own staged queue
          if s.qinfo qd = some ⟨E.qpool, E.qcls, E.qidx⟩ ∧ E.qidx = w then
            some { s with ent := upd s.ent e {},
                          task := upd s.task o { live := true, sched := E.sched, prio := E.prio, hint := E.hint,
                                                 payload := E.payload, loc := some qd, lpool := E.qpool,
                                                 lcls := E.qcls, lidx := E.qidx } }
          else none
        else
          -- stolen from the staged queue of another worker of the same scheduler
          if P.steal = true ∧ E.qcls ≠ cLow ∧ s.qinfo qd = some ⟨p, E.qcls, w⟩ then
            some { s with ent := upd s.ent e {},
                          task := upd s.task o { live := true, sched := E.sched, prio := E.prio, hint := E.hint,
                                                 payload := E.payload, loc := some qd, lpool := p,
                                                 lcls := E.qcls, lidx := w } }
          else none
      else none
  | .bindOnly _ o bp bprio =>
    -- a thread object of a scheduler whose queues are not modelled
    if (s.pool bp).known = true ∧ (s.pool bp).opq = true ∧ taskFree (s.task o) = true then
      some { s with task := upd s.task o { live := true, sched := bp, prio := bprio } }
    else none
  | .sched a o p idx mode v prio allow q =>
    let T := s.task o
    let P := s.pool p
    let cls := classOf P.prioQ prio
    let qi := idxOf P cls idx
    if T.live = true ∧ T.loc = none ∧ T.inPhase = false ∧ P.known = true ∧ P.opq = false ∧
        okIdx P mode v idx = true ∧ s.qinfo q = some ⟨p, cls, qi⟩ then
      if allow then
        -- scheduling loop: `scheduler.schedule_thread{,_last}(thrd, hint(num_thread), true[, boost])`
        if T.holder = some a ∧ (s.act a).worker = some (p, T.hidx) ∧ T.hpool = p ∧ mode = 1 ∧ v = (T.hidx : Int) ∧
            (prio = pNormal ∨ prio = pBoost) then
          some { s with task := upd s.task o { T with loc := some q, lpool := p, lcls := cls, lidx := qi, holder := none } }
        else none
      else
        -- set_thread_state: `thrd->get_scheduler_base()->schedule_thread(thrd, hint, false, thrd->get_priority())`
        if T.holder = none ∧ p = T.sched ∧ (P.prioQ = true → prio = T.prio) ∧ (s.act a).hintFor = some (o, mode, v) ∧
            (mode = 1 → v ∈ T.lw) then
          some { s with task := upd s.task o { T with loc := some q, lpool := p, lcls := cls, lidx := qi,
                                                      strayed := T.strayed || !(decide (mode = 1) && decide (v ≠ -1)) },
                        act := upd s.act a { s.act a with hintFor := none } }
        else none
    else none
  | .pop a o q =>
    let T := s.task o
    match (s.act a).worker with
    | none => none
    | some (p, w) =>
      let P := s.pool p
      if T.live = true ∧ T.loc = some q ∧ T.holder = none ∧ (s.act a).starting = none ∧ T.lpool = p ∧ P.opq = false ∧
          ((T.lidx = w ∧ T.lcls ≠ cLow) ∨ T.lcls = cLow ∨ (P.steal = true ∧ T.lcls ≠ cLow)) then
        -- (the scheduling loop stores `last_worker_thread_num_ = w` before it runs the phase)
        some { s with task := upd s.task o { T with loc := none, holder := some a, hpool := p, hidx := w, lw := (w : Int) :: T.lw } }
      else none
  | .phaseBegin a o w =>
    let T := s.task o
    match (s.act a).worker with
    | none => none
    | some (p, w') =>
      if T.live = true ∧ T.inPhase = false ∧ w' = w ∧ (s.act a).starting = none then
        if (s.pool p).opq = true then
          if T.sched = p ∧ T.holder = none ∧ T.loc = none then
            some { s with task := upd s.task o { T with holder := some a, hpool := p, hidx := w, inPhase := true, lw := (w : Int) :: T.lw } }
          else none
        else if T.holder = some a then
          some { s with task := upd s.task o { T with inPhase := true } }
        else none
      else none
  | .phaseEnd a o r =>
    let T := s.task o
    if T.live = true ∧ T.inPhase = true ∧ T.holder = some a then
      if (r = rPending ∨ r = rBoost) ∧ (s.pool T.hpool).opq = false then
        some { s with task := upd s.task o { T with inPhase := false } }
      else
        some { s with task := upd s.task o { T with inPhase := false, holder := none } }
    else none
  | .lwStore a o v =>
    -- do_yield: `set_last_worker_thread_num(get_local_worker_thread_num())`
    let T := s.task o
    if T.live = true ∧ T.inPhase = true ∧ T.holder = some a ∧ v = (T.hidx : Int) then
      some { s with task := upd s.task o { T with lw := v :: T.lw } }
    else none
  | .stsHint a o mode v =>
    -- entry of set_thread_state: the hint is either absent or a value read from last_worker_thread_num_
    let T := s.task o
    if T.live = true ∧ (mode = 1 → v ∈ T.lw) then
      some { s with act := upd s.act a { s.act a with hintFor := some (o, mode, v) } }
    else none
  | .start a k p =>
    if (s.op k).started = false ∧ (s.act a).starting = none then
      some { s with op := upd s.op k { started := true, target := p },
                    act := upd s.act a { s.act a with starting := some k } }
    else none
  | .started a k =>
    if (s.act a).starting = some k ∧ ((s.op k).target = poolStd ∨ (s.op k).created = true ∨ (s.pool (s.op k).target).opq = true) then
      some { s with act := upd s.act a { s.act a with starting := none } }
    else none
  | .run a o k =>
    -- the receiver of the schedule operation is signalled: body of the created task
    let T := s.task o
    if T.live = true ∧ T.inPhase = true ∧ T.holder = some a ∧ (s.op k).started = true ∧ (s.op k).ran = false ∧
        ((s.pool (s.op k).target).opq = true → T.sched = (s.op k).target) ∧
        ((s.pool (s.op k).target).opq = false → T.payload = some k) then
      some { s with op := upd s.op k { s.op k with ran := true } }
    else none
  | .runStd a k =>
    if (s.act a).seen = false ∧ (s.op k).started = true ∧ (s.op k).target = poolStd ∧ (s.op k).ran = false then
      some { s with op := upd s.op k { s.op k with ran := true } }
    else none
  | .obs a o p w =>
    let T := s.task o
    if T.live = true ∧ T.inPhase = true ∧ T.holder = some a ∧ (s.act a).worker = some (p, w) then some s else none

/-- every event marks its actor as having acted -/
def mark (s : St) (a : Nat) : St := { s with act := upd s.act a { s.act a with seen := true } }

def step (s : St) (e : Ev) : Option St :=
  match core s e with
  | some s' => some (mark s' e.actor)
  | none => none

end PikaVerif.Place
