import PikaVerif.Core.Basic
/-!
# Model of the task state-word protocol (C01, C02)

Follows `thread_data::{set_state, set_state_tagged, restore_state, set_state_ex}`
(`threading_base/thread_data.hpp`), the body of `scheduling_loop` between popping a thread and
re-queuing it (`thread_pools/scheduling_loop.hpp`), `set_thread_state` / `set_active_state`
(`threading_base/src/set_thread_state.cpp`) and the queue insertions of
`thread_queue{,_mc}::schedule_thread`, at the granularity of the scheduler hook events.
A state word is the triple `(state, state_ex, tag)`; the driver decodes the raw 64-bit words of
the log with the layout generated into `Gen/StateWord.lean`.  Numeric values of the states
(`active = 1, pending = 2, suspended = 3, terminated = 4, pending_boost = 7`, `signaled = 1`)
are checked against the generated constants by `Lemmas/SchedGen.lean`.

Objects (`thread_data` instances) and actors (OS threads: workers and external threads) are
numbered by first appearance in the log.  The model is an acceptor over the exact
linearisation produced by engine E2: every instrumented load/CAS happens under the log lock,
so `before`/`cur` payloads are the true current words.
-/
namespace PikaVerif.Sched

structure W where
  st : Nat
  ex : Nat
  tag : Nat
  deriving DecidableEq, Repr

abbrev sActive : Nat := 1
abbrev sPending : Nat := 2
abbrev sSuspended : Nat := 3
abbrev sTerminated : Nat := 4
abbrev sBoost : Nat := 7
abbrev exSignaled : Nat := 1

def pendingish (w : W) : Bool := w.st == sPending || w.st == sBoost

/-- where an actor is inside `set_thread_state(thrd, pending, …)` -/
inductive StsPc where
  | out
  | entered (o : Nat)
  | loaded (o : Nat) (w : W) (le : Nat)  -- `previous_state = get_state()` returned w (when the
                                         -- target's epoch was le; ghost)
  | won (o : Nat)                    -- its CAS made the target pending; must schedule it
  deriving DecidableEq, Repr

structure Obj where
  live : Bool := false          -- constructed
  fresh : Bool := true          -- never scheduled since (re)initialisation
  w : W := ⟨0, 0, 0⟩            -- state word
  owner : Option Nat := none    -- actor that won the pending→active CAS and has not stored yet
  inPhase : Bool := false
  ranPhase : Bool := false
  result : Nat := 0             -- schedule state returned by the phase
  q : Nat := 0                  -- live queue entries
  holder : Option Nat := none   -- actor that popped the entry and has not tried to activate yet
  hexp : W := ⟨0, 0, 0⟩         -- the word that actor loaded after the pop
  pusher : Option Nat := none   -- actor that made it pending and owes the queue insertion
  helpers : List (W × Nat) := []  -- words remembered by outstanding set_active_state helpers,
                                  -- with the epoch at which that word was observed (ghost)
  epoch : Nat := 0              -- number of transitions into a pending state so far
  deriving Repr

structure Actor where
  sts : StsPc := .out
  issue : Option Nat := none    -- ghost: epoch of the target when the current wake request was
                                -- issued (none: the target was pending / terminated then)
  sas : Option (Nat × W × W × Nat × Nat) := none
    -- inside set_active_state: (object, loaded word, remembered word, ghost epochs of the
    -- remembered observation and of this load)
  deriving Repr

inductive Ev where
  | new (a o : Nat) (w : W)
  | rebind (a o : Nat) (w : W)
  | destroy (a o : Nat) (w : W)
  | push (a o : Nat)
  | got (a o : Nat) (e : W) (fromNext : Bool)
  | tagged (a o : Nat) (before after : W)
  | phaseBegin (a o : Nat)
  | setex (a o : Nat) (before after : W)
  | phaseEnd (a o r : Nat)
  | restore1 (a o : Nat) (before after : W)
  | set (a o : Nat) (before after : W)
  | stsEnter (a o ns : Nat)
  | stsLoad (a o : Nat) (w : W)
  | restore2 (a o : Nat) (before after : W)
  | stsNoop (a o : Nat)
  | stsHelper (a o : Nat)
  | stsDone (a o : Nat)
  | sasLoad (a o : Nat) (cur prev : W)
  | sasAbort (a o : Nat)
  | sasRetry (a o : Nat)
  | bodyEnter (a o : Nat)
  | bodyExit (a o : Nat)
  deriving Repr

structure St where
  obj : Nat → Obj
  act : Nat → Actor

def init : St := { obj := fun _ => {}, act := fun _ => {} }

/-- (re)initialisation is only possible when nothing refers to the object any more -/
def unreferenced (x : Obj) : Bool :=
  x.q == 0 && x.holder.isNone && x.owner.isNone && x.pusher.isNone && !x.inPhase &&
    (x.fresh || x.w.st == sTerminated)

def step (s : St) : Ev → Option St
  | .new _ o w =>
    let x := s.obj o
    if unreferenced x ∧ w.tag = 0 ∧ w.st = sPending then
      some { s with obj := upd s.obj o { live := true, w := w, helpers := x.helpers, epoch := x.epoch + 1 } }
    else none
  | .rebind _ o w =>
    let x := s.obj o
    if x.live ∧ unreferenced x ∧ w.tag = 0 ∧ w.st = sPending then
      some { s with obj := upd s.obj o { live := true, w := w, helpers := x.helpers, epoch := x.epoch + 1 } }
    else none
  | .destroy _ o w =>
    let x := s.obj o
    if x.live ∧ w = x.w ∧ x.w.st = sTerminated ∧ unreferenced x then some s else none
  | .push a o =>
    let x := s.obj o
    -- only a new object or one whose pending transition this actor performed is queued
    if x.live ∧ x.w.st = sPending ∧ ((x.fresh ∧ x.q = 0) ∨ x.pusher = some a) then
      let ac := s.act a
      some { obj := upd s.obj o { x with q := x.q + 1, fresh := false, pusher := none },
             act := upd s.act a ({ ac with sts := (if ac.sts = .won o then .loaded o x.w x.epoch else ac.sts) }) }
    else none
  | .got a o e fromNext =>
    -- the scheduling loop took thread o (from a queue, or directly as `next_thrd`) and loaded its
    -- state word e.  (`holder = none` is implied by the token invariant; see `Lemmas/Sched`.)
    let x := s.obj o
    if x.live ∧ e = x.w ∧ x.holder = none then
      if fromNext then
        if x.pusher = some a ∧ x.w.st = sPending then
          some { s with obj := upd s.obj o { x with pusher := none, holder := some a, hexp := e } }
        else none
      else if 0 < x.q then
        some { s with obj := upd s.obj o { x with q := x.q - 1, holder := some a, hexp := e } }
      else none
    else none
  | .tagged a o before after =>
    -- switch_status: compare_exchange(expected = the word loaded after the pop → active, tag+1).
    -- Only attempted when that word is `pending`.  The model has no failing branch: a popped entry
    -- is the only way to activate its thread, so the word cannot have changed (invariant `hold`).
    let x := s.obj o
    if x.live ∧ x.holder = some a ∧ before = x.w ∧ x.hexp.st = sPending ∧ x.w = x.hexp ∧
        after = ⟨sActive, x.w.ex, x.w.tag + 1⟩ then
      some { s with obj := upd s.obj o { x with w := after, owner := some a, ranPhase := false, holder := none } }
    else none
  | .phaseBegin a o =>
    let x := s.obj o
    if x.live ∧ x.owner = some a ∧ !x.inPhase ∧ !x.ranPhase then
      some { s with obj := upd s.obj o { x with inPhase := true } }
    else none
  | .setex a o before after =>
    -- the running thread fetches and resets its restart state at the start of a phase
    let x := s.obj o
    if x.live ∧ x.owner = some a ∧ x.inPhase ∧ before = x.w ∧ after = ⟨x.w.st, exSignaled, x.w.tag⟩ then
      some { s with obj := upd s.obj o { x with w := after } }
    else none
  | .phaseEnd a o r =>
    let x := s.obj o
    if x.live ∧ x.owner = some a ∧ x.inPhase ∧ r ≠ sActive then
      some { s with obj := upd s.obj o { x with inPhase := false, ranPhase := true, result := r } }
    else none
  | .restore1 a o before after =>
    -- switch_status::store_state: active → the state the phase returned, tag + 1
    let x := s.obj o
    if x.live ∧ x.owner = some a ∧ x.ranPhase ∧ !x.inPhase ∧ before = x.w ∧
        after = ⟨x.result, x.w.ex, x.w.tag + 1⟩ then
      let pend := x.result == sPending || x.result == sBoost
      let x' : Obj := { x with w := after, owner := none, pusher := (if pend then some a else none),
                               epoch := (if pend then x.epoch + 1 else x.epoch) }
      some { s with obj := upd s.obj o x' }
    else none
  | .set a o before after =>
    let x := s.obj o
    if x.live ∧ before = x.w then
      if x.w.st = sBoost ∧ x.pusher = some a ∧ after = ⟨sPending, x.w.ex, x.w.tag + 1⟩ then
        -- scheduling loop: pending_boost → pending before re-queuing
        some { s with obj := upd s.obj o { x with w := after } }
      else if x.w.st = sPending ∧ x.pusher = some a ∧ after = before then
        -- … a waker's compare_exchange turned pending_boost into pending first: nothing to change
        some s
      else if x.w.st = sSuspended ∧ after.st = sPending ∧ after.tag = x.w.tag + 1 ∧ x.pusher = none then
        -- abort_all_suspended_threads: suspended → pending, then scheduled by the same actor
        some { s with obj := upd s.obj o { x with w := after, pusher := some a, epoch := x.epoch + 1 } }
      else none
    else none
  | .stsEnter a o ns =>
    let x := s.obj o
    let ac := s.act a
    if x.live ∧ ac.sts = .out ∧ ns = sPending then
      let iss : Option Nat := if pendingish x.w || x.w.st == sTerminated then none else some x.epoch
      some { s with act := upd s.act a ({ ac with sts := .entered o, issue := iss }) }
    else none
  | .stsLoad a o w =>
    let x := s.obj o
    let ac := s.act a
    if x.live ∧ w = x.w then
      match ac.sts with
      | .entered o' => if o' = o then some { s with act := upd s.act a ({ ac with sts := .loaded o w x.epoch }) } else none
      | .loaded o' _ _ => if o' = o then some { s with act := upd s.act a ({ ac with sts := .loaded o w x.epoch }) } else none
      | _ => none
    else none
  | .restore2 a o before after =>
    -- set_thread_state: compare_exchange(previous_state → (pending, new_state_ex, tag+1)),
    -- attempted only when previous_state is suspended
    let x := s.obj o
    let ac := s.act a
    match ac.sts with
    | .loaded o' lw le =>
      if o' = o ∧ x.live ∧ before = x.w ∧ lw.st = sBoost then
        -- target is between store_state(pending_boost) and the loop's set_state(pending):
        -- the exchange makes it pending; nothing is scheduled (the previous state was pending too)
        if x.w = lw then
          if after.st = sPending ∧ after.tag = lw.tag + 1 then
            some { obj := upd s.obj o { x with w := after },
                   act := upd s.act a ({ ac with sts := .loaded o after x.epoch }) }
          else none
        else if after = before then some s
        else none
      else if o' = o ∧ x.live ∧ before = x.w ∧ lw.st = sSuspended then
        if x.w = lw then
          if after.st = sPending ∧ after.tag = lw.tag + 1 ∧ x.pusher = none then
            some { obj := upd s.obj o { x with w := after, pusher := some a, epoch := x.epoch + 1 },
                   act := upd s.act a ({ ac with sts := .won o }) }
          else none
        else if after = before then some s   -- stale previous_state: the loop loads again
        else none
      else none
    | _ => none
  | .stsNoop a o =>
    -- "old state is the same as new state" / "thread is terminated": nothing to do
    let ac := s.act a
    match ac.sts with
    | .loaded o' lw le =>
      if o' = o ∧ (lw.st = sPending ∨ lw.st = sTerminated) then
        some { s with act := upd s.act a ({ ac with sts := .out, issue := none }) }
      else none
    | _ => none
  | .stsHelper a o =>
    -- the target was loaded as active: hand the request to a helper task remembering that word
    let x := s.obj o
    let ac := s.act a
    match ac.sts with
    | .loaded o' lw le =>
      if o' = o ∧ lw.st = sActive then
        some { obj := upd s.obj o { x with helpers := (lw, le) :: x.helpers },
               act := upd s.act a ({ ac with sts := .out, issue := none }) }
      else none
    | _ => none
  | .stsDone a o =>
    -- normal return: the CAS succeeded and the thread has been queued (push moved `won` to `loaded`)
    let ac := s.act a
    match ac.sts with
    | .loaded o' lw le =>
      if o' = o ∧ pendingish lw then
        some { s with act := upd s.act a ({ ac with sts := .out, issue := none }) }
      else none
    | _ => none
  | .sasLoad a o cur prev =>
    -- helper task: `current_state = get_state()`; `prev` is the word it was created with
    let x := s.obj o
    let ac := s.act a
    if x.live ∧ cur = x.w ∧ ac.sas = none then
      match x.helpers.find? (fun h => h.1 == prev) with
      | some h =>
        some { obj := upd s.obj o { x with helpers := x.helpers.erase h },
               act := upd s.act a ({ ac with sas := some (o, cur, prev, h.2, x.epoch) }) }
      | none => none
    else none
  | .sasAbort a o =>
    -- `current.state() == previous.state() && current != previous`: the helper gives up
    let ac := s.act a
    match ac.sas with
    | some (o', cur, prev, _, _) =>
      if o' = o ∧ cur.st = prev.st ∧ cur ≠ prev then
        some { s with act := upd s.act a ({ ac with sas := none }) }
      else none
    | none => none
  | .sasRetry a o =>
    let ac := s.act a
    match ac.sas with
    | some (o', cur, prev, _, _) =>
      if o' = o ∧ ¬ (cur.st = prev.st ∧ cur ≠ prev) then
        some { s with act := upd s.act a ({ ac with sas := none }) }
      else none
    | none => none
  | .bodyEnter a o =>
    let x := s.obj o
    if x.live ∧ x.owner = some a ∧ x.inPhase then some s else none
  | .bodyExit a o =>
    let x := s.obj o
    if x.live ∧ x.owner = some a ∧ x.inPhase then some s else none

end PikaVerif.Sched
