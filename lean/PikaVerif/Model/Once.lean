import PikaVerif.Core.Basic
import PikaVerif.Core.Sum
/-!
# Model of `pika::experimental::event` and `pika::call_once` / `once_flag` (C09)

Follows `libs/pika/synchronization/include/pika/synchronization/event.hpp`
(`wait` with its lock-free fast path, `wait_locked`, `set`, `set_locked`, `reset`, `occurred`),
`once.hpp` (`call_once`: status load, CAS `0 → running`, event reset, callable, status store,
event set, exception path, losers waiting on the event and re-examining the status) and the
parts of `detail/condition_variable.cpp` they use (`wait`, `notify_all`), at the granularity of
the hook events compiled into those files and of the calls made on the execution agent.

One object: an `event` (operations `wait`, `set`, `reset`, `occ`) which is at the same time the
private `event_` of a `once_flag` (operation `call thr`; `thr` = the callable passed by this
caller throws).  Event program counters carry the context they were called from (`Ctx`), so the
event code is modelled once and used both stand-alone and from inside `call_once`.

Points of the code the model keeps visible:
* `event::wait` reads the flag *outside* the lock first (`evLoad` from `wWant`); only when that
  read returns false it takes the lock and loops `while (!event_) cond_.wait(l)`; the read of
  the loop condition (`evLoadL`) and the enqueue (`cvEnq`) are separate steps, so a `set` may
  store `true` between them;
* `event::set` stores `true` *outside* the lock (`stored true` from `sWant`, no lock needed) and
  only then takes the lock and calls `notify_all`; `reset` is a plain store of `false`;
* `notify_all` swaps the whole queue out and resumes every entry while the lock is held (no
  preemption point inside: one model event `notifyAll`);
* `call_once`: `status_` is `0`, `running` or `complete`; the winner of the CAS resets the
  event, runs the callable, stores `complete` (or `0` if the callable threw), then sets the
  event; a loser that did not see `complete` waits on the event and loops.

The model is an acceptor: `step s e = none` means "the code as modelled cannot produce event
`e` in state `s`".
-/
namespace PikaVerif.Once

/-- Public operations. -/
inductive Op where
  | wait | set | reset | occ | call (thr : Bool)
  deriving DecidableEq, Repr

/-- Where the event code was entered from. -/
inductive Ctx where
  | top | once (thr : Bool)
  deriving DecidableEq, Repr

/-- `once_flag::status_`: 0, `running_value`, `function_complete_flag_value`. -/
inductive Status where
  | zero | running | complete
  deriving DecidableEq, Repr

/-- Program counter of a thread inside an operation. -/
inductive Pc where
  | idle
  -- event::wait
  | wWant (c : Ctx)               -- at the point `event.wait`, before the fast-path load
  | wLockW (c : Ctx)              -- fast path read false; lock not yet taken
  | wLocked (c : Ctx)             -- lock held, at the loop head `while (!event_)`
  | wMustEnq (c : Ctx)            -- lock held, loop condition read false, before the cv enqueue
  | enq (c : Ctx)                 -- entry pushed on the cv queue (lock held)
  | unl (c : Ctx) (p : Bool)      -- lock released, about to suspend; p = already popped
  | susp (c : Ctx) (p : Bool)     -- inside agent.suspend
  | wokeNL (c : Ctx) (p : Bool)   -- suspend returned, lock not yet re-taken
  | relk (c : Ctx) (p : Bool)     -- lock re-taken, before the `ctx_` test (cv.woke)
  | wPass (c : Ctx)               -- loop left (flag read true), lock held
  -- event::set
  | sWant (c : Ctx)               -- at the point `event.set`, before the store
  | sLockW (c : Ctx)              -- stored true, lock not yet taken
  | sLocked (c : Ctx)             -- lock held, before notify_all
  | sRel (c : Ctx)                -- notify_all done, lock held
  -- event::reset / event::occurred (single atomic accesses)
  | rWant
  | oWant
  -- call_once
  | cLoad (thr : Bool)            -- at the point `once.load`, before the status load
  | cCas (thr : Bool)             -- at the point `once.cas`, before the CAS
  | cReset (thr : Bool)           -- CAS won, at the point `once.reset` before `event_.reset()`
  | cBody (thr : Bool)            -- event reset, callable not yet entered
  | cRan (thr : Bool)             -- callable entered; at the point `once.done` / `once.fail`
  | retn (r : Nat)                -- about to return r (0 = normally / false, 1 = true, 2 = exception)
  | fin
  deriving DecidableEq, Repr

inductive Ev where
  | inv (t : Nat) (o : Op)
  | ret (t : Nat) (r : Nat)
  | slAcq (t : Nat)
  | slRel (t : Nat)
  | evLoad (t : Nat) (v : Bool)
  | evLoadL (t : Nat) (v : Bool)
  | stored (t : Nat) (v : Bool)
  | cvEnq (t : Nat) (size : Nat)
  | notifyAll (t : Nat) (tgts : List Nat)
  | cvWoke (t : Nat) (stillQueued : Bool)
  | suspend (t : Nat)
  | woke (t : Nat)
  | onceLoad (t : Nat)
  | onceWon (t : Nat)
  | onceLost (t : Nat) (complete : Bool)
  | body (t : Nat) (thr : Bool)
  | onceStored (t : Nat) (v : Bool)
  | done (t : Nat)
  deriving Repr

structure St where
  n : Nat
  flag : Bool
  status : Status
  lock : Option Nat
  queue : List Nat
  tok : Nat → Nat
  pc : Nat → Pc
  /-- history counters: stores of true / of false (all) / of false by a stand-alone `reset`;
      CAS wins; callable entries; entries of a non-throwing callable; stores of `complete` -/
  sets : Nat
  resets : Nat
  topResets : Nat
  wins : Nat
  runs : Nat
  okRuns : Nat
  completions : Nat
  /-- history: the operation each thread invoked last -/
  curOp : Nat → Op

def init (n : Nat) : St :=
  { n := n, flag := false, status := .zero, lock := none, queue := [], tok := fun _ => 0,
    pc := fun _ => .idle, sets := 0, resets := 0, topResets := 0, wins := 0, runs := 0,
    okRuns := 0, completions := 0, curOp := fun _ => .occ }

def b2n (b : Bool) : Nat := if b then 1 else 0

/-- Where `event::wait` returns to. -/
def wDone : Ctx → Pc
  | .top => .retn 0
  | .once thr => .cLoad thr

/-- Where `event::set` returns to: stand-alone `set` returns; inside `call_once` the success
    path breaks out of the loop and returns, the exception path rethrows. -/
def sDone : Ctx → Pc
  | .top => .retn 0
  | .once thr => .retn (if thr then 2 else 0)

/-- First program counter of an operation. -/
def entry : Op → Pc
  | .wait => .wWant .top
  | .set => .sWant .top
  | .reset => .rWant
  | .occ => .oWant
  | .call thr => .cLoad thr

/-- `notify_all` resets the `ctx_` of an entry and resumes its owner. -/
def popd : Pc → Pc
  | .unl c _ => .unl c true
  | .susp c _ => .susp c true
  | p => p

def step (s : St) : Ev → Option St
  | .inv t o =>
    if t < s.n ∧ s.pc t = .idle then
      some { s with pc := upd s.pc t (entry o), curOp := upd s.curOp t o }
    else none
  | .evLoad t v =>
    -- fast path of event::wait: `if (event_.load()) return;` without the lock
    if t < s.n ∧ v = s.flag then
      match s.pc t with
      | .wWant c => some { s with pc := upd s.pc t (if v then wDone c else .wLockW c) }
      | _ => none
    else none
  | .slAcq t =>
    if t < s.n ∧ s.lock = none then
      match s.pc t with
      | .wLockW c => some { s with lock := some t, pc := upd s.pc t (.wLocked c) }
      | .wokeNL c p => some { s with lock := some t, pc := upd s.pc t (.relk c p) }
      | .sLockW c => some { s with lock := some t, pc := upd s.pc t (.sLocked c) }
      | _ => none
    else none
  | .evLoadL t v =>
    -- loop condition of `wait_locked`: `while (!event_.load())`, read under the lock (but the
    -- flag is written by `set` / `reset` without the lock)
    if t < s.n ∧ s.lock = some t ∧ v = s.flag then
      match s.pc t with
      | .wLocked c => some { s with pc := upd s.pc t (if v then .wPass c else .wMustEnq c) }
      | _ => none
    else none
  | .cvEnq t size =>
    if t < s.n ∧ s.lock = some t ∧ size = s.queue.length + 1 then
      match s.pc t with
      | .wMustEnq c => some { s with queue := s.queue ++ [t], pc := upd s.pc t (.enq c) }
      | _ => none
    else none
  | .slRel t =>
    if t < s.n ∧ s.lock = some t then
      match s.pc t with
      | .enq c => some { s with lock := none, pc := upd s.pc t (.unl c false) }
      | .wPass c => some { s with lock := none, pc := upd s.pc t (wDone c) }
      | .sRel c => some { s with lock := none, pc := upd s.pc t (sDone c) }
      | _ => none
    else none
  | .suspend t =>
    if t < s.n then
      match s.pc t with
      | .unl c p => some { s with pc := upd s.pc t (.susp c p) }
      | _ => none
    else none
  | .woke t =>
    if t < s.n ∧ 0 < s.tok t then
      match s.pc t with
      | .susp c p => some { s with tok := upd s.tok t (s.tok t - 1), pc := upd s.pc t (.wokeNL c p) }
      | _ => none
    else none
  | .cvWoke t still =>
    -- back to the loop head.  Only the signaled case is admitted (see `Latch.step`).
    if t < s.n ∧ s.lock = some t then
      match s.pc t with
      | .relk c p => if p = true ∧ still = false then some { s with pc := upd s.pc t (.wLocked c) } else none
      | _ => none
    else none
  | .stored t v =>
    if t < s.n then
      match s.pc t with
      | .sWant c =>
        -- event::set: `event_.store(true)` without the lock
        if v = true then some { s with flag := true, sets := s.sets + 1, pc := upd s.pc t (.sLockW c) } else none
      | .rWant =>
        if v = false then
          some { s with flag := false, resets := s.resets + 1, topResets := s.topResets + 1,
                        pc := upd s.pc t (.retn 0) }
        else none
      | .cReset thr =>
        if v = false then
          some { s with flag := false, resets := s.resets + 1, pc := upd s.pc t (.cBody thr) }
        else none
      | _ => none
    else none
  | .notifyAll t tgts =>
    -- notify_all: swap the queue out, reset every entry's ctx_ and resume its owner, all under
    -- the lock and without a preemption point
    if t < s.n ∧ s.lock = some t ∧ tgts = s.queue then
      match s.pc t with
      | .sLocked c =>
        some { s with queue := [],
                      tok := fun u => if u ∈ s.queue then s.tok u + 1 else s.tok u,
                      pc := upd (fun u => if u ∈ s.queue then popd (s.pc u) else s.pc u) t (.sRel c) }
      | _ => none
    else none
  | .onceLoad t =>
    -- `while (flag.status_.load() != function_complete_flag_value)`
    if t < s.n then
      match s.pc t with
      | .cLoad thr =>
        some { s with pc := upd s.pc t (if s.status = .complete then .retn 0 else .cCas thr) }
      | _ => none
    else none
  | .onceWon t =>
    if t < s.n ∧ s.status = .zero then
      match s.pc t with
      | .cCas thr => some { s with status := .running, wins := s.wins + 1, pc := upd s.pc t (.cReset thr) }
      | _ => none
    else none
  | .onceLost t cmp =>
    if t < s.n ∧ s.status ≠ .zero ∧ cmp = decide (s.status = .complete) then
      match s.pc t with
      | .cCas thr => some { s with pc := upd s.pc t (if cmp then .retn 0 else .wWant (.once thr)) }
      | _ => none
    else none
  | .body t thr' =>
    if t < s.n then
      match s.pc t with
      | .cBody thr =>
        if thr' = thr then
          some { s with runs := s.runs + 1, okRuns := s.okRuns + b2n (!thr), pc := upd s.pc t (.cRan thr) }
        else none
      | _ => none
    else none
  | .onceStored t v =>
    if t < s.n then
      match s.pc t with
      | .cRan thr =>
        if v = !thr then
          some { s with status := if thr then .zero else .complete,
                        completions := s.completions + b2n (!thr),
                        pc := upd s.pc t (.sWant (.once thr)) }
        else none
      | _ => none
    else none
  | .ret t r =>
    if t < s.n then
      match s.pc t with
      | .retn b => if b = r then some { s with pc := upd s.pc t .idle } else none
      | .oWant => if r = b2n s.flag then some { s with pc := upd s.pc t .idle } else none
      | _ => none
    else none
  | .done t =>
    if t < s.n ∧ s.pc t = .idle then some { s with pc := upd s.pc t .fin } else none

end PikaVerif.Once
