import PikaVerif.Core.Basic
import PikaVerif.Core.Sum
/-!
# Model of `pika::detail::stop_state` (C14, concurrency half)

Follows `libs/pika/synchronization/src/stop_token.cpp` at the granularity of the hook
events compiled into that file:

* the three lock loops (`lock`, `lock_and_request_stop`, `lock_if_not_stopped`): initial
  load (`stop.load`), CAS (`stop.casfail` / `stop.acq`), spin re-load (`stop.reload`);
  of the 64-bit word the model keeps the lock bit (with its holder), the stop-requested
  bit and the source count;
* `request_stop`: dequeue of the list head + unlock (`stop.deq`), the store of
  `is_removed_` (`stop.pre_exec`), the callback body (`cb.begin` / `cb.end`, logged by the
  harness' callback), the finished store (`stop.fin`), re-lock, end of loop (`stop.rsdone`);
* `add_callback`: inline execution when stop was already requested (`stop.infin`), push +
  unlock (`stop.push`);
* `remove_callback`: unlink attempt + unlock (`stop.unlink`), the `signalling_thread_`
  comparison with the `*is_removed_ = true` store (`stop.self`), the wait for
  `callback_finished_executing_` (`stop.waited`).

One stop state, callbacks are numbered.  *Activities* are the model's threads: activity
`a` belongs to OS/pika thread `a % K`; an operation invoked from inside a callback body
(deregistration, registration, request_stop from a callback) is a new activity `a + K` of
the same thread, and its parent `a` stays in the callback body until the child is idle
again (program order of a thread).  `ident a` is what `get_self_id()` (after the repair:
the pair task id / OS thread id) returns on the thread of `a`.

The two flags select the code variant:
* `fixCas = false` is the pinned tree: after a failed CAS whose observed value is not locked
  the loops of `lock_and_request_stop` / `lock_if_not_stopped` retry without looking at the
  stop-requested bit; `true` is the repaired code (re-check after every failed CAS);
* `fixCtor = false` is the pinned tree: `~stop_callback` calls `remove_callback` although
  `add_callback` returned false; `true`: the constructor drops the state in that case.
-/
namespace PikaVerif.Stop

inductive Kind where
  | rs | reg (c : Nat) | unreg (c : Nat) | relock
  deriving DecidableEq, Repr

inductive Pc where
  | idle | fin
  | ld (k : Kind)                 -- about to do the initial load of a lock loop
  | cas (k : Kind) (sreq : Bool)  -- about to CAS; `sreq` = stop-requested bit of the expected value
  | spin (k : Kind)               -- in the `for (… is_locked …)` loop, about to yield and re-load
  | locked (k : Kind)             -- holds the lock (rs/relock: loop head; reg: before push; unreg: before unlink)
  | pre (c : Nat)                 -- request_stop: c dequeued, lock released, before `is_removed_ = &is_removed`
  | exec (c : Nat) (inl : Bool)   -- about to call the callback (`inl`: from the constructor)
  | body (c : Nat) (inl : Bool)   -- inside the callback
  | post (c : Nat) (inl : Bool)   -- callback returned, before the finished store
  | chk (c : Nat)                 -- remove_callback: not in the list, lock released, before the thread comparison
  | wait (c : Nat)                -- remove_callback: yielding until callback_finished_executing_
  | retn (k : Kind) (r : Bool)    -- about to return
  deriving DecidableEq, Repr

inductive Life where
  | new | ctor | live | dying | dead
  deriving DecidableEq, Repr

inductive Ev where
  | inv (a : Nat) (k : Kind)
  | ret (a : Nat) (r : Bool)
  | load (a : Nat) (lk rq : Bool) (src : Nat)
  | casFail (a : Nat) (lk rq : Bool) (src : Nat)
  | reload (a : Nat) (lk rq : Bool) (src : Nat)
  | acq (a : Nat)
  | deq (a : Nat) (c : Nat) (more : Bool)
  | rsDone (a : Nat)
  | preExec (a : Nat) (c : Nat)
  | cbBegin (a : Nat) (c : Nat)
  | cbEnd (a : Nat) (c : Nat)
  | finStore (a : Nat) (c : Nat) (removed : Bool)
  | inFin (a : Nat) (c : Nat)
  | push (a : Nat) (c : Nat) (hadNext : Bool)
  | unlink (a : Nat) (c : Nat) (r : Bool)
  | selfChk (a : Nat) (c : Nat) (eq hadPtr : Bool)
  | waited (a : Nat) (c : Nat)
  | srcInc (a : Nat)
  | srcDec (a : Nat)
  | query (a : Nat) (rq poss : Bool)
  | done (a : Nat)
  deriving Repr

structure St where
  /-- constants of a run -/
  n : Nat
  K : Nat
  ident : Nat → Nat
  fixCas : Bool
  fixCtor : Bool
  /-- the state word -/
  lock : Option Nat
  req : Bool
  srcs : Nat
  /-- `callbacks_` (head first) and `signalling_thread_` (0 = default-constructed id) -/
  list : List Nat
  sig : Nat
  pc : Nat → Pc
  /-- per callback: `callback_finished_executing_`, `is_removed_` (the activity whose local it
      points to) -/
  fin : Nat → Bool
  remPtr : Nat → Option Nat
  /-- per activity: the local `is_removed` of its request_stop frame -/
  remFlag : Nat → Bool
  /-- history -/
  life : Nat → Life
  kept : Nat → Bool          -- add_callback returned true
  pushed : Nat → Bool        -- linked into the callback list at some point
  ranInl : Nat → Bool        -- executed from the constructor
  deqd : Nat → Bool          -- dequeued by request_stop
  owner : Nat → Nat          -- activity that constructs / executes the callback
  ctorBy : Nat → Nat         -- activity that runs the constructor
  dtorBy : Nat → Nat         -- activity that runs the destructor
  runs : Nat → Nat           -- number of times the callback body was entered
  running : Nat → Bool
  reqAtReg : Nat → Bool      -- stop had been requested when the constructor was invoked
  rsTrue : Nat               -- request_stop calls that returned true
  winner : Option Nat        -- activity whose lock_and_request_stop succeeded (last one)

def init (n K : Nat) (ident : Nat → Nat) (fixCas fixCtor : Bool) (srcs : Nat) : St :=
  { n := n, K := K, ident := ident, fixCas := fixCas, fixCtor := fixCtor,
    lock := none, req := false, srcs := srcs, list := [], sig := 0, pc := fun _ => .idle,
    fin := fun _ => false, remPtr := fun _ => none, remFlag := fun _ => false,
    life := fun _ => .new, kept := fun _ => false, pushed := fun _ => false, ranInl := fun _ => false,
    deqd := fun _ => false, owner := fun _ => 0, ctorBy := fun _ => 0, dtorBy := fun _ => 0, runs := fun _ => 0, running := fun _ => false,
    reqAtReg := fun _ => false, rsTrue := 0, winner := none }

/-- Where a lock loop goes after observing the word `(lk, rq, src)` with the function's own
    checks applied (`lock_and_request_stop` returns false on stop-requested;
    `lock_if_not_stopped` runs the callback on stop-requested and gives up when stop is not
    possible; plain `lock` has no checks). -/
def checked (k : Kind) (lk rq : Bool) (src : Nat) : Pc :=
  match k with
  | .rs => if rq then .retn .rs false else if lk then .spin .rs else .cas .rs false
  | .reg c =>
    if rq then .exec c true else if src = 0 then .retn (.reg c) false
    else if lk then .spin (.reg c) else .cas (.reg c) false
  | k => if lk then .spin k else .cas k rq

def isBody : Pc → Bool
  | .body _ _ => true
  | _ => false

def b2n (b : Bool) : Nat := if b then 1 else 0

def step (s : St) : Ev → Option St
  | .inv a k =>
    if a < s.n ∧ s.pc a = .idle ∧ (a < s.K ∨ isBody (s.pc (a - s.K)) = true) then
      match k with
      | .rs => some { s with pc := upd s.pc a (.ld .rs) }
      | .reg c =>
        if s.life c = .new then
          some { s with pc := upd s.pc a (.ld (.reg c)), life := upd s.life c .ctor,
                        owner := upd s.owner c a, ctorBy := upd s.ctorBy c a,
                        reqAtReg := upd s.reqAtReg c s.req }
        else none
      | .unreg c =>
        if s.life c = .live then
          some { s with life := upd s.life c .dying, dtorBy := upd s.dtorBy c a,
                        pc := upd s.pc a (if s.fixCtor ∧ s.kept c = false then .retn (.unreg c) false
                                          else .ld (.unreg c)) }
        else none
      | .relock => none
    else none
  | .ret a r =>
    if a < s.n then
      match s.pc a with
      | .retn .rs b =>
        if b = r then some { s with pc := upd s.pc a .idle, rsTrue := s.rsTrue + b2n b } else none
      | .retn (.reg c) b =>
        some { s with pc := upd s.pc a .idle, life := upd s.life c .live, kept := upd s.kept c b }
      | .retn (.unreg c) _ =>
        some { s with pc := upd s.pc a .idle, life := upd s.life c .dead }
      | _ => none
    else none
  | .load a lk rq src =>
    if a < s.n ∧ lk = s.lock.isSome ∧ rq = s.req ∧ src = s.srcs then
      match s.pc a with
      | .ld k => some { s with pc := upd s.pc a (checked k false rq src) }
      | _ => none
    else none
  | .casFail a lk rq src =>
    if a < s.n ∧ lk = s.lock.isSome ∧ rq = s.req ∧ src = s.srcs then
      match s.pc a with
      | .cas k _ =>
        some { s with pc := upd s.pc a (if s.fixCas then checked k lk rq src
                                        else if lk then .spin k else .cas k rq) }
      | _ => none
    else none
  | .reload a lk rq src =>
    if a < s.n ∧ lk = s.lock.isSome ∧ rq = s.req ∧ src = s.srcs then
      match s.pc a with
      | .spin k => some { s with pc := upd s.pc a (checked k lk rq src) }
      | _ => none
    else none
  | .acq a =>
    if a < s.n ∧ s.lock = none then
      match s.pc a with
      | .cas .rs sreq =>
        if sreq = s.req then
          some { s with lock := some a, req := true, sig := s.ident a, winner := some a,
                        pc := upd s.pc a (.locked .rs) }
        else none
      | .cas (.reg c) sreq =>
        if sreq = s.req then some { s with lock := some a, pc := upd s.pc a (.locked (.reg c)) } else none
      | .cas (.unreg c) sreq =>
        if sreq = s.req then some { s with lock := some a, pc := upd s.pc a (.locked (.unreg c)) } else none
      | .cas .relock sreq =>
        if sreq = s.req then some { s with lock := some a, pc := upd s.pc a (.locked .relock) } else none
      | _ => none
    else none
  | .deq a c more =>
    if a < s.n ∧ s.lock = some a ∧ (s.pc a = .locked .rs ∨ s.pc a = .locked .relock) then
      match s.list with
      | h :: rest =>
        if h = c ∧ more = decide (rest ≠ []) then
          some { s with list := rest, lock := none, deqd := upd s.deqd c true,
                        owner := upd s.owner c a, pc := upd s.pc a (.pre c) }
        else none
      | [] => none
    else none
  | .rsDone a =>
    if a < s.n ∧ s.lock = some a ∧ (s.pc a = .locked .rs ∨ s.pc a = .locked .relock) ∧ s.list = [] then
      some { s with lock := none, pc := upd s.pc a (.retn .rs true) }
    else none
  | .preExec a c =>
    if a < s.n ∧ s.pc a = .pre c then
      some { s with remPtr := upd s.remPtr c (some a), remFlag := upd s.remFlag a false,
                    pc := upd s.pc a (.exec c false) }
    else none
  | .cbBegin a c =>
    if a < s.n then
      match s.pc a with
      | .exec c' inl =>
        if c' = c then
          some { s with runs := upd s.runs c (s.runs c + 1), running := upd s.running c true,
                        pc := upd s.pc a (.body c inl) }
        else none
      | _ => none
    else none
  | .cbEnd a c =>
    if a < s.n ∧ s.pc (a + s.K) = .idle then
      match s.pc a with
      | .body c' inl =>
        if c' = c then
          some { s with running := upd s.running c false, pc := upd s.pc a (.post c inl) }
        else none
      | _ => none
    else none
  | .finStore a c removed =>
    if a < s.n ∧ s.pc a = .post c false ∧ removed = s.remFlag a then
      if removed then some { s with pc := upd s.pc a (.ld .relock) }
      else some { s with remPtr := upd s.remPtr c none, fin := upd s.fin c true,
                         pc := upd s.pc a (.ld .relock) }
    else none
  | .inFin a c =>
    if a < s.n ∧ s.pc a = .post c true then
      some { s with fin := upd s.fin c true, ranInl := upd s.ranInl c true,
                    pc := upd s.pc a (.retn (.reg c) false) }
    else none
  | .push a c hadNext =>
    if a < s.n ∧ s.lock = some a ∧ s.pc a = .locked (.reg c) ∧ hadNext = decide (s.list ≠ []) then
      some { s with list := c :: s.list, lock := none, pushed := upd s.pushed c true,
                    pc := upd s.pc a (.retn (.reg c) true) }
    else none
  | .unlink a c r =>
    if a < s.n ∧ s.lock = some a ∧ s.pc a = .locked (.unreg c) ∧ r = decide (c ∈ s.list) then
      if r then some { s with list := s.list.erase c, lock := none, pc := upd s.pc a (.retn (.unreg c) true) }
      else some { s with lock := none, pc := upd s.pc a (.chk c) }
    else none
  | .selfChk a c eq hadPtr =>
    if a < s.n ∧ s.pc a = .chk c ∧ eq = decide (s.sig = s.ident a) then
      if eq then
        match s.remPtr c with
        | some w =>
          if hadPtr then
            some { s with remFlag := upd s.remFlag w true, pc := upd s.pc a (.retn (.unreg c) false) }
          else none
        | none => if hadPtr then none else some { s with pc := upd s.pc a (.retn (.unreg c) false) }
      else
        if hadPtr then none else some { s with pc := upd s.pc a (.wait c) }
    else none
  | .waited a c =>
    if a < s.n ∧ s.pc a = .wait c ∧ s.fin c = true then
      some { s with pc := upd s.pc a (.retn (.unreg c) false) }
    else none
  | .srcInc a =>
    if a < s.n ∧ 0 < s.srcs then some { s with srcs := s.srcs + 1 } else none
  | .srcDec a =>
    if a < s.n ∧ 0 < s.srcs then some { s with srcs := s.srcs - 1 } else none
  | .query a rq poss =>
    if a < s.n ∧ rq = s.req ∧ poss = (s.req || decide (0 < s.srcs)) then some s else none
  | .done a =>
    -- a thread finishes at nesting level 0 only (never from inside a callback body)
    if a < s.n ∧ a < s.K ∧ s.pc a = .idle then some { s with pc := upd s.pc a .fin } else none

end PikaVerif.Stop
