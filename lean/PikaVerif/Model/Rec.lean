import PikaVerif.Core.Basic
import PikaVerif.Core.Sum
/-!
# Models of `pika::detail::recursive_mutex_impl<spinlock>` and of the bare spinlock (C06)

`Rec` follows `libs/pika/synchronization/include/pika/synchronization/recursive_mutex.hpp`
(`lock`, `try_lock`, `unlock`, `try_recursive_lock`, `try_basic_lock`) over
`concurrency/spinlock.hpp`, at the granularity of the hook events `rmtx.rec`, `rmtx.own`,
`rmtx.zero`, `rmtx.dec`, `rmtx.free`, `sl.acq`, `sl.try`, `sl.rel`.  The identity the code
compares (`agent_ref`) is the thread number.  `unlock()` by a thread that does not own the
mutex is outside the class' contract and is *not* detected by the code (it decrements
`recursion_count` regardless); the acceptor only admits `unlock` invocations by a thread whose
successful locks outnumber its unlocks (caller contract, recorded as an assumption).

`Spin` follows `spinlock::{lock, try_lock, unlock}` (`sl.acq`, `sl.try`, `sl.rel`).
-/
namespace PikaVerif.Rec

inductive Op where
  | rlock | rtry | runlock
  deriving DecidableEq, Repr

inductive Pc where
  | idle
  | want (o : Op)            -- invoked
  | got (o : Op)             -- internal spinlock acquired, `locking_context`/`recursion_count` not yet written
  | zeroed                   -- `unlock`: `--recursion_count` gave 0, context not yet cleared
  | retn (o : Op) (r : Bool)
  | fin
  deriving DecidableEq, Repr

inductive Ev where
  | inv (t : Nat) (o : Op)
  | ret (t : Nat) (r : Bool)
  | reent (t : Nat) (c : Nat)     -- try_recursive_lock succeeded, count after the increment
  | slAcq (t : Nat)               -- `mtx.lock()` acquired
  | slTry (t : Nat) (r : Bool)    -- `mtx.try_lock()` returned r
  | own (t : Nat) (k : Nat)       -- context := self, count := 1  (k = 1 lock, 2 try_lock)
  | zero (t : Nat)                -- `--recursion_count == 0`
  | dec (t : Nat) (c : Nat)       -- `--recursion_count == c ≠ 0`
  | free (t : Nat)                -- context cleared and `mtx.unlock()`
  | csEnter (t : Nat)
  | csExit (t : Nat)
  | done (t : Nat)
  deriving Repr

structure St where
  n : Nat
  v : Option Nat             -- holder of the internal spinlock
  ctx : Option Nat           -- `locking_context`
  cnt : Nat                  -- `recursion_count`
  pc : Nat → Pc
  /-- history from observables: successful lock/try_lock returns minus unlock invocations -/
  depthG : Nat → Nat
  inCS : Nat → Bool
  enters : Nat
  exits : Nat
  tookOp : Nat → Bool

def init (n : Nat) : St :=
  { n := n, v := none, ctx := none, cnt := 0, pc := fun _ => .idle, depthG := fun _ => 0,
    inCS := fun _ => false, enters := 0, exits := 0, tookOp := fun _ => false }

def ownKind : Op → Nat
  | .rlock => 1
  | .rtry => 2
  | .runlock => 0

def step (s : St) : Ev → Option St
  | .inv t o =>
    if t < s.n ∧ s.pc t = .idle ∧
        (o = .runlock → 0 < s.depthG t ∧ (s.depthG t = 1 → s.inCS t = false)) then
      some { s with pc := upd s.pc t (.want o), tookOp := upd s.tookOp t false,
                    depthG := if o = .runlock then upd s.depthG t (s.depthG t - 1) else s.depthG }
    else none
  | .reent t c =>
    -- `if (locking_context.load() == ctx) { ++recursion_count; return true; }`
    if t < s.n ∧ s.ctx = some t ∧ c = s.cnt + 1 then
      match s.pc t with
      | .want o =>
        if o = .runlock then none
        else some { s with cnt := s.cnt + 1, tookOp := upd s.tookOp t true, pc := upd s.pc t (.retn o true) }
      | _ => none
    else none
  | .slAcq t =>
    if t < s.n ∧ s.ctx ≠ some t ∧ s.v = none then
      match s.pc t with
      | .want .rlock => some { s with v := some t, pc := upd s.pc t (.got .rlock) }
      | _ => none
    else none
  | .slTry t r =>
    if t < s.n ∧ s.ctx ≠ some t ∧ r = decide (s.v = none) then
      match s.pc t with
      | .want .rtry =>
        if r then some { s with v := some t, pc := upd s.pc t (.got .rtry) }
        else some { s with pc := upd s.pc t (.retn .rtry false) }
      | _ => none
    else none
  | .own t k =>
    if t < s.n then
      match s.pc t with
      | .got o =>
        if k = ownKind o ∧ o ≠ .runlock then
          some { s with ctx := some t, cnt := 1, tookOp := upd s.tookOp t true, pc := upd s.pc t (.retn o true) }
        else none
      | _ => none
    else none
  | .zero t =>
    if t < s.n ∧ s.cnt = 1 then
      match s.pc t with
      | .want .runlock => some { s with cnt := 0, pc := upd s.pc t .zeroed }
      | _ => none
    else none
  | .dec t c =>
    if t < s.n ∧ 2 ≤ s.cnt ∧ c = s.cnt - 1 then
      match s.pc t with
      | .want .runlock => some { s with cnt := s.cnt - 1, pc := upd s.pc t (.retn .runlock true) }
      | _ => none
    else none
  | .free t =>
    if t < s.n then
      match s.pc t with
      | .zeroed => some { s with ctx := none, v := none, pc := upd s.pc t (.retn .runlock true) }
      | _ => none
    else none
  | .ret t r =>
    if t < s.n then
      match s.pc t with
      | .retn o b =>
        if b = r then
          some { s with pc := upd s.pc t .idle,
                        depthG := if r = true ∧ o ≠ .runlock then upd s.depthG t (s.depthG t + 1) else s.depthG }
        else none
      | _ => none
    else none
  | .csEnter t =>
    if t < s.n ∧ s.pc t = .idle ∧ 0 < s.depthG t ∧ s.inCS t = false then
      some { s with inCS := upd s.inCS t true, enters := s.enters + 1 }
    else none
  | .csExit t =>
    if t < s.n ∧ s.pc t = .idle ∧ s.inCS t = true then
      some { s with inCS := upd s.inCS t false, exits := s.exits + 1 }
    else none
  | .done t =>
    if t < s.n ∧ s.pc t = .idle then some { s with pc := upd s.pc t .fin } else none

end PikaVerif.Rec

namespace PikaVerif.Spin

inductive Op where
  | slock | stry | sunlock
  deriving DecidableEq, Repr

inductive Pc where
  | idle
  | want (o : Op)
  | retn (o : Op) (r : Bool)
  | fin
  deriving DecidableEq, Repr

inductive Ev where
  | inv (t : Nat) (o : Op)
  | ret (t : Nat) (r : Bool)
  | slAcq (t : Nat)
  | slTry (t : Nat) (r : Bool)
  | slRel (t : Nat)
  | csEnter (t : Nat)
  | csExit (t : Nat)
  | done (t : Nat)
  deriving Repr

structure St where
  n : Nat
  v : Option Nat             -- `v_` (some t = true, exchanged by t)
  pc : Nat → Pc
  /-- history from observables: last lock-type call reported success, `unlock` not invoked since -/
  holdsG : Nat → Bool
  inCS : Nat → Bool
  enters : Nat
  exits : Nat
  tookOp : Nat → Bool

def init (n : Nat) : St :=
  { n := n, v := none, pc := fun _ => .idle, holdsG := fun _ => false, inCS := fun _ => false,
    enters := 0, exits := 0, tookOp := fun _ => false }

def step (s : St) : Ev → Option St
  | .inv t o =>
    -- `unlock()` by a non-holder is outside the contract (not detected: it just stores false)
    if t < s.n ∧ s.pc t = .idle ∧ (o = .sunlock → s.holdsG t = true ∧ s.inCS t = false) then
      some { s with pc := upd s.pc t (.want o), tookOp := upd s.tookOp t false,
                    holdsG := if o = .sunlock then upd s.holdsG t false else s.holdsG }
    else none
  | .slAcq t =>
    -- `while (!acquire_lock())` left: the exchange returned false
    if t < s.n ∧ s.v = none then
      match s.pc t with
      | .want .slock => some { s with v := some t, tookOp := upd s.tookOp t true, pc := upd s.pc t (.retn .slock true) }
      | _ => none
    else none
  | .slTry t r =>
    if t < s.n ∧ r = decide (s.v = none) then
      match s.pc t with
      | .want .stry =>
        if r then some { s with v := some t, tookOp := upd s.tookOp t true, pc := upd s.pc t (.retn .stry true) }
        else some { s with pc := upd s.pc t (.retn .stry false) }
      | _ => none
    else none
  | .slRel t =>
    if t < s.n then
      match s.pc t with
      | .want .sunlock => some { s with v := none, pc := upd s.pc t (.retn .sunlock true) }
      | _ => none
    else none
  | .ret t r =>
    if t < s.n then
      match s.pc t with
      | .retn o b =>
        if b = r then
          some { s with pc := upd s.pc t .idle,
                        holdsG := if r = true ∧ o ≠ .sunlock then upd s.holdsG t true else s.holdsG }
        else none
      | _ => none
    else none
  | .csEnter t =>
    if t < s.n ∧ s.pc t = .idle ∧ s.holdsG t = true ∧ s.inCS t = false then
      some { s with inCS := upd s.inCS t true, enters := s.enters + 1 }
    else none
  | .csExit t =>
    if t < s.n ∧ s.pc t = .idle ∧ s.inCS t = true then
      some { s with inCS := upd s.inCS t false, exits := s.exits + 1 }
    else none
  | .done t =>
    if t < s.n ∧ s.pc t = .idle then some { s with pc := upd s.pc t .fin } else none

end PikaVerif.Spin
