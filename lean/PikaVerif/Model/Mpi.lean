import PikaVerif.Core.Basic
/-!
# Model of pika's MPI request handling (C20)

Follows, at the granularity of the `mpi.*` hook events,

* `transform_mpi_detail::operation_state::receiver::{set_value, dispatch, trigger}`
  (`async_mpi/transform_mpi.hpp`): post the MPI call, early poll, then by handler method
  `yield_while` / `suspend_resume` / `new_task` / `continuation`;
* the callbacks of `async_mpi/mpi_helpers.hpp` (`add_*_request_callback`, `set_value_error_helper`);
* the request registry of `async_mpi/src/mpi_polling.cpp`: `add_to_request_callback_queue`
  (global activity count +1, `all_in_flight_` +1, lock-free queue — or straight into the vector
  in single-threaded mode), `poll_multithreaded` (try-lock, queue → vector, `MPI_Testsome/Testany`
  → ready queue, ready queue → `--all_in_flight_`, callback, activity count −1),
  `poll_singlethreaded`, `register_polling` / `unregister_polling` / `stop_polling`;
* `thread_manager::wait` (returns when the global activity count is at most the caller's own 1).

An *operation* is one life of an `operation_state` (one MPI call posted through the adaptor); the
driver numbers operations 0,1,2,… in the order of their `mpi.post` events, so an operation id is
never reused (op_state addresses and `MPI_Request` handles are — the driver resolves them).
Actors are OS threads.  MPI itself is the environment: the events `eager`, `ydone`, `ready`,
`testany` carry MPI's report "this request is complete"; nothing else is assumed about MPI.

`bug = true` describes the pinned tree before the repair (`trigger` runs although `dispatch` has
already signalled an MPI error); the repaired tree is `bug = false`.
-/
namespace PikaVerif.Mpi

abbrev mYield : Nat := 0
abbrev mSuspend : Nat := 1
abbrev mNewTask : Nat := 2
abbrev mCont : Nat := 3

/-- where the operation's own control flow (the submitting / continuing side) is -/
inductive Pc where
  | idle        -- not created yet
  | posted      -- `dispatch` returned MPI_SUCCESS; `trigger` is about to poll / register
  | failed      -- `dispatch` got an MPI error and is about to call `set_error`
  | errDone     -- (pinned tree only) error signalled, `trigger` runs nevertheless
  | eagerOk     -- the early poll found the request complete; about to call `set_value`
  | yDone       -- yield_while: the poll loop has seen the request complete
  | reg0        -- `add_*_request_callback` entered; about to increment the activity count
  | reg1        -- activity count incremented; about to `++all_in_flight_`
  | reg2        -- `all_in_flight_` incremented; about to enqueue / push
  | waiting     -- registered; waits for the callback
  | cbRun       -- the callback body is running (continuation / new_task)
  | completed   -- suspend_resume: the callback has set `completed`; the waiter must wake
  | woken       -- suspend_resume: the waiter has left `cond_var.wait`
  | done        -- the receiver has been signalled
  deriving DecidableEq, Repr

/-- where the registry entry of the operation is -/
inductive Rs where
  | none                    -- never registered
  | queued                  -- in `request_callback_queue_`
  | vec                     -- in `requests_` / `callbacks_`
  | ready (e : Nat)         -- MPI reported it complete (status e); in `ready_requests_`
  | taken (a e : Nat)       -- dequeued by actor a (or found by Testany in single-threaded mode)
  | decd (a e : Nat)        -- … and `all_in_flight_` decremented
  | calling (a e : Nat)     -- … and the callback invoked
  | returned (a : Nat)      -- the callback has returned
  | gone                    -- activity count decremented: the entry no longer exists
  deriving DecidableEq, Repr

structure Op where
  pc : Pc := .idle
  rs : Rs := .none
  mode : Nat := 0           -- handler method
  okPost : Bool := false    -- the MPI call itself returned MPI_SUCCESS
  mpiDone : Bool := false   -- MPI has reported the request complete
  sigs : Nat := 0           -- completion signals sent to the receiver
  cbs : Nat := 0            -- invocations of the registered callback
  rel : Nat := 0            -- times the adaptor released the operation's stored arguments (`ts`)
  deriving Repr

inductive Ev where
  | post (a x m : Nat) (ok : Bool)
  | eager (a x : Nat)
  | ydone (a x : Nat)
  | sig (a x : Nat)
  | reg (a x : Nat)
  | gacInc (a x : Nat)
  | ifInc (a x v : Nat)
  | enq (a x : Nat)
  | addv (a x : Nat)
  | lock (a : Nat)
  | unlock (a : Nat)
  | q2v (a x : Nat)
  | ready (a x e : Nat)
  | deq (a x e : Nat)
  | testany (a x e : Nat)
  | ifDec (a x v : Nat)
  | call (a x : Nat)
  | cb (a x e : Nat)
  | ret (a x : Nat)
  | gacDec (a x : Nat)
  | woke (a x : Nat)
  | rel (a x : Nat)
  | pollOn (a : Nat) (stm : Bool)
  | pollOff (a : Nat)
  | stopRet (a v : Nat)
  | waitRet (a v k : Nat)
  deriving Repr

structure St where
  op : Nat → Op
  n : Nat := 0                  -- operations created so far
  inFlight : Nat := 0           -- `all_in_flight_`
  gac : Nat := 0                -- the MPI registry's share of the global activity count
  lock : Option Nat := none     -- holder of `polling_vector_mtx_`
  installed : Bool := false     -- the polling function is installed on the pool's scheduler
  stm : Bool := false           -- `single_thread_mode_`
  bug : Bool := false
  nOn : Nat := 0                -- effective register_polling calls
  nOff : Nat := 0               -- effective unregister_polling calls

def init (bug : Bool := false) : St := { op := fun _ => {}, bug := bug }

def setOp (s : St) (x : Nat) (o : Op) : St := { s with op := upd s.op x o }

def step (s : St) : Ev → Option St
  | .post _ x m ok =>
    -- dispatch: the MPI function has been called and has returned `status`
    if x = s.n ∧ m < 4 then
      some { s with op := upd s.op x { pc := (if ok then .posted else .failed), mode := m, okPost := ok },
                    n := s.n + 1 }
    else none
  | .eager _ x =>
    -- trigger: `poll_request` returned true
    let o := s.op x
    if x < s.n ∧ (o.pc = .posted ∨ (s.bug = true ∧ o.pc = .errDone)) then
      some (setOp s x { o with pc := .eagerOk, mpiDone := true })
    else none
  | .ydone _ x =>
    let o := s.op x
    if x < s.n ∧ o.pc = .posted ∧ o.mode = mYield then
      some (setOp s x { o with pc := .yDone, mpiDone := true })
    else none
  | .sig _ x =>
    -- a `set_value` / `set_error` call on the operation's receiver
    let o := s.op x
    if x < s.n then
      match o.pc with
      | .failed => some (setOp s x { o with pc := (if s.bug then .errDone else .done), sigs := o.sigs + 1 })
      | .eagerOk | .yDone | .cbRun | .woken => some (setOp s x { o with pc := .done, sigs := o.sigs + 1 })
      | _ => none
    else none
  | .reg _ x =>
    let o := s.op x
    if x < s.n ∧ o.pc = .posted ∧ o.mode ≠ mYield ∧ s.installed = true then
      some (setOp s x { o with pc := .reg0 })
    else none
  | .gacInc _ x =>
    let o := s.op x
    if x < s.n ∧ o.pc = .reg0 then
      some { setOp s x { o with pc := .reg1 } with gac := s.gac + 1 }
    else none
  | .ifInc _ x v =>
    let o := s.op x
    if x < s.n ∧ o.pc = .reg1 ∧ v = s.inFlight + 1 then
      some { setOp s x { o with pc := .reg2 } with inFlight := s.inFlight + 1 }
    else none
  | .enq _ x =>
    let o := s.op x
    if x < s.n ∧ o.pc = .reg2 ∧ s.stm = false then
      some (setOp s x { o with pc := .waiting, rs := .queued })
    else none
  | .addv _ x =>
    let o := s.op x
    if x < s.n ∧ o.pc = .reg2 ∧ s.stm = true then
      some (setOp s x { o with pc := .waiting, rs := .vec })
    else none
  | .lock a => if s.lock = none then some { s with lock := some a } else none
  | .unlock a => if s.lock = some a then some { s with lock := none } else none
  | .q2v a x =>
    let o := s.op x
    if x < s.n ∧ o.rs = .queued ∧ (s.stm = true ∨ s.lock = some a) then
      some (setOp s x { o with rs := .vec })
    else none
  | .ready a x e =>
    -- multi-threaded poller: MPI_Testsome / MPI_Testany listed the request
    let o := s.op x
    if x < s.n ∧ o.rs = .vec ∧ s.lock = some a ∧ s.stm = false then
      some (setOp s x { o with rs := .ready e, mpiDone := true })
    else none
  | .deq a x e =>
    let o := s.op x
    if x < s.n ∧ o.rs = .ready e then some (setOp s x { o with rs := .taken a e }) else none
  | .testany a x e =>
    -- single-threaded poller: MPI_Testany returned this index
    let o := s.op x
    if x < s.n ∧ o.rs = .vec ∧ s.stm = true then
      some (setOp s x { o with rs := .taken a e, mpiDone := true })
    else none
  | .ifDec a x v =>
    let o := s.op x
    if x < s.n ∧ v + 1 = s.inFlight then
      match o.rs with
      | .taken a' e => if a' = a then some { setOp s x { o with rs := .decd a e } with inFlight := s.inFlight - 1 } else none
      | _ => none
    else none
  | .call a x =>
    let o := s.op x
    if x < s.n then
      match o.rs with
      | .decd a' e => if a' = a then some (setOp s x { o with rs := .calling a e, cbs := o.cbs + 1 }) else none
      | _ => none
    else none
  | .cb a x e' =>
    -- the callback body (mpi_helpers.hpp) starts, with the status it was given
    let o := s.op x
    if x < s.n ∧ o.pc = .waiting then
      match o.rs with
      | .calling a' e =>
        if a' = a ∧ e' = e then
          some (setOp s x { o with pc := (if o.mode = mSuspend then .completed else .cbRun) })
        else none
      | _ => none
    else none
  | .ret a x =>
    let o := s.op x
    if x < s.n ∧ o.pc ≠ .waiting then
      match o.rs with
      | .calling a' _ => if a' = a then some (setOp s x { o with rs := .returned a }) else none
      | _ => none
    else none
  | .gacDec a x =>
    let o := s.op x
    if x < s.n ∧ o.rs = .returned a then
      some { setOp s x { o with rs := .gone } with gac := s.gac - 1 }
    else none
  | .woke _ x =>
    let o := s.op x
    if x < s.n ∧ o.pc = .completed then some (setOp s x { o with pc := .woken }) else none
  | .rel _ x =>
    -- the adaptor lets go of the arguments it decay-copied for the MPI call (`op_state.ts = {}` in a
    -- request callback, or the destruction of the operation state): once per operation, and for a
    -- call that was posted successfully only after MPI has reported the request complete
    let o := s.op x
    if x < s.n ∧ o.rel = 0 ∧ (o.okPost = false ∨ o.mpiDone = true) then
      some (setOp s x { o with rel := 1 })
    else none
  | .pollOn _ stm =>
    -- detail::register_polling(pool): waits for all_in_flight_ == 0, then installs the function
    if s.installed = false ∧ s.inFlight = 0 then
      some { s with installed := true, stm := stm, nOn := s.nOn + 1 }
    else none
  | .pollOff _ =>
    -- detail::unregister_polling(pool): clears the function (also called when none is installed)
    if s.installed = true then some { s with installed := false, nOff := s.nOff + 1 } else some s
  | .stopRet _ v =>
    -- stop_polling: `yield_while(all_in_flight_ > 0)` has returned, v = the counter's value
    if v = 0 ∧ s.inFlight = 0 ∧ s.installed = false then some s else none
  | .waitRet _ v k =>
    -- thread_manager::wait has returned: the real activity count v is at most the caller's own
    -- share k; the real count is the MPI registry's share plus everything else (≥ k)
    if v ≤ k ∧ s.gac + k ≤ v then some s else none

end PikaVerif.Mpi
