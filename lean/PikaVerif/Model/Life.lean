import PikaVerif.Core.Basic
import PikaVerif.Core.Sum
/-!
# Model of the runtime life cycle (C05)

Follows, at the granularity of the hook events compiled into them,

* `threading_base/src/global_activity_count.cpp` (`gac.inc`, `gac.dec`) and the places that move
  a unit of activity: the schedulers' `create_thread` (increment *first*, then either a thread
  object is created — `task.new` / `task.rebind` — or a task description is staged —
  `newq.push` — and converted later by a worker in `add_new` — `newq.pop` followed by
  `task.new`/`task.rebind`) and `destroy_thread` (`task.destroy` *first*, decrement afterwards);
* `thread_manager::wait` (`gac.sample`: the predicate's load of the counter, compared with
  `get_self_ptr() != nullptr ? 1 : 0`);
* `runtime::{init, run_helper, set_state, stopping, notify_finalize, wait_finalize, wait, suspend,
  resume}` (`rt.state`, `rt.result`, `rt.fin`, `rt.waitfin`, `rt.waited`, `rt.suspend`,
  `rt.resume`) and `pika::stop` (`life.stop.enter`, `life.stop.exit`);
* the scheduling loop's phase brackets (`phase.begin`, `phase.end`), the worker start in
  `scheduled_thread_pool::thread_func` (`pool.worker`) and `scheduler_base::suspend`
  (`pu.sleep`: the store of `sleeping` before blocking, `pu.wake`: the exchange after waking).

Activity units between the increment and the creation of the thread object, in the staged queue,
and between `task.destroy` and the decrement are anonymous counters (`creating`, `staged`,
`destroying`): a task may yield inside `create_thread` / `destroy_thread` (spin locks back off by
yielding the pika task), so these sections are not tied to an OS thread.  Thread objects
(`thread_data` addresses) and actors (OS threads) are numbered by first appearance in the log and
bounded by `no` / `na` (fixed per log; the theorems hold for every bound).

The model is an acceptor over the exact linearisation produced by engine E2.
-/
namespace PikaVerif.Life

def b2n (b : Bool) : Nat := if b then 1 else 0

inductive Phase where
  | none | starting | running | suspending | suspended | resuming | stopping
  deriving DecidableEq, Repr

/-- where the thread inside `pika::stop()` is -/
inductive StopPc where
  | out
  | entered      -- took ownership of the runtime, about to call `runtime::wait`
  | waitedFin    -- `wait_finalize` returned
  | drained      -- `thread_manager::wait` sampled an idle counter
  | waited       -- `runtime::wait` returned `result_`
  | halted       -- `runtime::stopping` stored `stopped`
  deriving DecidableEq, Repr

structure Cfg where
  th : Nat
  pol : Nat
  deriving DecidableEq, Repr

inductive Ev where
  | inc (a new : Nat)
  | dec (a new : Nat)
  | stage (a : Nat)
  | unstage (a : Nat)
  | new (a o : Nat)
  | destroy (a o : Nat)
  | phaseBegin (a o : Nat)
  | phaseEnd (a o : Nat)
  | body (a o : Nat)
  | sample (a v self : Nat)
  | rtState (a v : Nat)
  | result (a r : Nat)
  | fin (a : Nat)
  | stopEnter (a : Nat)
  | waitFin (a : Nat)
  | waited (a r : Nat)
  | stopExit (a r : Nat)
  | suspendEnter (a : Nat)
  | resumeEnter (a : Nat)
  | worker (a : Nat)
  | sleep (a : Nat)
  | wake (a : Nat)
  | waitEnter (a : Nat)
  | waitExit (a : Nat)
  | reqCfg (a th pol : Nat)
  | seenCfg (a th pol : Nat)
  deriving Repr

structure St where
  na : Nat
  no : Nat
  /-- the global activity counter -/
  cnt : Nat
  creating : Nat
  staged : Nat
  destroying : Nat
  /-- thread object `o` holds a task (created and not yet handed to `destroy_thread`) -/
  live : Nat → Bool
  /-- a phase of object `o` is in progress on some worker -/
  running : Nat → Bool
  /-- the object whose phase actor `a` is executing -/
  cur : Nat → Option Nat
  worker : Nat → Bool
  asleep : Nat → Bool
  nworkers : Nat
  nsleep : Nat
  ph : Phase
  /-- number of runtimes constructed so far -/
  incarnation : Nat
  /-- `stop_done_` -/
  fin : Bool
  /-- `result_` -/
  result : Nat
  cfgReq : Cfg
  cfg : Cfg
  stopper : Option Nat
  spc : StopPc
  /-- history: number of `create_thread` increments / `destroy_thread` decrements so far -/
  started : Nat
  finished : Nat
  /-- the last sample of the counter taken by OS thread `a` let `thread_manager::wait` return -/
  lastRet : Nat → Bool

def init (na no : Nat) : St :=
  { na := na, no := no, cnt := 0, creating := 0, staged := 0, destroying := 0,
    live := fun _ => false, running := fun _ => false, cur := fun _ => none,
    worker := fun _ => false, asleep := fun _ => false, nworkers := 0, nsleep := 0,
    ph := .none, incarnation := 0, fin := false, result := 0, cfgReq := ⟨0, 0⟩, cfg := ⟨0, 0⟩,
    stopper := none, spc := .out, started := 0, finished := 0, lastRet := fun _ => false }

/-- numeric values of `pika::runtime_state` used by `rt.state` -/
abbrev rsInitialized : Nat := 0
abbrev rsPreStartup : Nat := 1
abbrev rsStartup : Nat := 2
abbrev rsPreMain : Nat := 3
abbrev rsRunning : Nat := 5
abbrev rsSleeping : Nat := 8
abbrev rsStopped : Nat := 13

def step (s : St) : Ev → Option St
  | .inc a new =>
    -- `create_thread` starts with the increment; only while a runtime exists and `stop()` has
    -- not yet seen it drained (precondition: nothing is submitted once finalize was signalled
    -- and the work has drained)
    if a < s.na ∧ new = s.cnt + 1 ∧ s.ph ≠ .none ∧ s.ph ≠ .stopping then
      some { s with cnt := s.cnt + 1, creating := s.creating + 1, started := s.started + 1 }
    else none
  | .dec a new =>
    if a < s.na ∧ new + 1 = s.cnt ∧ 0 < s.destroying then
      some { s with cnt := new, destroying := s.destroying - 1, finished := s.finished + 1 }
    else none
  | .stage a =>
    if a < s.na ∧ 0 < s.creating then
      some { s with creating := s.creating - 1, staged := s.staged + 1 }
    else none
  | .unstage a =>
    if a < s.na ∧ 0 < s.staged then
      some { s with staged := s.staged - 1, creating := s.creating + 1 }
    else none
  | .new a o =>
    if a < s.na ∧ o < s.no ∧ s.live o = false ∧ 0 < s.creating then
      some { s with creating := s.creating - 1, live := upd s.live o true,
                    running := upd s.running o false }
    else none
  | .destroy a o =>
    if a < s.na ∧ o < s.no ∧ s.live o = true ∧ s.running o = false then
      some { s with live := upd s.live o false, destroying := s.destroying + 1 }
    else none
  | .phaseBegin a o =>
    if a < s.na ∧ o < s.no ∧ s.live o = true ∧ s.running o = false ∧ s.cur a = none ∧
        s.worker a = true ∧ s.asleep a = false then
      some { s with running := upd s.running o true, cur := upd s.cur a (some o) }
    else none
  | .phaseEnd a o =>
    if a < s.na ∧ s.cur a = some o then
      some { s with running := upd s.running o false, cur := upd s.cur a none }
    else none
  | .body a o =>
    if a < s.na ∧ s.cur a = some o then some s else none
  | .sample a v self =>
    if a < s.na ∧ v = s.cnt ∧ self = b2n (s.cur a).isSome then
      if s.stopper = some a then
        -- inside `pika::stop()`: `thread_manager::wait` runs only after `wait_finalize`
        if s.spc = .waitedFin then
          if v ≤ self then
            -- `pika::stop()` needs an initialised runtime only: the drain check may also succeed on a
            -- SUSPENDED runtime (follow-up C05h); the workers then still sleep and are woken by
            -- `stop_locked`'s `resume_internal` after `runtime::stopping`
            if s.ph = .running ∨ s.ph = .suspended then
              some { s with spc := .drained, ph := .stopping, lastRet := upd s.lastRet a true }
            else none
          else some { s with lastRet := upd s.lastRet a false }
        else none
      else some { s with lastRet := upd s.lastRet a (decide (v ≤ self)) }
    else none
  | .rtState a v =>
    if a < s.na then
      if v = rsInitialized then
        if s.ph = .none then
          some { s with ph := .starting, incarnation := s.incarnation + 1, fin := false, result := 0,
                        cfg := s.cfgReq }
        else none
      else if v = rsPreStartup ∨ v = rsStartup ∨ v = rsPreMain then
        if s.ph = .starting then some s else none
      else if v = rsRunning then
        if s.ph = .starting ∧ s.nworkers = s.cfg.th then some { s with ph := .running }
        else if s.ph = .resuming ∧ s.nsleep = 0 then some { s with ph := .running }
        else none
      else if v = rsSleeping then
        if s.ph = .suspending ∧ s.nsleep = s.nworkers then some { s with ph := .suspended } else none
      else if v = rsStopped then
        if s.ph = .stopping ∧ s.spc = .waited ∧ s.stopper = some a then some { s with spc := .halted }
        else none
      else none
    else none
  | .result a r =>
    -- `result = func()` in `run_helper` (a pika task)
    if a < s.na ∧ (s.cur a).isSome = true then some { s with result := r } else none
  | .fin a =>
    if a < s.na ∧ (s.ph = .running ∨ s.ph = .suspending) ∧ s.fin = false then
      some { s with fin := true }
    else none
  | .stopEnter a =>
    -- documented precondition: the runtime is initialised and the caller is not a pika task; the
    -- runtime may be running or suspended
    if a < s.na ∧ s.stopper = none ∧ s.spc = .out ∧ (s.ph = .running ∨ s.ph = .suspended) ∧
        s.cur a = none ∧ s.worker a = false then
      some { s with stopper := some a, spc := .entered }
    else none
  | .waitFin a =>
    if s.stopper = some a ∧ s.spc = .entered ∧ s.fin = true then some { s with spc := .waitedFin }
    else none
  | .waited a r =>
    if s.stopper = some a ∧ s.spc = .drained ∧ r = s.result then some { s with spc := .waited }
    else none
  | .stopExit a r =>
    -- `runtime::stop` has joined every worker thread (`remove_processing_unit_internal`): a worker
    -- that was asleep when `stop()` was entered has woken (`pu.wake`) before
    if s.stopper = some a ∧ s.spc = .halted ∧ r = s.result ∧ s.nsleep = 0 then
      some { s with ph := .none, stopper := none, spc := .out, fin := false,
                    worker := fun _ => false, asleep := fun _ => false, nworkers := 0, nsleep := 0 }
    else none
  | .suspendEnter a =>
    if a < s.na ∧ s.ph = .running ∧ s.cur a = none ∧ s.worker a = false then
      some { s with ph := .suspending }
    else none
  | .resumeEnter a =>
    if a < s.na ∧ s.ph = .suspended ∧ s.cur a = none ∧ s.worker a = false then
      some { s with ph := .resuming }
    else none
  | .worker a =>
    if a < s.na ∧ s.ph = .starting ∧ s.worker a = false ∧ s.cur a = none then
      some { s with worker := upd s.worker a true, nworkers := s.nworkers + 1 }
    else none
  | .sleep a =>
    -- `scheduler_base::suspend`: reached only from the idle branch of the scheduling loop of a
    -- worker whose state was set to `pre_sleep` by `suspend_internal`
    if a < s.na ∧ s.ph = .suspending ∧ s.worker a = true ∧ s.asleep a = false ∧ s.cur a = none then
      some { s with asleep := upd s.asleep a true, nsleep := s.nsleep + 1 }
    else none
  | .wake a =>
    -- the condition variable is notified only by `resume_internal`: from `runtime::resume`, and from
    -- the pool's `stop_locked` ("wake up if suspended"), which runs after `runtime::stopping` stored
    -- `stopped` (stop() entered on a suspended runtime)
    if a < s.na ∧ (s.ph = .resuming ∨ (s.ph = .stopping ∧ s.spc = .halted)) ∧ s.asleep a = true then
      some { s with asleep := upd s.asleep a false, nsleep := s.nsleep - 1 }
    else none
  | .waitEnter a =>
    -- harness note: about to call `pika::wait()`
    if a < s.na then some { s with lastRet := upd s.lastRet a false } else none
  | .waitExit a =>
    -- harness note: `pika::wait()` returned on this OS thread; the predicate's last sample let it return
    if a < s.na ∧ s.lastRet a = true then some { s with lastRet := upd s.lastRet a false } else none
  | .reqCfg a th pol =>
    if a < s.na ∧ s.ph = .none then some { s with cfgReq := ⟨th, pol⟩ } else none
  | .seenCfg a th pol =>
    -- harness observation after `start` returned: worker count and scheduler of the live runtime
    if a < s.na ∧ s.ph ≠ .none ∧ s.ph ≠ .starting ∧ th = s.cfg.th ∧ pol = s.cfg.pol ∧
        s.nworkers = th then some s
    else none

end PikaVerif.Life
