import PikaVerif.Core.Basic
import PikaVerif.Core.Sum
/-!
# C17 (FIFO back-end): specification of the third-party queue + model of pika's wrappers around it

`lockfree_fifo_backend<T>` (`libs/pika/schedulers/include/pika/schedulers/lockfree_queue_backends.hpp`)
is a thin wrapper around the third-party `moodycamel::ConcurrentQueue`
(`libs/pika/concurrency/include/pika/concurrency/concurrentqueue.hpp`):
`push = enqueue`, `pop = try_dequeue`, `empty = (size_approx() == 0)`.
`thread_queue` (`thread_queue.hpp`) uses one as `work_items_` together with the atomic counter
`work_items_count_`.

This file has four layers (the fourth, `Move`, is the two-queue move loop at the end of the file).

1. `QSpec` (`QSt`, `QEv`, `qstep`): the **assumed** behaviour of the third-party queue, at the
   granularity of whole operations with explicit begin / end events, so that operations of
   different threads overlap.  The moodycamel algorithm itself is *not* modelled; `QSpec` makes
   explicit what the scheduler model of C01 (`Model/Sched.lean`, field `q`) silently assumes:
   (a) a successful dequeue returns a value that some enqueue which has already *begun* put in and
       that no dequeue has returned yet (at-most-once, nothing invented); values of one producer
       thread come out in that producer's order (moodycamel guarantees FIFO per producer only):
       a dequeue that overlaps no other dequeue returns the oldest stored value of some producer;
   (b) `try_dequeue` may return `false` only if the queue held nothing at the moment the dequeue
       began or some other operation overlapped the dequeue ("a pop on a quiescent non-empty queue
       succeeds").  *Quiescent* = no enqueue/dequeue of another thread is pending at `deqBegin`
       and none begins before `deqEnd`.  It is tracked by the per-dequeue ghost flag `mayFail`.
   `stored` is the bag (kept as a list in `enqBegin` order) of values whose enqueue has *begun*
   and that were not yet dequeued: while an enqueue is in flight a concurrent dequeue may or may
   not see its value (both are accepted: the dequeue overlaps the enqueue, so `mayFail` is set).
   `enqueue` is assumed to succeed (it returns `false` only when memory allocation fails; pika
   ignores the result).
2. `Backend`: `lockfree_fifo_backend::push/pop/empty` are the inner operations (identity map).
3. `St`/`Ev`/`step`: `thread_queue`'s counter protocol around the inner queue, one event per
   atomic step of the wrapper, any number of threads, every interleaving; the inner-queue steps
   are constrained only by `qstep`.
-/
namespace PikaVerif.Fifo

/-! ## 1. Specification of the inner (third-party) queue -/

/-- Pending operation of a thread on the inner queue.  `deq mayFail`: `mayFail` is the ghost flag
    "this dequeue is allowed to report `false`" (queue empty at its begin, or another operation
    overlaps it). -/
inductive QOp where
  | idle
  | enq
  | deq (mayFail : Bool)
  deriving DecidableEq, Repr

structure QSt where
  /-- (producer thread, value) of every enqueue that has begun and was not dequeued, in begin order -/
  stored : List (Nat × Nat)
  pend : Nat → QOp
  /-- ghost: number of operations in flight -/
  active : Nat
  /-- ghost: number of dequeues in flight -/
  deqs : Nat

inductive QEv where
  | enqBegin (t v : Nat)
  | enqEnd (t : Nat)
  | deqBegin (t : Nat)
  /-- `r = some (p, v)`: `try_dequeue` returned `true` with value `v` (`p` = the thread that
      enqueued it; ghost, the harness encodes it in the value); `none`: returned `false` -/
  | deqEnd (t : Nat) (r : Option (Nat × Nat))
  /-- `size_approx() == 0` evaluated to `b` (one atomic observation) -/
  | sizeZero (t : Nat) (b : Bool)
  deriving Repr

def qinit : QSt := { stored := [], pend := fun _ => .idle, active := 0, deqs := 0 }

/-- Another operation begins: every pending dequeue is now overlapped. -/
def markAll (p : Nat → QOp) : Nat → QOp := fun u =>
  match p u with
  | .deq _ => .deq true
  | x => x

def qstep (q : QSt) : QEv → Option QSt
  | .enqBegin t v =>
    if q.pend t = .idle then
      some { q with stored := q.stored ++ [(t, v)], pend := upd (markAll q.pend) t .enq, active := q.active + 1 }
    else none
  | .enqEnd t =>
    if q.pend t = .enq then
      some { q with pend := upd q.pend t .idle, active := q.active - 1 }
    else none
  | .deqBegin t =>
    if q.pend t = .idle then
      some { q with pend := upd (markAll q.pend) t (.deq (q.stored.isEmpty || q.active != 0)),
                    active := q.active + 1, deqs := q.deqs + 1 }
    else none
  | .deqEnd t none =>
    -- `false` only when allowed: empty at begin or overlapped
    if q.pend t = .deq true then
      some { q with pend := upd q.pend t .idle, active := q.active - 1, deqs := q.deqs - 1 }
    else none
  | .deqEnd t (some (p, v)) =>
    match q.pend t with
    | .deq _ =>
      -- a stored value (at-most-once, nothing invented); per-producer FIFO: it is the oldest stored
      -- value of producer `p`, unless another dequeue is in flight (which may already have claimed
      -- the older ones: the claim happens somewhere inside a dequeue, not at its end)
      if (p, v) ∈ q.stored ∧ (q.stored.find? (fun e => e.1 == p) = some (p, v) ∨ q.deqs ≠ 1) then
        some { stored := q.stored.erase (p, v), pend := upd q.pend t .idle, active := q.active - 1,
               deqs := q.deqs - 1 }
      else none
    | _ => none
  | .sizeZero _ b =>
    -- only constrained when no operation is in flight
    if q.active = 0 → b = q.stored.isEmpty then some q else none

/-! ## 2. `lockfree_fifo_backend` = the inner queue (identity wrapper)

```
bool push(const_reference val, bool /*other_end*/ = false) { return queue_.enqueue(val); }
bool pop(reference val, bool /* steal */ = true) { return queue_.try_dequeue(val); }
bool empty() { return (queue_.size_approx() == 0); }
``` -/
namespace Backend

inductive Ev where
  | pushBegin (t v : Nat) (otherEnd : Bool)
  | pushEnd (t : Nat)
  | popBegin (t : Nat) (steal : Bool)
  | popEnd (t : Nat) (r : Option (Nat × Nat))
  | empty (t : Nat) (b : Bool)
  deriving Repr

/-- the inner operation each wrapper step *is* (the `other_end` / `steal` arguments are ignored) -/
def toQ : Ev → QEv
  | .pushBegin t v _ => .enqBegin t v
  | .pushEnd t => .enqEnd t
  | .popBegin t _ => .deqBegin t
  | .popEnd t r => .deqEnd t r
  | .empty t b => .sizeZero t b

def step (q : QSt) (e : Ev) : Option QSt := qstep q (toQ e)

end Backend

/-! ## 3. `thread_queue`'s counter protocol around `work_items_`

```
schedule_thread:    ++work_items_count_.data_;  work_items_.push(thrd.detach(), other_end);
get_next_thread:    std::int64_t work_items_count = work_items_count_.data_.load(relaxed);
                    if (allow_stealing && parameters_.min_tasks_to_steal_pending_ > work_items_count) return false;
                    if (0 != work_items_count && work_items_.pop(next_thrd, steal))
                    { thrd.reset(next_thrd, false); --work_items_count_.data_; return true; }
                    return false;
move_work_items_from (on the source queue):
                    while (src->work_items_.pop(trd)) { --src->work_items_count_.data_; ...
                    (on the destination queue)   ++work_items_count_.data_; work_items_.push(trd); }
```
The move loop is, on its source queue, a pop that is *not* guarded by the counter followed by the
decrement, and on its destination queue exactly `schedule_thread`; both are operations of this model
(`popB` from `idle`).
-/

inductive Pc where
  | idle
  | incd (v : Nat)              -- schedule_thread: counter incremented, push not begun
  | inPush                      -- inside work_items_.push
  | loaded (c lim : Int)        -- get_next_thread: counter loaded (value c; steal threshold lim)
  | inPop                       -- inside work_items_.pop
  | got (v : Nat)               -- pop returned true, counter not yet decremented
  | failed                      -- pop returned false
  deriving DecidableEq, Repr

inductive Ev where
  /-- `schedule_thread(v)`: `++work_items_count_` -/
  | inc (t v : Nat)
  /-- `work_items_.push` begins / ends (and `schedule_thread` returns) -/
  | pushB (t : Nat)
  | pushE (t : Nat)
  /-- `get_next_thread`: the counter is loaded, value `c`; `lim` = `min_tasks_to_steal_pending_`
      if `allow_stealing`, else 0 -/
  | load (t : Nat) (c lim : Int)
  /-- `return false` -/
  | retF (t : Nat)
  /-- `work_items_.pop` begins (from `loaded`: get_next_thread; from `idle`: the move loop) -/
  | popB (t : Nat)
  | popE (t : Nat) (r : Option (Nat × Nat))
  /-- `--work_items_count_` and `return true` (the value now belongs to the caller) -/
  | dec (t : Nat)
  deriving Repr

structure St where
  n : Nat
  q : QSt
  count : Int
  pc : Nat → Pc
  /-- ghost: values handed to `schedule_thread`, values returned by `get_next_thread` / the move loop -/
  handed : List Nat
  returned : List Nat

def init (n : Nat) : St :=
  { n := n, q := qinit, count := 0, pc := fun _ => .idle, handed := [], returned := [] }

/-- `work_items_.pop` is reached from `idle` (move loop) or after a load that passed both tests. -/
def canPop : Pc → Bool
  | .idle => true
  | .loaded c lim => decide (¬ lim > c ∧ c ≠ 0)
  | _ => false

def step (s : St) : Ev → Option St
  | .inc t v =>
    if t < s.n ∧ s.pc t = .idle then
      some { s with count := s.count + 1, pc := upd s.pc t (.incd v), handed := s.handed ++ [v] }
    else none
  | .pushB t =>
    if t < s.n then
      match s.pc t with
      | .incd v =>
        (qstep s.q (.enqBegin t v)).map fun q' => { s with q := q', pc := upd s.pc t .inPush }
      | _ => none
    else none
  | .pushE t =>
    if t < s.n ∧ s.pc t = .inPush then
      (qstep s.q (.enqEnd t)).map fun q' => { s with q := q', pc := upd s.pc t .idle }
    else none
  | .load t c lim =>
    if t < s.n ∧ s.pc t = .idle ∧ c = s.count then
      some { s with pc := upd s.pc t (.loaded c lim) }
    else none
  | .retF t =>
    if t < s.n then
      match s.pc t with
      | .loaded c lim => if lim > c ∨ c = 0 then some { s with pc := upd s.pc t .idle } else none
      | .failed => some { s with pc := upd s.pc t .idle }
      | _ => none
    else none
  | .popB t =>
    if t < s.n ∧ canPop (s.pc t) = true then
      (qstep s.q (.deqBegin t)).map fun q' => { s with q := q', pc := upd s.pc t .inPop }
    else none
  | .popE t r =>
    if t < s.n ∧ s.pc t = .inPop then
      (qstep s.q (.deqEnd t r)).map fun q' =>
        { s with q := q', pc := upd s.pc t (match r with | some (_, v) => .got v | none => .failed) }
    else none
  | .dec t =>
    if t < s.n then
      match s.pc t with
      | .got v => some { s with count := s.count - 1, pc := upd s.pc t .idle, returned := s.returned ++ [v] }
      | _ => none
    else none

/-- All threads are outside the queue's operations. -/
def Quiescent (s : St) : Prop := ∀ t, s.pc t = .idle

/-- Values held by the inner queue. -/
def St.values (s : St) : List Nat := s.q.stored.map (·.2)

/-! ## 4. `move_work_items_from`: two queues

```
void move_work_items_from(thread_queue* src, std::int64_t count)
{
    thread_description_ptr trd;
    while (src->work_items_.pop(trd))
    {
        --src->work_items_count_.data_;
        bool finished = count == ++work_items_count_.data_;
        work_items_.push(trd);
        if (finished) break;
    }
}
```
Two wrapper states (source, destination) and the local `trd` of every thread.  Any thread may perform
any step of any operation on either queue (`src e` / `dst e`: values enter and leave the system
through `schedule_thread` / `get_next_thread` of either queue); a moving thread uses the source's
unguarded `popB`/`popE`, then `mdec` (the source's decrement: the value goes into `trd` instead of
to a caller), then `minc` (the destination's increment with `trd`'s value), then the destination's
`pushB`/`pushE`.  The product lets one thread be inside an operation of each queue at the same time,
which the code cannot do: an over-approximation, theorems hold a fortiori.
-/
namespace Move

structure St2 where
  src : St
  dst : St
  /-- `trd`: popped from the source (counter decremented), not yet handed to the destination -/
  hold : Nat → Option Nat
  /-- ghost: values handed in from outside (`schedule_thread` on either queue) / returned to a
      caller (`get_next_thread` on either queue) -/
  extIn : List Nat
  extOut : List Nat

inductive Ev2 where
  | src (e : Ev)
  | dst (e : Ev)
  | mdec (t : Nat)
  | minc (t : Nat)
  deriving Repr

def init2 (n : Nat) : St2 :=
  { src := init n, dst := init n, hold := fun _ => none, extIn := [], extOut := [] }

/-- value entering through this step -/
def inOf : Ev → List Nat
  | .inc _ v => [v]
  | _ => []

/-- value leaving to the caller through this step -/
def outOf (s : St) : Ev → List Nat
  | .dec t => match s.pc t with
    | .got v => [v]
    | _ => []
  | _ => []

def step2 (s : St2) : Ev2 → Option St2
  | .src e => (step s.src e).map fun a =>
      { s with src := a, extIn := s.extIn ++ inOf e, extOut := s.extOut ++ outOf s.src e }
  | .dst e => (step s.dst e).map fun b =>
      { s with dst := b, extIn := s.extIn ++ inOf e, extOut := s.extOut ++ outOf s.dst e }
  | .mdec t =>
    match s.src.pc t, s.hold t with
    | .got v, none => (step s.src (.dec t)).map fun a => { s with src := a, hold := upd s.hold t (some v) }
    | _, _ => none
  | .minc t =>
    match s.hold t with
    | some v => (step s.dst (.inc t v)).map fun b => { s with dst := b, hold := upd s.hold t none }
    | none => none

end Move

end PikaVerif.Fifo
