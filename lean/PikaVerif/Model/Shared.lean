import PikaVerif.Core.Basic
/-!
# Model of the shared state of `split` / `split_tuple` / `ensure_started` (C03, stage 2)

Follows `shared_state::{set_predecessor_done, add_continuation, start}` and the predecessor
receiver (`split_receiver` …) of
`libs/pika/execution/include/pika/execution/algorithms/{split,split_tuple,ensure_started}.hpp`
at the granularity of the hook events compiled into those files (`sh.done`, `sh.run`,
`sh.seen1`, `sh.seen2`), the spinlock hooks (`sl.acq`, `sl.rel`) and the notes of the harness
`harness/e1/split.cpp` (`inv.*`, `fire.*`, `rcv.*`, `ret`, `done`).

One shared state; the predecessor is a manual leaf that completes once, either on the producer's
thread (after the leaf was started) or inline in `start()` on the thread of the first consumer
(when the completion was requested before the leaf was started).  Any number of threads; consumer
`k` (a sender copy / tuple element) is connected and started by one thread.

The model is an acceptor: `step s e = none` means "the code as modelled cannot produce `e` in `s`".
Ghost fields (`phase`, `owner`, `got`, `gotSig`, `sig`, `claimed`) record history; `step` never
tests them except `phase k = unused` at `invConsume` (the harness uses every consumer index once)
and `claimed = none` at `invComplete` (the predecessor is completed by one call).
-/
namespace PikaVerif.Shared

inductive Kind where
  | split | tuple | es
  deriving DecidableEq, Repr

/-- A completion of the predecessor: channel 0 value / 1 stopped / 2 error, payload. -/
structure Compl where
  ch : Nat
  arg : Int
  deriving DecidableEq, Repr

/-- A signal received by a consumer. -/
inductive RSig where
  | value (x : Int) | stopped | error (e : Int)
  deriving DecidableEq, Repr

/-- What consumer `k` must receive for completion `c` (`split_tuple` hands element `k` of the
    tuple `(arg, arg+100)`). -/
def sigFor (kind : Kind) (k : Nat) (c : Compl) : RSig :=
  if c.ch = 0 then .value (if kind = .tuple then c.arg + 100 * k else c.arg)
  else if c.ch = 1 then .stopped else .error c.arg

/-- Progress of the thread that runs the predecessor receiver (`set_value/error/stopped` →
    `set_predecessor_done`). -/
inductive PStage where
  | none        -- predecessor not completed yet
  | fired       -- completion stored in `v` (or not, for stopped in the pinned tree)
  | flagged     -- `predecessor_done = true`
  | locked      -- inside the empty critical section
  | unlocked    -- left it, before looking at the continuations
  | running     -- running the stored continuations
  | finished
  deriving DecidableEq, Repr

def PStage.rank : PStage → Nat
  | .none => 0 | .fired => 1 | .flagged => 2 | .locked => 3 | .unlocked => 4 | .running => 5
  | .finished => 6

inductive Pc where
  | idle
  | completing            -- producer op invoked, leaf armed: fires next
  | retP                  -- producer op invoked before the leaf was started: recorded, returns
  | prod (r : Option Nat) -- runs the predecessor receiver (stage in `pst`); `some k`: inline in
                          -- `start()` of consumer `k`, which continues with `add_continuation`
  | want (k : Nat)        -- consumer op invoked
  | seenF (k : Nat)       -- first read of `predecessor_done` gave false
  | clocked (k : Nat)     -- holds the lock, before the second read
  | pushed (k : Nat)      -- continuation stored, lock held
  | seenT2 (k : Nat)      -- second read gave true, lock held
  | visiting (k : Nat)    -- about to visit the variant on its own thread
  | cret (k : Nat)        -- consumer's `start()` about to return
  | fin
  deriving DecidableEq, Repr

inductive Phase where
  | unused | active | queued | got
  deriving DecidableEq, Repr

inductive Ev where
  | invComplete (t : Nat) (c : Compl)
  | fire (t : Nat) (c : Compl)
  | invConsume (t : Nat) (k : Nat)
  | seen1 (t : Nat) (b : Bool)
  | seen2 (t : Nat) (b : Bool)
  | slAcq (t : Nat)
  | slRel (t : Nat)
  | flag (t : Nat) (idx : Nat)         -- `sh.done`: payload = index of the variant alternative
  | run (t : Nat) (n : Nat)            -- `sh.run`: payload = number of stored continuations
  | rcv (t : Nat) (k : Nat) (r : RSig)
  | abort (t : Nat)                    -- PIKA_UNREACHABLE while visiting an empty variant
  | ret (t : Nat)
  | tdone (t : Nat)
  deriving Repr

structure St where
  kind : Kind
  storesStopped : Bool
  armed : Bool                 -- the leaf's operation state was started
  started : Bool               -- `start_called`
  pending : Option Compl       -- completion requested before the leaf was started
  v : Option Compl             -- the variant (`none` = monostate)
  done : Bool                  -- `predecessor_done`
  lock : Option Nat
  conts : List Nat             -- stored continuations (consumer indices)
  pst : PStage
  ptid : Nat
  pc : Nat → Pc
  /-- history -/
  sig : Option Compl           -- what the predecessor signalled
  phase : Nat → Phase
  owner : Nat → Nat
  got : Nat → Nat              -- number of signals consumer k received
  gotSig : Nat → Option RSig
  aborted : Bool
  claimed : Option Nat         -- the thread that invoked the (one) completion of the predecessor

def init (kind : Kind) (storesStopped : Bool) : St :=
  { kind := kind, storesStopped := storesStopped,
    armed := decide (kind = .es), started := decide (kind = .es), pending := none, v := none,
    done := false, lock := none, conts := [], pst := .none, ptid := 0, pc := fun _ => .idle,
    sig := none, phase := fun _ => .unused, owner := fun _ => 0, got := fun _ => 0,
    gotSig := fun _ => none, aborted := false, claimed := none }

/-- `split_tuple` keeps its continuations in an array indexed by the element. -/
def insertSorted (k : Nat) : List Nat → List Nat
  | [] => [k]
  | x :: r => if k ≤ x then k :: x :: r else x :: insertSorted k r

def push (kind : Kind) (k : Nat) (l : List Nat) : List Nat :=
  if kind = .tuple then insertSorted k l else l ++ [k]

/-- The variant after the predecessor receiver stored completion `c`. -/
def stored (storesStopped : Bool) (c : Compl) : Option Compl :=
  if c.ch = 1 ∧ storesStopped = false then none else some c

def variantIndex : Option Compl → Nat
  | none => 0
  | some c => if c.ch = 1 then 1 else if c.ch = 2 then 2 else 3

def step (s : St) : Ev → Option St
  | .invComplete t c =>
    -- the predecessor (a manual leaf) is completed by one call
    if s.aborted = false ∧ s.pc t = .idle ∧ s.sig = none ∧ s.pending = none ∧ c.ch ≤ 2 ∧
        s.claimed = none then
      if s.armed then some { s with pc := upd s.pc t .completing, claimed := some t }
      else some { s with pending := some c, pc := upd s.pc t .retP, claimed := some t }
    else none
  | .fire t c =>
    if s.aborted = false ∧ s.pst = .none then
      match s.pc t with
      | .completing =>
        some { s with v := stored s.storesStopped c, sig := some c, pst := .fired, ptid := t,
                      pc := upd s.pc t (.prod none) }
      | .want k =>
        -- `state->start()` of the first consumer starts the leaf, which completes inline
        if s.started = false ∧ s.pending = some c then
          some { s with started := true, armed := true, v := stored s.storesStopped c, sig := some c,
                        pst := .fired, ptid := t, pc := upd s.pc t (.prod (some k)) }
        else none
      | _ => none
    else none
  | .invConsume t k =>
    if s.aborted = false ∧ s.pc t = .idle ∧ s.phase k = .unused then
      -- `state->start()` runs in the same atomic block: the first caller starts the leaf (which
      -- completes inline, event `fire`, if a completion is pending)
      some { s with pc := upd s.pc t (.want k), phase := upd s.phase k .active,
                    owner := upd s.owner k t,
                    started := s.started || s.pending.isNone,
                    armed := s.armed || s.pending.isNone }
    else none
  | .seen1 t b =>
    if s.aborted = false ∧ b = s.done then
      match s.pc t with
      | .want k =>
        if s.started then
          some { s with pc := upd s.pc t (if b then .visiting k else .seenF k) }
        else none
      | .prod (some k) =>
        if s.pst = .finished then
          some { s with pc := upd s.pc t (if b then .visiting k else .seenF k) }
        else none
      | _ => none
    else none
  | .slAcq t =>
    if s.aborted = false ∧ s.lock = none then
      match s.pc t with
      | .seenF k => some { s with lock := some t, pc := upd s.pc t (.clocked k) }
      | .prod _ =>
        if s.pst = .flagged ∧ s.ptid = t then some { s with lock := some t, pst := .locked } else none
      | _ => none
    else none
  | .seen2 t b =>
    if s.aborted = false ∧ s.lock = some t ∧ b = s.done then
      match s.pc t with
      | .clocked k =>
        if b then some { s with pc := upd s.pc t (.seenT2 k) }
        else some { s with conts := push s.kind k s.conts, phase := upd s.phase k .queued,
                           pc := upd s.pc t (.pushed k) }
      | _ => none
    else none
  | .slRel t =>
    if s.aborted = false ∧ s.lock = some t then
      match s.pc t with
      | .pushed k => some { s with lock := none, pc := upd s.pc t (.cret k) }
      | .seenT2 k => some { s with lock := none, pc := upd s.pc t (.visiting k) }
      | .prod _ =>
        if s.pst = .locked ∧ s.ptid = t then some { s with lock := none, pst := .unlocked } else none
      | _ => none
    else none
  | .flag t idx =>
    if s.aborted = false ∧ s.pst = .fired ∧ s.ptid = t ∧ idx = variantIndex s.v then
      match s.pc t with
      | .prod _ => some { s with done := true, pst := .flagged }
      | _ => none
    else none
  | .run t n =>
    if s.aborted = false ∧ s.pst = .unlocked ∧ s.ptid = t ∧
        (s.kind = .tuple ∨ n = s.conts.length) then
      match s.pc t with
      | .prod _ => some { s with pst := if s.conts = [] then .finished else .running }
      | _ => none
    else none
  | .rcv t k r =>
    if s.aborted = false then
      match s.pc t with
      | .visiting k' =>
        match s.v with
        | some c =>
          if k = k' ∧ r = sigFor s.kind k c then
            some { s with phase := upd s.phase k .got, got := upd s.got k (s.got k + 1),
                          gotSig := upd s.gotSig k (some r), pc := upd s.pc t (.cret k) }
          else none
        | none => none
      | .prod _ =>
        if s.pst = .running ∧ s.ptid = t then
          match s.conts, s.v with
          | k' :: rest, some c =>
            if k = k' ∧ r = sigFor s.kind k c then
              some { s with conts := rest, phase := upd s.phase k .got, got := upd s.got k (s.got k + 1),
                            gotSig := upd s.gotSig k (some r),
                            pst := if rest = [] then .finished else .running }
            else none
          | _, _ => none
        else none
      | _ => none
    else none
  | .abort t =>
    if s.aborted = false ∧ s.v = none then
      match s.pc t with
      | .visiting _ => some { s with aborted := true }
      | .prod _ =>
        if s.pst = .running ∧ s.ptid = t ∧ s.conts ≠ [] then some { s with aborted := true } else none
      | _ => none
    else none
  | .ret t =>
    if s.aborted = false then
      match s.pc t with
      | .retP => some { s with pc := upd s.pc t .idle }
      | .cret _ => some { s with pc := upd s.pc t .idle }
      | .prod none => if s.pst = .finished then some { s with pc := upd s.pc t .idle } else none
      | _ => none
    else none
  | .tdone t =>
    if s.aborted = false ∧ s.pc t = .idle then some { s with pc := upd s.pc t .fin } else none

end PikaVerif.Shared
