import PikaVerif.Core.Basic
/-!
# Model `Elastic` of suspending / resuming processing units and pools (C19)

One thread pool (one `scheduler_base` + `scheduled_thread_pool`) with workers `0, 1, …`.
Follows, at the granularity of the `el.*` hook events,

* `scheduler_base::suspend` (store `sleeping`; lock; `wait` **without predicate**; CAS
  `sleeping → running`), `scheduler_base::resume` (`notify_one`, no lock taken),
  `scheduler_base::select_active_pu` (try-lock of the pu mutex + state test, with / without fallback,
  escalation of the allowed state)                      — `threading_base/src/scheduler_base.cpp`
* `scheduled_thread_pool::{suspend_processing_unit_internal, suspend_processing_unit_direct,
  resume_processing_unit_direct, suspend_internal, suspend_direct, thread_func}`
                                                         — `thread_pools/scheduled_thread_pool_impl.hpp`
* the exit path of `scheduling_loop` for `pre_sleep` (`running` sampled at the top of the
  iteration, `can_exit = !running && cleanup_terminated && get_queue_length(num_thread) == 0`,
  `this_state.load() == pre_sleep`)                      — `thread_pools/scheduling_loop.hpp`
* the queue length counters `work_items_count_`, `new_tasks_count_` of the worker's queues
  (`schedulers/thread_queue.hpp`) as read by `local_priority_queue_scheduler::get_queue_length`.

Actors are OS threads (numbered by first appearance in the log).  The model is an acceptor over
the exact linearisation produced by engine E2.  Mutex modelling: the model acquires a pu mutex at a
note logged *after* the real acquisition and releases it at a note logged *before* the real
release, so every model hold interval lies inside a real one (model mutual exclusion can therefore
never be violated by a correct `std::mutex`); all events that matter for the protocol (state test,
counter increment of a placement, the suspender's CAS) lie inside the model interval.

Ghost fields: `late`, `dirty`, `waiters`, `emptySeen` (see `Wk`).
-/
namespace PikaVerif.Elastic

abbrev rsInit : Nat := 0
abbrev rsRunning : Nat := 5
abbrev rsSuspended : Nat := 6
abbrev rsPreSleep : Nat := 7
abbrev rsSleeping : Nat := 8
abbrev rsStopping : Nat := 11

/-- where a worker is on its way to sleep (`scheduling_loop` + `scheduler_base::suspend`) -/
inductive WPc where
  | loop      -- anywhere in the scheduling loop
  | commit    -- saw `can_exit` and `state == pre_sleep`: calls `scheduler.suspend(num_thread)`
  | stored    -- `states_[w].store(sleeping)` done; not yet inside `wait`
  | waiting   -- inside `suspend_conds_[w].wait(l)`
  | woken     -- `wait` returned; about to CAS `sleeping → running`
  deriving DecidableEq, Repr

/-- what the holder of a pu mutex is doing -/
inductive Use where
  | sel (guarded : Bool)   -- `select_active_pu` chose this worker; guarded = not escalated (state ≤ suspended seen)
  | susp                    -- `suspend_processing_unit_internal`
  deriving DecidableEq, Repr

structure Wk where
  st : Nat := rsInit                   -- `states_[w]`
  actor : Option Nat := none           -- the worker's OS thread
  lk : Option (Nat × Use) := none      -- model holder of `pu_mtxs_[w]`
  pc : WPc := .loop
  flagRun : Bool := true               -- the local `running` of the current loop iteration
  emptySeen : Bool := false            -- ghost: `!running` and the worker's latest queue length was 0
  q : Nat := 0                         -- sum of the counters of the worker's own (normal + high priority) queues
  late : Nat := 0                      -- ghost: bound on entries of `q` placed *unguarded* since the last empty check
  dirty : Bool := false                -- ghost: `running → pre_sleep` was done without the pu mutex (pool suspend)
  waiters : List Nat := []             -- ghost: suspenders that have not yet been able to see `≠ pre_sleep`
  notified : Bool := false             -- ghost: a notify arrived while the worker was inside `wait`
  deriving Repr

structure Cfg where
  elastic : Bool := true          -- scheduler_mode::enable_elasticity
  stealing : Bool := true         -- scheduler_mode::enable_stealing
  last : Nat := 0                 -- the worker whose queue length includes the shared low priority queue
  refuseReturns : Bool := true    -- a refused suspend_processing_unit_direct returns (fixed tree)
  deriving Repr

inductive APc where
  | idle
  | refused      -- an API call of this actor has been refused with an error
  deriving DecidableEq, Repr

structure St where
  cfg : Cfg
  wk : Nat → Wk
  lowq : Nat
  apc : Nat → APc

def init (cfg : Cfg) : St := { cfg := cfg, wk := fun _ => {}, lowq := 0, apc := fun _ => .idle }

inductive Ev where
  | start (a w old : Nat)                       -- thread_func: `state.exchange(running)`
  | top (w v : Nat)                             -- loop top: `running = state < pre_sleep`
  | qlen (a w len : Nat)                        -- `get_queue_length(w)` (atomic snapshot)
  | chk (w v : Nat) (canExit : Bool)            -- `this_state.load() == pre_sleep`, with `can_exit`
  | sleep (w : Nat)                             -- `states_[w].store(sleeping)`
  | wait (w : Nat)                              -- about to call `wait(l)` (holds suspend mutex)
  | woke (w : Nat)                              -- `wait` returned
  | wake (w before after : Nat)                 -- CAS `sleeping → running`
  | inc (a w : Nat)                             -- a counter of one of w's own queues `+1`
  | dec (a w : Nat)
  | incLow (a : Nat)
  | decLow (a : Nat)
  | sel (a w v mx : Nat) (owns ok : Bool)       -- select_active_pu: try-lock result, state, allowed, chosen
  | unl (a w : Nat)                             -- selector's `unique_lock` about to be released
  | slock (a w : Nat)                           -- suspend_processing_unit_internal got the pu mutex
  | cas (a w before after : Nat)                -- … CAS `running → pre_sleep` (under the pu mutex)
  | sunl (a w : Nat)                            -- … about to unlock
  | sdone (a w v : Nat)                         -- … `yield_while(state == pre_sleep)` finished
  | ucas (a w before after : Nat)               -- suspend_internal: CAS `running → pre_sleep` WITHOUT the pu mutex
  | notify (a w : Nat)                          -- scheduler_base::resume: `notify_one`
  | rload (a w v : Nat)                         -- resume_processing_unit_direct: `state.load() == sleeping`
  | refuse (a : Nat)                            -- an unsupported operation was refused (error set)
  | ret (a : Nat)                               -- the API call returned to the harness
  deriving Repr

def casResult (before : Nat) : Nat := if before = rsRunning then rsPreSleep else before

def mayAct (s : St) (a : Nat) : Bool :=
  match s.apc a with
  | .idle => true
  | .refused => !s.cfg.refuseReturns

def step (s : St) : Ev → Option St
  | .start a w old =>
    let x := s.wk w
    if old = x.st ∧ old ≤ rsRunning ∧ x.pc = .loop then
      some { s with wk := upd s.wk w { x with st := rsRunning, actor := some a, flagRun := true, emptySeen := false } }
    else none
  | .top w v =>
    let x := s.wk w
    if v = x.st ∧ x.pc = .loop then
      some { s with wk := upd s.wk w { x with flagRun := decide (v < rsPreSleep), emptySeen := false } }
    else none
  | .qlen a w len =>
    let x := s.wk w
    if len = x.q + (if w = s.cfg.last then s.lowq else 0) then
      if x.actor = some a ∧ x.pc = .loop then
        if len = 0 ∧ x.flagRun = false then
          some { s with wk := upd s.wk w { x with emptySeen := true, late := 0 } }
        else some { s with wk := upd s.wk w { x with emptySeen := false } }
      else some s
    else none
  | .chk w v canExit =>
    let x := s.wk w
    if v = x.st ∧ x.pc = .loop ∧ (canExit = true → x.emptySeen = true) then
      if v = rsPreSleep ∧ canExit = true then
        some { s with wk := upd s.wk w { x with pc := .commit, emptySeen := false } }
      else some { s with wk := upd s.wk w { x with emptySeen := false } }
    else none
  | .sleep w =>
    let x := s.wk w
    if x.pc = .commit then
      some { s with wk := upd s.wk w { x with st := rsSleeping, pc := .stored, waiters := [], notified := false } }
    else none
  | .wait w =>
    let x := s.wk w
    if x.pc = .stored then some { s with wk := upd s.wk w { x with pc := .waiting } } else none
  | .woke w =>
    let x := s.wk w
    if x.pc = .waiting then some { s with wk := upd s.wk w { x with pc := .woken, notified := false } } else none
  | .wake w before after =>
    let x := s.wk w
    if x.pc = .woken ∧ before = x.st ∧ after = (if before = rsSleeping then rsRunning else before) then
      some { s with wk := upd s.wk w { x with st := after, pc := .loop, flagRun := true, emptySeen := false, dirty := false } }
    else none
  | .inc a w =>
    let x := s.wk w
    if x.actor = some a then
      -- the worker itself (re-queues a yielding task, converts staged tasks): only from its loop
      if x.pc = .loop then some { s with wk := upd s.wk w { x with q := x.q + 1, emptySeen := false } } else none
    else if x.lk = some (a, .sel true) then
      some { s with wk := upd s.wk w { x with q := x.q + 1 } }
    else some { s with wk := upd s.wk w { x with q := x.q + 1, late := x.late + 1 } }
  | .dec a w =>
    let x := s.wk w
    if 0 < x.q ∧ (x.actor = some a ∨ s.cfg.stealing = true) then
      some { s with wk := upd s.wk w { x with q := x.q - 1, late := x.late - 1 } }
    else none
  | .incLow _ => some { s with lowq := s.lowq + 1 }
  | .decLow _ => if 0 < s.lowq then some { s with lowq := s.lowq - 1 } else none
  | .sel a w v mx owns ok =>
    let x := s.wk w
    if s.cfg.elastic = true ∧ v = x.st ∧ ok = (owns && decide (v ≤ mx)) then
      if ok = true then
        if x.lk = none then
          some { s with wk := upd s.wk w { x with lk := some (a, .sel (decide (mx ≤ rsSuspended))) } }
        else none
      else some s
    else none
  | .unl a w =>
    let x := s.wk w
    match x.lk with
    | none => some s      -- the real lock was held without a model hold (failed selection): nothing to release
    | some (b, .sel _) => if b = a then some { s with wk := upd s.wk w { x with lk := none } } else none
    | some (_, .susp) => none
  | .slock a w =>
    let x := s.wk w
    if x.lk = none ∧ mayAct s a = true then
      some { s with wk := upd s.wk w { x with lk := some (a, .susp) } }
    else none
  | .cas a w before after =>
    let x := s.wk w
    if x.lk = some (a, .susp) ∧ before = x.st ∧ after = casResult before then
      let ws := if after = rsPreSleep then a :: x.waiters else x.waiters
      some { s with wk := upd s.wk w { x with st := after, waiters := ws } }
    else none
  | .sunl a w =>
    let x := s.wk w
    if x.lk = some (a, .susp) then some { s with wk := upd s.wk w { x with lk := none } } else none
  | .sdone a w _ =>
    -- the payload is the argument of a POST-only note (evaluated before the log lock is taken), so
    -- it is informational only; what the model checks is that the worker has stored `sleeping`
    -- since this suspender's CAS
    let x := s.wk w
    if a ∉ x.waiters then some s else none
  | .ucas a w before after =>
    let x := s.wk w
    if before = x.st ∧ after = casResult before ∧ mayAct s a = true then
      some { s with wk := upd s.wk w { x with st := after, dirty := (x.dirty || decide (before = rsRunning)) } }
    else none
  | .notify _ w =>
    let x := s.wk w
    if x.pc = .waiting then some { s with wk := upd s.wk w { x with notified := true } } else some s
  | .rload _ w v =>
    let x := s.wk w
    if v = x.st then some s else none
  | .refuse a =>
    if s.apc a = .idle then some { s with apc := upd s.apc a .refused } else none
  | .ret a => some { s with apc := upd s.apc a .idle }

end PikaVerif.Elastic
