import PikaVerif.Core.Basic
import PikaVerif.Gen.IndexRange
/-!
# Model of `pika::concurrency::detail::contiguous_index_queue<>` (C11, C17)

One queue (one 64-bit word holding the range `[first, last)`), `n` threads calling `pop_left`
/ `pop_right`.  Granularity = the hook events compiled into `contiguous_index_queue.hpp`:
the relaxed load (`ciq.loaded`), each `compare_exchange_weak` with its outcome (`ciq.ok` /
the next `ciq.iter`), and the harness' `inv` / `ret` events.  The per-iteration computation
(`empty()`, `increment_first()`, `decrement_last()`, which index is returned) is the
*generated* `Gen.IndexRange.popLeftTry` / `popRightTry`.

`compare_exchange_weak` is modelled without spurious failures (x86 `lock cmpxchg`): a CAS
fails exactly when the word differs from the expected value.
-/
namespace PikaVerif.IQ
open PikaVerif PikaVerif.Gen.IndexRange

inductive Side where
  | L | R
  deriving DecidableEq, Repr

inductive Pc where
  | idle
  | start (sd : Side)                 -- invoked, before the load
  | loaded (sd : Side) (f l : Int)    -- `expected_range = (f, l)`, at the top of the loop body
  | retn (i : Int)                    -- CAS succeeded, about to return `i`
  | fin
  deriving DecidableEq, Repr

inductive Ev where
  | inv (t : Nat) (sd : Side)
  | load (t : Nat) (f l : Int)
  /-- `compare_exchange_weak`: on success `(f, l)` is the new (desired) range, on failure the
      observed range (the new `expected_range`). -/
  | cas (t : Nat) (ok : Bool) (f l : Int)
  | ret (t : Nat) (r : Option Int)
  | done (t : Nat)
  deriving Repr

structure St where
  n : Nat
  first0 : Int
  last0 : Int
  first : Int
  last : Int
  pc : Nat → Pc
  /-- history: results of the successful left / right pops, newest first -/
  poppedL : List Int
  poppedR : List Int

def init (n : Nat) (f l : Int) : St :=
  { n := n, first0 := f, last0 := l, first := f, last := l, pc := fun _ => .idle,
    poppedL := [], poppedR := [] }

def popTry : Side → Int → Int → Option (Int × (Int × Int))
  | .L => popLeftTry
  | .R => popRightTry

def pushPop (s : St) (sd : Side) (i : Int) : St :=
  match sd with
  | .L => { s with poppedL := i :: s.poppedL }
  | .R => { s with poppedR := i :: s.poppedR }

def step (s : St) : Ev → Option St
  | .inv t sd =>
    if t < s.n ∧ s.pc t = .idle then some { s with pc := upd s.pc t (.start sd) } else none
  | .load t f l =>
    if t < s.n ∧ f = s.first ∧ l = s.last then
      match s.pc t with
      | .start sd => some { s with pc := upd s.pc t (.loaded sd f l) }
      | _ => none
    else none
  | .cas t ok f l =>
    if t < s.n then
      match s.pc t with
      | .loaded sd ef el =>
        match popTry sd ef el with
        | none => none          -- the code returns `nullopt` instead of attempting a CAS
        | some (idx, (df, dl)) =>
          if ef = s.first ∧ el = s.last then
            if ok = true ∧ f = df ∧ l = dl then
              some (pushPop { s with first := df, last := dl, pc := upd s.pc t (.retn idx) } sd idx)
            else none
          else
            if ok = false ∧ f = s.first ∧ l = s.last then
              some { s with pc := upd s.pc t (.loaded sd f l) }
            else none
      | _ => none
    else none
  | .ret t r =>
    if t < s.n then
      match s.pc t with
      | .loaded sd ef el =>
        if popTry sd ef el = none ∧ r = none then some { s with pc := upd s.pc t .idle } else none
      | .retn i => if r = some i then some { s with pc := upd s.pc t .idle } else none
      | _ => none
    else none
  | .done t =>
    if t < s.n ∧ s.pc t = .idle then some { s with pc := upd s.pc t .fin } else none

end PikaVerif.IQ
