import PikaVerif.Core.Basic
/-!
# Model of `pika::thread` / `pika::jthread` join, exit callbacks and interruption (C13)

Follows `libs/pika/threading/src/thread.cpp` (`thread::join`, `thread_function_nullary`,
`run_thread_exit_callbacks`, `resume_thread`, `start_thread`), `threading/thread.hpp`
(`joinable`, `detach`), `threading/jthread.hpp` (`~jthread`), `threading_base/src/thread_data.cpp`
(`run_thread_exit_callbacks`, `add_thread_exit_callback`, `interruption_point`) and
`threading_base/thread_data.hpp` (`interrupt`, `set_interruption_enabled`) at the granularity of
the hook events `jn.* jt.* ec.* ip.*` compiled into those files.

*Tasks* (`thread_data` incarnations: the log writer gives a fresh number to an address at every
`task.new`/`task.rebind`) and *handles* (`pika::thread` objects) are numbered by the log.  A task
is at the same time a possible target (its life cycle is `Phase`) and a possible joiner (its
position inside `thread::join` is `JPc`).  The wake-up of a suspended joiner is modelled with
wake-up tokens (`tok`): `resume_thread(j)` adds a token, `this_thread::suspend` returns by
consuming one (this is the agent contract which C02 establishes for the scheduler).

The model is an acceptor: `step s e = none` means "the code as modelled cannot produce `e` in `s`".
The exit-callback loop is the one of the *repaired* tree (`fix:` commit on the hooks branch): the
front callback is moved out of the list and popped under the lock, then run unlocked.  The loop of
the pinned tree (run `front()` unlocked, then `pop_front()`) is modelled separately in
`Props/C13.lean` (`OldLoop`), with the machine-checked counterexample.
-/
namespace PikaVerif.Join

/-- An exit callback: the one `thread::join` registers (`resume_thread(j)`) or a user callback. -/
inductive Cb where
  | join (j : Nat)
  | user (k : Nat)
  deriving DecidableEq, Repr

/-- Life cycle of a task that runs `thread::thread_function_nullary`. -/
inductive Phase where
  | fresh        -- created; the thread function has not been entered (or: not a pika::thread task)
  | body         -- inside the user function
  | hit          -- an interruption point found enabled ∧ requested and is about to throw
  | unwinding    -- `requested_interrupt_` cleared, `thread_interrupted` propagating
  | finished     -- user function returned / interruption swallowed; exit callbacks not started
  | loopHead     -- `run_thread_exit_callbacks`: pool lock held, at `while (!exit_funcs_.empty())`
  | run (c : Cb) -- `c` moved out of the list and popped, lock released, `c` not yet invoked
  | ranCb        -- `c` invoked, lock not yet re-taken
  | exitedL      -- `ran_exit_funcs_ = true` stored
  | exited       -- `free_thread_exit_callbacks` done; the thread function is about to return `terminated`
  deriving DecidableEq, Repr

/-- Position of a task inside `thread::join` (or inside the harness' call of the public
    `add_thread_exit_callback`). -/
inductive JPc where
  | out
  | locked (h : Nat)           -- `mtx_` taken
  | checked (h o : Nat)        -- joinable and not self; before `this_thread::interruption_point()`
  | pointed (h o : Nat)        -- interruption point passed; before `add_thread_exit_callback`
  | added (h o : Nat)          -- callback accepted (`mtx_` held)
  | refused (h o : Nat)        -- callback refused (`mtx_` held): the target is already done
  | window (h o : Nat)         -- `mtx_` released, before the suspension
  | susp (h o : Nat)           -- inside `this_thread::suspend`
  | woke (h o : Nat)           -- suspension returned, `mtx_` not yet re-taken
  | uadd (o k : Nat)           -- about to call `add_thread_exit_callback(o, user k)`
  deriving DecidableEq, Repr

structure St where
  -- per task
  phase : Nat → Phase
  jpc : Nat → JPc
  tok : Nat → Nat                 -- wake-up tokens
  funcs : Nat → List Cb           -- `exit_funcs_` (front = head)
  ran : Nat → Bool                -- `ran_exit_funcs_`
  term : Nat → Bool               -- state word is `terminated`
  isThread : Nat → Bool           -- runs `thread_function_nullary` (bound to a handle or entered it)
  req : Nat → Bool                -- `requested_interrupt_`
  en : Nat → Bool                 -- `enabled_interrupt_`
  dt : Nat → Option (Nat × Bool)  -- inside `~jthread` of that handle; flag = stop requested
  lastJoin : Nat → Option (Nat × Nat)  -- history: (handle, target) of the last completed join
  interrupted : Nat → Bool        -- history: ended by an interruption
  -- per handle (`pika::thread` object)
  hid : Nat → Option Nat          -- `id_` (none = invalid_thread_id)
  mtx : Nat → Option Nat          -- holder of `mtx_`
  -- follow-up C13m: handle moves
  owner : Nat → Option Nat := fun _ => none  -- ghost, per task: the handle whose `id_` refers to it
  errs : Nat := 0                 -- history: `std::terminate` events (destruction of / assignment onto a joinable handle)

inductive Ev where
  | term (o : Nat)
  | start (h o p : Nat)
  | body (o : Nat)
  | bodyDone (o : Nat)
  | interrupted (o : Nat)
  | exited (o : Nat)
  | jnLock (h j : Nat)
  | jnErr (h j code : Nat)
  | jnChecked (h j o : Nat)
  | jnUnlock (h j : Nat)
  | jnSusp (h j : Nat)
  | jnWoke (h j : Nat)
  | jnDone (h j : Nat)
  | joinable (h j : Nat) (r : Bool)
  | detach (h j : Nat) (r : Bool)
  | uadd (o j k : Nat)
  | ecAdd (o j code : Nat)
  | ecBegin (o n : Nat)
  | ecTake (o n : Nat)
  | ecNext (o n : Nat)
  | ecRan (o : Nat)
  | resume (j r : Nat)
  | ucb (o r k : Nat)
  | ipEnable (o : Nat) (new old : Bool)
  | ipRefuse (o : Nat)
  | ipReq (o : Nat) (f : Bool)
  | ipHit (o : Nat) (thr : Bool)
  | ipMiss (o : Nat)
  | ipClear (o : Nat)
  | jtDtor (h j : Nat)
  | jtStop (h j : Nat) (f : Bool)
  | jtJoined (h j : Nat)
  -- follow-up C13m: handle operations (`o` = the id that ends up in `this`, as logged by the hook)
  | mvCtor (h h1 : Nat) (o : Option Nat)     -- `thread(thread&& rhs)`: `h` = this, `h1` = rhs
  | mvAssign (h h1 : Nat) (o : Option Nat)   -- `operator=(thread&& rhs)` on a non-joinable `this`
  | mvTerm (h h1 : Nat)                      -- `operator=(thread&&)` on a joinable `this`: throws in a noexcept function
  | swap (h h1 : Nat) (o : Option Nat)       -- `swap(rhs)`
  | dtorOk (h j : Nat)                       -- `~thread` of a handle that is not joinable
  | dtorTerm (h j : Nat)                     -- `~thread` of a joinable handle: termination handler / `std::terminate`
  | jtSkip (h j : Nat)                       -- `~jthread` of a jthread that is not joinable: nothing to do
  deriving Repr

def init : St :=
  { phase := fun _ => .fresh, jpc := fun _ => .out, tok := fun _ => 0, funcs := fun _ => [],
    ran := fun _ => false, term := fun _ => false, isThread := fun _ => false, req := fun _ => false,
    en := fun _ => true, dt := fun _ => none, lastJoin := fun _ => none, interrupted := fun _ => false,
    hid := fun _ => none, mtx := fun _ => none, owner := fun _ => none, errs := 0 }

/-- `owner` update: the task named by `x` (if any) gets owner `v` -/
def setOwn (ow : Nat → Option Nat) (x : Option Nat) (v : Option Nat) : Nat → Option Nat :=
  fun t => if x = some t then v else ow t

/-- a task inside `~jthread` may only join that handle, and only after `request_stop()` -/
def dtAllows : Option (Nat × Bool) → Nat → Bool
  | none, _ => true
  | some (h', st), h => h' == h && st

/-- the last completed join of the task was on handle `h` -/
def joinedH : Option (Nat × Nat) → Nat → Bool
  | some (h', _), h => h' == h
  | none, _ => false

def step (s : St) : Ev → Option St
  | .term o =>
    -- the scheduler stores `terminated` after the thread function returned
    if s.jpc o = .out ∧ s.term o = false ∧ ((s.isThread o = false ∧ s.phase o = .fresh) ∨ s.phase o = .exited) then
      some { s with term := upd s.term o true }
    else none
  | .start h o _ =>
    -- `start_thread`: `create_thread(data, id_, ec)` bound the handle to the new task
    if s.hid h = none ∧ s.mtx h = none ∧ (s.isThread o = true ∨ (s.phase o = .fresh ∧ s.term o = false)) ∧
        s.owner o = none then
      some { s with isThread := upd s.isThread o true, hid := upd s.hid h (some o), owner := upd s.owner o (some h) }
    else none
  | .body o =>
    if s.phase o = .fresh ∧ s.term o = false ∧ s.jpc o = .out then
      some { s with phase := upd s.phase o .body, isThread := upd s.isThread o true }
    else none
  | .bodyDone o =>
    -- `run_thread_exit_callbacks()` of thread.cpp entered: the user function has returned
    if s.jpc o = .out then
      match s.phase o with
      | .body => some { s with phase := upd s.phase o .finished }
      | .finished => if s.interrupted o then some s else none
      | _ => none
    else none
  | .interrupted o =>
    -- `catch (thread_interrupted const&)` in `thread_function_nullary`
    if s.phase o = .unwinding ∧ s.jpc o = .out then
      some { s with phase := upd s.phase o .finished, interrupted := upd s.interrupted o true }
    else none
  | .exited o =>
    if s.phase o = .exitedL then some { s with phase := upd s.phase o .exited } else none
  | .jnLock h j =>
    if s.jpc j = .out ∧ s.phase j = .body ∧ s.mtx h = none ∧ dtAllows (s.dt j) h = true then
      some { s with jpc := upd s.jpc j (.locked h), lastJoin := upd s.lastJoin j none, mtx := upd s.mtx h (some j) }
    else none
  | .jnErr h j code =>
    -- not joinable (1) / joining itself (2): the lock is released and the error is thrown
    if s.jpc j = .locked h ∧ s.mtx h = some j ∧
        ((code = 1 ∧ s.hid h = none) ∨ (code = 2 ∧ s.hid h = some j)) then
      some { s with jpc := upd s.jpc j .out, mtx := upd s.mtx h none }
    else none
  | .jnChecked h j o =>
    if s.jpc j = .locked h ∧ s.mtx h = some j ∧ s.hid h = some o ∧ o ≠ j then
      some { s with jpc := upd s.jpc j (.checked h o) }
    else none
  | .jnUnlock h j =>
    match s.jpc j with
    | .added h' o => if h' = h ∧ s.mtx h = some j then
        some { s with jpc := upd s.jpc j (.window h o), mtx := upd s.mtx h none }
      else none
    | _ => none
  | .jnSusp h j =>
    match s.jpc j with
    | .window h' o => if h' = h then some { s with jpc := upd s.jpc j (.susp h o) } else none
    | _ => none
  | .jnWoke h j =>
    -- `this_thread::suspend` returned: a wake-up token is consumed
    match s.jpc j with
    | .susp h' o => if h' = h ∧ 0 < s.tok j then
        some { s with jpc := upd s.jpc j (.woke h o), tok := upd s.tok j (s.tok j - 1) }
      else none
    | _ => none
  | .jnDone h j =>
    -- `detach_locked()` at the end of join (after re-taking `mtx_` on the suspended path)
    match s.jpc j with
    | .refused h' o => if h' = h ∧ s.mtx h = some j then
        some { s with jpc := upd s.jpc j .out, lastJoin := upd s.lastJoin j (some (h, o)),
                      hid := upd s.hid h none, mtx := upd s.mtx h none, owner := setOwn s.owner (s.hid h) none }
      else none
    | .woke h' o => if h' = h ∧ s.mtx h = none then
        some { s with jpc := upd s.jpc j .out, lastJoin := upd s.lastJoin j (some (h, o)),
                      hid := upd s.hid h none, owner := setOwn s.owner (s.hid h) none }
      else none
    | _ => none
  | .joinable h _ r =>
    if s.mtx h = none ∧ r = (s.hid h).isSome then some s else none
  | .detach h _ r =>
    if s.mtx h = none ∧ r = (s.hid h).isSome then
      some { s with hid := upd s.hid h none, owner := setOwn s.owner (s.hid h) none }
    else none
  | .uadd o j k =>
    if s.jpc j = .out ∧ s.phase j = .body ∧ o ≠ j then
      some { s with jpc := upd s.jpc j (.uadd o k) }
    else none
  | .ecAdd o j code =>
    -- `add_thread_exit_callback` under the target's pool lock: refused when the exit callbacks
    -- already ran (0) or the task is terminated (2), else pushed to the front (1)
    if code = (if s.ran o then 0 else if s.term o then 2 else 1) ∧ o ≠ j then
      match s.jpc j with
      | .pointed h o' =>
        if o' = o then
          if code = 1 then
            some { s with funcs := upd s.funcs o (.join j :: s.funcs o), jpc := upd s.jpc j (.added h o) }
          else some { s with jpc := upd s.jpc j (.refused h o) }
        else none
      | .uadd o' k =>
        if o' = o then
          if code = 1 then
            some { s with funcs := upd s.funcs o (.user k :: s.funcs o), jpc := upd s.jpc j .out }
          else some { s with jpc := upd s.jpc j .out }
        else none
      | _ => none
    else none
  | .ecBegin o n =>
    if s.phase o = .finished ∧ n = (s.funcs o).length then
      some { s with phase := upd s.phase o .loopHead }
    else none
  | .ecTake o n =>
    if s.phase o = .loopHead then
      match s.funcs o with
      | c :: rest => if n = rest.length then
          some { s with phase := upd s.phase o (.run c), funcs := upd s.funcs o rest }
        else none
      | [] => none
    else none
  | .ecNext o n =>
    if s.phase o = .ranCb ∧ n = (s.funcs o).length then
      some { s with phase := upd s.phase o .loopHead }
    else none
  | .ecRan o =>
    if s.phase o = .loopHead ∧ s.funcs o = [] then
      some { s with phase := upd s.phase o .exitedL, ran := upd s.ran o true }
    else none
  | .resume j r =>
    -- `resume_thread(j)` invoked as an exit callback of `r`
    if s.phase r = .run (.join j) ∧ j ≠ r then
      some { s with phase := upd s.phase r .ranCb, tok := upd s.tok j (s.tok j + 1) }
    else none
  | .ucb o r k =>
    if o = r ∧ s.phase r = .run (.user k) then
      some { s with phase := upd s.phase r .ranCb }
    else none
  | .ipEnable o new old =>
    if old = s.en o then some { s with en := upd s.en o new } else none
  | .ipRefuse o =>
    if s.en o = false then some s else none
  | .ipReq o f =>
    if s.en o = true ∨ f = false then some { s with req := upd s.req o f } else none
  | .ipHit o thr =>
    -- `interruption_point`: enabled ∧ requested.  Accepted in the user function and at the
    -- interruption point of `join` (the exception then releases `mtx_`; nothing was registered).
    if thr = true ∧ s.en o = true ∧ s.req o = true ∧ s.phase o = .body then
      match s.jpc o with
      | .out => some { s with phase := upd s.phase o .hit }
      | .checked h _ =>
        if s.mtx h = some o then
          some { s with phase := upd s.phase o .hit, jpc := upd s.jpc o .out, mtx := upd s.mtx h none }
        else none
      | _ => none
    else none
  | .ipMiss o =>
    if ¬ (s.en o = true ∧ s.req o = true) then
      match s.jpc o with
      | .checked h t => some { s with jpc := upd s.jpc o (.pointed h t) }
      | _ => some s
    else none
  | .ipClear o =>
    if s.phase o = .hit then some { s with phase := upd s.phase o .unwinding, req := upd s.req o false } else none
  | .jtDtor h j =>
    -- (C13m) the destructor enters this branch only when `joinable()` returned true
    if s.dt j = none ∧ s.jpc j = .out ∧ s.phase j = .body ∧ (s.hid h).isSome = true then
      some { s with dt := upd s.dt j (some (h, false)) }
    else none
  | .jtStop h j f =>
    -- `request_stop()` returned and `ssource_.stop_requested()` is observed true
    if s.dt j = some (h, false) ∧ f = true ∧ s.jpc j = .out then
      some { s with dt := upd s.dt j (some (h, true)) }
    else none
  | .jtJoined h j =>
    -- `join()` inside the destructor returned normally
    if s.dt j = some (h, true) ∧ s.jpc j = .out ∧ joinedH (s.lastJoin j) h = true then
      some { s with dt := upd s.dt j none }
    else none
  | .mvCtor h h1 o =>
    -- `lock(rhs.mtx_); id_ = rhs.id_; rhs.id_ = invalid`; `this` is under construction
    if h ≠ h1 ∧ s.hid h = none ∧ s.mtx h = none ∧ s.mtx h1 = none ∧ o = s.hid h1 then
      some { s with hid := upd (upd s.hid h1 none) h o, owner := setOwn s.owner o (some h) }
    else none
  | .mvAssign h h1 o =>
    -- `lock(mtx_); lock(rhs.mtx_); !joinable_locked(); id_ = rhs.id_; rhs.id_ = invalid`
    if h ≠ h1 ∧ s.hid h = none ∧ s.mtx h = none ∧ s.mtx h1 = none ∧ o = s.hid h1 then
      some { s with hid := upd (upd s.hid h1 none) h o, owner := setOwn s.owner o (some h) }
    else none
  | .mvTerm h h1 =>
    -- `joinable_locked()`: both locks are released and `invalid_status` is thrown out of a `noexcept` function
    if h ≠ h1 ∧ (s.hid h).isSome = true ∧ s.mtx h = none ∧ s.mtx h1 = none then
      some { s with errs := s.errs + 1 }
    else none
  | .swap h h1 o =>
    -- `lock(mtx_); lock(rhs.mtx_); std::swap(id_, rhs.id_)`
    if h ≠ h1 ∧ s.mtx h = none ∧ s.mtx h1 = none ∧ o = s.hid h1 then
      some { s with hid := upd (upd s.hid h1 (s.hid h)) h o,
                    owner := setOwn (setOwn s.owner (s.hid h) (some h1)) o (some h) }
    else none
  | .dtorOk h _ =>
    if s.hid h = none ∧ s.mtx h = none then some s else none
  | .dtorTerm h _ =>
    -- the handle (and its reference to the thread) goes away while the thread may still be running
    if (s.hid h).isSome = true ∧ s.mtx h = none then
      some { s with hid := upd s.hid h none, owner := setOwn s.owner (s.hid h) none, errs := s.errs + 1 }
    else none
  | .jtSkip h j =>
    if s.hid h = none ∧ s.dt j = none then some s else none

end PikaVerif.Join
