import PikaVerif.Model.Join
/-!
# A joiner whose user code catches `thread_interrupted` and carries on (follow-up C13j)

The main acceptor `Join` treats a delivered interruption as the end of the thread function: after
`ip.clear` the task is `unwinding` and the only event it accepts from that task is `jn.interrupted`
(the `catch (thread_interrupted const&)` of `thread_function_nullary`).  User code may have its own
handler.  The directed program `joinpend` (harness/e2/join.cpp) does exactly that: task J is
interrupted before it runs, its first `join()` throws at the interruption point at the ENTRY of join,
J's handler swallows the exception and J joins a second thread.

`JoinCatch` is the model of that behaviour.  It does not repeat the hook-granularity transitions of
`Join` (lock, joinable check, `interruption_point`, `add_thread_exit_callback`, unlock, suspend, the
exit-callback loop ...): every log event is judged by `Join.step` itself, so the step for `join` is the
one of the code as it is —

  `jn.lock` (mtx_ taken) · `jn.checked` (joinable, not self) · `ip.test`:
     hit  (enabled ∧ requested): phase `hit`, **the lock is released and the task is outside join; nothing
           was registered** (`ipHit` with `jpc = checked`), then `ip.clear` (request consumed, `unwinding`);
     miss: `pointed` · `ec.add` (callback accepted → `added`, refused → `refused`) · `jn.unlock` · `jn.susp` ·
           `jn.woke` (consumes the token that only `resume_thread` of the target's exit loop produces) · `jn.done`.

The one thing added is the event `caught o`: a handler of the user code of task `o` is entered, the task is
back in its thread function (`unwinding → body`).  There is no hook for it (the handler is user code); the
driver infers it: an event that only a task inside its thread function can produce, by a task that is
`unwinding`, is preceded by `caught` (see `actor` and `Driver/JoinDrv.lean`).

History (ghost) counters make the property statable: interruptions handled by user code, requests stored,
deliveries, joins abandoned at their entry.

`stepRF` is the variant of the **seeded change C13f** ("register first": `this_thread::interruption_point()`
removed from the entry of `join`, so the pending request is only seen by the interruption point inside
`this_thread::suspend`, after the callback was registered and the lock released).  It is used for the
machine-checked counterexample only.
-/
namespace PikaVerif.JoinCatch
open PikaVerif PikaVerif.Join

inductive Ev where
  | base (e : Join.Ev)   -- a hook event, judged by `Join.step`
  | caught (o : Nat)     -- a `catch (thread_interrupted const&)` handler of the user code of `o` is entered
  deriving Repr

structure St where
  base : Join.St
  handled : Nat → Nat := fun _ => 0    -- history: interruptions swallowed by the user code of the task
  nreq : Nat → Nat := fun _ => 0       -- history: `interrupt(true)` calls that stored the request
  ndel : Nat → Nat := fun _ => 0       -- history: deliveries (`requested_interrupt_` cleared, exception thrown)
  entryIntr : Nat → Nat := fun _ => 0  -- history: joins of the task that ended with thread_interrupted at their entry

def init : St := { base := Join.init }

/-- the task is at the interruption point at the entry of `thread::join` -/
def atEntry : JPc → Bool
  | .checked _ _ => true
  | _ => false

/-- history counters (no influence on acceptance) -/
def note (s : St) : Join.Ev → St
  | .ipReq o true => { s with nreq := upd s.nreq o (s.nreq o + 1) }
  | .ipClear o => { s with ndel := upd s.ndel o (s.ndel o + 1) }
  | .ipHit o _ => if atEntry (s.base.jpc o) then { s with entryIntr := upd s.entryIntr o (s.entryIntr o + 1) } else s
  | _ => s

def step (s : St) : Ev → Option St
  | .base e =>
    match Join.step s.base e with
    | some b => some { note s e with base := b }
    | none => none
  | .caught o =>
    -- the exception left `join` (or the interruption point in the body) and reached a handler of the user code
    if s.base.phase o = .unwinding ∧ s.base.jpc o = .out then
      some { s with base := { s.base with phase := upd s.base.phase o .body },
                    handled := upd s.handled o (s.handled o + 1) }
    else none

/-- the task that executes a hook event, when the event can only come from a task inside its thread function
    (used by the driver to infer `caught`; the scheduler's, the exit loop's and other tasks' events have none) -/
def actor : Join.Ev → Option Nat
  | .start _ _ p => some p
  | .bodyDone o => some o
  | .jnLock _ j | .jnErr _ j _ | .jnChecked _ j _ | .jnUnlock _ j | .jnSusp _ j | .jnWoke _ j | .jnDone _ j => some j
  | .joinable _ j _ | .detach _ j _ | .uadd _ j _ | .ecAdd _ j _ => some j
  | .ipEnable o _ _ | .ipHit o _ => some o
  | .jtDtor _ j | .jtStop _ j _ | .jtJoined _ j | .jtSkip _ j | .dtorOk _ j | .dtorTerm _ j => some j
  | _ => none

/-- **Seeded change C13f, "register first"**: no interruption point at the entry of join — `ec.add` follows
    `jn.checked` directly, and the pending request is found by the interruption point inside
    `this_thread::suspend` (the callback stays registered, the lock was already released). -/
def stepRF (s : St) : Ev → Option St
  | .base (.ecAdd o j code) =>
    match s.base.jpc j with
    | .checked h o' =>
      step { s with base := { s.base with jpc := upd s.base.jpc j (.pointed h o') } } (.base (.ecAdd o j code))
    | _ => step s (.base (.ecAdd o j code))
  | .base (.ipHit o thr) =>
    match s.base.jpc o with
    | .susp _ _ =>
      if thr = true ∧ s.base.en o = true ∧ s.base.req o = true ∧ s.base.phase o = .body then
        some { s with base := { s.base with phase := upd s.base.phase o .hit, jpc := upd s.base.jpc o .out } }
      else none
    | _ => step s (.base (.ipHit o thr))
  | e => step s e

end PikaVerif.JoinCatch
