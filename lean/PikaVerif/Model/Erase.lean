import PikaVerif.Core.Basic
/-!
# Model of pika's type-erased wrappers (C18)

Follows

* `libs/pika/functional/include/pika/functional/detail/basic_function.hpp`,
  `libs/pika/functional/src/basic_function.cpp`, `detail/vtable/{vtable,copyable_vtable,
  callable_vtable}.hpp`  (`function_base`: `vptr`, `object`, inline buffer of
  `3 * sizeof(void*)` bytes vs heap by `sizeof(T)`, `assign` with same-vtable reuse,
  `op_assign` copy / move (= `swap` + `reset`), move construction by `memcpy` of the buffer,
  `destroy`, `reset`, empty call → `bad_function_call`);
* `libs/pika/execution_base/include/pika/execution_base/any_sender.hpp`, `src/any_sender.cpp`
  (`movable_sbo_storage` / `copyable_sbo_storage`: `store`, `release`, `move_assign`,
  `copy_assign`, `reset`; `unique_any_sender` / `any_sender`: `connect &&` moves the storage out
  first, `connect const&` connects the stored sender as an l-value, any→unique conversion,
  empty connect → `throw_bad_any_call`).  The small-buffer optimisation of the sender storage
  is compiled out in the shipped configuration (`PIKA_DETAIL_ENABLE_ANY_SENDER_SBO` undefined):
  `Cfg.sbo = false`.  `Cfg.sbo = true` models the opt-in configuration.

A *history* is a list of operations over wrapper slots `0 … n-1`; every slot has a fixed
wrapper kind.  `exec` performs one operation and returns the new state and the *output*:
the observable result and the ledger events (constructions / destructions of wrapped
objects, in program order).  Object ids are handed out in construction order, exactly like the
instrumented payloads of `harness/e0/erase.cpp` do.

The model follows the code as it is.  Where the C++ would have undefined behaviour the model
answers `Res.ub` (the invariant shows this never happens on an accepted history).
-/
namespace PikaVerif.Erase
open PikaVerif

/-- Wrapper kinds: `function`, `unique_function`, `unique_any_sender`, `any_sender`. -/
inductive Kind where
  | fn | ufn | uas | as
  deriving DecidableEq, Repr

def Kind.isFn : Kind → Bool
  | .fn | .ufn => true
  | _ => false

def Kind.copyable : Kind → Bool
  | .fn | .as => true
  | _ => false

/-- Payload class = the C++ type of the wrapped object (for functions: the vtable identity).
    `mode`: callables 0 = returns `val + x`, 1 = throws `payload_error(val)`;
    senders 0 = `set_value(val)`, 1 = `set_error(payload_error(val))`, 2 = `set_stopped()`,
    3 = `connect` throws `payload_error(val)`. -/
structure PTy where
  big : Bool
  copyable : Bool
  mode : Nat
  deriving DecidableEq, Repr

/-- A wrapped object. -/
structure Obj where
  id : Nat
  ty : PTy
  val : Int
  /-- stored on the heap (else in the wrapper's inline buffer) -/
  heap : Bool
  /-- the slot in whose inline buffer its constructor ran (address identity of inline objects) -/
  home : Nat
  deriving DecidableEq, Repr

/-- A wrapper slot.  `vptr` is `function_base::vptr` (`none` = the empty vtable; always `none`
    for sender wrappers, whose object pointer doubles as vtable); `obj` is the object pointer
    (`none` = `nullptr` / the empty-vtable object). -/
structure Slot where
  live : Bool
  vptr : Option PTy
  obj : Option Obj
  deriving DecidableEq, Repr

def Slot.dead : Slot := { live := false, vptr := none, obj := none }
def Slot.emptyW : Slot := { live := true, vptr := none, obj := none }

/-- Ledger events: value construction, copy construction, move construction, destruction,
    r-value connect, l-value connect of a wrapped sender, a copy/move construction from `src`
    that threw (no object comes into being). -/
inductive LEv where
  | C (id : Nat) (val : Int)
  | K (id src : Nat)
  | M (id src : Nat)
  | D (id : Nat)
  | X (id : Nat)
  | L (id : Nat)
  | F (src : Nat)
  deriving DecidableEq, Repr

inductive Res where
  | ok
  | bool (b : Bool)
  | ret (v : Int) (reloc : Bool)
  | perr (v : Int)
  | badcall
  | value (v : Int)
  | error (v : Int)
  | stopped
  | invalid
  | ub
  deriving DecidableEq, Repr

inductive Op where
  | new (i : Nat)
  | newp (i : Nat) (ty : PTy) (v : Int) (cp : Bool)
  | del (i : Nat)
  | set (i : Nat) (ty : PTy) (v : Int) (cp : Bool)
  | reset (i : Nat)
  | copy (i j : Nat)
  | move (i j : Nat)
  | cctor (i j : Nat)
  | mctor (i j : Nat)
  | swap (i j : Nat)
  | empty (i : Nat)
  | call (i : Nat) (x : Int)
  | run (i : Nat)
  | runc (i : Nat)
  /-- arm the payloads: the `k`-th copy/move construction of a payload from now on throws
      `payload_error` (0 = disarm) -/
  | arm (k : Nat)
  deriving DecidableEq, Repr

structure Cfg where
  n : Nat
  kind : Nat → Kind
  sbo : Bool := false
  /-- `true` = `basic_function::assign` / `function_base::op_assign` as in the pinned tree (not
      exception safe, see `notes/C18.md`); `false` = with the repair `fix: basic_function …`,
      i.e. the code the framework's pika branch contains. -/
  pinned : Bool := false

structure St where
  slot : Nat → Slot
  /-- next object id -/
  next : Nat
  /-- ledger: constructor / destructor runs per object id -/
  ctor : Nat → Nat
  dtor : Nat → Nat
  /-- ghost: the slot that owns a live object -/
  owner : Nat → Option Nat
  /-- countdown to the payload construction that throws (0 = none) -/
  arm : Nat

def init : St :=
  { slot := fun _ => Slot.dead, next := 0, ctor := fun _ => 0, dtor := fun _ => 0,
    owner := fun _ => none, arm := 0 }

structure Out where
  st : St
  res : Res
  evs : List LEv

/-- `k` objects are constructed (ids `next … next+k-1`). -/
def St.born (s : St) (k : Nat) : St :=
  { s with next := s.next + k,
           ctor := fun id => if s.next ≤ id ∧ id < s.next + k then s.ctor id + 1 else s.ctor id }

/-- the destructor of object `id` runs -/
def St.die (s : St) (id : Nat) : St :=
  { s with dtor := upd s.dtor id (s.dtor id + 1), owner := upd s.owner id none }

def St.dieO (s : St) : Option Obj → St
  | some o => s.die o.id
  | none => s

def St.put (s : St) (i : Nat) (sl : Slot) : St := { s with slot := upd s.slot i sl }

/-- the object is abandoned without its destructor running (only in the opt-in embedded-storage
    configuration of the sender wrappers) -/
def St.leak (s : St) (id : Nat) : St := { s with owner := upd s.owner id none }

/-- a payload copy/move construction was attempted (successfully or not) -/
def St.tick (s : St) : St := { s with arm := s.arm - 1 }

def St.own (s : St) (id i : Nat) : St := { s with owner := upd s.owner id (some i) }

def St.ownO (s : St) (o : Option Obj) (i : Nat) : St :=
  match o with
  | some o => s.own o.id i
  | none => s

def dEv : Option Obj → List LEv
  | some o => [.D o.id]
  | none => []

/-- construction event of object `b` from temporary `a` -/
def inEv (cp : Bool) (b a : Nat) : LEv := if cp then .K b a else .M b a

/-- Is the object of class `ty` placed on the heap by a wrapper of kind `k`? -/
def onHeap (c : Cfg) (k : Kind) (ty : PTy) : Bool :=
  if k.isFn then ty.big else (!c.sbo || ty.big)

/-- may a payload of class `ty` be given to a wrapper of kind `k` (by copy if `cp`)? -/
def admits (k : Kind) (ty : PTy) (cp : Bool) : Bool :=
  (!k.copyable || ty.copyable) && (!cp || ty.copyable) &&
  (if k.isFn then decide (ty.mode < 2) else decide (ty.mode < 4))

/-- what the wrapped callable does when called with `x` -/
def callRes (o : Obj) (x : Int) (reloc : Bool) : Res :=
  if o.ty.mode = 0 then .ret (o.val + x) reloc else .perr o.val

/-- how the wrapped sender completes once connected and started -/
def complRes (o : Obj) : Res :=
  if o.ty.mode = 0 then .value o.val
  else if o.ty.mode = 1 then .error o.val
  else if o.ty.mode = 2 then .stopped
  else .perr o.val

def inval (s : St) : Out := { st := s, res := .invalid, evs := [] }

/-- store a payload into wrapper `i` (construction from a payload when `fresh`, else
    assignment): `basic_function::assign(F&&)` / `movable_sbo_storage::store`. -/
def execStore (c : Cfg) (s : St) (i : Nat) (ty : PTy) (v : Int) (cp fresh : Bool) : Out :=
  let sl := s.slot i
  let k := c.kind i
  if i < c.n ∧ sl.live = !fresh ∧ admits k ty cp = true then
    let a := s.next
    let b := s.next + 1
    if k.isFn ∧ sl.vptr = some ty ∧ sl.obj = none then { st := s, res := .ub, evs := [] } else
    if s.arm = 1 then
      -- the constructor of the stored object throws; the previous target is already destroyed
      let evs := [.C a v] ++ dEv sl.obj ++ [.F a, .D a]
      let gone : Slot := if fresh then sl else Slot.emptyW
      if k.isFn ∧ c.pinned = true ∧ fresh = false then
        -- pinned tree: `object` keeps pointing at the destroyed target; on the other-type
        -- path `vptr` already is the new type's vtable
        { st := ((((s.born 1).dieO sl.obj).put i { sl with vptr := some ty }).die a).tick, res := .perr v, evs := evs }
      else
        { st := ((((s.born 1).dieO sl.obj).put i gone).die a).tick, res := .perr v, evs := evs }
    else
    if k.isFn then
      if sl.vptr = some ty then
        -- same target type: the object storage is reused
        match sl.obj with
        | some o =>
          let nb : Obj := { id := b, ty := ty, val := v, heap := o.heap, home := i }
          { st := (((((s.born 2).die o.id).put i { sl with live := true, obj := some nb }).own b i).die a).tick,
            res := .ok, evs := [.C a v, .D o.id, inEv cp b a, .D a] }
        | none => { st := s, res := .ub, evs := [] }
      else
        let nb : Obj := { id := b, ty := ty, val := v, heap := ty.big, home := i }
        { st := (((((s.born 2).dieO sl.obj).put i { live := true, vptr := some ty, obj := some nb }).own b i).die a).tick,
          res := .ok, evs := [.C a v] ++ dEv sl.obj ++ [inEv cp b a, .D a] }
    else
      let nb : Obj := { id := b, ty := ty, val := v, heap := onHeap c k ty, home := i }
      { st := (((((s.born 2).dieO sl.obj).put i { live := true, vptr := none, obj := some nb }).own b i).die a).tick,
        res := .ok, evs := [.C a v] ++ dEv sl.obj ++ [inEv cp b a, .D a] }
  else inval s

/-- May wrapper kind `ki` be (move-)assigned / constructed from kind `kj`? -/
def movesFrom (ki kj : Kind) : Bool := ki = kj || (ki = .uas && kj = .as)

def exec (c : Cfg) (s : St) : Op → Out
  | .new i =>
    if i < c.n ∧ (s.slot i).live = false then
      { st := s.put i Slot.emptyW, res := .ok, evs := [] }
    else inval s
  | .newp i ty v cp => execStore c s i ty v cp true
  | .set i ty v cp => execStore c s i ty v cp false
  | .del i =>
    if i < c.n ∧ (s.slot i).live = true then
      { st := (s.dieO (s.slot i).obj).put i Slot.dead, res := .ok, evs := dEv (s.slot i).obj }
    else inval s
  | .reset i =>
    if i < c.n ∧ (s.slot i).live = true then
      { st := (s.dieO (s.slot i).obj).put i Slot.emptyW, res := .ok, evs := dEv (s.slot i).obj }
    else inval s
  | .copy i j =>
    let si := s.slot i
    let sj := s.slot j
    if i < c.n ∧ j < c.n ∧ si.live = true ∧ sj.live = true ∧ c.kind i = c.kind j ∧
        (c.kind i).copyable = true then
      if (c.kind i).isFn then
        -- function_base::op_assign(function_base const&)
        if si.vptr = sj.vptr then
          match si.obj with
          | some oi =>
            if i = j then { st := s, res := .ok, evs := [] } else
            match sj.obj with
            | some oj =>
              -- reuse object storage: destroy, copy-construct in place
              if s.arm = 1 then
                if c.pinned then
                  { st := (s.die oi.id).tick, res := .perr oj.val, evs := [.D oi.id, .F oj.id] }
                else
                  { st := ((s.die oi.id).put i { si with vptr := none, obj := none }).tick,
                    res := .perr oj.val, evs := [.D oi.id, .F oj.id] }
              else
              let nb : Obj := { id := s.next, ty := oj.ty, val := oj.val, heap := oi.heap, home := i }
              { st := ((((s.born 1).die oi.id).put i { si with obj := some nb }).own s.next i).tick,
                res := .ok, evs := [.D oi.id, .K s.next oj.id] }
            | none => { st := s, res := .ub, evs := [] }
          | none => { st := s, res := .ok, evs := [] }
        else
          match sj.obj with
          | some oj =>
            if s.arm = 1 then
              if c.pinned then
                { st := ((s.dieO si.obj).put i { si with vptr := sj.vptr }).tick,
                  res := .perr oj.val, evs := dEv si.obj ++ [.F oj.id] }
              else
                { st := ((s.dieO si.obj).put i { si with vptr := none, obj := none }).tick,
                  res := .perr oj.val, evs := dEv si.obj ++ [.F oj.id] }
            else
            let nb : Obj := { id := s.next, ty := oj.ty, val := oj.val, heap := oj.ty.big, home := i }
            { st := ((((s.born 1).dieO si.obj).put i { si with vptr := sj.vptr, obj := some nb }).own s.next i).tick,
              res := .ok, evs := dEv si.obj ++ [.K s.next oj.id] }
          | none =>
            { st := ((s.dieO si.obj).put i { si with vptr := sj.vptr, obj := none }),
              res := .ok, evs := dEv si.obj }
      else
        -- copyable_sbo_storage::operator=(copyable_sbo_storage const&)
        if i = j then { st := s, res := .ok, evs := [] } else
        match sj.obj with
        | some oj =>
          if s.arm = 1 then
            -- `release(); heap_storage = other.get().clone()` : clone throws, the wrapper stays empty
            { st := ((s.dieO si.obj).put i { si with obj := none }).tick,
              res := .perr oj.val, evs := dEv si.obj ++ [.F oj.id] }
          else
          let nb : Obj := { id := s.next, ty := oj.ty, val := oj.val, heap := oj.heap, home := i }
          { st := ((((s.born 1).dieO si.obj).put i { si with obj := some nb }).own s.next i).tick,
            res := .ok, evs := dEv si.obj ++ [.K s.next oj.id] }
        | none =>
          { st := ((s.dieO si.obj).put i { si with obj := none }), res := .ok, evs := dEv si.obj }
    else inval s
  | .move i j =>
    let si := s.slot i
    let sj := s.slot j
    if i < c.n ∧ j < c.n ∧ si.live = true ∧ sj.live = true ∧ movesFrom (c.kind i) (c.kind j) = true then
      if i = j then { st := s, res := .ok, evs := [] } else
      if (c.kind i).isFn then
        -- op_assign(function_base&&): swap(other); other.reset()
        { st := ((((s.dieO si.obj).put j Slot.emptyW).put i { si with vptr := sj.vptr, obj := sj.obj }).ownO sj.obj i),
          res := .ok, evs := dEv si.obj }
      else
        -- movable_sbo_storage::operator=(&&): release, then take the pointer over (heap) or
        -- move-construct into the own buffer (embedded storage, opt-in configuration)
        match sj.obj with
        | some oj =>
          if oj.heap then
            { st := ((((s.dieO si.obj).put j Slot.emptyW).put i { si with obj := some oj }).own oj.id i),
              res := .ok, evs := dEv si.obj }
          else
            -- `other.get().move_into(p); object = p; other.reset_vtable()`: the moved-from
            -- object in `other`'s buffer is not destroyed
            let nb : Obj := { oj with id := s.next, home := i }
            { st := ((((((s.born 1).dieO si.obj).leak oj.id).put j Slot.emptyW).put i { si with obj := some nb }).own s.next i),
              res := .ok, evs := dEv si.obj ++ [.M s.next oj.id] }
        | none =>
          { st := ((s.dieO si.obj).put i { si with obj := none }), res := .ok, evs := dEv si.obj }
    else inval s
  | .cctor i j =>
    let sj := s.slot j
    if i < c.n ∧ j < c.n ∧ (s.slot i).live = false ∧ sj.live = true ∧ c.kind i = c.kind j ∧
        (c.kind i).copyable = true then
      match sj.obj with
      | some oj =>
        if s.arm = 1 then
          -- the wrapper's constructor throws: no wrapper comes into being
          { st := s.tick, res := .perr oj.val, evs := [.F oj.id] }
        else
        let nb : Obj := { id := s.next, ty := oj.ty, val := oj.val,
                          heap := if (c.kind i).isFn then oj.ty.big else oj.heap, home := i }
        { st := (((s.born 1).put i { live := true, vptr := sj.vptr, obj := some nb }).own s.next i).tick,
          res := .ok, evs := [.K s.next oj.id] }
      | none => { st := s.put i { live := true, vptr := sj.vptr, obj := none }, res := .ok, evs := [] }
    else inval s
  | .mctor i j =>
    let sj := s.slot j
    if i < c.n ∧ j < c.n ∧ (s.slot i).live = false ∧ sj.live = true ∧
        movesFrom (c.kind i) (c.kind j) = true then
      match sj.obj with
      | some oj =>
        if (c.kind i).isFn = true ∨ oj.heap = true then
          -- pointer taken over / buffer copied with memcpy: no constructor runs
          { st := (((s.put j Slot.emptyW).put i { live := true, vptr := sj.vptr, obj := some oj }).own oj.id i),
            res := .ok, evs := [] }
        else
          let nb : Obj := { oj with id := s.next, home := i }
          { st := (((((s.born 1).leak oj.id).put j Slot.emptyW).put i { live := true, vptr := none, obj := some nb }).own s.next i),
            res := .ok, evs := [.M s.next oj.id] }
      | none =>
        { st := ((s.put j Slot.emptyW).put i { live := true, vptr := none, obj := none }),
          res := .ok, evs := [] }
    else inval s
  | .swap i j =>
    let si := s.slot i
    let sj := s.slot j
    if i < c.n ∧ j < c.n ∧ si.live = true ∧ sj.live = true ∧ c.kind i = c.kind j ∧
        (c.kind i).isFn = true then
      if i = j then { st := s, res := .ok, evs := [] } else
      { st := ((((s.put j { sj with vptr := si.vptr, obj := si.obj }).put i
                { si with vptr := sj.vptr, obj := sj.obj }).ownO sj.obj i).ownO si.obj j),
        res := .ok, evs := [] }
    else inval s
  | .empty i =>
    if i < c.n ∧ (s.slot i).live = true then
      { st := s, res := .bool (s.slot i).obj.isNone, evs := [] }
    else inval s
  | .call i x =>
    let si := s.slot i
    if i < c.n ∧ si.live = true ∧ (c.kind i).isFn = true then
      -- `vptr->invoke(object, …)`: the empty vtable throws bad_function_call
      match si.vptr with
      | none => { st := s, res := .badcall, evs := [] }
      | some ty =>
        match si.obj with
        | some o =>
          if o.ty = ty then { st := s, res := callRes o x (!o.heap && o.home != i), evs := [] }
          else { st := s, res := .ub, evs := [] }
        | none => { st := s, res := .ub, evs := [] }
    else inval s
  | .run i =>
    let si := s.slot i
    if i < c.n ∧ si.live = true ∧ (c.kind i).isFn = false then
      -- `auto moved_storage = std::move(storage); return {std::move(moved_storage.get()), r};`
      match si.obj with
      | none => { st := s, res := .badcall, evs := [] }
      | some o =>
        if o.heap then
          { st := (s.die o.id).put i { si with obj := none }, res := complRes o,
            evs := [.X o.id, .D o.id] }
        else
          -- embedded storage: the sender is first move-constructed into the temporary storage;
          -- the moved-from object in the wrapper's buffer is not destroyed
          { st := ((((s.born 1).leak o.id).die s.next).put i { si with obj := none }), res := complRes o,
            evs := [.M s.next o.id, .X s.next, .D s.next] }
    else inval s
  | .runc i =>
    let si := s.slot i
    if i < c.n ∧ si.live = true ∧ c.kind i = .as then
      match si.obj with
      | none => { st := s, res := .badcall, evs := [] }
      | some o => { st := s, res := complRes o, evs := [.L o.id] }
    else inval s

  | .arm k => { st := { s with arm := k }, res := .ok, evs := [] }

/-- Run a history; collects the outputs. -/
def runOps (c : Cfg) : St → List Op → St × List (Res × List LEv)
  | s, [] => (s, [])
  | s, op :: ops =>
    let o := exec c s op
    let r := runOps c o.st ops
    (r.1, (o.res, o.evs) :: r.2)

def finalSt (c : Cfg) (s : St) (ops : List Op) : St := (runOps c s ops).1

/-! ## Specification: what the *unwrapped* objects would do

A wrapper slot is, abstractly, an optional payload `(class, value)` with plain value
semantics: storing replaces it, copying duplicates it, moving transfers it and leaves the
source empty, using it calls / connects the payload itself.  No vtables, buffers, heap or
addresses.  The transparency theorem (`Props/C18.lean`) says the implementation model above
produces exactly these results. -/

inductive ASlot where
  | dead
  | empty
  | full (ty : PTy) (v : Int)
  deriving DecidableEq, Repr

def ASlot.live : ASlot → Bool
  | .dead => false
  | _ => true

def absSlot (sl : Slot) : ASlot :=
  if sl.live then
    match sl.obj with
    | some o => .full o.ty o.val
    | none => .empty
  else .dead

/-- the result with the address-stability flag of a call erased -/
def Res.core : Res → Res
  | .ret v _ => .ret v false
  | r => r

def aCall (ty : PTy) (v x : Int) : Res := if ty.mode = 0 then .ret (v + x) false else .perr v

def aCompl (ty : PTy) (v : Int) : Res :=
  if ty.mode = 0 then .value v
  else if ty.mode = 1 then .error v
  else if ty.mode = 2 then .stopped
  else .perr v

/-- abstract state: the optional payloads and the arming countdown of the payloads -/
structure ASt where
  slots : Nat → ASlot
  arm : Nat

def absSt (s : St) : ASt := { slots := fun i => absSlot (s.slot i), arm := s.arm }

def ASt.set (a : ASt) (i : Nat) (v : ASlot) : ASt := { a with slots := upd a.slots i v }

/-- one payload copy/move construction happens (value semantics: storing or copying a payload
    constructs exactly one object); if the payloads are armed for it, it throws `payload_error`
    carrying the source's value and the target is left empty (`onThrow`) -/
def ASt.construct (a : ASt) (i : Nat) (ty : PTy) (v : Int) (onThrow : ASlot) : ASt × Res :=
  ({ slots := upd a.slots i (if a.arm = 1 then onThrow else .full ty v), arm := a.arm - 1 },
   if a.arm = 1 then .perr v else .ok)

def specExec (c : Cfg) (a : ASt) : Op → ASt × Res
  | .new i => if i < c.n ∧ (a.slots i).live = false then (a.set i .empty, .ok) else (a, .invalid)
  | .newp i ty v cp =>
    if i < c.n ∧ (a.slots i).live = false ∧ admits (c.kind i) ty cp = true then a.construct i ty v .dead
    else (a, .invalid)
  | .set i ty v cp =>
    if i < c.n ∧ (a.slots i).live = true ∧ admits (c.kind i) ty cp = true then a.construct i ty v .empty
    else (a, .invalid)
  | .del i => if i < c.n ∧ (a.slots i).live = true then (a.set i .dead, .ok) else (a, .invalid)
  | .reset i => if i < c.n ∧ (a.slots i).live = true then (a.set i .empty, .ok) else (a, .invalid)
  | .copy i j =>
    if i < c.n ∧ j < c.n ∧ (a.slots i).live = true ∧ (a.slots j).live = true ∧ c.kind i = c.kind j ∧
        (c.kind i).copyable = true then
      if i = j then (a, .ok) else
      match a.slots j with
      | .full ty v => a.construct i ty v .empty
      | x => (a.set i x, .ok)
    else (a, .invalid)
  | .move i j =>
    if i < c.n ∧ j < c.n ∧ (a.slots i).live = true ∧ (a.slots j).live = true ∧
        movesFrom (c.kind i) (c.kind j) = true then
      if i = j then (a, .ok) else ((a.set j .empty).set i (a.slots j), .ok)
    else (a, .invalid)
  | .cctor i j =>
    if i < c.n ∧ j < c.n ∧ (a.slots i).live = false ∧ (a.slots j).live = true ∧ c.kind i = c.kind j ∧
        (c.kind i).copyable = true then
      match a.slots j with
      | .full ty v => a.construct i ty v .dead
      | x => (a.set i x, .ok)
    else (a, .invalid)
  | .mctor i j =>
    if i < c.n ∧ j < c.n ∧ (a.slots i).live = false ∧ (a.slots j).live = true ∧
        movesFrom (c.kind i) (c.kind j) = true then ((a.set j .empty).set i (a.slots j), .ok)
    else (a, .invalid)
  | .swap i j =>
    if i < c.n ∧ j < c.n ∧ (a.slots i).live = true ∧ (a.slots j).live = true ∧ c.kind i = c.kind j ∧
        (c.kind i).isFn = true then ((a.set j (a.slots i)).set i (a.slots j), .ok)
    else (a, .invalid)
  | .empty i =>
    if i < c.n ∧ (a.slots i).live = true then (a, .bool (decide (a.slots i = .empty))) else (a, .invalid)
  | .call i x =>
    if i < c.n ∧ (a.slots i).live = true ∧ (c.kind i).isFn = true then
      match a.slots i with
      | .full ty v => (a, aCall ty v x)
      | _ => (a, .badcall)
    else (a, .invalid)
  | .run i =>
    if i < c.n ∧ (a.slots i).live = true ∧ (c.kind i).isFn = false then
      match a.slots i with
      | .full ty v => (a.set i .empty, aCompl ty v)
      | _ => (a, .badcall)
    else (a, .invalid)
  | .runc i =>
    if i < c.n ∧ (a.slots i).live = true ∧ c.kind i = .as then
      match a.slots i with
      | .full ty v => (a, aCompl ty v)
      | _ => (a, .badcall)
    else (a, .invalid)
  | .arm k => ({ a with arm := k }, .ok)

def specRun (c : Cfg) : ASt → List Op → List Res
  | _, [] => []
  | a, op :: ops => let r := specExec c a op; r.2 :: specRun c r.1 ops

def ASt.init : ASt := { slots := fun _ => .dead, arm := 0 }

end PikaVerif.Erase
