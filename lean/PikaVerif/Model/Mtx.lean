import PikaVerif.Core.Basic
import PikaVerif.Core.Sum
/-!
# Model of `pika::mutex` / `pika::timed_mutex` (C06)

Follows `libs/pika/synchronization/src/mutex.cpp` (`lock`, `try_lock`, `unlock`,
`timed_mutex::try_lock_until`), `detail/condition_variable.cpp` (`wait`, `wait_until`,
`notify_one`) and `concurrency/spinlock.hpp` at the granularity of the hook events compiled
into those files (`sl.acq`, `sl.rel`, `cv.enq`, `cv.pop`, `cv.none`, `cv.woke`, `mtx.own`,
`mtx.disown`) and of the calls the code makes on the execution agent (`ag.suspend`, `ag.woke`,
`ag.resume`, `ag.sleep`, `ag.timeout`).  One mutex, `n` tasks; the task identity compared by
the code (`get_self_id()`) is the thread number.

The model is an acceptor: `step s e = none` means "the code as modelled cannot produce event
`e` in state `s`".  The owner tests of the code are made under the internal spinlock without a
hook of their own; they appear as the guards of the event that follows them.
-/
namespace PikaVerif.Mtx

/-- Public operations (`timed` = `try_lock_until` / `try_lock_for`). -/
inductive Op where
  | lock | tryl | timed | unlock
  deriving DecidableEq, Repr

/-- What an operation reports: `ok` (lock/unlock returned normally, try variants returned true),
    `fail` (try variants returned false), or the error thrown. -/
inductive Res where
  | ok | fail | errDeadlock | errLock
  deriving DecidableEq, Repr

/-- Program counter of a task inside an operation. -/
inductive Pc where
  | idle
  | want (o : Op)                 -- invoked, internal spinlock not yet taken
  | locked (o : Op)               -- holds the spinlock at the operation's first owner test
  | again (carry : Bool)          -- `lock()`: spinlock re-taken after a wait, at the loop head;
                                  -- `carry` = was notified (popped) and has not re-tested yet
  | sig                           -- `try_lock_until`: came back `signaled`, before the re-test
  | enq (timed : Bool)            -- entry pushed on the cv queue (spinlock held)
  | unl (timed popped : Bool)     -- spinlock released, about to suspend / sleep
  | susp (popped : Bool)          -- inside agent.suspend (untimed wait)
  | slp (popped : Bool)           -- inside agent.sleep_until (timed wait)
  | wokeNL (timed popped : Bool)  -- woke up, spinlock not yet re-taken
  | relk (timed popped : Bool)    -- spinlock re-taken, before the `ctx_` test (cv.woke)
  | timedOut                      -- `try_lock_until`: wait reported `timeout` (spinlock held)
  | owned (o : Op)                -- wrote `owner_id_ = self` (spinlock held)
  | disowned                      -- `unlock`: cleared `owner_id_`, before `notify_one`
  | notified                      -- `unlock`: `notify_one` done (spinlock still held)
  | retn (o : Op) (r : Res)       -- spinlock released, about to report `r`
  | fin
  deriving DecidableEq, Repr

inductive Ev where
  | inv (t : Nat) (o : Op)
  | ret (t : Nat) (r : Res)
  | slAcq (t : Nat)
  | slRel (t : Nat)
  | cvEnq (t : Nat) (size : Nat) (timed : Bool)
  | popResume (t : Nat) (size : Nat) (tgt : Nat) (dropped : Bool)
  | cvNone (t : Nat)
  | cvWoke (t : Nat) (stillQueued timed : Bool)
  | own (t : Nat) (kind : Nat) (wasOwned : Bool)
  | disown (t : Nat)
  | suspend (t : Nat)
  | woke (t : Nat)
  | sleep (t : Nat)
  | timeout (t : Nat)
  | csEnter (t : Nat)
  | csExit (t : Nat)
  | done (t : Nat)
  deriving Repr

structure St where
  n : Nat
  lock : Option Nat          -- holder of the internal spinlock `mtx_`
  owner : Option Nat         -- `owner_id_` (none = invalid_thread_id)
  queue : List Nat           -- `cond_`'s queue
  tok : Nat → Nat            -- agent wake-up tokens
  pc : Nat → Pc
  /-- history, defined from observables only: task `t`'s last lock-type operation reported
      success and `t` has not invoked `unlock` since -/
  holdsG : Nat → Bool
  /-- history: task is between the harness' `cs.enter` and `cs.exit` marks -/
  inCS : Nat → Bool
  /-- history: number of `cs.enter` / `cs.exit` marks so far -/
  enters : Nat
  exits : Nat
  /-- history: operation invoked last, whether `owner_id_` was the caller at the invocation,
      whether the caller wrote `owner_id_ = self` in this operation, whether it changed
      `owner_id_` or the wait queue at all in this operation -/
  curOp : Nat → Op
  ownedAtInv : Nat → Bool
  tookOp : Nat → Bool
  touched : Nat → Bool

def init (n : Nat) : St :=
  { n := n, lock := none, owner := none, queue := [], tok := fun _ => 0, pc := fun _ => .idle,
    holdsG := fun _ => false, inCS := fun _ => false, enters := 0, exits := 0, curOp := fun _ => .lock,
    ownedAtInv := fun _ => false, tookOp := fun _ => false, touched := fun _ => false }

/-- Mark a waiter as popped from the cv queue (its `ctx_` was reset by the notifier). -/
def setPopped : Pc → Option Pc
  | .unl tm false => some (.unl tm true)
  | .susp false => some (.susp true)
  | .slp false => some (.slp true)
  | .wokeNL tm false => some (.wokeNL tm true)
  | _ => none

/-- The `kind` payload of `mtx.own`: 1 = lock, 2 = try_lock, 3 = try_lock_until. -/
def ownKind : Op → Nat
  | .lock => 1
  | .tryl => 2
  | .timed => 3
  | .unlock => 0

def step (s : St) : Ev → Option St
  | .inv t o =>
    -- `unlock` is only invoked after the task left its critical section
    if t < s.n ∧ s.pc t = .idle ∧ (o = .unlock → s.inCS t = false) then
      some { s with pc := upd s.pc t (.want o), curOp := upd s.curOp t o,
                    ownedAtInv := upd s.ownedAtInv t (decide (s.owner = some t)),
                    tookOp := upd s.tookOp t false, touched := upd s.touched t false,
                    holdsG := if o = .unlock then upd s.holdsG t false else s.holdsG }
    else none
  | .slAcq t =>
    if t < s.n ∧ s.lock = none then
      match s.pc t with
      | .want o => some { s with lock := some t, pc := upd s.pc t (.locked o) }
      | .wokeNL tm p => some { s with lock := some t, pc := upd s.pc t (.relk tm p) }
      | _ => none
    else none
  | .slRel t =>
    if t < s.n ∧ s.lock = some t then
      match s.pc t with
      | .enq tm => some { s with lock := none, pc := upd s.pc t (.unl tm false) }
      | .owned o =>
        if o = .unlock then none else some { s with lock := none, pc := upd s.pc t (.retn o .ok) }
      | .notified => some { s with lock := none, pc := upd s.pc t (.retn .unlock .ok) }
      | .timedOut => some { s with lock := none, pc := upd s.pc t (.retn .timed .fail) }
      | .locked .lock =>
        -- `if (owner_id_ == self_id) { l.unlock(); throw deadlock }`
        if s.owner = some t then some { s with lock := none, pc := upd s.pc t (.retn .lock .errDeadlock) }
        else none
      | .locked .tryl =>
        -- `if (owner_id_ != invalid) return false`
        if s.owner ≠ none then some { s with lock := none, pc := upd s.pc t (.retn .tryl .fail) }
        else none
      | .locked .unlock =>
        -- `if (owner_id_ != self_id) { l.unlock(); throw lock_error }`
        if s.owner ≠ some t then some { s with lock := none, pc := upd s.pc t (.retn .unlock .errLock) }
        else none
      | .sig =>
        -- signaled, but `owner_id_ != invalid` again: return false
        if s.owner ≠ none then some { s with lock := none, pc := upd s.pc t (.retn .timed .fail) }
        else none
      | _ => none
    else none
  | .cvEnq t size tm =>
    if t < s.n ∧ s.lock = some t ∧ s.owner ≠ none ∧ size = s.queue.length + 1 then
      match s.pc t with
      | .locked .lock =>
        if tm = false ∧ s.owner ≠ some t then
          some { s with queue := s.queue ++ [t], touched := upd s.touched t true, pc := upd s.pc t (.enq false) }
        else none
      | .again _ =>
        if tm = false then
          some { s with queue := s.queue ++ [t], touched := upd s.touched t true, pc := upd s.pc t (.enq false) }
        else none
      | .locked .timed =>
        if tm = true then
          some { s with queue := s.queue ++ [t], touched := upd s.touched t true, pc := upd s.pc t (.enq true) }
        else none
      | _ => none
    else none
  | .own t k was =>
    -- `owner_id_ = self_id`, reached only with `owner_id_ == invalid`
    if t < s.n ∧ s.lock = some t ∧ s.owner = none ∧ was = false then
      match s.pc t with
      | .locked .lock | .again _ =>
        if k = 1 then some { s with owner := some t, tookOp := upd s.tookOp t true,
                                    touched := upd s.touched t true, pc := upd s.pc t (.owned .lock) }
        else none
      | .locked .tryl =>
        if k = 2 then some { s with owner := some t, tookOp := upd s.tookOp t true,
                                    touched := upd s.touched t true, pc := upd s.pc t (.owned .tryl) }
        else none
      | .locked .timed | .sig =>
        if k = 3 then some { s with owner := some t, tookOp := upd s.tookOp t true,
                                    touched := upd s.touched t true, pc := upd s.pc t (.owned .timed) }
        else none
      | _ => none
    else none
  | .disown t =>
    if t < s.n ∧ s.lock = some t ∧ s.owner = some t then
      match s.pc t with
      | .locked .unlock =>
        some { s with owner := none, touched := upd s.touched t true, pc := upd s.pc t .disowned }
      | _ => none
    else none
  | .popResume t size tgt dropped =>
    -- notify_one: pop the front entry, reset its ctx_, `ctx.resume()` (hook event `cv.pop`
    -- immediately followed by the agent call; no preemption point in between).  The agent
    -- drops a resume aimed at a task that is polling a deadline (`dropped`).
    if t < s.n ∧ s.lock = some t then
      match s.pc t, s.queue with
      | .disowned, g :: rest =>
        if size = rest.length ∧ g = tgt then
          match setPopped (s.pc tgt) with
          | some p' =>
            if dropped = decide (s.pc tgt = .slp false) then
              some { s with queue := rest,
                            tok := if dropped then s.tok else upd s.tok tgt (s.tok tgt + 1),
                            pc := upd (upd s.pc tgt p') t .notified }
            else none
          | none => none
        else none
      | _, _ => none
    else none
  | .cvNone t =>
    if t < s.n ∧ s.lock = some t ∧ s.queue = [] then
      match s.pc t with
      | .disowned => some { s with pc := upd s.pc t .notified }
      | _ => none
    else none
  | .suspend t =>
    if t < s.n then
      match s.pc t with
      | .unl false p => some { s with pc := upd s.pc t (.susp p) }
      | _ => none
    else none
  | .woke t =>
    if t < s.n ∧ 0 < s.tok t then
      match s.pc t with
      | .susp p => some { s with tok := upd s.tok t (s.tok t - 1), pc := upd s.pc t (.wokeNL false p) }
      | _ => none
    else none
  | .sleep t =>
    if t < s.n then
      match s.pc t with
      | .unl true p => some { s with tok := upd s.tok t 0, pc := upd s.pc t (.slp p) }
      | _ => none
    else none
  | .timeout t =>
    if t < s.n then
      match s.pc t with
      | .slp p => some { s with pc := upd s.pc t (.wokeNL true p) }
      | _ => none
    else none
  | .cvWoke t still tm =>
    if t < s.n ∧ s.lock = some t then
      match s.pc t with
      | .relk tmm popped =>
        if tm = tmm ∧ still = !popped then
          if popped then
            -- signaled: `lock()` goes back to its loop head, `try_lock_until` to its re-test
            if tm then some { s with pc := upd s.pc t .sig }
            else some { s with pc := upd s.pc t (.again true) }
          else
            -- entry still queued: reset_queue_entry erases it.  Timed wait: `timeout`.
            -- Untimed wait: a spurious wake-up; `lock()`'s loop re-tests the owner.
            if tm then some { s with queue := s.queue.erase t, pc := upd s.pc t .timedOut }
            else some { s with queue := s.queue.erase t, pc := upd s.pc t (.again false) }
        else none
      | _ => none
    else none
  | .ret t r =>
    if t < s.n then
      match s.pc t with
      | .retn o b =>
        if b = r then
          some { s with pc := upd s.pc t .idle,
                        holdsG := if r = .ok ∧ o ≠ .unlock then upd s.holdsG t true else s.holdsG }
        else none
      | _ => none
    else none
  | .csEnter t =>
    -- the program enters its critical section only after a lock-type call reported success
    if t < s.n ∧ s.pc t = .idle ∧ s.holdsG t = true ∧ s.inCS t = false then
      some { s with inCS := upd s.inCS t true, enters := s.enters + 1 }
    else none
  | .csExit t =>
    if t < s.n ∧ s.pc t = .idle ∧ s.inCS t = true then
      some { s with inCS := upd s.inCS t false, exits := s.exits + 1 }
    else none
  | .done t =>
    if t < s.n ∧ s.pc t = .idle then some { s with pc := upd s.pc t .fin } else none

end PikaVerif.Mtx
