import PikaVerif.Core.Basic
import PikaVerif.Core.Sum
/-!
# Model of `pika::counting_semaphore` / `binary_semaphore` (C08)

Follows `libs/pika/synchronization/src/detail/counting_semaphore.cpp`,
`detail/condition_variable.cpp` (wait / wait_until / notify_one) and the public wrapper
in `counting_semaphore.hpp`, at the granularity of the hook events compiled into those
files (`sl.acq`, `sl.rel`, `cv.enq`, `cv.pop`, `cv.none`, `cv.woke`, `sem.take`,
`sem.add`) and of the calls the code makes on the execution agent (`ag.suspend`,
`ag.woke`, `ag.resume`, `ag.sleep`, `ag.timeout`).  One semaphore, `n` threads.

The model is an acceptor: `step s e = none` means "the code as modelled cannot produce
event `e` in state `s`".
-/
namespace PikaVerif.Sem

/-- Public operations. -/
inductive Op where
  | acq | tryq | timed | rel (n : Nat)
  deriving DecidableEq, Repr

/-- Program counter of a thread inside an operation. -/
inductive Pc where
  | idle
  | want (o : Op)                      -- invoked, internal lock not yet taken
  | locked (o : Op) (carry : Bool)     -- holds the lock at the operation's check; `carry` = was
                                       -- notified and has not re-examined `value_` yet
  | enq (timed : Bool)                 -- entry pushed on the cv queue (lock held)
  | unl (timed popped : Bool)          -- lock released, about to suspend / sleep
  | susp (popped : Bool)               -- inside agent.suspend (untimed wait)
  | slp (popped : Bool)                -- inside agent.sleep_until (timed wait)
  | wokeNL (timed popped : Bool)       -- woke up, lock not yet re-taken
  | relk (timed popped : Bool)         -- lock re-taken, before the ctx_ test (cv.woke)
  | taken                              -- consumed a permit (lock held)
  | failing                            -- try/timed acquire failed (lock held)
  | retn (r : Bool)                    -- lock released, about to return r
  | relL (i n : Nat)                   -- signal loop, iteration i of n, lock held
  | relRes (i n : Nat) (more : Bool)   -- notify_one about to return `more`
  | relNL (i n : Nat)                  -- between notify_one and re-lock
  | relFin                             -- loop finished, lock held
  | fin
  deriving DecidableEq, Repr

inductive Ev where
  | inv (t : Nat) (o : Op)
  | ret (t : Nat) (r : Bool)
  | slAcq (t : Nat)
  | slRel (t : Nat)
  | cvEnq (t : Nat) (size : Nat) (timed : Bool)
  | popResume (t : Nat) (size : Nat) (tgt : Nat) (dropped : Bool)
  | cvNone (t : Nat)
  | cvWoke (t : Nat) (stillQueued timed : Bool)
  | take (t : Nat) (v : Int)
  | add (t : Nat) (v : Int) (c : Nat)
  | suspend (t : Nat)
  | woke (t : Nat)
  | sleep (t : Nat)
  | timeout (t : Nat)
  | done (t : Nat)
  deriving Repr

structure St where
  n : Nat
  init : Int
  value : Int
  lock : Option Nat
  queue : List Nat
  tok : Nat → Nat
  pc : Nat → Pc
  /-- history: successful takes, permits added, per-thread "took in this op" flag,
      per-thread "last wake was a genuine timeout (entry still queued)" flag -/
  acquired : Nat
  released : Nat
  tookOp : Nat → Bool
  sawTimeout : Nat → Bool
  okRets : Nat
  /-- history: the operation each thread invoked last -/
  curOp : Nat → Op

def init (n : Nat) (v : Int) : St :=
  { n := n, init := v, value := v, lock := none, queue := [], tok := fun _ => 0,
    pc := fun _ => .idle, acquired := 0, released := 0, tookOp := fun _ => false,
    sawTimeout := fun _ => false, okRets := 0, curOp := fun _ => .acq }

/-- Mark a waiter as popped from the cv queue (its `ctx_` was reset by the notifier). -/
def setPopped : Pc → Option Pc
  | .unl tm false => some (.unl tm true)
  | .susp false => some (.susp true)
  | .slp false => some (.slp true)
  | .wokeNL tm false => some (.wokeNL tm true)
  | _ => none

def step (s : St) : Ev → Option St
  | .inv t o =>
    if t < s.n ∧ s.pc t = .idle then
      some { s with pc := upd s.pc t (.want o), tookOp := upd s.tookOp t false,
                    sawTimeout := upd s.sawTimeout t false, curOp := upd s.curOp t o }
    else none
  | .slAcq t =>
    if t < s.n ∧ s.lock = none then
      match s.pc t with
      | .want o => some { s with lock := some t, pc := upd s.pc t (.locked o false) }
      | .wokeNL tm p => some { s with lock := some t, pc := upd s.pc t (.relk tm p) }
      | .relNL i n =>
        some { s with lock := some t,
                      pc := upd s.pc t (if i < n ∧ 0 ≤ s.value then .relL i n else .relFin) }
      | _ => none
    else none
  | .slRel t =>
    if t < s.n ∧ s.lock = some t then
      match s.pc t with
      | .enq tm => some { s with lock := none, pc := upd s.pc t (.unl tm false) }
      | .taken => some { s with lock := none, pc := upd s.pc t (.retn true) }
      | .failing => some { s with lock := none, pc := upd s.pc t (.retn false) }
      | .relRes i n more =>
        some { s with lock := none, pc := upd s.pc t (if more then .relNL (i + 1) n else .retn false) }
      | .relFin => some { s with lock := none, pc := upd s.pc t (.retn false) }
      | .locked .tryq _ =>
        -- try_acquire found no permit: nothing happens under the lock
        if s.value < 1 then some { s with lock := none, pc := upd s.pc t (.retn false) } else none
      | _ => none
    else none
  | .cvEnq t size tm =>
    -- `while (value_ < count) cond_.wait(...)`: only entered when no permit is available
    if t < s.n ∧ s.lock = some t ∧ s.value < 1 ∧ size = s.queue.length + 1 then
      match s.pc t with
      | .locked .acq _ => if tm = false then some { s with queue := s.queue ++ [t], pc := upd s.pc t (.enq false) } else none
      | .locked .timed _ => if tm = true then some { s with queue := s.queue ++ [t], pc := upd s.pc t (.enq true) } else none
      | _ => none
    else none
  | .take t v =>
    if t < s.n ∧ s.lock = some t ∧ 1 ≤ s.value ∧ v = s.value - 1 then
      match s.pc t with
      | .locked .acq _ | .locked .tryq _ | .locked .timed _ =>
        some { s with value := s.value - 1, acquired := s.acquired + 1,
                      tookOp := upd s.tookOp t true, pc := upd s.pc t .taken }
      | _ => none
    else none
  | .add t v c =>
    if t < s.n ∧ s.lock = some t ∧ v = s.value + c then
      match s.pc t with
      | .locked (.rel k) false =>
        if k = c then
          some { s with value := s.value + c, released := s.released + c,
                        pc := upd s.pc t (if 0 < c ∧ 0 ≤ s.value + c then .relL 0 c else .relFin) }
        else none
      | _ => none
    else none
  | .popResume t size tgt dropped =>
    -- notify_one: pop the front entry, reset its ctx_, `ctx.resume()` (hook event `cv.pop`
    -- immediately followed by the agent call; no preemption point in between).  The agent
    -- drops a resume aimed at a thread that is polling a deadline (`dropped`).
    if t < s.n ∧ s.lock = some t then
      match s.pc t, s.queue with
      | .relL i n, g :: rest =>
        if size = rest.length ∧ g = tgt then
          match setPopped (s.pc tgt) with
          | some p' =>
            if dropped = decide (s.pc tgt = .slp false) then
              some { s with queue := rest,
                            tok := if dropped then s.tok else upd s.tok tgt (s.tok tgt + 1),
                            pc := upd (upd s.pc tgt p') t (.relRes i n (decide (rest ≠ []))) }
            else none
          | none => none
        else none
      | _, _ => none
    else none
  | .cvNone t =>
    if t < s.n ∧ s.lock = some t ∧ s.queue = [] then
      match s.pc t with
      | .relL i n => some { s with pc := upd s.pc t (.relRes i n false) }
      | _ => none
    else none
  | .suspend t =>
    if t < s.n then
      match s.pc t with
      | .unl false p => some { s with pc := upd s.pc t (.susp p) }
      | _ => none
    else none
  | .woke t =>
    if t < s.n ∧ 0 < s.tok t then
      match s.pc t with
      | .susp p => some { s with tok := upd s.tok t (s.tok t - 1), pc := upd s.pc t (.wokeNL false p) }
      | _ => none
    else none
  | .sleep t =>
    if t < s.n then
      match s.pc t with
      | .unl true p => some { s with tok := upd s.tok t 0, pc := upd s.pc t (.slp p) }
      | _ => none
    else none
  | .timeout t =>
    if t < s.n then
      match s.pc t with
      | .slp p => some { s with pc := upd s.pc t (.wokeNL true p) }
      | _ => none
    else none
  | .cvWoke t still tm =>
    if t < s.n ∧ s.lock = some t then
      match s.pc t with
      | .relk tmm popped =>
        if tm = tmm ∧ still = !popped then
          if popped then
            -- signaled: back to the loop head (`while (value_ < count)`)
            some { s with pc := upd s.pc t (.locked (if tm then .timed else .acq) true) }
          else
            -- entry still queued: reset_queue_entry erases it.  Timed wait: this is the
            -- timeout result.  Untimed wait: a spurious wake-up; the caller's loop re-checks.
            if tm then
              some { s with queue := s.queue.erase t, sawTimeout := upd s.sawTimeout t true,
                            pc := upd s.pc t .failing }
            else
              some { s with queue := s.queue.erase t, pc := upd s.pc t (.locked .acq false) }
        else none
      | _ => none
    else none
  | .ret t r =>
    if t < s.n then
      match s.pc t with
      | .retn b => if b = r then
          some { s with pc := upd s.pc t .idle, okRets := s.okRets + (if r then 1 else 0) }
        else none
      | _ => none
    else none
  | .done t =>
    if t < s.n ∧ s.pc t = .idle then some { s with pc := upd s.pc t .fin } else none

end PikaVerif.Sem
