import PikaVerif.Model.Snd
/-!
# Where the payload of a completion signal lives (C03s)

`Model/Snd.lean` passes completion signals BY VALUE between receivers.  The C++ adaptors pass
REFERENCES: `just`, `when_all`, `split` … keep the values / the `exception_ptr` in their own operation
state and call `set_value(std::move(member))` / `set_error(std::move(*error))`; a receiver must consume
what it is given before it destroys the operation state the reference points into.
`drop_op_state_receiver` is the adaptor for which this matters: it copies the error (`error_local`)
resp. the values (`ts_local`) and only then resets the predecessor's operation state.

This layer makes the reference explicit for the fragment of the term language in which payloads are
stored and dropped: a receiver is `Sig → Loc → M → M`, `Loc = some a` says that the payload is a member
of the operation state at address `a` (`none`: a temporary of the caller, or no payload), and every
read of the payload is `use l`, which raises `uaf` when that operation state has been destroyed (by
`drop_operation_state`: `dead`, or by the terminal receiver: `released`).  The order "copy, then
reset" of `drop_op_state_receiver` is a parameter (`Var`), so that the code as it is (`Var.pinned`) and
the variant with the reset hoisted in front of the copy are instances of one model.

Fragment: leaf (a sender that keeps its payload in its operation state and completes inline, like
`just`), `then`, `require_started`, `drop_operation_state`, `when_all` of two, `split` (one consumer).
`emb` embeds it into `Snd.Term`; `den` is `Snd.denote` on the embedding (`den_emb`).
-/
namespace PikaVerif.SndRef
open PikaVerif.Snd

/-- where the payload of a signal lives: `some a` = member of the operation state at `a` -/
abbrev Loc := Option Nat

inductive RT where
  | leaf (sig : Sig)
  | thn (f : Fn) (p : RT)
  | rs (p : RT)
  | dos (p : RT)
  | wa2 (a b : RT)
  | sp (p : RT)
  deriving Repr

/-- code variants of `drop_op_state_receiver`: does `set_error` / `set_value` copy the payload BEFORE
    `op_state.reset()` (the code as it is) or after it -/
structure Var where
  errCopyFirst : Bool
  valCopyFirst : Bool
  deriving DecidableEq, Repr

def Var.pinned : Var := { errCopyFirst := true, valCopyFirst := true }
/-- `r.op_state->op_state.reset()` hoisted in front of `auto error_local = std::forward<Error>(error)` -/
def Var.errHoisted : Var := { errCopyFirst := false, valCopyFirst := true }
def Var.valHoisted : Var := { errCopyFirst := true, valCopyFirst := false }

/-- members of a when_all (two predecessors) / split operation state -/
structure WCell where
  remaining : Nat := 0
  latch : Bool := false
  err : Option Int := none
  s0 : Option (List Int) := none
  s1 : Option (List Int) := none
  stored : Option Sig := none
  deriving DecidableEq, Repr

structure M where
  next : Nat
  dead : Nat → Bool          -- operation states destroyed by drop_operation_state
  released : Bool            -- the terminal receiver has destroyed the whole operation state
  cells : Nat → WCell
  log : List Sig
  uaf : Bool                 -- a destroyed operation state (or a payload inside one) was accessed

def M.init : M :=
  { next := 0, dead := fun _ => false, released := false, cells := fun _ => {}, log := [], uaf := false }

abbrev Rc := Sig → Loc → M → M

def gone (s : M) (a : Nat) : Bool := s.released || s.dead a
/-- adaptor code accesses a member of the operation state at `a` -/
def touch (a : Nat) (s : M) : M := if gone s a then { s with uaf := true } else s
/-- the payload at `l` is read (copied / moved from / passed to a callable by value) -/
def use (l : Loc) (s : M) : M :=
  match l with
  | none => s
  | some a => touch a s
def alloc (c : WCell) (s : M) : M := { s with cells := upd s.cells s.next c, next := s.next + 1 }
def freeRange (lo hi : Nat) (s : M) : M :=
  { s with dead := fun x => (decide (lo ≤ x) && decide (x < hi)) || s.dead x }
def setCell (a : Nat) (c : WCell) (s : M) : M := { s with cells := upd s.cells a c }

def hasPayload : Sig → Bool
  | .stopped => false
  | _ => true
/-- a payload kept in the operation state at `a` -/
def locOf (sig : Sig) (a : Nat) : Loc := if hasPayload sig then some a else none

/-- `then_receiver`: a value is handed to the callable (read), the result is a temporary; error and
    stopped are forwarded as the same reference -/
def thenR (f : Fn) (k : Rc) : Rc := fun sig l s =>
  match sig with
  | .value _ => k (applyThen f sig) none (use l s)
  | o => k o l s

/-- `require_started_receiver`: forwards the reference through its own operation state -/
def fwdR (a : Nat) (k : Rc) : Rc := fun sig l s => k sig l (touch a s)

/-- `drop_op_state_receiver` of the operation state at `a`: copy the payload and reset the
    predecessor's operation state (everything allocated after `a`), in the order the variant says;
    the local copy is forwarded -/
def dosR (v : Var) (a : Nat) (k : Rc) : Rc := fun sig l s =>
  let s := touch a s
  let first := match sig with
    | .value _ => v.valCopyFirst
    | .error _ => v.errCopyFirst
    | .stopped => true
  if first then k sig none (freeRange (a + 1) s.next (use l s))
  else k sig none (use l (freeRange (a + 1) s.next s))

def waStep (i : Nat) (w : WCell) : Sig → WCell
  | .error e => if w.latch then w else { w with latch := true, err := some e }
  | .stopped => { w with latch := true }
  | .value vs => if w.latch then w else if i = 0 then { w with s0 := some vs } else { w with s1 := some vs }

def waFinish (w : WCell) : Option Sig :=
  if !w.latch then
    match w.s0, w.s1 with
    | some a, some b => some (.value (a ++ b))
    | _, _ => none
  else match w.err with
    | some e => some (.error e)
    | none => some .stopped

/-- `when_all_receiver` number `i` of the operation state at `x`: the payload is copied into the
    operation state; the last one signals with references INTO that operation state -/
def waR (x i : Nat) (k : Rc) : Rc := fun sig l s =>
  let s := use l (touch x s)
  let w := waStep i (s.cells x) sig
  let w := { w with remaining := w.remaining - 1 }
  let s := setCell x w s
  if w.remaining = 0 then
    match waFinish w with
    | some sg => k sg (locOf sg x) s
    | none => { s with uaf := true }      -- dereferences an empty optional
  else s

/-- `split_receiver`: the payload is copied into the shared state (owned by the operation state at `x`) -/
def storeR (x : Nat) : Rc := fun sig l s =>
  let s := use l (touch x s)
  setCell x { s.cells x with stored := some sig } s

/-- `add_continuation` after `predecessor_done`: the consumer gets `const&` into the shared state -/
def visit (x : Nat) (k : Rc) (s : M) : M :=
  let s := touch x s
  match (s.cells x).stored with
  | some sg => k sg (locOf sg x) s
  | none => s

/-- `connect` + `start` -/
def start (v : Var) : RT → Rc → M → M
  | .leaf sig, k, s => k sig (locOf sig s.next) (alloc {} s)
  | .thn f p, k, s => start v p (thenR f k) s
  | .rs p, k, s => start v p (fwdR s.next k) (alloc {} s)
  | .dos p, k, s => start v p (dosR v s.next k) (alloc {} s)
  | .wa2 a b, k, s =>
    start v b (waR s.next 1 k) (touch s.next (start v a (waR s.next 0 k) (touch s.next (alloc { remaining := 2 } s))))
  | .sp p, k, s => visit s.next k (start v p (storeR s.next) (alloc {} s))

/-- the terminal receiver takes its argument by value (reads it), records the call and destroys the
    whole operation state -/
def termR : Rc := fun sig l s =>
  let s := use l s
  { s with log := s.log ++ [sig], released := true }

def run (v : Var) (t : RT) : M := start v t termR M.init

/-- the completion the composition stands for -/
def den : RT → Sig
  | .leaf sig => sig
  | .thn f p => applyThen f (den p)
  | .rs p => den p
  | .dos p => den p
  | .wa2 a b => join [den a, den b]
  | .sp p => den p

/-- the same pipeline as a term of the value-passing model -/
def emb : RT → Term
  | .leaf (.value vs) => .just vs
  | .leaf (.error e) => .err e
  | .leaf .stopped => .stop
  | .thn f p => .thn f (emb p)
  | .rs p => .rs (emb p)
  | .dos p => .dos (emb p)
  | .wa2 a b => .wa (emb a) [emb b]
  | .sp p => .sp (emb p)

end PikaVerif.SndRef
