import PikaVerif.Core.Basic
import PikaVerif.Core.Sum
/-!
# Model of `pika::sliding_semaphore` (C08, sliding clause)

Follows `libs/pika/synchronization/src/detail/sliding_semaphore.cpp` (`wait`, `try_wait`,
`signal`) on top of `detail::condition_variable` (`wait`, `notify_one`), at the granularity of
the hook events `sl.acq`, `sl.rel`, `cv.enq`, `cv.pop`(+ agent resume), `cv.none`, `cv.woke`,
`ssem.pass`, `ssem.signal` and the agent calls `ag.suspend` / `ag.woke`.
`wait(u)` blocks while `u - max_difference > lower_limit`; `signal(l)` raises `lower_limit` to
`max(l, lower_limit)` and then notifies as many waiters as were queued at that moment.
`set_max_difference` is not modelled (it changes the distance without notifying anybody; it must
not be used while threads are blocked).
-/
namespace PikaVerif.SSem

inductive Op where
  | wait (u : Int) | tryw (u : Int) | signal (l : Int)
  deriving DecidableEq, Repr

inductive Pc where
  | idle
  | want (o : Op)
  | locked (u : Int) (tryOnly : Bool) (carry : Bool)  -- holds the lock at the loop head of wait(u)
  | lockedSig (l : Int)                                 -- holds the lock at the start of signal(l)
  | enq (u : Int)                                       -- entry queued (lock held)
  | unl (u : Int) (popped : Bool)
  | susp (u : Int) (popped : Bool)
  | wokeNL (u : Int) (popped : Bool)
  | relk (u : Int) (popped : Bool)
  | passed                                              -- condition satisfied (lock held)
  | refused                                             -- try_wait returned false (lock held)
  | retn (r : Bool)
  | sigL (i n : Nat)                                    -- notify loop, i of n, lock held
  | sigRes (i n : Nat) (more : Bool)
  | sigNL (i n : Nat)
  | sigFin
  | fin
  deriving DecidableEq, Repr

inductive Ev where
  | inv (t : Nat) (o : Op)
  | ret (t : Nat) (r : Bool)
  | slAcq (t : Nat)
  | slRel (t : Nat)
  | cvEnq (t : Nat) (size : Nat)
  | popResume (t : Nat) (size : Nat) (tgt : Nat)
  | cvNone (t : Nat)
  | cvWoke (t : Nat) (stillQueued : Bool)
  | pass (t : Nat) (u lower : Int)
  | sig (t : Nat) (lower : Int) (size : Nat)
  | suspend (t : Nat)
  | woke (t : Nat)
  | done (t : Nat)
  deriving Repr

structure St where
  n : Nat
  maxDiff : Int
  lower : Int
  lock : Option Nat
  queue : List Nat
  tok : Nat → Nat
  pc : Nat → Pc

def init (n : Nat) (maxDiff lower : Int) : St :=
  { n := n, maxDiff := maxDiff, lower := lower, lock := none, queue := [], tok := fun _ => 0,
    pc := fun _ => .idle }

/-- the wait condition of a thread asking for upper limit `u` is satisfied -/
def sat (s : St) (u : Int) : Bool := decide (u - s.maxDiff ≤ s.lower)

def setPopped : Pc → Option Pc
  | .unl u false => some (.unl u true)
  | .susp u false => some (.susp u true)
  | .wokeNL u false => some (.wokeNL u true)
  | _ => none

def step (s : St) : Ev → Option St
  | .inv t o =>
    if t < s.n ∧ s.pc t = .idle then some { s with pc := upd s.pc t (.want o) } else none
  | .slAcq t =>
    if t < s.n ∧ s.lock = none then
      match s.pc t with
      | .want (.wait u) => some { s with lock := some t, pc := upd s.pc t (.locked u false false) }
      | .want (.tryw u) => some { s with lock := some t, pc := upd s.pc t (.locked u true false) }
      | .want (.signal l) => some { s with lock := some t, pc := upd s.pc t (.lockedSig l) }
      | .wokeNL u p => some { s with lock := some t, pc := upd s.pc t (.relk u p) }
      | .sigNL i n => some { s with lock := some t, pc := upd s.pc t (if i < n then .sigL i n else .sigFin) }
      | _ => none
    else none
  | .slRel t =>
    if t < s.n ∧ s.lock = some t then
      match s.pc t with
      | .enq u => some { s with lock := none, pc := upd s.pc t (.unl u false) }
      | .passed => some { s with lock := none, pc := upd s.pc t (.retn true) }
      | .refused => some { s with lock := none, pc := upd s.pc t (.retn false) }
      | .locked u true _ =>
        -- try_wait: the condition does not hold, nothing happens under the lock
        if sat s u = false then some { s with lock := none, pc := upd s.pc t (.retn false) } else none
      | .sigRes i n more => some { s with lock := none, pc := upd s.pc t (if more then .sigNL (i + 1) n else .retn false) }
      | .sigFin => some { s with lock := none, pc := upd s.pc t (.retn false) }
      | _ => none
    else none
  | .cvEnq t size =>
    if t < s.n ∧ s.lock = some t ∧ size = s.queue.length + 1 then
      match s.pc t with
      | .locked u false _ =>
        if sat s u = false then some { s with queue := s.queue ++ [t], pc := upd s.pc t (.enq u) } else none
      | _ => none
    else none
  | .pass t u lower =>
    if t < s.n ∧ s.lock = some t ∧ lower = s.lower then
      match s.pc t with
      | .locked u' _ _ =>
        if u' = u ∧ sat s u = true then some { s with pc := upd s.pc t .passed } else none
      | _ => none
    else none
  | .sig t lower size =>
    if t < s.n ∧ s.lock = some t ∧ size = s.queue.length then
      match s.pc t with
      | .lockedSig l =>
        if lower = max l s.lower then
          some { s with lower := lower, pc := upd s.pc t (if 0 < size then .sigL 0 size else .sigFin) }
        else none
      | _ => none
    else none
  | .popResume t size tgt =>
    if t < s.n ∧ s.lock = some t then
      match s.pc t, s.queue with
      | .sigL i n, g :: rest =>
        if size = rest.length ∧ g = tgt then
          match setPopped (s.pc tgt) with
          | some p' =>
            some { s with queue := rest, tok := upd s.tok tgt (s.tok tgt + 1),
                          pc := upd (upd s.pc tgt p') t (.sigRes i n (decide (rest ≠ []))) }
          | none => none
        else none
      | _, _ => none
    else none
  | .cvNone t =>
    if t < s.n ∧ s.lock = some t ∧ s.queue = [] then
      match s.pc t with
      | .sigL i n => some { s with pc := upd s.pc t (.sigRes i n false) }
      | _ => none
    else none
  | .suspend t =>
    if t < s.n then
      match s.pc t with
      | .unl u p => some { s with pc := upd s.pc t (.susp u p) }
      | _ => none
    else none
  | .woke t =>
    if t < s.n ∧ 0 < s.tok t then
      match s.pc t with
      | .susp u p => some { s with tok := upd s.tok t (s.tok t - 1), pc := upd s.pc t (.wokeNL u p) }
      | _ => none
    else none
  | .cvWoke t still =>
    if t < s.n ∧ s.lock = some t then
      match s.pc t with
      | .relk u popped =>
        if still = !popped then
          if popped then some { s with pc := upd s.pc t (.locked u false true) }
          else some { s with queue := s.queue.erase t, pc := upd s.pc t (.locked u false false) }
        else none
      | _ => none
    else none
  | .ret t r =>
    if t < s.n then
      match s.pc t with
      | .retn b => if b = r then some { s with pc := upd s.pc t .idle } else none
      | _ => none
    else none
  | .done t =>
    if t < s.n ∧ s.pc t = .idle then some { s with pc := upd s.pc t .fin } else none

end PikaVerif.SSem
