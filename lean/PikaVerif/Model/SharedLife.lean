import PikaVerif.Model.Shared
/-!
# Ownership of the shared state of `split` / `split_tuple` / `ensure_started` (C03, lifetime clauses)

A layer on top of `PikaVerif.Shared` (the flag / lock / continuation protocol): the same events, plus
the reference count of the shared state as the hooks `sh.ref` / `sh.unref` / `sh.free` in
`intrusive_ptr_add_ref` / `intrusive_ptr_release` of the three `shared_state` types log it.

Who holds an `intrusive_ptr` to the shared state (`Ref`):
* `handle`  – the sender the user got from the adaptor (kept alive by the harness in the default cases;
              `split`'s consumers copy it),
* `snd k`   – consumer `k`'s own sender (a copy of the `split` sender / element `k` of `split_tuple` / the
              `ensure_started` sender); `connect(&&)` moves its pointer into the operation state,
* `ops k`   – consumer `k`'s operation state; a self-deleting consumer (`start_detached`, the harness'
              `self_deleting_op`) destroys it inside its completion call,
* `rcv`     – the predecessor's receiver (`split_receiver` …).  It lives in the predecessor's operation state
              `os`, which lives in the shared state: a reference cycle state → os → receiver → state that
              keeps the state alive until the predecessor completes.  `set_value/error/stopped` move the
              receiver to the stack (`auto r = std::move(*this)`), `set_predecessor_done` resets `os`, and the
              reference is released when the receiver call returns.  The PINNED `split_tuple` receiver held
              a plain `shared_state&` instead (`rcvHolds = false`).

`holders` is the list of live references, the reference count is its length (every logged count is
compared with it).  `freed` is set by the release that brings the count to zero; `uaf` records that an
event which reads or writes the shared state (`touches`) happened after `freed` — the acceptor does
NOT refuse such an event: that it never happens is a theorem (`C03_shared_no_touch_after_release`), and for
the pinned `split_tuple` it does happen (`C03_split_tuple_pinned_touch_after_release`).

Events that are adjacent in one atomic block of the harness (no preemption point between them) are one
model event: `consumeCopy` = `inv.consume` + `sh.ref` (copy of the handle), `rcvDel` = `rcv.*` + `sh.unref`
[+ `sh.free`] (self-deleting consumer), `discard` = `inv.discard` + `sh.unref` [+ `sh.free`] + `ret.discard`,
`unrefR` = `sh.unref` [+ `sh.free`] at the end of the predecessor's receiver call.
-/
namespace PikaVerif.SharedLife
open PikaVerif PikaVerif.Shared

inductive Ref where
  | handle | snd (k : Nat) | ops (k : Nat) | rcv
  deriving DecidableEq, Repr

structure Cfg where
  kind : Kind
  stores : Bool
  /-- the predecessor's receiver holds an `intrusive_ptr` (false: pinned `split_tuple`) -/
  rcvHolds : Bool
  /-- consumers destroy their operation state inside the completion call -/
  selfdel : Bool
  /-- a sender handle outlives the run (consumers copy it) -/
  handle : Bool
  /-- consumer indices that own a sender when the threads start -/
  snds : List Nat

structure St where
  b : Shared.St
  rcvHolds : Bool
  selfdel : Bool
  holders : List Ref
  freed : Bool
  nfree : Nat
  uaf : Bool

def dedup : List Nat → List Nat
  | [] => []
  | a :: l => if a ∈ dedup l then dedup l else a :: dedup l

def initHolders (c : Cfg) : List Ref :=
  (if c.rcvHolds then [Ref.rcv] else []) ++ ((if c.handle then [Ref.handle] else []) ++
    (dedup c.snds).map Ref.snd)

def init (c : Cfg) : St :=
  { b := Shared.init c.kind c.stores, rcvHolds := c.rcvHolds, selfdel := c.selfdel,
    holders := initHolders c, freed := false, nfree := 0, uaf := false }

/-- The reference count. -/
def St.rc (s : St) : Nat := s.holders.length

def inProd : Pc → Bool
  | .prod _ => true
  | _ => false

/-- Protocol events that read or write the shared state. -/
def touches : Shared.Ev → Bool
  | .invComplete _ _ | .ret _ | .tdone _ => false
  | _ => true

/-- What the ownership layer requires of a protocol event. -/
def guard (s : St) : Shared.Ev → Bool
  | .invConsume _ k => decide (Ref.snd k ∈ s.holders)   -- a consumer connects its own sender
  | .rcv _ _ _ => !s.selfdel                              -- a self-deleting consumer: `rcvDel`
  -- the predecessor's receiver call returns after its stack copy of the receiver is destroyed
  | .ret t => !(inProd (s.b.pc t) && decide (Ref.rcv ∈ s.holders))
  | .seen1 t _ => !(inProd (s.b.pc t) && decide (Ref.rcv ∈ s.holders))
  | _ => true

def holdAfter (s : St) : Shared.Ev → List Ref
  | .invConsume _ k => Ref.ops k :: s.holders.erase (Ref.snd k)   -- `connect(&&)` moves the pointer
  | _ => s.holders

def baseStep (s : St) (e : Shared.Ev) (hold : List Ref) : Option St :=
  match Shared.step s.b e with
  | some b' => some { s with b := b', holders := hold, uaf := s.uaf || (s.freed && touches e) }
  | none => none

/-- `intrusive_ptr_release`: new count `n` logged, `fr` = the deallocation was logged. -/
def release (s : St) (r : Ref) (n : Nat) (fr : Bool) : Option St :=
  if r ∈ s.holders ∧ n + 1 = s.holders.length ∧ fr = decide (n = 0) then
    some { s with holders := s.holders.erase r, freed := s.freed || fr,
                  nfree := s.nfree + (if fr then 1 else 0), uaf := s.uaf || s.freed }
  else none

inductive Ev where
  | base (e : Shared.Ev)
  | consumeCopy (t k n : Nat)
  | rcvDel (t k : Nat) (r : RSig) (n : Nat) (fr : Bool)
  | discard (t k n : Nat) (fr : Bool)
  | unrefR (t n : Nat) (fr : Bool)
  deriving Repr

def step (s : St) : Ev → Option St
  | .base e => if guard s e = true then baseStep s e (holdAfter s e) else none
  | .consumeCopy t k n =>
    -- `auto copy = *handle` (add_ref, new count `n`), then `connect(std::move(copy))`
    if Ref.handle ∈ s.holders ∧ Ref.snd k ∉ s.holders ∧ n = s.holders.length + 1 then
      baseStep s (.invConsume t k) (Ref.ops k :: s.holders)
    else none
  | .rcvDel t k r n fr =>
    if s.selfdel = true then
      match baseStep s (.rcv t k r) s.holders with
      | some s1 => release s1 (Ref.ops k) n fr
      | none => none
    else none
  | .discard t k n fr =>
    if s.b.pc t = .idle ∧ s.b.aborted = false then release s (Ref.snd k) n fr else none
  | .unrefR t n fr =>
    if inProd (s.b.pc t) = true ∧ s.b.ptid = t ∧ s.b.pst = .finished ∧ s.b.aborted = false then
      release s Ref.rcv n fr
    else none

/-- The protocol event(s) underneath an ownership event. -/
def Ev.proj : Ev → List Shared.Ev
  | .base e => [e]
  | .consumeCopy t k _ => [.invConsume t k]
  | .rcvDel t k r _ _ => [.rcv t k r]
  | .discard _ _ _ _ => []
  | .unrefR _ _ _ => []

end PikaVerif.SharedLife
