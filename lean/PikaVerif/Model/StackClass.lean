import PikaVerif.Core.Basic
import PikaVerif.Gen.Heaps
/-!
# Heaps of recycled thread objects, by stack size (C12, part c)

`create_thread_object` / `recycle_thread` of `thread_queue` and `queue_holder_thread`: a terminated
object is filed by comparing its *physical* stack size with the configured sizes in a fixed
if/else-if chain; a new task takes an object from the heap selected by running the same kind of chain
on the size configured for its stack-size class.  The chains are generated (`Gen/Heaps.lean`).
The configured sizes `P` are arbitrary (two classes may be configured with the same size).
-/
namespace PikaVerif.StackClass

structure Obj where
  id : Nat
  size : Nat          -- `stacksize_`: the size its stack was mmap'ed with
  deriving DecidableEq, Repr

/-- one queue's code, as tables -/
structure Cfg where
  P : String → Nat                      -- parameter name ↦ configured size
  classParam : List (String × String)   -- get_stack_size
  create : List (String × String)       -- (parameter, heap) chain of create_thread_object
  recycle : List (String × String)      -- (parameter, heap) chain of recycle_thread
  prefill : List (String × String)      -- objects made with size P(parameter) and put into heap directly

/-- first matching branch of `if (stacksize == parameters_.p) … else if …` -/
def heapOf (P : String → Nat) : List (String × String) → Nat → Option String
  | [], _ => none
  | (p, h) :: rest, sz => if sz = P p then some h else heapOf P rest sz

structure St where
  heaps : String → List Obj
  /-- ghost: every rebind so far as (object, stack-size class of the new task, size configured for it) -/
  rebinds : List (Obj × String × Nat)

def init : St := ⟨fun _ => [], []⟩

inductive Ev
  | create (cls : String) (o : Option Obj)   -- new task of class `cls`; `some o` = `o` is taken from the heap
  | recycle (o : Obj)                        -- a terminated object is filed
  | prefill (o : Obj) (p h : String)         -- on_start_thread

def setHeap (f : String → List Obj) (h : String) (l : List Obj) : String → List Obj :=
  fun h' => if h' = h then l else f h'

def step (c : Cfg) (s : St) : Ev → Option St
  | .create cls o =>
    match c.classParam.lookup cls with
    | none => none
    | some p =>
      let sz := c.P p
      match heapOf c.P c.create sz with
      | none => none                       -- PIKA_ASSERT(heap)
      | some h =>
        match o with
        | none => if s.heaps h = [] then some s else none      -- heap empty: a fresh object is allocated
        | some o =>
          if o ∈ s.heaps h then
            some { heaps := setHeap s.heaps h ((s.heaps h).erase o), rebinds := (o, cls, sz) :: s.rebinds }
          else none
  | .recycle o =>
    match heapOf c.P c.recycle o.size with
    | none => none                         -- PIKA_ASSERT_MSG(false, "Invalid stack size")
    | some h => some { s with heaps := setHeap s.heaps h (o :: s.heaps h) }
  | .prefill o p h =>
    if (p, h) ∈ c.prefill ∧ o.size = c.P p then some { s with heaps := setHeap s.heaps h (o :: s.heaps h) }
    else none

/-- create-chain and the two ways of filling a heap agree on which parameter a heap belongs to -/
def consistent (c : Cfg) : Bool :=
  c.create.all (fun ph => (c.recycle ++ c.prefill).all (fun ph' => ph.2 != ph'.2 || ph.1 == ph'.1))

end PikaVerif.StackClass
