import PikaVerif.Core.Basic
import PikaVerif.Core.Sum
/-!
# Model of the reference counting of `stop_source` / `stop_token` (C14, sequential half)

Follows the special members in `stop_token.hpp`: every handle (source or token) is an
`intrusive_ptr<stop_state>` (token reference count, bits 0-30 of the state word); a source
additionally counts in the source reference count (bits 32-62).  `stop_possible()` of a token
reads `stop_requested || source count != 0`.

Slots: `src i`, `tok k` are `none` (no object), `some none` (object without stop state) or
`some (some st)`.  `fix = false` is the pinned tree, where copy-assignment and the defaulted
move-assignment of `stop_source` never give up the source count of the state they leave.
-/
namespace PikaVerif.StopRef

inductive Op where
  | snew (i : Nat) | snone (i : Nat) | scopy (i j : Nat) | smove (i j : Nat)
  | sassign (i j : Nat) | smassign (i j : Nat) | sswap (i j : Nat) | sdel (i : Nat)
  | tget (k i : Nat) | tnew (k : Nat) | tcopy (k l : Nat) | tmove (k l : Nat)
  | tassign (k l : Nat) | tmassign (k l : Nat) | tswap (k l : Nat) | tdel (k : Nat)
  | rs (i : Nat)
  deriving Repr

abbrev Handle := Option (Option Nat)

structure St where
  fix : Bool
  H : Nat
  src : Nat → Handle
  tok : Nat → Handle
  srcs : Nat → Nat
  refs : Nat → Nat
  req : Nat → Bool
  next : Nat

def init (fix : Bool) (H : Nat) : St :=
  { fix := fix, H := H, src := fun _ => none, tok := fun _ => none, srcs := fun _ => 0,
    refs := fun _ => 0, req := fun _ => false, next := 0 }

def incAt (f : Nat → Nat) (o : Option Nat) (x : Nat) : Nat :=
  if o = some x then f x + 1 else f x

def decAt (f : Nat → Nat) (o : Option Nat) (x : Nat) : Nat :=
  if o = some x then f x - 1 else f x

def step (s : St) : Op → Option St
  | .snew i =>
    if i < s.H ∧ s.src i = none then
      some { s with src := upd s.src i (some (some s.next)), refs := upd s.refs s.next 1,
                    srcs := upd s.srcs s.next 1, req := upd s.req s.next false, next := s.next + 1 }
    else none
  | .snone i =>
    if i < s.H ∧ s.src i = none then some { s with src := upd s.src i (some none) } else none
  | .scopy i j =>
    if i < s.H ∧ j < s.H ∧ s.src i = none then
      match s.src j with
      | some h => some { s with src := upd s.src i (some h), refs := incAt s.refs h, srcs := incAt s.srcs h }
      | none => none
    else none
  | .smove i j =>
    if i < s.H ∧ j < s.H ∧ s.src i = none then
      match s.src j with
      | some h => some { s with src := upd (upd s.src i (some h)) j (some none) }
      | none => none
    else none
  | .sassign i j =>
    if i < s.H ∧ j < s.H then
      match s.src i, s.src j with
      | some hi, some hj =>
        if s.fix then
          -- stop_source(rhs).swap(*this): the temporary releases the previous state
          some { s with src := upd s.src i (some hj),
                        refs := decAt (incAt s.refs hj) hi, srcs := decAt (incAt s.srcs hj) hi }
        else
          -- state_ = rhs.state_; if (state_) state_->add_source_count();
          some { s with src := upd s.src i (some hj),
                        refs := decAt (incAt s.refs hj) hi, srcs := incAt s.srcs hj }
      | _, _ => none
    else none
  | .smassign i j =>
    if i < s.H ∧ j < s.H then
      match s.src i, s.src j with
      | some hi, some hj =>
        if i = j then some s
        else if s.fix then
          some { s with src := upd (upd s.src i (some hj)) j (some none),
                        refs := decAt s.refs hi, srcs := decAt s.srcs hi }
        else
          -- defaulted: only the intrusive_ptr is moved
          some { s with src := upd (upd s.src i (some hj)) j (some none), refs := decAt s.refs hi }
      | _, _ => none
    else none
  | .sswap i j =>
    if i < s.H ∧ j < s.H then
      match s.src i, s.src j with
      | some hi, some hj => some { s with src := upd (upd s.src i (some hj)) j (some hi) }
      | _, _ => none
    else none
  | .sdel i =>
    if i < s.H then
      match s.src i with
      | some h => some { s with src := upd s.src i none, srcs := decAt s.srcs h, refs := decAt s.refs h }
      | none => none
    else none
  | .tget k i =>
    if k < s.H ∧ i < s.H ∧ s.tok k = none then
      match s.src i with
      | some h => some { s with tok := upd s.tok k (some h), refs := incAt s.refs h }
      | none => none
    else none
  | .tnew k =>
    if k < s.H ∧ s.tok k = none then some { s with tok := upd s.tok k (some none) } else none
  | .tcopy k l =>
    if k < s.H ∧ l < s.H ∧ s.tok k = none then
      match s.tok l with
      | some h => some { s with tok := upd s.tok k (some h), refs := incAt s.refs h }
      | none => none
    else none
  | .tmove k l =>
    if k < s.H ∧ l < s.H ∧ s.tok k = none then
      match s.tok l with
      | some h => some { s with tok := upd (upd s.tok k (some h)) l (some none) }
      | none => none
    else none
  | .tassign k l =>
    if k < s.H ∧ l < s.H then
      match s.tok k, s.tok l with
      | some hk, some hl => some { s with tok := upd s.tok k (some hl), refs := decAt (incAt s.refs hl) hk }
      | _, _ => none
    else none
  | .tmassign k l =>
    if k < s.H ∧ l < s.H then
      match s.tok k, s.tok l with
      | some hk, some hl =>
        if k = l then some s
        else some { s with tok := upd (upd s.tok k (some hl)) l (some none), refs := decAt s.refs hk }
      | _, _ => none
    else none
  | .tswap k l =>
    if k < s.H ∧ l < s.H then
      match s.tok k, s.tok l with
      | some hk, some hl => some { s with tok := upd (upd s.tok k (some hl)) l (some hk) }
      | _, _ => none
    else none
  | .tdel k =>
    if k < s.H then
      match s.tok k with
      | some h => some { s with tok := upd s.tok k none, refs := decAt s.refs h }
      | none => none
    else none
  | .rs i =>
    if i < s.H then
      match s.src i with
      | some (some st) => some { s with req := upd s.req st true }
      | some none => some s
      | none => none
    else none

/-- what `stop_possible()` / `stop_requested()` of a handle read from the word -/
def possible (s : St) : Handle → Bool
  | some (some st) => s.req st || decide (0 < s.srcs st)
  | _ => false

def requested (s : St) : Handle → Bool
  | some (some st) => s.req st
  | _ => false

/-- number of live `stop_source` objects that own state `st` -/
def isOn (st : Nat) (h : Handle) : Nat := if h = some (some st) then 1 else 0
def cntF (H : Nat) (f : Nat → Handle) (st : Nat) : Nat := sumTo H (fun i => isOn st (f i))
def liveSources (s : St) (st : Nat) : Nat := cntF s.H s.src st

end PikaVerif.StopRef
