import PikaVerif.Core.Basic
/-!
# Model of `when_all`'s operation state under concurrent predecessor completions (C03, stage 2)

Follows `when_all_receiver::{set_value,set_error,set_stopped}` and `operation_state::finish` of
`libs/pika/execution/include/pika/execution/algorithms/when_all.hpp` at the granularity of the
hooks `wa.sig` (point before the latch access), `wa.latch` / `wa.store` (notes: this call won the
latch / stored its value), `wa.fin` (point before the counter decrement), `wa.zero` (note: this
call saw the counter reach zero) and the harness notes (`inv.*`, `fire.*`, `rcv.*`, `ret`).

`n` predecessors (manual leaves); thread 0 starts the operation (the leaves are started in index
order; a leaf whose completion was requested earlier completes inline in `start`), any thread
completes predecessor `i` once.  Acceptor: `step s e = none` = the code as modelled cannot
produce `e` in `s`.
-/
namespace PikaVerif.WhenAll

/-- Where a receiver call was made from: a producer thread, or inline in the start loop. -/
inductive Ctx where
  | producer | starter
  deriving DecidableEq, Repr

inductive Pc where
  | idle
  | completing (i : Nat)                                   -- producer op invoked, leaf armed
  | retC                                                   -- op about to return
  | starting                                               -- in the start loop
  | fired (i ch : Nat) (arg : Int) (cx : Ctx)              -- receiver entered, before `wa.sig`
  | sigd (i : Nat) (cx : Ctx) (note : Nat)                 -- latch access done; note: 0 none, 1 store, 2 latch expected
  | last (cx : Ctx) (zeroSeen : Bool)                      -- counter reached zero
  | fin
  deriving DecidableEq, Repr

inductive Ev where
  | invStart (t : Nat)
  | invComplete (t i ch : Nat) (arg : Int)
  | fire (t i ch : Nat) (arg : Int)
  | sig (t ch : Nat)
  | latch (t : Nat)
  | store (t i : Nat)
  | dec (t : Nat)
  | zero (t : Nat) (latch hasErr : Bool)
  | rcv (t ch : Nat) (v : Int)
  | ret (t : Nat)
  | tdone (t : Nat)
  deriving Repr

structure St where
  n : Nat
  armedTo : Nat                        -- leaves with index < armedTo have been started
  pending : Nat → Option (Nat × Int)   -- completion requested before the leaf was started
  firedI : Nat → Bool
  remaining : Nat                      -- predecessors_remaining
  latch : Bool                         -- set_stopped_error_called
  err : Option Int
  slots : Nat → Option Int
  pc : Nat → Pc
  delivered : Nat                      -- history: signals sent to the connected receiver
  result : Option (Nat × Int)
  /-- history (never tested by `step`) -/
  compl : Nat → Option (Nat × Int)     -- the completion (channel, payload) of predecessor `i`
  stage : Nat → Nat                    -- of predecessor `i`'s receiver call: 0 not entered, 1 entered,
                                       -- 2 latch access done, 3 counter decremented
  who : Nat → Nat                      -- the thread that runs predecessor `i`'s receiver call
  first : Option (Nat × Nat × Int)     -- (i, channel, payload) of the first non-value completion
                                       -- to reach the latch
  lastT : Nat                          -- the thread whose decrement reached zero

def init (n : Nat) : St :=
  { n := n, armedTo := 0, pending := fun _ => none, firedI := fun _ => false, remaining := n,
    latch := false, err := none, slots := fun _ => none, pc := fun _ => .idle, delivered := 0,
    result := none, compl := fun _ => none, stage := fun _ => 0, who := fun _ => 0, first := none,
    lastT := 0 }

/-- The start loop runs until it meets a leaf with a pending completion (which then fires
    inline) or the end: the new value of `armedTo`. -/
def advance (pending : Nat → Option (Nat × Int)) (n : Nat) : Nat → Nat → Nat
  | j, 0 => j
  | j, fuel + 1 => if j < n then (if (pending j).isSome then j + 1 else advance pending n (j + 1) fuel) else j

def enc (slots : Nat → Option Int) : Nat → Int
  | 0 => 0
  | k + 1 => enc slots k + (slots k).getD 0 * (16 ^ k : Nat)

/-- The signal `finish()` sends. -/
def decision (s : St) : Nat × Int :=
  if !s.latch then (0, enc s.slots s.n)
  else match s.err with
    | some e => (2, e)
    | none => (1, 0)

/-- the values sent by the predecessors -/
def vals (s : St) : Nat → Option Int := fun i =>
  match s.compl i with
  | some (_, a) => some a
  | none => none

/-- What `when_all` must deliver, as a function of the history alone: the first non-value
    completion to reach the latch decides (stopped, or that error); if there is none, the values
    of all predecessors in predecessor order. -/
def decisionG (s : St) : Nat × Int :=
  match s.first with
  | none => (0, enc (vals s) s.n)
  | some (_, ch, e) => if ch = 1 then (1, 0) else (2, e)

/-- After a receiver call returns: the producer's op returns, the starter goes on with the loop. -/
def afterCall (s : St) (t : Nat) (cx : Ctx) : St :=
  match cx with
  | .producer => { s with pc := upd s.pc t .retC }
  | .starter => { s with armedTo := advance s.pending s.n s.armedTo s.n, pc := upd s.pc t .starting }

def step (s : St) : Ev → Option St
  | .invStart t =>
    if s.pc t = .idle ∧ s.armedTo = 0 then
      some { s with armedTo := advance s.pending s.n 0 s.n, pc := upd s.pc t .starting }
    else none
  | .invComplete t i ch arg =>
    if s.pc t = .idle ∧ i < s.n ∧ s.firedI i = false ∧ s.pending i = none ∧ ch ≤ 2 then
      if i < s.armedTo then some { s with pc := upd s.pc t (.completing i) }
      else some { s with pending := upd s.pending i (some (ch, arg)), pc := upd s.pc t .retC }
    else none
  | .fire t i ch arg =>
    if s.firedI i = false ∧ i < s.armedTo ∧ i < s.n then
      match s.pc t with
      | .completing j =>
        if i = j then some { s with firedI := upd s.firedI i true, pc := upd s.pc t (.fired i ch arg .producer),
                                    compl := upd s.compl i (some (ch, arg)), stage := upd s.stage i 1,
                                    who := upd s.who i t }
        else none
      | .starting =>
        if i + 1 = s.armedTo ∧ s.pending i = some (ch, arg) then
          some { s with firedI := upd s.firedI i true, pc := upd s.pc t (.fired i ch arg .starter),
                        compl := upd s.compl i (some (ch, arg)), stage := upd s.stage i 1,
                        who := upd s.who i t }
        else none
      | _ => none
    else none
  | .sig t ch' =>
    match s.pc t with
    | .fired i ch arg cx =>
      if ch' = ch then
        if ch = 0 then
          if s.latch then some { s with stage := upd s.stage i 2, pc := upd s.pc t (.sigd i cx 0) }
          else some { s with slots := upd s.slots i (some arg), stage := upd s.stage i 2,
                             pc := upd s.pc t (.sigd i cx 1) }
        else if ch = 1 then
          some { s with latch := true, stage := upd s.stage i 2, first := if s.first = none then some (i, ch, arg) else s.first,
                        pc := upd s.pc t (.sigd i cx 0) }
        else
          if s.latch then some { s with stage := upd s.stage i 2, pc := upd s.pc t (.sigd i cx 0) }
          else some { s with latch := true, err := some arg, stage := upd s.stage i 2,
                             first := if s.first = none then some (i, ch, arg) else s.first, pc := upd s.pc t (.sigd i cx 2) }
      else none
    | _ => none
  | .store t _ =>
    match s.pc t with
    | .sigd i cx 1 => some { s with pc := upd s.pc t (.sigd i cx 0) }
    | _ => none
  | .latch t =>
    match s.pc t with
    | .sigd i cx 2 => some { s with pc := upd s.pc t (.sigd i cx 0) }
    | _ => none
  | .dec t =>
    match s.pc t with
    | .sigd i cx 0 =>
      if s.remaining = 0 then none
      else if s.remaining = 1 then
        some { s with remaining := 0, stage := upd s.stage i 3, lastT := t, pc := upd s.pc t (.last cx false) }
      else some (afterCall { s with remaining := s.remaining - 1, stage := upd s.stage i 3 } t cx)
    | _ => none
  | .zero t l e =>
    match s.pc t with
    | .last cx false =>
      if l = s.latch ∧ e = s.err.isSome then some { s with pc := upd s.pc t (.last cx true) } else none
    | _ => none
  | .rcv t ch v =>
    match s.pc t with
    | .last cx true =>
      if (ch, v) = decision s then
        some (afterCall { s with delivered := s.delivered + 1, result := some (ch, v) } t cx)
      else none
    | _ => none
  | .ret t =>
    match s.pc t with
    | .retC => some { s with pc := upd s.pc t .idle }
    | .starting =>
      -- the loop has started every leaf and the last one did not complete inline just now
      if s.armedTo = s.n ∧ (s.n = 0 ∨ (s.pending (s.n - 1)).isNone ∨ s.firedI (s.n - 1) = true) then
        some { s with pc := upd s.pc t .idle }
      else none
    | _ => none
  | .tdone t =>
    if s.pc t = .idle then some { s with pc := upd s.pc t .fin } else none

end PikaVerif.WhenAll
