import PikaVerif.Core.Basic
/-!
# A small x86-64 machine for the context-switch routine (C12)

Registers and memory of one hardware thread, enough to run the straight-line routine
`swapcontext_stack` (generated into `Gen/SwapAsm.lean` from the asm text on every run).

* Values are 64-bit: every arithmetic result is taken modulo `W = 2^64` (the real wrap-around).
* Memory is a map from byte addresses to 64-bit words and is accessed in naturally aligned
  quad-words only: an access at an address that is not a multiple of 8 is outside the model
  (`none`), so distinct accessed addresses never overlap.  Sub-word accesses exist only for
  the four FP-control instructions (`stmxcsr ldmxcsr fnstcw fldcw`), which read/write a
  32-bit or 16-bit field of the containing aligned word.
* `run` executes a list of instructions until the routine is left by `jmp *%r` or `ret`
  and returns the final state and the address control is transferred to.  `ud2`, running
  off the end, and misaligned accesses give `none`.
* `mxcsr` (SSE control/status) and `fcw` (x87 control word) are part of the state: user code
  (`fesetround`) changes them, and only the four instructions above move them to/from memory.
-/
namespace PikaVerif.X86

/-- 2^64 -/
def W : Nat := 18446744073709551616

inductive Reg
  | rax | rbx | rcx | rdx | rsi | rdi | rbp | rsp | r8 | r9 | r10 | r11 | r12 | r13 | r14 | r15
  deriving DecidableEq, Repr

inductive Instr
  | load (off : Nat) (base dst : Reg)      -- movq off(%base), %dst
  | store (src : Reg) (off : Nat) (base : Reg)   -- movq %src, off(%base)
  | mov (src dst : Reg)                    -- movq %src, %dst
  | movi (imm : Nat) (dst : Reg)           -- movq $imm, %dst
  | lea (off : Nat) (base dst : Reg)       -- leaq off(%base), %dst
  | push (r : Reg)                         -- pushq %r
  | pop (r : Reg)                          -- popq %r
  | addi (imm : Nat) (dst : Reg)           -- add $imm, %dst
  | subi (imm : Nat) (dst : Reg)           -- sub $imm, %dst
  | jmpr (r : Reg)                         -- jmp *%r
  | ret
  | ud2
  | stmxcsr (off : Nat) (base : Reg)
  | ldmxcsr (off : Nat) (base : Reg)
  | fnstcw (off : Nat) (base : Reg)
  | fldcw (off : Nat) (base : Reg)
  deriving DecidableEq, Repr

structure St where
  reg : Reg → Nat
  mem : Nat → Nat
  mxcsr : Nat
  fcw : Nat

/-- register-file update -/
def setReg (f : Reg → Nat) (r : Reg) (v : Nat) : Reg → Nat := fun r' => if r' = r then v else f r'

@[simp] theorem setReg_same (f : Reg → Nat) (r : Reg) (v : Nat) : setReg f r v r = v := by simp [setReg]
@[simp] theorem setReg_other (f : Reg → Nat) (r r' : Reg) (v : Nat) (h : r' ≠ r) : setReg f r v r' = f r' := by
  simp [setReg, h]

/-- 64-bit addition of a (small, non-negative) constant -/
def wadd (x k : Nat) : Nat := (x + k) % W

/-- 64-bit subtraction of a constant `k ≤ W` from a value `x < W` (wraps below 0).  Written without
    `x + (W - k)`: the kernel must never be led to count a symbolic value up to 2^64. -/
def wsub (x k : Nat) : Nat := if k ≤ x then x - k else W - (k - x)

/-- effective address `off(%base)` (the translator admits non-negative displacements only) -/
def ea (s : St) (off : Nat) (base : Reg) : Nat := wadd (s.reg base) off

/-- write `v` into the `bits`-wide field at byte offset `a % 8` of the aligned word containing `a` -/
def storeField (mem : Nat → Nat) (a bits v : Nat) : Nat → Nat :=
  let wa := a - a % 8
  let sh := 2 ^ (8 * (a % 8))
  let old := mem wa
  let field := (old / sh) % 2 ^ bits
  upd mem wa (old - field * sh + (v % 2 ^ bits) * sh)

def loadField (mem : Nat → Nat) (a bits : Nat) : Nat :=
  (mem (a - a % 8) / 2 ^ (8 * (a % 8))) % 2 ^ bits

/-- One non-control instruction. -/
def exec (i : Instr) (s : St) : Option St :=
  match i with
  | .load off b d =>
    let a := ea s off b
    if a % 8 = 0 then some { s with reg := setReg s.reg d (s.mem a) } else none
  | .store src off b =>
    let a := ea s off b
    if a % 8 = 0 then some { s with mem := upd s.mem a (s.reg src) } else none
  | .mov src d => some { s with reg := setReg s.reg d (s.reg src) }
  | .movi imm d => some { s with reg := setReg s.reg d (imm % W) }
  | .lea off b d => some { s with reg := setReg s.reg d (ea s off b) }
  | .push r =>
    let sp := wsub (s.reg .rsp) 8
    if sp % 8 = 0 then some { s with reg := setReg s.reg .rsp sp, mem := upd s.mem sp (s.reg r) } else none
  | .pop r =>
    let sp := s.reg .rsp
    if sp % 8 = 0 then
      -- `popq %rsp` loads the popped value (the increment is overwritten)
      some { s with reg := setReg (setReg s.reg .rsp (wadd sp 8)) r (s.mem sp) }
    else none
  | .addi imm d => some { s with reg := setReg s.reg d (wadd (s.reg d) imm) }
  | .subi imm d => some { s with reg := setReg s.reg d (wsub (s.reg d) imm) }
  | .stmxcsr off b => let a := ea s off b
    if a % 4 = 0 then some { s with mem := storeField s.mem a 32 s.mxcsr } else none
  | .ldmxcsr off b => let a := ea s off b
    if a % 4 = 0 then some { s with mxcsr := loadField s.mem a 32 } else none
  | .fnstcw off b => let a := ea s off b
    if a % 2 = 0 then some { s with mem := storeField s.mem a 16 s.fcw } else none
  | .fldcw off b => let a := ea s off b
    if a % 2 = 0 then some { s with fcw := loadField s.mem a 16 } else none
  | .jmpr _ => none
  | .ret => none
  | .ud2 => none

/-- Run a routine until it is left; result = (state, address jumped to). -/
def run : List Instr → St → Option (St × Nat)
  | [], _ => none
  | .jmpr r :: _, s => some (s, s.reg r)
  | .ret :: _, s =>
    let sp := s.reg .rsp
    if sp % 8 = 0 then some ({ s with reg := setReg s.reg .rsp (wadd sp 8) }, s.mem sp) else none
  | .ud2 :: _, _ => none
  | i :: rest, s => match exec i s with
    | none => none
    | some s' => run rest s'

/-! ## The initial frame of a context (`x86_linux_context_impl::init` / `rebind_stack`)

`m_sp = (void**)m_stack + m_stack_size / sizeof(void*) - context_size; m_sp[cb_idx] = this;
m_sp[funp_idx] = funp;` — the translator checks that both functions have exactly this shape. -/
def frameSp (stack size contextSize : Nat) : Nat := stack + size - 8 * contextSize

def initFrame (mem : Nat → Nat) (stack size contextSize cbIdx funpIdx cb funp : Nat) : Nat → Nat :=
  let sp := frameSp stack size contextSize
  upd (upd mem (sp + 8 * cbIdx) cb) (sp + 8 * funpIdx) funp

end PikaVerif.X86
