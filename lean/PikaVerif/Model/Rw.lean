import PikaVerif.Core.Basic
import PikaVerif.Core.Sum
/-!
# Model of `pika::execution::experimental::async_rw_mutex` (C04)

Follows `libs/pika/execution/include/pika/execution/async_rw_mutex.hpp`:

* the mutex (`state`, `prev_access`, `value`) and `read()` / `readwrite()`;
* the chain of reference-counted shared states ("groups"; consecutive reads share one),
  each with `next_state`, the atomic `op_state_head` (an intrusive LIFO list of waiting
  operation states, or the sentinel `this` once `done()` has run) and a reference to the value;
* `add_op_state` (load head; sentinel? run the continuation inline : CAS-push, on failure
  re-examine the freshly observed head), `done()` (exchange head with the sentinel, run the
  queued continuations front to back), `~shared_state` (reset `next_state`, call `done()` on it);
* senders / operation states / access wrappers as holders of `shared_ptr` references; the
  control-block count is modelled as one atomic counter per group (`rc`), the destructor runs in
  the atomic block of the decrement that reaches zero;
* senders dropped unstarted (`start_detached` from the sender's destructor: the wrapper is
  destroyed as soon as it is delivered).

Granularity = one event per atomic access of `op_state_head` (the harness instruments the
atomic itself) and per continuation run by `done()`.  Accesses are numbered in request order,
groups in creation order.  Thread ids are annotations: they say which thread owns a pending
`start` / `done` frame.

The model is an acceptor: `step s e = none` means "the code as modelled cannot produce `e`
in state `s`".
-/
namespace PikaVerif.Rw

/-- State of one access (= one sender obtained from the mutex). -/
inductive Acc where
  | none                                  -- not requested yet
  | sender                                -- unstarted sender (holds a reference)
  | starting (t : Nat) (det : Bool)       -- operation state built, `start()` entered, head not yet loaded
  | loaded (t : Nat) (det : Bool) (h : Nat) -- saw an open queue with `h` entries; before the CAS
  | queued (det : Bool)                   -- pushed on the group's queue
  | granted (c : Nat)                     -- continuation ran; `c + 1` live wrapper copies
  | released                              -- all wrappers destroyed
  deriving DecidableEq, Repr

/-- Progress of `done()` on a group. -/
inductive Dn where
  | idle                                  -- not called
  | pend (t : Nat)                        -- called by `t`, exchange not yet performed
  | drain (t : Nat) (rest : List Nat)     -- exchanged; continuations still to run (front first)
  deriving DecidableEq, Repr

inductive Ev where
  /-- owner calls `read()` (`w = false`) / `readwrite()`; `newg`: a new shared state was
      allocated; `died`: dropping `prev_state` destroyed the previous shared state -/
  | req (t a : Nat) (w newg died : Bool)
  /-- the mutex object is destroyed -/
  | destroy (t : Nat) (died : Bool)
  /-- connect + `start()` (`det`: from the sender's destructor via `start_detached`) -/
  | start (t a : Nat) (det : Bool)
  /-- `op_state_head.load`; `cls` 0 = nullptr, 1 = an operation state, 2 = sentinel;
      `ack`: the harness receiver got the wrapper in this atomic block; `died`: the group's
      shared state was destroyed in this atomic block -/
  | load (t a : Nat) (cls : Nat) (ack died : Bool)
  /-- `compare_exchange_weak`; on failure `cls` classifies the value observed -/
  | cas (t a : Nat) (ok : Bool) (cls : Nat) (ack died : Bool)
  /-- `op_state_head.exchange(this)` in `done()`; `cls` classifies the old value -/
  | xchg (t g : Nat) (cls : Nat)
  /-- one iteration of the loop in `done()`: run the next queued continuation -/
  | cont (t g : Nat) (ack : Option Nat) (died : Bool)
  | copy (t a : Nat)
  | rel (t a : Nat) (died : Bool)
  | write (t a : Nat) (v : Nat)
  | readv (t a : Nat) (v : Nat)
  /-- the wrapped value's destructor ran -/
  | vfree (t : Nat)
  deriving Repr

structure St where
  /-- mutex -/
  alive : Bool
  lastRw : Bool
  /-- groups -/
  ng : Nat
  rw : Nat → Bool
  head : Nat → Option (List Nat)      -- `some q` = open queue (LIFO), `none` = sentinel
  dn : Nat → Dn
  rc : Nat → Nat
  dead : Nat → Bool
  first : Nat → Nat                   -- history: the access whose request created the group
  /-- accesses -/
  na : Nat
  grp : Nat → Nat
  acc : Nat → Acc
  /-- history -/
  grants : Nat → Nat                  -- how often the access' continuation ran
  ver : Nat                           -- number of modifications of the value
  wr : Nat → Nat                      -- modifications made through access `a`
  vfreed : Bool

def init : St :=
  { alive := true, lastRw := true, ng := 0, rw := fun _ => false, head := fun _ => some [],
    dn := fun _ => .idle, rc := fun _ => 0, dead := fun _ => false, first := fun _ => 0,
    na := 0, grp := fun _ => 0, acc := fun _ => .none, grants := fun _ => 0, ver := 0,
    wr := fun _ => 0, vfreed := false }

/-- one wrapper copy is destroyed -/
def relAcc : Nat → Acc
  | 0 => .released
  | k + 1 => .granted k

def clsOf (q : List Nat) : Nat := if q.isEmpty then 0 else 1

/-- Drop one reference of group `g` on thread `t`.  Reaching zero runs `~shared_state`:
    `next_state.reset()` (one reference of `g+1`) and `next_state->done()` (entered by `t`). -/
def decRc (s : St) (t g : Nat) : St :=
  if s.rc g = 1 then
    if g + 1 < s.ng then
      { s with rc := upd (upd s.rc g 0) (g + 1) (s.rc (g + 1) - 1), dead := upd s.dead g true,
               dn := upd s.dn (g + 1) (.pend t) }
    else { s with rc := upd s.rc g 0, dead := upd s.dead g true }
  else { s with rc := upd s.rc g (s.rc g - 1) }

/-- Run the continuation of access `a` on thread `t`: `set_value(receiver, wrapper)`.  A detached
    access (dropped sender) destroys the wrapper at once. -/
def grant (s : St) (t a : Nat) (det : Bool) : St :=
  let s1 := { s with grants := upd s.grants a (s.grants a + 1) }
  if det then decRc { s1 with acc := upd s1.acc a .released } t (s.grp a)
  else { s1 with acc := upd s1.acc a (.granted 0) }

/-- what the harness receiver reports when the continuation of `a` runs -/
def ackOf (det : Bool) (a : Nat) : Option Nat := if det then none else some a

/-- Does the grant of a detached access destroy the group's shared state? -/
def grantDies (s : St) (a : Nat) (det : Bool) : Bool := det && decide (s.rc (s.grp a) = 1)

def step (s : St) : Ev → Option St
  | .req t a w newg died =>
    if s.alive = true ∧ a = s.na then
      if w = true ∨ s.lastRw = true then
        -- new shared state; references: mutex.state, the sender, and prev.next_state if any
        let g := s.ng
        let s1 : St :=
          { s with ng := g + 1, rw := upd s.rw g w, head := upd s.head g (some []),
                   dn := upd s.dn g (if g = 0 then .pend t else .idle),
                   rc := upd s.rc g (if g = 0 then 2 else 3), dead := upd s.dead g false,
                   first := upd s.first g a, lastRw := w,
                   na := a + 1, grp := upd s.grp a g, acc := upd s.acc a .sender }
        if newg = true ∧ died = (decide (0 < g) && decide (s.rc (g - 1) = 1)) then
          some (if 0 < g then decRc s1 t (g - 1) else s1)
        else none
      else
        let g := s.ng - 1
        if newg = false ∧ died = false then
          some { s with rc := upd s.rc g (s.rc g + 1), na := a + 1, grp := upd s.grp a g,
                        acc := upd s.acc a .sender }
        else none
    else none
  | .destroy t died =>
    if s.alive = true then
      if 0 < s.ng then
        if died = decide (s.rc (s.ng - 1) = 1) then
          some (decRc { s with alive := false } t (s.ng - 1))
        else none
      else if died = false then some { s with alive := false } else none
    else none
  | .start t a det =>
    match s.acc a with
    | .sender => some { s with acc := upd s.acc a (.starting t det) }
    | _ => none
  | .load t a cls ack died =>
    match s.acc a with
    | .starting t' det =>
      if t' = t then
        match s.head (s.grp a) with
        | some q =>
          if cls = clsOf q ∧ ack = false ∧ died = false then
            some { s with acc := upd s.acc a (.loaded t det q.length) }
          else none
        | none =>
          if cls = 2 ∧ ack = !det ∧ died = grantDies s a det then some (grant s t a det) else none
      else none
    | _ => none
  | .cas t a ok cls ack died =>
    match s.acc a with
    | .loaded t' det h =>
      if t' = t then
        match s.head (s.grp a) with
        | some q =>
          if ok = true then
            if q.length = h ∧ ack = false ∧ died = false then
              some { s with head := upd s.head (s.grp a) (some (a :: q)),
                            acc := upd s.acc a (.queued det) }
            else none
          else
            -- failed (the head moved on, or a spurious failure of the weak CAS):
            -- `op_state->next` now holds the observed head; the loop re-tests it
            if cls = clsOf q ∧ ack = false ∧ died = false then
              some { s with acc := upd s.acc a (.loaded t det q.length) }
            else none
        | none =>
          if ok = false ∧ cls = 2 ∧ ack = !det ∧ died = grantDies s a det then
            some (grant s t a det)
          else none
      else none
    | _ => none
  | .xchg t g cls =>
    match s.dn g, s.head g with
    | .pend t', some q =>
      if t' = t ∧ g < s.ng ∧ cls = clsOf q then
        some { s with head := upd s.head g none, dn := upd s.dn g (.drain t q) }
      else none
    | _, _ => none
  | .cont t g ack died =>
    match s.dn g with
    | .drain t' (a :: rest) =>
      match s.acc a with
      | .queued det =>
        if t' = t ∧ s.grp a = g ∧ ack = ackOf det a ∧ died = grantDies s a det then
          some (grant { s with dn := upd s.dn g (.drain t rest) } t a det)
        else none
      | _ => none
    | _ => none
  | .copy _ a =>
    match s.acc a with
    | .granted c =>
      if s.rw (s.grp a) = false then
        some { s with acc := upd s.acc a (.granted (c + 1)),
                      rc := upd s.rc (s.grp a) (s.rc (s.grp a) + 1) }
      else none
    | _ => none
  | .rel t a died =>
    match s.acc a with
    | .granted c =>
      if died = decide (s.rc (s.grp a) = 1) then
        some (decRc { s with acc := upd s.acc a (relAcc c) }
                t (s.grp a))
      else none
    | _ => none
  | .write _ a v =>
    match s.acc a with
    | .granted _ =>
      if s.rw (s.grp a) = true ∧ v = s.ver + 1 then
        some { s with ver := s.ver + 1, wr := upd s.wr a (s.wr a + 1) }
      else none
    | _ => none
  | .readv _ a v =>
    match s.acc a with
    | .granted _ => if v = s.ver then some s else none
    | _ => none
  | .vfree _ =>
    if s.alive = false ∧ (s.ng = 0 ∨ s.dead (s.ng - 1) = true) ∧ s.vfreed = false then
      some { s with vfreed := true }
    else none

end PikaVerif.Rw
