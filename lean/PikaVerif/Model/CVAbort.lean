import PikaVerif.Core.Basic
/-!
# Model of `detail::condition_variable::abort_all` (C07, follow-up C07d)

A small model next to `Model/CV.lean` (which is left untouched): ONE
`pika::detail::condition_variable` used directly with its spinlock (as `pika::mutex`, the latch, the
semaphores … use it), `n` threads, any program over

* `wait tm`   — `std::unique_lock l(mtx); cond.wait(l)` / `cond.wait_until(l, t)`; the caller catches the
                exception an aborted `suspend` throws,
* `notify all` — `std::unique_lock l(mtx); cond.notify_one(std::move(l))` / `notify_all`,
* `abort`     — `std::unique_lock l(mtx); cond.abort_all(std::move(l))`
                (`~condition_variable` runs the same template with `pika::no_mutex`: the same steps
                without the `sl.*` events).

The text that is followed (`libs/pika/synchronization/src/detail/condition_variable.cpp`):

```
template <typename Mutex> void condition_variable::abort_all(std::unique_lock<Mutex> lock)
{
    while (!queue_.empty())                       -- empty: cv.ab.done (event `abDone`)
    {
        queue_type queue; queue.swap(queue_);     -- cv.ab.swap  (event `abSwap`: `lq := queue_`, `queue_ := []`)
        for (queue_entry& qe : queue) qe.q_ = &queue;
        while (!queue.empty())
        {
            auto ctx = queue.front().ctx_;
            queue.front().ctx_.reset(); queue.pop_front();      -- cv.ab.pop  (event `abPop`)
            unlock_guard unlock(lock);                          -- sl.rel     (the internal lock is RELEASED)
            ctx.abort();                                        -- ag.abort   (event `abort`)
        }                                                       -- sl.acq     (re-taken by ~unlock_guard)
    }
}
```

While the lock is released (`aUnl`, `aRelk`) any other thread may take it: new waiters push entries on
`queue_` (the outer loop swaps again), notifiers pop from `queue_`, and a waiter whose entry sits in the
aborter's LOCAL list and that wakes up for another reason (deadline, left-over token, stale abort flag)
erases its entry from that local list through `queue_entry::q_` (`~reset_queue_entry`).

The waiter (`detail::condition_variable::wait` / `wait_until`): `cv.enq` → `sl.rel` → `agent.suspend()` /
`agent.sleep_until()` → (`sl.acq` → `cv.woke` [+ erase of a still linked entry]) **or**, when `suspend`
throws (restart state `abort`), `sl.acq` (the `unlock_guard`) → `~reset_queue_entry` (erase of a still
linked entry; event `threw`, logged by the harness when it catches the exception — no preemption point
between the `sl.acq` and the catch) → the caller releases the lock.

The execution agent is the E1 agent (`harness/baton.hpp`): wake-up tokens, `abort` = token + sticky
`aborted` flag that the next return of `suspend` consumes by throwing, `sleep_until` clears the tokens and
ends only by the deadline event, a resume/abort aimed at a deadline poller is dropped.

At most one `abort_all` is in flight (`ab`); the acceptor rejects a second one (modelling restriction:
one local list).
-/
namespace PikaVerif.CVAbort

inductive Op where
  | wait (tm : Bool)
  | notify (all : Bool)
  | abort
  deriving DecidableEq, Repr

def b2n (b : Bool) : Nat := if b then 1 else 0

inductive Pc where
  | idle
  | wWant (tm : Bool)            -- wait invoked, internal lock not yet taken
  | wLocked (tm : Bool)          -- lock held, before cv.enq
  | enq (tm : Bool)              -- entry pushed on `queue_` (lock held)
  | unl (tm p : Bool)            -- lock released, about to suspend / sleep; `p` = entry popped (ctx_ reset)
  | susp (p : Bool)              -- inside agent.suspend
  | slp (p : Bool)               -- inside agent.sleep_until
  | wokeNL (tm p : Bool)         -- the agent call returned normally, lock not yet re-taken
  | thrNL (p : Bool)             -- agent.suspend threw (abort), lock not yet re-taken
  | relk (tm p : Bool)           -- lock re-taken, before cv.woke
  | thrLk (p : Bool)             -- lock re-taken by the unlock_guard while the exception propagates
  | post (r : Nat)               -- after cv.woke / ~reset_queue_entry, lock held; r: 0 signaled, 1 timeout, 2 threw
  | retn (r : Nat)               -- lock released, about to return r
  | nWant (all : Bool)
  | nLocked (all : Bool)
  | nAll                         -- notify_all popping entries (lock held throughout)
  | nDone
  | nRet
  | aWant                        -- abort_all invoked, lock not yet taken
  | aLoop                        -- lock held: at a loop test of abort_all
  | aPopped (g : Nat)            -- popped g's entry from the local list, lock still held
  | aUnl (g : Nat)               -- lock released, before ctx.abort() on g
  | aRelk                        -- ctx.abort() done, lock not yet re-taken
  | aDone                        -- `queue_` found empty: abort_all returns (lock held)
  | aRet                         -- lock released
  | fin
  deriving DecidableEq, Repr

inductive Ev where
  | inv (t : Nat) (o : Op)
  | ret (t : Nat) (r : Nat)
  | slAcq (t : Nat)
  | slRel (t : Nat)
  | cvEnq (t : Nat) (size : Nat) (timed : Bool)
  | popResume (t : Nat) (size : Nat) (tgt : Nat) (dropped : Bool)
  | cvNone (t : Nat)
  | cvAll (t : Nat) (size : Nat)
  | popAll (t : Nat) (size : Nat) (tgt : Nat) (dropped : Bool)
  | cvWoke (t : Nat) (stillQueued timed : Bool)
  | suspend (t : Nat)
  | woke (t : Nat) (ab : Bool)
  | sleep (t : Nat)
  | timeout (t : Nat)
  | threw (t : Nat)
  | abSwap (t : Nat) (size : Nat)
  | abPop (t : Nat) (size : Nat) (tgt : Nat)
  | abort (t : Nat) (tgt : Nat) (dropped : Bool)
  | abDone (t : Nat) (size : Nat)
  | done (t : Nat)
  deriving Repr

structure St where
  n : Nat
  lock : Option Nat              -- holder of the internal spinlock
  queue : List Nat               -- `queue_` (entries identified by their thread)
  lq : List Nat                  -- the local `queue` of the abort_all in flight
  ab : Option Nat                -- the thread inside abort_all
  tok : Nat → Nat                -- agent wake-up tokens
  abt : Nat → Bool               -- agent: aborted flag (consumed by the next return of suspend)
  pc : Nat → Pc
  /-- history: entries pushed by `t`; pops of `t` by notifiers; pops of `t` by abort_all;
      `ctx.abort()` calls aimed at `t` -/
  enqs : Nat → Nat
  pops : Nat → Nat
  abPops : Nat → Nat
  aborts : Nat → Nat

def init (n : Nat) : St :=
  { n := n, lock := none, queue := [], lq := [], ab := none, tok := fun _ => 0, abt := fun _ => false,
    pc := fun _ => .idle, enqs := fun _ => 0, pops := fun _ => 0, abPops := fun _ => 0,
    aborts := fun _ => 0 }

/-- Mark a waiter as popped (its `ctx_` was reset by a notifier / by abort_all). -/
def setPopped : Pc → Option Pc
  | .unl tm false => some (.unl tm true)
  | .susp false => some (.susp true)
  | .slp false => some (.slp true)
  | .wokeNL tm false => some (.wokeNL tm true)
  | .thrNL false => some (.thrNL true)
  | _ => none

def isSlp : Pc → Bool
  | .slp _ => true
  | _ => false

/-- `notify_one` / one iteration of `notify_all`: pop the front of `queue_`, reset `ctx_`, `ctx.resume()`. -/
def popCore (s : St) (t size tgt : Nat) (dropped : Bool) (pcT : Pc) : Option St :=
  match s.queue with
  | g :: rest =>
    if size = rest.length ∧ g = tgt then
      match setPopped (s.pc tgt) with
      | some p' =>
        if dropped = isSlp (s.pc tgt) then
          some { s with queue := rest,
                        tok := if dropped then s.tok else upd s.tok tgt (s.tok tgt + 1),
                        pc := upd (upd s.pc tgt p') t pcT,
                        pops := upd s.pops tgt (s.pops tgt + 1) }
        else none
      | none => none
    else none
  | [] => none

def step (s : St) : Ev → Option St
  | .inv t o =>
    if t < s.n ∧ s.pc t = .idle then
      match o with
      | .wait tm => some { s with pc := upd s.pc t (.wWant tm) }
      | .notify all => some { s with pc := upd s.pc t (.nWant all) }
      | .abort => if s.ab = none then some { s with pc := upd s.pc t .aWant, ab := some t } else none
    else none
  | .slAcq t =>
    if s.lock = none then
      match s.pc t with
      | .wWant tm => some { s with lock := some t, pc := upd s.pc t (.wLocked tm) }
      | .wokeNL tm p => some { s with lock := some t, pc := upd s.pc t (.relk tm p) }
      | .thrNL p => some { s with lock := some t, pc := upd s.pc t (.thrLk p) }
      | .nWant all => some { s with lock := some t, pc := upd s.pc t (.nLocked all) }
      | .aWant => some { s with lock := some t, pc := upd s.pc t .aLoop }
      | .aRelk => some { s with lock := some t, pc := upd s.pc t .aLoop }
      | _ => none
    else none
  | .slRel t =>
    if s.lock = some t then
      match s.pc t with
      | .enq tm => some { s with lock := none, pc := upd s.pc t (.unl tm false) }
      | .post r => some { s with lock := none, pc := upd s.pc t (.retn r) }
      | .nDone => some { s with lock := none, pc := upd s.pc t .nRet }
      | .nAll => if s.queue = [] then some { s with lock := none, pc := upd s.pc t .nRet } else none
      | .aPopped g => some { s with lock := none, pc := upd s.pc t (.aUnl g) }
      | .aDone => some { s with lock := none, pc := upd s.pc t .aRet }
      | _ => none
    else none
  | .cvEnq t size tm =>
    if s.lock = some t ∧ size = s.queue.length + 1 then
      match s.pc t with
      | .wLocked tm' =>
        if tm = tm' then
          some { s with queue := s.queue ++ [t], pc := upd s.pc t (.enq tm),
                        enqs := upd s.enqs t (s.enqs t + 1) }
        else none
      | _ => none
    else none
  | .popResume t size tgt dropped =>
    if s.lock = some t then
      match s.pc t with
      | .nLocked false => popCore s t size tgt dropped .nDone
      | _ => none
    else none
  | .cvNone t =>
    if s.lock = some t ∧ s.queue = [] then
      match s.pc t with
      | .nLocked false => some { s with pc := upd s.pc t .nDone }
      | _ => none
    else none
  | .cvAll t size =>
    if s.lock = some t ∧ size = s.queue.length then
      match s.pc t with
      | .nLocked true => some { s with pc := upd s.pc t .nAll }
      | _ => none
    else none
  | .popAll t size tgt dropped =>
    if s.lock = some t then
      match s.pc t with
      | .nAll => popCore s t size tgt dropped .nAll
      | _ => none
    else none
  | .suspend t =>
    match s.pc t with
    | .unl false p => some { s with pc := upd s.pc t (.susp p) }
    | _ => none
  | .woke t ab =>
    if 0 < s.tok t ∧ ab = s.abt t then
      match s.pc t with
      | .susp p =>
        some { s with tok := upd s.tok t (s.tok t - 1), abt := upd s.abt t false,
                      pc := upd s.pc t (if ab then .thrNL p else .wokeNL false p) }
      | _ => none
    else none
  | .sleep t =>
    match s.pc t with
    | .unl true p => some { s with tok := upd s.tok t 0, pc := upd s.pc t (.slp p) }
    | _ => none
  | .timeout t =>
    match s.pc t with
    | .slp p => some { s with pc := upd s.pc t (.wokeNL true p) }
    | _ => none
  | .cvWoke t still tm =>
    if s.lock = some t then
      match s.pc t with
      | .relk tmm popped =>
        if tm = tmm ∧ still = !popped then
          if popped then some { s with pc := upd s.pc t (.post 0) }
          else
            -- entry still linked: `~reset_queue_entry` erases it from the list `q_` points to
            -- (`queue_` or the aborter's local list; it is in exactly one of them)
            some { s with queue := s.queue.erase t, lq := s.lq.erase t, pc := upd s.pc t (.post 1) }
        else none
      | _ => none
    else none
  | .threw t =>
    if s.lock = some t then
      match s.pc t with
      | .thrLk popped =>
        if popped then some { s with pc := upd s.pc t (.post 2) }
        else some { s with queue := s.queue.erase t, lq := s.lq.erase t, pc := upd s.pc t (.post 2) }
      | _ => none
    else none
  | .abSwap t size =>
    if s.lock = some t ∧ s.lq = [] ∧ s.queue ≠ [] ∧ size = s.queue.length then
      match s.pc t with
      | .aLoop => some { s with lq := s.queue, queue := [] }
      | _ => none
    else none
  | .abPop t size tgt =>
    if s.lock = some t then
      match s.pc t with
      | .aLoop =>
        match s.lq with
        | g :: rest =>
          if size = rest.length ∧ g = tgt then
            match setPopped (s.pc tgt) with
            | some p' =>
              some { s with lq := rest, pc := upd (upd s.pc tgt p') t (.aPopped tgt),
                            abPops := upd s.abPops tgt (s.abPops tgt + 1) }
            | none => none
          else none
        | [] => none
      | _ => none
    else none
  | .abort t tgt dropped =>
    match s.pc t with
    | .aUnl g =>
      if g = tgt ∧ dropped = isSlp (s.pc tgt) then
        some { s with tok := if dropped then s.tok else upd s.tok tgt (s.tok tgt + 1),
                      abt := if dropped then s.abt else upd s.abt tgt true,
                      aborts := upd s.aborts tgt (s.aborts tgt + 1),
                      pc := upd s.pc t .aRelk }
      else none
    | _ => none
  | .abDone t size =>
    if s.lock = some t ∧ s.lq = [] ∧ s.queue = [] ∧ size = 0 then
      match s.pc t with
      | .aLoop => some { s with pc := upd s.pc t .aDone }
      | _ => none
    else none
  | .ret t r =>
    match s.pc t with
    | .retn b => if b = r then some { s with pc := upd s.pc t .idle } else none
    | .nRet => if r = 0 then some { s with pc := upd s.pc t .idle } else none
    | .aRet => if r = 0 then some { s with pc := upd s.pc t .idle, ab := none } else none
    | _ => none
  | .done t =>
    if s.pc t = .idle then some { s with pc := upd s.pc t .fin } else none

end PikaVerif.CVAbort
