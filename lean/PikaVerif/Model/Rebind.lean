import PikaVerif.Gen.Rebind
/-!
# Recycled thread objects: which state is reset (C12, part b)

Decidable predicates over the tables of `Gen/Rebind.lean` (regenerated from the C++ on every run).
A *member* is a data member declaration with the preprocessor conditions it lives under; an
*assignment* applies to a member when the names agree and every condition of the assignment is one
of the member's conditions (so an assignment under `#ifdef X` never counts for the `#ifndef X`
variant of a member).
-/
namespace PikaVerif.Rebind
open PikaVerif.Gen.Rebind

def guardCovers (memberGuard assignGuard : List String) : Bool :=
  assignGuard.all (fun c => memberGuard.contains c)

/-- the values a function (given by its table) assigns to member `m`, in program order -/
def valuesFor (tbl : List Assign) (m : Member) : List String :=
  (tbl.filter (fun a => a.name == m.name && guardCovers m.guard a.guard)).map (·.value)

/-- a member without constructor initialiser is default-constructed -/
def ctorValues (ctor : List Assign) (m : Member) : List String :=
  match valuesFor ctor m with
  | [] => ["default"]
  | l => l

/-- `rebind` gives `m` exactly what the constructor gives it (same values in the same order, repeated
    identical assignments collapsed) -/
def sameAsFresh (ctor rebind : List Assign) (m : Member) : Bool :=
  valuesFor rebind m != [] && (valuesFor rebind m).eraseDups == (ctorValues ctor m).eraseDups

/-- the value `m` holds after running the functions of `tbl` in order -/
def finalValue (tbl : List Assign) (m : Member) : Option String := (valuesFor tbl m).getLast?

end PikaVerif.Rebind
