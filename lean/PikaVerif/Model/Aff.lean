import PikaVerif.Core.Basic
import PikaVerif.Core.Sum
/-!
# Model of pika's worker-to-PU binding (property C15)

Follows `libs/pika/affinity/src/parse_affinity_options.cpp` (`check_num_threads`,
`pu_in_process_mask`, `decode_{compact,scatter,balanced,numabalanced}_distribution`),
the topology accessors they call (`libs/pika/topology/src/topology.cpp`:
`get_number_of_cores`, `get_number_of_core_pus`, `get_pu_number`,
`init_thread_affinity_mask(core, pu)`, `get_number_of_sockets`, `get_number_of_socket_cores`),
`affinity_data::init` (`count_initialized` check, `none`) and the resource partitioner's
PU → pool assignment (`detail_partitioner.cpp`: `add_resource`, `setup_pools`,
`reconfigure_affinities`).

The model follows the code *as it is*: loop nests are kept (for-loops with early
return/continue/break), the `while`-scan for the next PU inside the mask is kept, the
modulo wrap-arounds of the topology accessors are kept, the numa-balanced decoder keeps its
missing `core_offset`s and its rounding.

Abstract topology: hwloc numbers cores and PUs consecutively in depth-first order
(logical indices), so a machine is: number of cores `nc`, PUs per core `pus c`, and the
number of cores of every socket `socks` (empty list: hwloc reports no package objects).
-/
namespace PikaVerif.Aff
open PikaVerif

structure Topo where
  nc : Nat
  pus : Nat → Nat
  socks : List Nat
  /-- hwloc reports no core objects: `get_number_of_cores` then counts the PUs (every "core" has one
      PU), but `init_core_affinity_mask_from_core` finds no object (`use_pus_as_cores_` is never set)
      and returns an empty mask — only the command-line layer (`Model/AffCmd.lean`) looks at this -/
  noCoreObjs : Bool := false

/-- logical index of the first PU of core `c` -/
def base (t : Topo) (c : Nat) : Nat := sumTo c t.pus

/-- `topology::get_number_of_pus` / `hardware_concurrency` -/
def numPus (t : Topo) : Nat := base t t.nc

/-- `topology::get_number_of_core_pus(core)`: 1 for a core index hwloc does not know -/
def corePus (t : Topo) (c : Nat) : Nat := if c < t.nc then t.pus c else 1

/-- `topology::get_pu_number(core, pu)` and the bit set by
    `topology::init_thread_affinity_mask(core, pu)`: `core %= #cores; pu %= arity` -/
def puNumber (t : Topo) (c p : Nat) : Nat :=
  base t (c % t.nc) + p % t.pus (c % t.nc)

/-- `topology::init_thread_affinity_mask(core, pu)` (masks are sorted lists of PU indices) -/
def threadMask (t : Topo) (c p : Nat) : List Nat := [puNumber t c p]

/-- `get_number_of_sockets`, with the `max(1, ·)` of the numa-balanced decoder -/
def numSockets (t : Topo) : Nat := if t.socks.length = 0 then 1 else t.socks.length

/-- `get_number_of_socket_cores(n)`: all cores if hwloc has no such package object -/
def socketCores (t : Topo) (n : Nat) : Nat :=
  match t.socks[n]? with
  | some k => k
  | none => t.nc

/-- request: topology, process mask (logical PU indices), `use_process_mask`,
    `used_cores`, `max_cores`, number of threads -/
structure Cfg where
  t : Topo
  pm : Nat → Bool
  usePm : Bool
  used : Nat
  maxCores : Nat
  n : Nat

/-- `pu_in_process_mask(use_process_mask, t, core, pu)` -/
def inMask (cfg : Cfg) (c p : Nat) : Bool :=
  !cfg.usePm || cfg.pm (puNumber cfg.t c p)

/-- `count(proc_mask)` -/
def countMask (cfg : Cfg) : Nat := sumTo (numPus cfg.t) (fun q => if cfg.pm q then 1 else 0)

/-- `check_num_threads` raises `bad_parameter` (the decoders are called with `ec = throws`) -/
def tooMany (cfg : Cfg) : Bool :=
  if cfg.usePm then decide (cfg.n > countMask cfg) else decide (cfg.n > numPus cfg.t)

inductive Err
  | tooMany        -- check_num_threads
  | alreadySet     -- "affinity mask for thread {} has already been set"
  | notAllBound    -- affinity_data::init: count_initialized(masks) != num_threads
  deriving DecidableEq, Repr

/-- result of a decoder: the masks and reported PU numbers of threads `0 … n-1`, an error,
    or non-termination (the loop nest repeats a pass that changes nothing) -/
inductive Res
  | ok (aff : Nat → List Nat) (pn : Nat → Nat)
  | error (e : Err)
  | diverge

/-- control outcome of a loop body: keep looping / function returned / error raised -/
inductive Ctl (σ : Type)
  | run (s : σ)
  | fin (s : σ)
  | err

/-- `for (i = i0; i < i0 + cnt; ++i) body` with early exit -/
def forFrom {σ : Type} (body : Nat → σ → Ctl σ) : Nat → Nat → σ → Ctl σ
  | _, 0, s => .run s
  | i, cnt + 1, s =>
    match body i s with
    | .run s' => forFrom body (i + 1) cnt s'
    | r => r

def forRange {σ : Type} (m : Nat) (body : Nat → σ → Ctl σ) (s : σ) : Ctl σ := forFrom body 0 m s

/-- masks and PU numbers assigned so far; `k` = `num_thread` -/
structure ASt where
  k : Nat
  aff : Nat → List Nat
  pn : Nat → Nat

def ASt.init : ASt := { k := 0, aff := fun _ => [], pn := fun _ => 0 }

/-- the common tail of the loop bodies:
    `if (any(affinities[num_thread])) error; num_pus[num_thread] = get_pu_number(cn, p);
     affinities[num_thread] = init_thread_affinity_mask(cm, p); if (++num_thread == n) return;`
    (`cn`/`cm`: the core index used for the number / for the mask) -/
def assign (cfg : Cfg) (cn cm p : Nat) (s : ASt) : Ctl ASt :=
  if s.aff s.k ≠ [] then .err
  else
    let s' : ASt := { k := s.k + 1, aff := upd s.aff s.k (threadMask cfg.t cm p),
                      pn := upd s.pn s.k (puNumber cfg.t cn p) }
    if s'.k = cfg.n then .fin s' else .run s'

/-- `num_cores = min(max_cores, #cores)` after `if (use_process_mask) { used_cores = 0;
    max_cores = #cores; }` -/
def effCores (cfg : Cfg) : Nat := if cfg.usePm then cfg.t.nc else min cfg.maxCores cfg.t.nc
def effUsed (cfg : Cfg) : Nat := if cfg.usePm then 0 else cfg.used

/-! ## compact -/

def compactPu (cfg : Cfg) (c p : Nat) (s : ASt) : Ctl ASt :=
  if !inMask cfg c p then .run s
  else assign cfg (c + effUsed cfg) (c + effUsed cfg) p s

def compactCore (cfg : Cfg) (c : Nat) (s : ASt) : Ctl ASt :=
  forRange (corePus cfg.t (c + effUsed cfg)) (compactPu cfg c) s

def compactPass (cfg : Cfg) (s : ASt) : Ctl ASt := forRange (effCores cfg) (compactCore cfg) s

/-- the outer `for (num_thread = 0; num_thread < num_threads; /**/)`: a pass that assigns
    nothing leaves the whole state unchanged, so the loop never ends -/
def compactLoop (cfg : Cfg) : Nat → ASt → Res
  | 0, _ => .diverge
  | f + 1, s =>
    match compactPass cfg s with
    | .fin s' => .ok s'.aff s'.pn
    | .err => .error .alreadySet
    | .run s' => if s'.k = s.k then .diverge else compactLoop cfg f s'

def decodeCompact (cfg : Cfg) : Res :=
  if tooMany cfg then .error .tooMany
  else if cfg.n = 0 then .ok ASt.init.aff ASt.init.pn
  else compactLoop cfg (cfg.n + 1) ASt.init

/-! ## scatter -/

/-- `while (pu_index < num_core_pus) { use_pu = in_mask(core, pu_index); ++pu_index;
    if (use_pu) break; }` — returns the new `pu_index` and `use_pu` -/
def scan (inm : Nat → Bool) (ncp : Nat) : Nat → Nat → Nat × Bool
  | 0, idx => (idx, false)
  | fuel + 1, idx =>
    if idx < ncp then
      if inm idx then (idx + 1, true) else scan inm ncp fuel (idx + 1)
    else (idx, false)

/-- scan with enough fuel -/
def scanPu (inm : Nat → Bool) (ncp idx : Nat) : Nat × Bool := scan inm ncp (ncp - idx + 1) idx

structure SSt where
  a : ASt
  nxt : Nat → Nat          -- next_pu_index

def scatterCore (cfg : Cfg) (c : Nat) (s : SSt) : Ctl SSt :=
  if s.a.aff s.a.k ≠ [] then .err
  else
    let r := scanPu (fun p => inMask cfg c p) (corePus cfg.t c) (s.nxt c)
    let nxt' := upd s.nxt c r.1
    if !r.2 then .run { s with nxt := nxt' }
    else
      match assign cfg (c + effUsed cfg) (c + effUsed cfg) (nxt' c - 1) s.a with
      | .run a' => .run { a := a', nxt := nxt' }
      | .fin a' => .fin { a := a', nxt := nxt' }
      | .err => .err

def scatterPass (cfg : Cfg) (s : SSt) : Ctl SSt := forRange (effCores cfg) (scatterCore cfg) s

/-- a pass without an assignment has scanned every core to its end; all later passes are
    identical, so the loop never ends -/
def scatterLoop (cfg : Cfg) : Nat → SSt → Res
  | 0, _ => .diverge
  | f + 1, s =>
    match scatterPass cfg s with
    | .fin s' => .ok s'.a.aff s'.a.pn
    | .err => .error .alreadySet
    | .run s' => if s'.a.k = s.a.k then .diverge else scatterLoop cfg f s'

def decodeScatter (cfg : Cfg) : Res :=
  if tooMany cfg then .error .tooMany
  else if cfg.n = 0 then .ok ASt.init.aff ASt.init.pn
  else scatterLoop cfg (cfg.n + 1) { a := ASt.init, nxt := fun _ => 0 }

/-! ## balanced (and the per-socket body of numa-balanced, which is a copy of it) -/

/-- first phase: how many / which PUs of every core are used -/
structure BSt where
  k : Nat                       -- num_thread (threads placed so far)
  nxt : Nat → Nat               -- next_pu_index
  idx : Nat → List Nat          -- pu_indexes
  cnt : Nat → Nat               -- num_pus_cores

def BSt.init : BSt := { k := 0, nxt := fun _ => 0, idx := fun _ => [], cnt := fun _ => 0 }

/-- `off`: core offset used in the mask test (0 for balanced, `core_offset` for
    numa-balanced, whose `get_number_of_core_pus(num_core)` lacks the offset);
    `goal`: number of threads to place -/
def balCore (cfg : Cfg) (off goal : Nat) (c : Nat) (s : BSt) : Ctl BSt :=
  let r := scanPu (fun p => inMask cfg (c + off) p) (corePus cfg.t c) (s.nxt c)
  let nxt' := upd s.nxt c r.1
  if !r.2 then .run { s with nxt := nxt' }
  else
    let s' : BSt := { k := s.k + 1, nxt := nxt', idx := upd s.idx c (s.idx c ++ [nxt' c - 1]),
                      cnt := upd s.cnt c (s.cnt c + 1) }
    if s'.k = goal then .fin s' else .run s'

def balPass (cfg : Cfg) (off goal ncores : Nat) (s : BSt) : Ctl BSt :=
  forRange ncores (balCore cfg off goal) s

/-- `for (num_thread = 0; num_thread < goal; /**/) { for (cores) {… if (++num_thread == goal)
    break; } }`; `none` = never ends -/
def balLoop (cfg : Cfg) (off goal ncores : Nat) : Nat → BSt → Option BSt
  | 0, _ => none
  | f + 1, s =>
    match balPass cfg off goal ncores s with
    | .fin s' => some s'
    | .err => none
    | .run s' => if s'.k = s.k then none else balLoop cfg off goal ncores f s'

def balPhase1 (cfg : Cfg) (off goal ncores : Nat) : Option BSt :=
  if goal = 0 then some BSt.init else balLoop cfg off goal ncores (goal + 1) BSt.init

/-- second phase body: thread `num_thread` gets PU `pu_indexes[core][j]` of the core;
    `cn`/`cm` = core offsets for the reported number / for the mask.  There is no early
    return here: the function runs to the end of both loops (an access past the end of
    `affinities` does not happen while `Σ cnt ≤ n`). -/
def balAssign (cfg : Cfg) (b : BSt) (cn cm : Nat) (c j : Nat) (s : ASt) : Ctl ASt :=
  if s.aff s.k ≠ [] then .err
  else
    let p := (b.idx c).getD j 0
    .run { k := s.k + 1, aff := upd s.aff s.k (threadMask cfg.t (c + cm) p),
           pn := upd s.pn s.k (puNumber cfg.t (c + cn) p) }

def balPhase2 (cfg : Cfg) (b : BSt) (cn cm ncores : Nat) (s : ASt) : Ctl ASt :=
  forRange ncores (fun c s => forRange (b.cnt c) (balAssign cfg b cn cm c) s) s

def decodeBalanced (cfg : Cfg) : Res :=
  if tooMany cfg then .error .tooMany
  else
    match balPhase1 cfg 0 cfg.n (effCores cfg) with
    | none => .diverge
    | some b =>
      match balPhase2 cfg b (effUsed cfg) (effUsed cfg) (effCores cfg) ASt.init with
      | .run s => .ok s.aff s.pn
      | .fin s => .ok s.aff s.pn
      | .err => .error .alreadySet

/-! ## numa-balanced -/

/-- number of PUs of socket `n` (cores `off … off + cores - 1`) inside the mask -/
def socketPusInMask (cfg : Cfg) (off cores : Nat) : Nat :=
  sumTo cores (fun c => sumTo (corePus cfg.t (c + off)) (fun p => if inMask cfg (c + off) p then 1 else 0))

/-- `static_cast<size_t>(std::round(double(a) / double(b)))` for the small non-negative
    integers that occur here: round half away from zero of the exact quotient
    (the double quotient of integers below 2^26 cannot round across a half-integer) -/
def roundDiv (a b : Nat) : Nat := (2 * a + b) / (2 * b)

/-- offsets of the sockets: `core_offset` before socket `n` -/
def sockOff (t : Topo) (n : Nat) : Nat := sumTo n (socketCores t)

/-- `num_threads_socket[n]`, computed left to right with the running total `pus_t2` -/
def numaShares (cfg : Cfg) (pusT : Nat) : Nat → Nat → Nat → List Nat
  | 0, _, _ => []
  | m + 1, n, t2 =>
    let p := socketPusInMask cfg (sockOff cfg.t n) (socketCores cfg.t n)
    let temp := roundDiv (cfg.n * p) pusT
    let temp := if t2 + temp > cfg.n then cfg.n - t2 else temp
    temp :: numaShares cfg pusT m (n + 1) (t2 + temp)

def numaPusT (cfg : Cfg) : Nat :=
  sumTo (numSockets cfg.t) (fun n => socketPusInMask cfg (sockOff cfg.t n) (socketCores cfg.t n))

inductive NCtl
  | run (s : ASt)
  | err
  | hang

/-- sockets loop of the assignment part -/
def numaSockets (cfg : Cfg) : List Nat → Nat → ASt → NCtl
  | [], _, s => .run s
  | share :: rest, n, s =>
    let off := sockOff cfg.t n
    match balPhase1 cfg off share (socketCores cfg.t n) with
    | none => .hang
    | some b =>
      match balPhase2 cfg b (effUsed cfg) (effUsed cfg + off) (socketCores cfg.t n) s with
      | .run s' => numaSockets cfg rest (n + 1) s'
      | .fin s' => numaSockets cfg rest (n + 1) s'
      | .err => .err

def decodeNuma (cfg : Cfg) : Res :=
  if tooMany cfg then .error .tooMany
  else
    let shares := numaShares cfg (numaPusT cfg) (numSockets cfg.t) 0 0
    match numaSockets cfg shares 0 ASt.init with
    | .run s => .ok s.aff s.pn
    | .err => .error .alreadySet
    | .hang => .diverge

/-! ## `parse_affinity_options` / `affinity_data::init` -/

inductive Mode
  | compact | scatter | balanced | numaBalanced
  deriving DecidableEq, Repr

def decode (m : Mode) (cfg : Cfg) : Res :=
  match m with
  | .compact => decodeCompact cfg
  | .scatter => decodeScatter cfg
  | .balanced => decodeBalanced cfg
  | .numaBalanced => decodeNuma cfg

/-- `count_initialized(affinity_masks_)` -/
def countInit (n : Nat) (aff : Nat → List Nat) : Nat :=
  sumTo n (fun i => if aff i ≠ [] then 1 else 0)

/-- what `affinity_data` holds after `init`: per worker its mask (`none` = not bound,
    `--pika:bind=none`) and reported PU number -/
inductive Bind
  | bound (aff : Nat → List Nat) (pn : Nat → Nat)
  | unbound (pn : Nat → Nat)
  | error (e : Err)
  | diverge

/-- `affinity_data::init` with `pu_offset = -1/0`, `pu_step = 1` (the only values
    `--pika:bind` may be combined with): `desc = none` is `--pika:bind=none` -/
def affInit (desc : Option Mode) (cfg : Cfg) : Bind :=
  match desc with
  | none => .unbound (fun i => i % numPus cfg.t)
  | some m =>
    match decode m cfg with
    | .ok aff pn => if countInit cfg.n aff ≠ cfg.n then .error .notAllBound else .bound aff pn
    | .error e => .error e
    | .diverge => .diverge


/-! ## resource partitioner: PU → pool assignment

`partitioner::fill_topology_vectors` exposes the PUs that occur in the workers' masks
(`exposed`); the user's `rp_callback` creates pools and calls `add_resource(pu, pool)`
(default mode: no oversubscription, no dynamic pools); `configure_pools` then runs
`setup_pools` (every PU not handed out yet goes to the default pool, pool 0; an empty pool is
an error) and `reconfigure_affinities` (workers are renumbered pool by pool, the mask of a
worker is the single PU it was given, its reported PU number is that PU). -/
namespace Pool

structure St where
  exposed : List Nat            -- PUs known to the partitioner (ids = logical PU indices)
  occ : Nat → Nat               -- `pu::thread_occupancy_count_`
  npools : Nat                  -- `initial_thread_pools_.size()`, pool 0 = default
  pool : Nat → List Nat         -- `assigned_pu_nums_` of every pool
  total : Nat                   -- `init_pool_data::num_threads_overall`
  osThreads : Nat               -- `pika.os_threads`
  configured : Bool

inductive Ev
  | create                      -- `create_thread_pool(fresh name)`
  | add (pu pool : Nat)         -- `add_resource(pu, pool)`, exclusive, one thread
  | setup                       -- `configure_pools()`

def init (exposed : List Nat) (osThreads : Nat) : St :=
  { exposed := exposed, occ := fun _ => 0, npools := 1, pool := fun _ => [], total := 0,
    osThreads := osThreads, configured := false }

/-- PUs still free, in topology order (the loop of `setup_pools`) -/
def free (s : St) : List Nat := s.exposed.filter (fun p => s.occ p == 0)

def allNonEmpty (s : St) : Nat → Bool
  | 0 => true
  | i + 1 => allNonEmpty s i && !(s.pool i).isEmpty

/-- `none`: the call throws (the runtime does not start) or is not possible -/
def step (s : St) (e : Ev) : Option St :=
  if s.configured then none else
  match e with
  | .create => some { s with npools := s.npools + 1 }
  | .add pu pool =>
    if pu ∈ s.exposed ∧ pool < s.npools then
      if s.occ pu = 0 then
        if s.total + 1 > s.osThreads then none
        else some { s with pool := upd s.pool pool (s.pool pool ++ [pu]), occ := upd s.occ pu 1,
                           total := s.total + 1 }
      else none
    else none
  | .setup =>
    let s' : St := { s with pool := upd s.pool 0 (s.pool 0 ++ free s),
                            occ := fun p => if p ∈ free s then 1 else s.occ p,
                            total := s.total + (free s).length }
    if allNonEmpty s' s'.npools then some { s' with configured := true } else none

end Pool

end PikaVerif.Aff
