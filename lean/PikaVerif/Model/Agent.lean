import PikaVerif.Core.Basic
/-!
# Model `Agent` — the hand-shake of pika's `default_agent` (follow-up C07h)

`libs/pika/execution_base/src/this_thread.cpp`: the execution agent every PLAIN OS THREAD uses when it
blocks on a pika condition variable / mutex / latch.

```
suspend():  unique_lock l(mtx_);                       -- sAcq
            running_ = false; resume_cv_.notify_all(); -- sPark   (then suspend_cv_.wait releases mtx_)
            suspend_cv_.wait(l, [&]{ return running_; });  -- sWake r   (one wake-up of the OS wait: re-lock, test)
            if (aborted_) throw yield_aborted;         -- sRet ab  (unlock, return / throw)
resume():   unique_lock l(mtx_);                       -- rAcq
            resume_cv_.wait(l, [&]{ return !running_; });  -- rChk r  (test; r = true: release mtx_ and block)
                                                           -- rWake   (one wake-up of the OS wait: re-lock)
            running_ = true;  suspend_cv_.notify_one();    -- rGo
                                                           -- rRel    (unlock, return)
abort():    as resume(), additionally aborted_ = true  (the same events with `ab = true`)
yield / yield_k / spin_k / sleep_for / sleep_until:  touch none of mtx_, running_, aborted_, the two
            condition variables  (events `yield`, `sleepB`, `sleepE`: the state of the hand-shake is unchanged)
```

One agent (`owner` = the OS thread it belongs to), any number of other threads calling `resume` / `abort` at
any time (no assumption about the caller's protocol).  `std::mutex` = `mtx : Option Nat`; a thread inside
`std::condition_variable::wait` has released the mutex and carries a flag `sig` = "a notification (or a
spurious wake-up, event `spur`) is pending": only then may it re-lock and re-test its predicate.  The
acceptor is parameterised by the code variant: `.code` is the text above, `.noWait` is the text with the
line `resume_cv_.wait(l, [&] { return !running_; });` removed from `resume()`/`abort()` (the seeded change
the tie of C07 could not see): `rChk` then continues whatever it reads.

Ghost counters: `parks` (# `running_ = false` executed), `gos` (# `running_ = true` executed by a
resumer), `sRets` (# returns from `suspend`, normal or by exception), `rRets` (# returns from
`resume`/`abort`).
-/
namespace PikaVerif.Agent

inductive Variant
  | code      -- the text of the pinned tree
  | noWait    -- `resume_cv_.wait` removed from resume() / abort()
  deriving DecidableEq, Repr

inductive Pc
  | idle                        -- outside the agent's blocking members
  | sleeping                    -- owner inside sleep_for / sleep_until (no hand-shake at all)
  | sLock                       -- suspend() called, mutex not yet taken
  | sHold                       -- suspend(): owns mtx_, before `running_ = false`
  | sWait (sig : Bool)          -- suspend(): inside suspend_cv_.wait (mtx_ released); sig = wake-up pending
  | sHold2                      -- suspend(): the wait has returned (running_ was true), owns mtx_
  | rLock (ab : Bool)           -- resume()/abort() called, mutex not yet taken
  | rHold (ab : Bool)           -- owns mtx_, about to test `!running_`
  | rWait (ab : Bool) (sig : Bool)   -- inside resume_cv_.wait (mtx_ released)
  | rSet (ab : Bool)            -- owns mtx_, the test succeeded (or was skipped: variant noWait)
  | rDone (ab : Bool)           -- owns mtx_, `running_ = true` and the notify are done
  deriving DecidableEq, Repr

inductive Ev
  | yield (t : Nat)             -- yield / yield_k / spin_k
  | sleepB (t : Nat) | sleepE (t : Nat)
  | sCall (t : Nat) | sAcq (t : Nat) | sPark (t : Nat) | sWake (t : Nat) (r : Bool) | sRet (t : Nat) (ab : Bool)
  | rCall (t : Nat) (ab : Bool) | rAcq (t : Nat) | rChk (t : Nat) (r : Bool) | rWake (t : Nat)
  | rGo (t : Nat) | rRel (t : Nat)
  | spur (t : Nat)              -- spurious wake-up of a std::condition_variable waiter
  deriving DecidableEq, Repr

structure St where
  owner : Nat
  running : Bool
  aborted : Bool
  mtx : Option Nat
  pc : Nat → Pc
  parks : Nat
  gos : Nat
  sRets : Nat
  rRets : Nat

def init (ow : Nat) : St :=
  { owner := ow, running := true, aborted := false, mtx := none, pc := fun _ => .idle,
    parks := 0, gos := 0, sRets := 0, rRets := 0 }

/-- `resume_cv_.notify_all()`: every thread blocked in `resume_cv_.wait` gets a pending wake-up. -/
def wakeResumers (pc : Nat → Pc) : Nat → Pc := fun u =>
  match pc u with
  | .rWait ab _ => .rWait ab true
  | p => p

/-- `suspend_cv_.notify_one()`: only the owner ever waits on `suspend_cv_`. -/
def wakeOwner (pc : Nat → Pc) (ow : Nat) : Nat → Pc := fun u =>
  if u = ow then (match pc u with
    | .sWait _ => .sWait true
    | p => p) else pc u

def step (v : Variant) (s : St) : Ev → Option St
  | .yield t => if t = s.owner ∧ s.pc t = .idle then some s else none
  | .sleepB t => if t = s.owner ∧ s.pc t = .idle then some { s with pc := upd s.pc t .sleeping } else none
  | .sleepE t => if s.pc t = .sleeping then some { s with pc := upd s.pc t .idle } else none
  | .sCall t => if t = s.owner ∧ s.pc t = .idle then some { s with pc := upd s.pc t .sLock } else none
  | .sAcq t =>
    if s.pc t = .sLock ∧ s.mtx = none then some { s with pc := upd s.pc t .sHold, mtx := some t } else none
  | .sPark t =>
    if s.pc t = .sHold then
      some { s with running := false, mtx := none, parks := s.parks + 1,
                    pc := upd (wakeResumers s.pc) t (.sWait false) }
    else none
  | .sWake t r =>
    if s.pc t = .sWait true ∧ s.mtx = none ∧ r = s.running then
      (if r then some { s with pc := upd s.pc t .sHold2, mtx := some t }
       else some { s with pc := upd s.pc t (.sWait false) })
    else none
  | .sRet t ab =>
    if s.pc t = .sHold2 ∧ ab = s.aborted then
      some { s with pc := upd s.pc t .idle, mtx := none, sRets := s.sRets + 1 }
    else none
  | .rCall t ab => if t ≠ s.owner ∧ s.pc t = .idle then some { s with pc := upd s.pc t (.rLock ab) } else none
  | .rAcq t =>
    match s.pc t with
    | .rLock ab => if s.mtx = none then some { s with pc := upd s.pc t (.rHold ab), mtx := some t } else none
    | _ => none
  | .rChk t r =>
    match s.pc t with
    | .rHold ab =>
      if r = s.running then
        (if r ∧ v = .code then some { s with pc := upd s.pc t (.rWait ab false), mtx := none }
         else some { s with pc := upd s.pc t (.rSet ab) })
      else none
    | _ => none
  | .rWake t =>
    match s.pc t with
    | .rWait ab true => if s.mtx = none then some { s with pc := upd s.pc t (.rHold ab), mtx := some t } else none
    | _ => none
  | .rGo t =>
    match s.pc t with
    | .rSet ab =>
      some { s with running := true, aborted := s.aborted || ab, gos := s.gos + 1,
                    pc := upd (wakeOwner s.pc s.owner) t (.rDone ab) }
    | _ => none
  | .rRel t =>
    match s.pc t with
    | .rDone _ => some { s with pc := upd s.pc t .idle, mtx := none, rRets := s.rRets + 1 }
    | _ => none
  | .spur t =>
    match s.pc t with
    | .sWait false => some { s with pc := upd s.pc t (.sWait true) }
    | .rWait ab false => some { s with pc := upd s.pc t (.rWait ab true) }
    | _ => none

/-- Events that only *start* something (a call, a nap) or are environment noise (spurious wake-up): a
    state in which nothing else is enabled is quiescent. -/
def Ev.isStart : Ev → Bool
  | .yield _ | .sleepB _ | .sCall _ | .rCall _ _ | .spur _ => true
  | _ => false

/-- No thread can make progress inside an operation it has begun. -/
def Stuck (v : Variant) (s : St) : Prop := ∀ e, e.isStart = false → step v s e = none

/-- The thread is inside `resume()` / `abort()`. -/
def Pc.inResume : Pc → Bool
  | .rLock _ | .rHold _ | .rWait _ _ | .rSet _ | .rDone _ => true
  | _ => false

def Pc.inSuspend : Pc → Bool
  | .sLock | .sHold | .sWait _ | .sHold2 => true
  | _ => false

def Pc.holds : Pc → Bool
  | .sHold | .sHold2 | .rHold _ | .rSet _ | .rDone _ => true
  | _ => false

end PikaVerif.Agent
