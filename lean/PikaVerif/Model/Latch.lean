import PikaVerif.Core.Basic
import PikaVerif.Core.Sum
/-!
# Model of `pika::latch` (C09, latch part)

Follows `libs/pika/synchronization/include/pika/synchronization/latch.hpp`
(`count_down`, `try_wait`, `wait`, `arrive_and_wait`) and the parts of
`detail/condition_variable.cpp` it uses (`wait`, `notify_one`) at the granularity of the hook
events compiled into those files (`latch.dec`, `latch.notified`, `latch.mustwait`,
`latch.nowait`, `sl.acq`, `sl.rel`, `cv.enq`, `cv.pop`, `cv.none`, `cv.woke`) and of the calls
the code makes on the execution agent (`ag.suspend`, `ag.woke`, `ag.resume`).
One latch, `n` threads.

Points of the code the model keeps visible:
* `count_down` decrements the atomic counter *outside* the lock (`dec` from `want (.cd k)`,
  no lock needed) and only if the new value is 0 takes the lock (`cdWant → cdLocked`), sets
  `notified_` and runs the `notify_one` loop;
* `arrive_and_wait` decrements under the lock; `old_count > update` decides between blocking
  and the notify loop;
* `wait` blocks when `counter_ > 0 || !notified_` and calls `cond_.wait` exactly once (no loop);
* `notify_one` pops the front waiter, resets its `ctx_`, resumes it and reports whether more
  waiters are queued; the lock is dropped after every `notify_one` and re-taken for the next.

The counter is an `Int` (the code uses `std::ptrdiff_t` and does not stop a caller from
driving it below zero); updates are `Nat` (`update >= 0` is asserted by the code).

The model is an acceptor: `step s e = none` means "the code as modelled cannot produce event
`e` in state `s`".
-/
namespace PikaVerif.Latch

/-- Public operations. -/
inductive Op where
  | wait | tryWait | cd (n : Nat) | aw (n : Nat)
  deriving DecidableEq, Repr

/-- Program counter of a thread inside an operation. -/
inductive Pc where
  | idle
  | want (o : Op)          -- invoked; nothing done yet (lock not taken / counter not touched)
  | cdWant                 -- count_down: new_count == 0 seen, lock not yet taken
  | cdLocked               -- count_down: lock held, before `notified_ = true`
  | wLocked                -- wait: lock held, at the test `counter_ > 0 || !notified_`
  | awLocked (k : Nat)     -- arrive_and_wait: lock held, before the fetch_sub
  | awZero                 -- arrive_and_wait: `old_count > update` false, before `notified_ = true`
  | mustEnq                -- decided to block (lock held), before the cv enqueue
  | enq                    -- entry pushed on the cv queue (lock held)
  | unl (popped : Bool)    -- lock released, about to suspend
  | susp (popped : Bool)   -- inside agent.suspend
  | wokeNL (popped : Bool) -- suspend returned, lock not yet re-taken
  | relk (popped : Bool)   -- lock re-taken, before the `ctx_` test (cv.woke)
  | passing                -- lock held, about to unlock and return from wait / arrive_and_wait
  | ntfL                   -- notify loop: lock held, about to call notify_one
  | ntfRes (more : Bool)   -- notify_one about to return `more` (lock still held)
  | ntfNL                  -- between notify_one and re-taking the lock
  | retn (r : Bool)        -- about to return r
  | fin
  deriving DecidableEq, Repr

inductive Ev where
  | inv (t : Nat) (o : Op)
  | ret (t : Nat) (r : Bool)
  | slAcq (t : Nat)
  | slRel (t : Nat)
  | dec (t : Nat) (new : Int) (u : Nat)
  | notified (t : Nat) (fromAw : Bool)
  | mustwait (t : Nat) (c : Int) (nf : Bool)
  | nowait (t : Nat) (c : Int) (nf : Bool)
  | cvEnq (t : Nat) (size : Nat)
  | popResume (t : Nat) (size : Nat) (tgt : Nat)
  | cvNone (t : Nat)
  | cvWoke (t : Nat) (stillQueued : Bool)
  | suspend (t : Nat)
  | woke (t : Nat)
  | done (t : Nat)
  deriving Repr

structure St where
  n : Nat
  init : Int
  counter : Int
  notified : Bool
  lock : Option Nat
  queue : List Nat
  tok : Nat → Nat
  pc : Nat → Pc
  /-- history: sum of all updates applied to the counter so far -/
  decSum : Nat
  /-- history: the operation each thread invoked last -/
  curOp : Nat → Op

def init (n : Nat) (c : Int) : St :=
  { n := n, init := c, counter := c, notified := decide (c = 0), lock := none, queue := [],
    tok := fun _ => 0, pc := fun _ => .idle, decSum := 0, curOp := fun _ => .tryWait }

/-- Mark a waiter as popped from the cv queue (its `ctx_` was reset by the notifier). -/
def setPopped : Pc → Option Pc
  | .unl false => some (.unl true)
  | .susp false => some (.susp true)
  | _ => none

def step (s : St) : Ev → Option St
  | .inv t o =>
    if t < s.n ∧ s.pc t = .idle then
      some { s with pc := upd s.pc t (.want o), curOp := upd s.curOp t o }
    else none
  | .dec t new u =>
    if t < s.n ∧ new = s.counter - u then
      match s.pc t with
      | .want (.cd k) =>
        -- count_down: `new_count = (counter_ -= update)` without the lock
        if k = u then
          some { s with counter := new, decSum := s.decSum + u,
                        pc := upd s.pc t (if new = 0 then .cdWant else .retn false) }
        else none
      | .awLocked k =>
        -- arrive_and_wait: fetch_sub under the lock; `old_count > update` ⇔ new > 0
        if k = u ∧ s.lock = some t then
          some { s with counter := new, decSum := s.decSum + u,
                        pc := upd s.pc t (if 0 < new then .mustEnq else .awZero) }
        else none
      | _ => none
    else none
  | .slAcq t =>
    if t < s.n ∧ s.lock = none then
      match s.pc t with
      | .want .wait => some { s with lock := some t, pc := upd s.pc t .wLocked }
      | .want (.aw k) => some { s with lock := some t, pc := upd s.pc t (.awLocked k) }
      | .cdWant => some { s with lock := some t, pc := upd s.pc t .cdLocked }
      | .wokeNL p => some { s with lock := some t, pc := upd s.pc t (.relk p) }
      | .ntfNL => some { s with lock := some t, pc := upd s.pc t .ntfL }
      | _ => none
    else none
  | .notified t a =>
    if t < s.n ∧ s.lock = some t then
      match s.pc t with
      | .cdLocked => if a = false then some { s with notified := true, pc := upd s.pc t .ntfL } else none
      | .awZero => if a = true then some { s with notified := true, pc := upd s.pc t .ntfL } else none
      | _ => none
    else none
  | .mustwait t c nf =>
    if t < s.n ∧ s.lock = some t ∧ c = s.counter ∧ nf = s.notified ∧
        (0 < s.counter ∨ s.notified = false) then
      match s.pc t with
      | .wLocked => some { s with pc := upd s.pc t .mustEnq }
      | _ => none
    else none
  | .nowait t c nf =>
    if t < s.n ∧ s.lock = some t ∧ c = s.counter ∧ nf = s.notified ∧
        ¬ (0 < s.counter ∨ s.notified = false) then
      match s.pc t with
      | .wLocked => some { s with pc := upd s.pc t .passing }
      | _ => none
    else none
  | .cvEnq t size =>
    if t < s.n ∧ s.lock = some t ∧ size = s.queue.length + 1 then
      match s.pc t with
      | .mustEnq => some { s with queue := s.queue ++ [t], pc := upd s.pc t .enq }
      | _ => none
    else none
  | .slRel t =>
    if t < s.n ∧ s.lock = some t then
      match s.pc t with
      | .enq => some { s with lock := none, pc := upd s.pc t (.unl false) }
      | .passing => some { s with lock := none, pc := upd s.pc t (.retn false) }
      | .ntfRes more => some { s with lock := none, pc := upd s.pc t (if more then .ntfNL else .retn false) }
      | _ => none
    else none
  | .popResume t size tgt =>
    -- notify_one: pop the front entry, reset its ctx_, `ctx.resume()` (hook event `cv.pop`
    -- immediately followed by the agent call; no preemption point in between)
    if t < s.n ∧ s.lock = some t then
      match s.pc t, s.queue with
      | .ntfL, g :: rest =>
        if size = rest.length ∧ g = tgt then
          match setPopped (s.pc tgt) with
          | some p' =>
            some { s with queue := rest, tok := upd s.tok tgt (s.tok tgt + 1),
                          pc := upd (upd s.pc tgt p') t (.ntfRes (decide (rest ≠ []))) }
          | none => none
        else none
      | _, _ => none
    else none
  | .cvNone t =>
    if t < s.n ∧ s.lock = some t ∧ s.queue = [] then
      match s.pc t with
      | .ntfL => some { s with pc := upd s.pc t (.ntfRes false) }
      | _ => none
    else none
  | .suspend t =>
    if t < s.n then
      match s.pc t with
      | .unl p => some { s with pc := upd s.pc t (.susp p) }
      | _ => none
    else none
  | .woke t =>
    if t < s.n ∧ 0 < s.tok t then
      match s.pc t with
      | .susp p => some { s with tok := upd s.tok t (s.tok t - 1), pc := upd s.pc t (.wokeNL p) }
      | _ => none
    else none
  | .cvWoke t still =>
    -- after `cond_.wait` returns the caller does not look at the result and does not loop:
    -- `wait` / `arrive_and_wait` simply return.  The acceptor only admits the signaled case
    -- (entry popped by a notifier); a wake-up with the entry still queued cannot be produced
    -- by an agent whose `suspend` returns only after a `resume` (invariant `tokInv`).
    if t < s.n ∧ s.lock = some t then
      match s.pc t with
      | .relk p => if p = true ∧ still = false then some { s with pc := upd s.pc t .passing } else none
      | _ => none
    else none
  | .ret t r =>
    if t < s.n then
      match s.pc t with
      | .retn b => if b = r then some { s with pc := upd s.pc t .idle } else none
      | .want .tryWait =>
        -- try_wait: one atomic load, `counter_ == 0`
        if r = decide (s.counter = 0) then some { s with pc := upd s.pc t .idle } else none
      | _ => none
    else none
  | .done t =>
    if t < s.n ∧ s.pc t = .idle then some { s with pc := upd s.pc t .fin } else none

end PikaVerif.Latch
