import PikaVerif.Model.BulkPlan
import PikaVerif.Model.Bulk
import PikaVerif.Gen.IndexRange
/-!
# Composed model of `bulk` on a pool scheduler (C11, follow-up C11c)

One acceptor for the whole of `bulk_receiver::set_value` and the worker tasks, stacked on the
protocol model `PikaVerif.Bulk` (field `p`; every protocol effect is obtained by calling
`Bulk.step`, so the refinement holds by construction):

* **plan**: `set_value(v)` with `shape ≠ 0` computes `chunk_size` with the *generated*
  `chunkSizeOf` (`Gen/BulkArith.lean`) and initialises queue `k` with the *generated*
  `queueRange S w n c k`; `planOK` is the acceptor's check that these ranges are consecutive
  (`Props/C11c.lean`: it holds under `Safe`), the value pack is stored in `ts`.
* **zero**: `shape == 0` (`bulk.zero`): nothing is stored or spawned, the next and only event is
  the receiver's `set_value` with the arguments of `set_value` (`sig false v`).
* **index queues**: a worker's `pop_left` / `pop_right` is a relaxed load followed by
  compare-exchanges; each iteration is the *generated* `popLeftTry` / `popRightTry`
  (`Gen/IndexRange.lean`) on the loaded word, as in `Model/IndexQueue.lean`.  The abstract `pop`
  of the protocol model happens at the successful compare-exchange, or at the load / failed
  compare-exchange that observed an empty range.
* **`do_work_chunk`**: `bulk.chunk` computes `[i_begin, i_end)` with the *generated*
  `chunkRange`; the index loop makes one `call` per index with the value pack read from `ts`;
  a call returns or throws.
* **decision**: the participant whose decrement reached 0 reads `exception_thrown` *after* the
  decrement (`bulk.decide`, logged in the branch taken): accepted only with the value the flag
  has once every participant has decremented.
* **exceptions / join counter / completion**: as in `Bulk`; additionally the exception slot
  holds the index of the call whose exception won the `exchange`, the completion carries the
  value pack read from `ts` (value) or the stored exception (error).

The value pack and the exceptions are opaque tokens (`Int`): `f` is assumed not to modify the
values it gets by reference.
-/
namespace PikaVerif.BulkC
open PikaVerif PikaVerif.Gen.BulkArith PikaVerif.Gen.IndexRange PikaVerif.BulkPlan

/-- Where a worker is relative to the index loop of `do_work_chunk`. -/
inductive Lp where
  | out                          -- not in `do_work_chunk` (and no popped chunk pending)
  | got (j : Nat)                -- `pop_*` returned chunk `j`, `do_work_chunk` not entered yet
  | at (cur ie : Int)            -- at the loop test `cur < ie`
  | incall (cur ie : Int)        -- inside `f(cur, values...)`
  | threw (i : Int)              -- `f(i, …)` threw; unwinding to `store_exception`
  deriving DecidableEq, Repr

inductive Ev where
  | zero
  | plan (c : Nat)
  | spawn (k : Nat)
  | skip (k : Nat)
  | task (k : Nat)
  /-- relaxed load of queue `q`'s word at the start of a `pop_*` -/
  | load (k q : Nat) (f l : Int)
  /-- `compare_exchange_weak`: on success `(f, l)` is the new range, on failure the observed one -/
  | cas (k q : Nat) (ok : Bool) (f l : Int)
  | chunk (k j : Nat)
  | call (k : Nat) (i v : Int)
  | ret (k : Nat)
  | throw (k : Nat)
  | exc (k : Nat)
  | dec (k : Nat) (last : Bool)
  /-- `finish()` of the participant whose decrement reached 0 reads `exception_thrown` (after
      the decrement) and takes the `set_error` (`err = true`) / `set_value` branch -/
  | decide (k : Nat) (err : Bool)
  /-- the receiver is signalled: `tok` = forwarded value pack / the exception -/
  | sig (err : Bool) (tok : Int)
  deriving Repr

structure St where
  /-- parameters -/
  S : CTy
  w : Nat
  n : Nat
  v : Int                       -- the predecessor's value pack
  /-- 0: `set_value` not yet called, 1: workers running, 2: `shape == 0` path taken -/
  ph : Nat
  c : Nat                       -- chunk size
  ts : Option Int               -- `op_state->ts` (`none` = monostate)
  p : Bulk.St                   -- queues, worker tasks, join counter, exception latch
  ex : Nat → Option (Int × Int) -- `expected_range` of a worker inside a `pop_*`
  lp : Nat → Lp
  exception : Option Int        -- `op_state->exception`
  /-- history -/
  calls : List (Int × Int)      -- (index, value pack) of every call of `f`, newest first
  thrown : List Int             -- indices whose call threw
  done : List (Bool × Int)      -- completions of the receiver: (is error, token)

def init (S : CTy) (w n L : Nat) (v : Int) : St :=
  { S := S, w := w, n := n, v := v, ph := 0, c := 0, ts := none,
    p := Bulk.init w L (fun _ => 0), ex := fun _ => none, lp := fun _ => .out,
    exception := none, calls := [], thrown := [], done := [] }

/-- Cut points of the generated queue ranges: `first` of queue `k`, and `last` of the last one. -/
def cutsOf (S : CTy) (w n c : Nat) : Nat → Nat := fun k =>
  if k < w then (queueRange S w n c k).1.toNat else (queueRange S w n c (w - 1 : Nat)).2.toNat

/-- The generated queue ranges are `[cuts k, cuts (k+1))`, non-negative and not reversed. -/
def planOK (S : CTy) (w n c : Nat) : Bool :=
  (List.range w).all (fun k =>
    decide (queueRange S w n c k = (((cutsOf S w n c k : Nat) : Int), ((cutsOf S w n c (k + 1) : Nat) : Int))) &&
    decide (cutsOf S w n c k ≤ cutsOf S w n c (k + 1)))

/-- offset of the queue a worker pops from next -/
def popOff : Bulk.Pc → Option Nat
  | .run off => some off
  | .work off _ => some off
  | _ => none

def isWork : Bulk.Pc → Bool
  | .work _ _ => true
  | _ => false

def isFin : Bulk.Pc → Bool
  | .fin _ => true
  | _ => false

/-- the worker is in the `while ((index = queue.pop_*()))` test, not inside `do_work_chunk` -/
def popReady : Lp → Bool
  | .out => true
  | .at cur ie => decide (ie ≤ cur)
  | _ => false

/-- one iteration of `pop_left` (own queue, offset 0) / `pop_right` (neighbour) -/
def popTry (off : Nat) (f l : Int) : Option (Int × (Int × Int)) :=
  if off = 0 then popLeftTry f l else popRightTry f l

def word (r : Nat × Nat) : Int × Int := ((r.1 : Int), (r.2 : Int))

/-- `pop_*` returns `nullopt` -/
def popNone (s : St) (k q : Nat) : Option St :=
  match Bulk.step s.p (.pop k q none) with
  | some p' => some { s with p := p', ex := upd s.ex k none, lp := upd s.lp k .out }
  | none => none

def step (s : St) : Ev → Option St
  | .zero =>
    if s.ph = 0 ∧ s.n = 0 then some { s with ph := 2 } else none
  | .plan c =>
    if s.ph = 0 ∧ s.n ≠ 0 ∧ chunkSizeOf s.S fuel s.w s.n = some (c : Int) ∧
        planOK s.S s.w s.n c = true then
      some { s with ph := 1, c := c, ts := some s.v,
                    p := Bulk.init s.w s.p.L (cutsOf s.S s.w s.n c) }
    else none
  | .spawn k =>
    if s.ph = 1 then
      match Bulk.step s.p (.spawn k) with
      | some p' => some { s with p := p' }
      | none => none
    else none
  | .skip k =>
    if s.ph = 1 then
      match Bulk.step s.p (.skip k) with
      | some p' => some { s with p := p' }
      | none => none
    else none
  | .task k =>
    if s.ph = 1 then
      match Bulk.step s.p (.task k) with
      | some p' => some { s with p := p' }
      | none => none
    else none
  | .load k q f l =>
    if s.ph = 1 ∧ k < s.w ∧ s.ex k = none ∧ popReady (s.lp k) = true ∧ (f, l) = word (s.p.qs q) then
      match popOff (s.p.pc k) with
      | some off =>
        if q = (k + off) % s.w then
          match popTry off f l with
          | none => popNone s k q
          | some _ => some { s with ex := upd s.ex k (some (f, l)) }
        else none
      | none => none
    else none
  | .cas k q ok f l =>
    if s.ph = 1 ∧ k < s.w ∧ popReady (s.lp k) = true then
      match s.ex k, popOff (s.p.pc k) with
      | some (ef, el), some off =>
        if q = (k + off) % s.w then
          match popTry off ef el with
          | none => none             -- the code returns `nullopt` instead of attempting a CAS
          | some (idx, (df, dl)) =>
            if (ef, el) = word (s.p.qs q) then
              if ok = true ∧ f = df ∧ l = dl ∧ 0 ≤ idx then
                match Bulk.step s.p (.pop k q (some idx.toNat)) with
                | some p' =>
                  if word (p'.qs q) = (df, dl) then
                    some { s with p := p', ex := upd s.ex k none, lp := upd s.lp k (.got idx.toNat) }
                  else none
                | none => none
              else none
            else
              if ok = false ∧ (f, l) = word (s.p.qs q) then
                match popTry off f l with
                | none => popNone s k q
                | some _ => some { s with ex := upd s.ex k (some (f, l)) }
              else none
        else none
      | _, _ => none
    else none
  | .chunk k j =>
    if s.ph = 1 ∧ k < s.w ∧ s.lp k = .got j ∧ noUB s.S s.w s.n s.c k j = true then
      match Bulk.step s.p (.chunk k j) with
      | some p' =>
        some { s with p := p',
                      lp := upd s.lp k (.at (chunkRange s.S s.n s.c k j).1 (chunkRange s.S s.n s.c k j).2) }
      | none => none
    else none
  | .call k i v =>
    if s.ph = 1 ∧ k < s.w then
      match s.lp k with
      | .at cur ie =>
        if cur < ie ∧ i = cur ∧ s.ts = some v then
          some { s with lp := upd s.lp k (.incall cur ie), calls := (i, v) :: s.calls }
        else none
      | _ => none
    else none
  | .ret k =>
    if s.ph = 1 ∧ k < s.w then
      match s.lp k with
      | .incall cur ie => some { s with lp := upd s.lp k (.at (cur + 1) ie) }
      | _ => none
    else none
  | .throw k =>
    if s.ph = 1 ∧ k < s.w then
      match s.lp k with
      | .incall cur _ => some { s with lp := upd s.lp k (.threw cur), thrown := cur :: s.thrown }
      | _ => none
    else none
  | .exc k =>
    if s.ph = 1 ∧ k < s.w then
      match s.lp k with
      | .threw i =>
        match Bulk.step s.p (.exc k) with
        | some p' => some { s with p := p', lp := upd s.lp k .out, exception := some i }
        | none => none
      | _ => none
    else none
  | .dec k last =>
    if s.ph = 1 ∧ k < s.w then
      match s.lp k with
      | .out =>
        if isFin (s.p.pc k) = true then
          match Bulk.step s.p (.dec k last) with
          | some p' => some { s with p := p' }
          | none => none
        else none
      | .threw _ =>
        -- an exception that lost the `exchange`: `finish()` without `bulk.exc`
        if isWork (s.p.pc k) = true then
          match Bulk.step s.p (.dec k last) with
          | some p' => some { s with p := p', lp := upd s.lp k .out }
          | none => none
        else none
      | _ => none
    else none
  | .decide k err =>
    -- the read follows the last decrement: every participant has decremented (`outcome` is set
    -- by the decrement that reached 0), so the flag read equals the flag at that decrement
    if s.ph = 1 ∧ k < s.w ∧ s.p.pc k = .decd ∧ s.p.outcome = some err ∧ s.p.signals = 0 then some s
    else none
  | .sig err tok =>
    if s.ph = 1 then
      if (if err then s.exception = some tok else s.ts = some tok) then
        match Bulk.step s.p (.sig err) with
        | some p' => some { s with p := p', done := (err, tok) :: s.done }
        | none => none
      else none
    else if s.ph = 2 ∧ err = false ∧ tok = s.v ∧ s.done = [] then
      -- `shape == 0`: `set_value(std::move(receiver), std::forward<Ts>(ts)...)` with the arguments
      some { s with done := [(false, tok)] }
    else none

/-- how often `f` was called with index `i` -/
def ncalls (s : St) (i : Int) : Nat := (s.calls.map Prod.fst).count i

end PikaVerif.BulkC
