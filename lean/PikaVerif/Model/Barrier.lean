import PikaVerif.Core.Basic
import PikaVerif.Core.Sum
/-!
# Model of `pika::barrier` (C09, barrier part)

Follows `libs/pika/synchronization/include/pika/synchronization/barrier.hpp` (`arrive`,
`wait`, `arrive_and_wait`, `arrive_and_drop`) and `src/barrier.cpp`
(`barrier_algorithm_base::arrive`, the libc++-derived tournament tree with `uint8` phase
tickets) at the granularity of the hook events compiled into those files:

* `bar.enter`+`bar.arrive`  (phase load)                         → `Ev.load`
* `bar.start`               (`current` = hash % ((expected+1)>>1)) → `Ev.start`
* `bar.try` + `bar.half|bar.up|bar.seen|bar.miss`  (first CAS)   → `Ev.cas`
* `bar.try2` + `bar.up|bar.miss`                   (second CAS)  → `Ev.cas2`
* `bar.last`                (base.arrive returned true)          → `Ev.last`
* `bar.compl`               (completion function; then `expected += adjustment`) → `Ev.compl`
* `bar.publish`+`bar.phase` (phase store)                        → `Ev.publish`
* `bar.poll`+`bar.polled`   (one iteration of the wait loop)     → `Ev.poll`
* `bar.drop`+`bar.adj`      (`expected_adjustment.fetch_sub(1)`) → `Ev.adj`

One barrier, `n` threads.  Bytes are `Nat`s `< 256`, arithmetic on them is `% 256` as in
the `std::uint8_t` code.  The model is an acceptor: `step s e = none` means "the code as
modelled cannot produce `e` in `s`".

Client preconditions (the standard's *Preconditions* of `arrive` / `arrive_and_drop`: the
update is at most the expected count of the current phase) are part of the acceptor: `inv`
of an arriving operation is accepted only while the phase's remaining count (`count`, ghost)
covers it.  Everything else is the code.
-/
namespace PikaVerif.Barrier

/-- Participants of round `r` of the tournament: `m₀ = N`, `m_{r+1} = ⌈m_r / 2⌉`
    (`current_expected` in `barrier_algorithm_base::arrive`). -/
def mr (N : Nat) : Nat → Nat
  | 0 => N
  | r + 1 => (mr N r + 1) / 2

/-- `old_phase + 1`, `old_phase + 2` in `std::uint8_t`. -/
def halfB (p : Nat) : Nat := (p + 1) % 256
def fullB (p : Nat) : Nat := (p + 2) % 256

/-- Public operations. -/
inductive Op where
  | arrive (u : Nat) | wait | aw | drop
  deriving DecidableEq, Repr

/-- Outcome of a ticket CAS attempt as logged by the hook that follows it. -/
inductive Out where
  | half            -- CAS old→half succeeded: "1 in 2", base.arrive returns false
  | up              -- CAS (old|half)→full succeeded: go to the next round
  | seen            -- first CAS failed and observed `half`: try the second CAS
  | miss (v : Nat)  -- CAS failed, observed `v`: ++current
  deriving DecidableEq, Repr

/-- Program counter of a thread inside an operation.  `u` = calls of `base.arrive` this
    `arrive(update)` still has to make after the current one. -/
inductive Pc where
  | idle
  | want (u : Nat)                -- arrive(u) invoked, phase not yet loaded
  | wantDrop                      -- arrive_and_drop invoked, before the fetch_sub
  | arr (u : Nat)                 -- in barrier::arrive, about to call base.arrive (u calls left)
  | try (u cur rnd m : Nat)       -- base.arrive at `bar.try` (node `cur`, round, current_expected)
  | try2 (u cur rnd m : Nat)      -- at `bar.try2`
  | won (u rnd : Nat)             -- base.arrive returned true; completion function not run yet
  | pub (u rnd : Nat)             -- completion run, expected adjusted; before the phase store
  | polling                       -- in wait(), token = `tok t`
  | retn
  | fin
  deriving DecidableEq, Repr

inductive Ev where
  | inv (t : Nat) (o : Op)
  | adj (t : Nat)
  | load (t : Nat) (old exp : Nat)
  | start (t : Nat) (cur : Nat)
  | cas (t : Nat) (cur rnd : Nat) (out : Out)
  | cas2 (t : Nat) (cur rnd : Nat) (out : Out)
  | last (t : Nat) (old exp : Nat)
  | compl (t : Nat)
  | publish (t : Nat) (newPhase newExp : Nat)
  | poll (t : Nat) (tok seen : Nat)
  | ret (t : Nat)
  | done (t : Nat)
  deriving Repr

structure St where
  n : Nat
  /-- `barrier::expected`, `-barrier::expected_adjustment`, `barrier::phase` -/
  expected : Nat
  adj : Nat
  phase : Nat
  /-- `base.state[node].tickets[round].phase`, indexed round first -/
  tk : Nat → Nat → Nat
  pc : Nat → Pc
  /-- the arrival token the thread holds (`old_phase` local / harness variable) -/
  tok : Nat → Nat
  /-- the current operation is arrive_and_wait -/
  aw : Nat → Bool
  /-- ghost: remaining expected count of the current phase (the standard's "expected count") -/
  count : Nat
  /-- ghost: `expected` at the start of the current phase -/
  e0 : Nat
  /-- ghost: number of completed phases; phase index at which `tok t` was obtained -/
  ph : Nat
  tokIdx : Nat → Nat
  /-- ghost: total `true` returns of base.arrive, total completion calls, drops of this phase -/
  wins : Nat
  compls : Nat
  drops : Nat
  /-- ghost: the thread between "base.arrive returned true" and the phase store -/
  win : Option Nat

def init (n N : Nat) : St :=
  { n := n, expected := N, adj := 0, phase := 0, tk := fun _ _ => 0, pc := fun _ => .idle,
    tok := fun _ => 0, aw := fun _ => false, count := N, e0 := N, ph := 0,
    tokIdx := fun _ => 0, wins := 0, compls := 0, drops := 0, win := none }

/-- Store into `tickets[round][node]`. -/
def upd2 (f : Nat → Nat → Nat) (r c v : Nat) : Nat → Nat → Nat :=
  upd f r (upd (f r) c v)

/-- Where a thread continues when a call of `base.arrive` is over (`--update; while (update != 0)`;
    then `return old_phase`, followed by `wait` for arrive_and_wait). -/
def afterCall (aw : Bool) (u : Nat) : Pc :=
  if u = 0 then (if aw then .polling else .retn) else .arr u

def step (s : St) : Ev → Option St
  | .inv t o =>
    if t < s.n ∧ s.pc t = .idle then
      match o with
      | .arrive u =>
        if 1 ≤ u ∧ u ≤ s.count then
          some { s with pc := upd s.pc t (.want u), aw := upd s.aw t false, count := s.count - u }
        else none
      | .aw =>
        if 1 ≤ s.count then
          some { s with pc := upd s.pc t (.want 1), aw := upd s.aw t true, count := s.count - 1 }
        else none
      | .drop =>
        if 1 ≤ s.count then
          some { s with pc := upd s.pc t .wantDrop, aw := upd s.aw t false, count := s.count - 1 }
        else none
      | .wait => some { s with pc := upd s.pc t .polling, aw := upd s.aw t false }
    else none
  | .adj t =>
    if t < s.n ∧ s.pc t = .wantDrop then
      some { s with adj := s.adj + 1, drops := s.drops + 1, pc := upd s.pc t (.want 1) }
    else none
  | .load t old exp =>
    if t < s.n ∧ old = s.phase ∧ exp = s.expected then
      match s.pc t with
      | .want u =>
        some { s with tok := upd s.tok t old, tokIdx := upd s.tokIdx t s.ph,
                      pc := upd s.pc t (afterCall (s.aw t) u) }
      | _ => none
    else none
  | .start t cur =>
    -- `current = hash % ((expected + 1) >> 1)`: any node of round 0
    if t < s.n ∧ cur < (s.expected + 1) / 2 then
      match s.pc t with
      | .arr u => if 1 ≤ u then some { s with pc := upd s.pc t (.try (u - 1) cur 0 s.expected) } else none
      | _ => none
    else none
  | .cas t c rnd out =>
    if t < s.n then
      match s.pc t with
      | .try u cur r m =>
        let e := (m + 1) / 2
        if 1 < m ∧ rnd = r ∧ c = (if cur = e then 0 else cur) then
          let old := s.tok t
          let v := s.tk r c
          if c = e - 1 ∧ m % 2 = 1 then
            -- "1 in 1": CAS old → full
            if v = old then
              if out = .up then
                some { s with tk := upd2 s.tk r c (fullB old), pc := upd s.pc t (.try u (c / 2) (r + 1) e) }
              else none
            else if out = .miss v then some { s with pc := upd s.pc t (.try u (c + 1) r m) }
            else none
          else if v = old then
            -- "1 in 2": CAS old → half, return false
            if out = .half then
              some { s with tk := upd2 s.tk r c (halfB old), pc := upd s.pc t (afterCall (s.aw t) u) }
            else none
          else if v = halfB old then
            if out = .seen then some { s with pc := upd s.pc t (.try2 u c r m) } else none
          else if out = .miss v then some { s with pc := upd s.pc t (.try u (c + 1) r m) }
          else none
        else none
      | _ => none
    else none
  | .cas2 t c rnd out =>
    if t < s.n then
      match s.pc t with
      | .try2 u cur r m =>
        if rnd = r ∧ c = cur then
          let old := s.tok t
          let v := s.tk r c
          if v = halfB old then
            -- "2 in 2": CAS half → full
            if out = .up then
              some { s with tk := upd2 s.tk r c (fullB old),
                            pc := upd s.pc t (.try u (c / 2) (r + 1) ((m + 1) / 2)) }
            else none
          else if out = .miss v then some { s with pc := upd s.pc t (.try u (c + 1) r m) }
          else none
        else none
      | _ => none
    else none
  | .last t old exp =>
    -- `if (current_expected <= 1) return true;`
    if t < s.n ∧ old = s.tok t ∧ exp = s.expected then
      match s.pc t with
      | .try u _ r m =>
        if m ≤ 1 then some { s with pc := upd s.pc t (.won u r), wins := s.wins + 1, win := some t }
        else none
      | _ => none
    else none
  | .compl t =>
    -- completion(); expected += expected_adjustment; expected_adjustment = 0
    if t < s.n then
      match s.pc t with
      | .won u r =>
        some { s with compls := s.compls + 1, expected := s.expected - s.adj, adj := 0,
                      pc := upd s.pc t (.pub u r) }
      | _ => none
    else none
  | .publish t np ne =>
    if t < s.n ∧ np = fullB (s.tok t) ∧ ne = s.expected then
      match s.pc t with
      | .pub u _ =>
        some { s with phase := np, ph := s.ph + 1, count := s.expected, e0 := s.expected, drops := 0,
                      win := none, pc := upd s.pc t (afterCall (s.aw t) u) }
      | _ => none
    else none
  | .poll t tok seen =>
    if t < s.n ∧ s.pc t = .polling ∧ tok = s.tok t ∧ seen = s.phase then
      some { s with pc := upd s.pc t (if seen = tok then .polling else .retn) }
    else none
  | .ret t =>
    if t < s.n ∧ s.pc t = .retn then some { s with pc := upd s.pc t .idle } else none
  | .done t =>
    if t < s.n ∧ s.pc t = .idle then some { s with pc := upd s.pc t .fin } else none

end PikaVerif.Barrier
