import PikaVerif.Core.Basic
/-!
# Model of `pika::concurrency::detail::deque` (C17)

Follows `libs/pika/concurrency/include/pika/concurrency/deque.hpp` (Michael's CAS-based deque as
implemented there: one 128-bit anchor `(left, right, status, tag)`, node links that are tagged
pointers, `stabilize_left/right` helping, nodes recycled through a freelist) at the granularity
of the hook events compiled into that header: one model event per shared access
(`dq.ld` anchor load, `dq.chk` the `anchor_ != lrs` re-check, `dq.rd` link load, `dq.link` link
store into the not yet published node, `dq.lcas` link CAS, `dq.cas` anchor CAS, `dq.alloc`,
`dq.free`).  Node identities are the addresses the implementation reports.

Sides: `d = false` is the left end, `d = true` the right end.  Status: `0` stable, `1` rpush,
`2` lpush (the C++ enum values).  The model follows the code as it is: in particular
`alloc_node` re-initialises both links of a recycled node to `(nullptr, tag 0)` and `push_*`
stores `(end, tag 0)` into the inward link, i.e. link tags restart at 0 in every life of a node.

Assumptions (recorded in the evidence): the freelist is an atomic allocate/deallocate of node
identities (boost's `freelist_stack` is not modelled); tags are unbounded naturals (the code has
16-bit tags; a wrap-around needs 65536 anchor changes inside one load..CAS window).

History (ghost) fields: `chain` — the node identities the anchor CASes have linked, left to
right; `pushed` / `popped` — values at the linearisation points (successful anchor CAS of a
push / of a pop); `stale` — set when a stabilisation link-CAS succeeds although the anchor it was
computed for is no longer current.
-/
namespace PikaVerif.Deque

structure Link where
  ptr : Nat
  tag : Nat
  deriving DecidableEq, Repr

structure Node where
  left : Link
  right : Link
  data : Nat
  deriving Repr

structure Anchor where
  l : Nat
  r : Nat
  st : Nat
  tag : Nat
  deriving DecidableEq, Repr

/-- the anchor's pointer at end `d` -/
def Anchor.endp (a : Anchor) (d : Bool) : Nat := if d then a.r else a.l

/-- link of a node at end `d` that points towards the interior (`right` link of the leftmost,
    `left` link of the rightmost node) -/
def inward (d : Bool) (nd : Node) : Link := if d then nd.left else nd.right
/-- the opposite link -/
def outward (d : Bool) (nd : Node) : Link := if d then nd.right else nd.left

def setInward (d : Bool) (nd : Node) (lk : Link) : Node :=
  if d then { nd with left := lk } else { nd with right := lk }
def setOutward (d : Bool) (nd : Node) (lk : Link) : Node :=
  if d then { nd with right := lk } else { nd with left := lk }

/-- status value written by a push at end `d` -/
def pushSt (d : Bool) : Nat := if d then 1 else 2

/-- where a thread continues when `stabilize*` returns -/
inductive Kont where
  | pushLoop (d : Bool) (n : Nat)    -- called from the loop of a push: reload the anchor
  | pushDone                          -- called after the thread's own successful push
  | popLoop (d : Bool)
  deriving DecidableEq, Repr

inductive Pc where
  | idle
  | pushAlloc (d : Bool) (v : Nat)
  | pushLd (d : Bool) (n : Nat)
  | pushCasE (d : Bool) (n : Nat) (a : Anchor)
  | pushLink (d : Bool) (n : Nat) (a : Anchor)
  | pushCas (d : Bool) (n : Nat) (a : Anchor)
  | popLd (d : Bool)
  | popCas1 (d : Bool) (a : Anchor)
  | popChk (d : Bool) (a : Anchor)
  | popRd (d : Bool) (a : Anchor)
  | popCas (d : Bool) (a : Anchor) (prev : Link)
  | popFree (nd : Nat) (v : Nat)
  | stRd1 (k : Kont) (d : Bool) (a : Anchor)
  | stChk1 (k : Kont) (d : Bool) (a : Anchor) (prev : Link)
  | stRd2 (k : Kont) (d : Bool) (a : Anchor) (prev : Link)
  | stChk2 (k : Kont) (d : Bool) (a : Anchor) (prev pn : Link)
  | stLink (k : Kont) (d : Bool) (a : Anchor) (prev pn : Link)
  | stCas (k : Kont) (d : Bool) (a : Anchor)
  | retn (ok : Bool) (v : Nat)
  | fin
  deriving DecidableEq, Repr

def kont : Kont → Pc
  | .pushLoop d n => .pushLd d n
  | .pushDone => .retn true 0
  | .popLoop d => .popLd d

inductive Ev where
  | inv (t : Nat) (push : Bool) (d : Bool) (v : Nat)
  | alloc (t : Nat) (n : Nat)
  | ld (t : Nat) (a : Anchor)
  | chk (t : Nat) (same : Bool)
  | rd (t : Nat) (lk : Link)
  | link (t : Nat) (n : Nat) (tgt : Nat)
  | lcas (t : Nat) (ok : Bool)
  | cas (t : Nat) (ok : Bool)
  | free (t : Nat) (n : Nat)
  | ret (t : Nat) (ok : Bool) (v : Nat)
  | done (t : Nat)
  deriving Repr

/-- the thread an event belongs to -/
def Ev.tid : Ev → Nat
  | .inv t _ _ _ | .alloc t _ | .ld t _ | .chk t _ | .rd t _ | .link t _ _ | .lcas t _ | .cas t _
  | .free t _ | .ret t _ _ | .done t => t

/-- Solo bound (follow-up C17t, `Props/C17Solo.lean`): the number of events — from `inv` to `ret`,
    both included — within which an operation completes when its thread runs alone, from any
    reachable state: a push needs at most 19 (`inv`, `alloc`, anchor load, 6 for helping an unstable
    anchor, reload, link store, anchor CAS, 6 for its own stabilisation, `ret`), a pop at most 14
    (`inv`, load, 6 for helping, reload, re-check, link load, anchor CAS, free, `ret`). -/
def soloBound (push : Bool) : Nat := if push then 19 else 14

structure St where
  n : Nat
  anchor : Anchor
  nodes : Nat → Node
  used : Nat → Bool
  pc : Nat → Pc
  chain : List Nat
  pushed : List Nat
  popped : List Nat
  stale : Bool

def nullNode : Node := ⟨⟨0, 0⟩, ⟨0, 0⟩, 0⟩

def init (n : Nat) : St :=
  { n := n, anchor := ⟨0, 0, 0, 0⟩, nodes := fun _ => nullNode, used := fun _ => false,
    pc := fun _ => .idle, chain := [], pushed := [], popped := [], stale := false }

/-- ghost: insert / remove a node identity at end `d` of the chain -/
def chainPush (d : Bool) (c : List Nat) (n : Nat) : List Nat := if d then c ++ [n] else n :: c
def chainPop (d : Bool) (c : List Nat) : List Nat := if d then c.dropLast else c.tail

/-- The freelist keeps its own `next` pointer in the first word of a free node, which is the
    node's `left` link: a (stale) load of the `left` link of a node that is currently in the
    freelist returns a value the model does not know, and a CAS on it has an unknown outcome. -/
def unknownLeft (s : St) (isLeft : Bool) (nd : Nat) : Bool := isLeft && !s.used nd

/-- the stabilisation routine `stabilize(lrs)` dispatches on the status -/
def stabSide (a : Anchor) : Bool := decide (a.st = 1)

/-- Tag given to a link that is (re-)initialised outside a CAS: by `alloc_node` (both links of the
    recycled node) and by the inward-link store of `push_left/right`.
    `fx = false` — the pinned tree: the tag restarts at 0.
    `fx = true` — the repaired code (follow-up C17s, `fix:` commit on deque.hpp): the tag found in
    the node is kept and incremented (`get_next_tag()`, the idiom of `boost::lockfree::queue`'s
    node constructor), so the tag of a link word grows with every write for the whole life of the
    deque, across recycling. -/
def newTag (fx : Bool) (old : Link) : Nat := if fx then old.tag + 1 else 0

/-- What a load from the `left` word of a node that is in the freelist may return.  The pinned
    tree's model (`fx = false`) assumes nothing.  The repaired model (`fx = true`) uses that
    `freelist_stack::deallocate` writes its `next` pointer with `tagged_ptr::set_ptr`, which keeps
    the 16 tag bits of the word: pointer unknown, tag as the deque left it. -/
def freeWordOk (fx : Bool) (cur lk : Link) : Prop := fx = true → lk.tag = cur.tag

instance (fx : Bool) (cur lk : Link) : Decidable (freeWordOk fx cur lk) := by
  unfold freeWordOk; exact inferInstance

/-- The acceptor, parametrised by the tagging discipline (`newTag`, `freeWordOk`).
    `step = stepG false` is the pinned tree, `stepF = stepG true` the repaired code. -/
def stepG (fx : Bool) (s : St) : Ev → Option St
  | .inv t push d v =>
    if t < s.n ∧ s.pc t = .idle then
      some { s with pc := upd s.pc t (if push then .pushAlloc d v else .popLd d) }
    else none
  | .alloc t n =>
    if t < s.n ∧ n ≠ 0 ∧ s.used n = false then
      match s.pc t with
      | .pushAlloc d v =>
        some { s with nodes := upd s.nodes n ⟨⟨0, newTag fx (s.nodes n).left⟩,
                                               ⟨0, newTag fx (s.nodes n).right⟩, v⟩,
                      used := upd s.used n true,
                      pc := upd s.pc t (.pushLd d n) }
      | _ => none
    else none
  | .ld t a =>
    if t < s.n ∧ a = s.anchor then
      match s.pc t with
      | .pushLd d n =>
        some { s with pc := upd s.pc t (if a.endp d = 0 then .pushCasE d n a
                                        else if a.st = 0 then .pushLink d n a
                                        else .stRd1 (.pushLoop d n) (stabSide a) a) }
      | .popLd d =>
        some { s with pc := upd s.pc t (if a.endp d = 0 then .retn false 0
                                        else if a.l = a.r then .popCas1 d a
                                        else if a.st = 0 then .popChk d a
                                        else .stRd1 (.popLoop d) (stabSide a) a) }
      | _ => none
    else none
  | .chk t same =>
    if t < s.n then
      match s.pc t with
      | .popChk d a =>
        if same = decide (s.anchor = a) then
          some { s with pc := upd s.pc t (if same then .popRd d a else .popLd d) }
        else none
      | .stChk1 k d a prev =>
        if same = decide (s.anchor = a) then
          some { s with pc := upd s.pc t (if same then .stRd2 k d a prev else kont k) }
        else none
      | .stChk2 k d a prev pn =>
        if same = decide (s.anchor = a) then
          some { s with pc := upd s.pc t (if same then .stLink k d a prev pn else kont k) }
        else none
      | _ => none
    else none
  | .rd t lk =>
    if t < s.n then
      match s.pc t with
      | .popRd d a =>
        if (unknownLeft s d (a.endp d) = true ∧ freeWordOk fx (inward d (s.nodes (a.endp d))) lk) ∨
            lk = inward d (s.nodes (a.endp d)) then
          some { s with pc := upd s.pc t (.popCas d a lk) }
        else none
      | .stRd1 k d a =>
        if (unknownLeft s d (a.endp d) = true ∧ freeWordOk fx (inward d (s.nodes (a.endp d))) lk) ∨
            lk = inward d (s.nodes (a.endp d)) then
          some { s with pc := upd s.pc t (.stChk1 k d a lk) }
        else none
      | .stRd2 k d a prev =>
        -- `prev.get_ptr()->...` : a null `prev` would be a crash, not an event
        if prev.ptr ≠ 0 ∧ ((unknownLeft s (!d) prev.ptr = true ∧
              freeWordOk fx (outward d (s.nodes prev.ptr)) lk) ∨ lk = outward d (s.nodes prev.ptr)) then
          some { s with pc := upd s.pc t (if lk.ptr ≠ a.endp d then .stChk2 k d a prev lk
                                          else .stCas k d a) }
        else none
      | _ => none
    else none
  | .link t n tgt =>
    if t < s.n then
      match s.pc t with
      | .pushLink d m a =>
        if n = m ∧ tgt = a.endp d then
          some { s with nodes := upd s.nodes m (setInward d (s.nodes m)
                                  ⟨a.endp d, newTag fx (inward d (s.nodes m))⟩),
                        pc := upd s.pc t (.pushCas d m a) }
        else none
      | _ => none
    else none
  | .lcas t ok =>
    if t < s.n then
      match s.pc t with
      | .stLink k d a prev pn =>
        -- a CAS on the `left` word of a free node: outcome unknown in the pinned tree's model; in
        -- the repaired model it can only succeed if the tag bits (kept by the freelist) match
        if (unknownLeft s (!d) prev.ptr = true ∧
              (fx = true → ok = true → (outward d (s.nodes prev.ptr)).tag = pn.tag)) ∨
            ok = decide (outward d (s.nodes prev.ptr) = pn) then
          if ok then
            some { s with
              nodes := upd s.nodes prev.ptr (setOutward d (s.nodes prev.ptr) ⟨a.endp d, pn.tag + 1⟩),
              stale := s.stale || decide (s.anchor ≠ a),
              pc := upd s.pc t (.stCas k d a) }
          else some { s with pc := upd s.pc t (kont k) }
        else none
      | _ => none
    else none
  | .cas t ok =>
    if t < s.n then
      match s.pc t with
      | .pushCasE d n a =>
        if ok = decide (s.anchor = a) then
          if ok then
            some { s with anchor := ⟨n, n, a.st, a.tag + 1⟩,
                          chain := chainPush d s.chain n,
                          pushed := (s.nodes n).data :: s.pushed,
                          pc := upd s.pc t (.retn true 0) }
          else some { s with pc := upd s.pc t (.pushLd d n) }
        else none
      | .pushCas d n a =>
        if ok = decide (s.anchor = a) then
          if ok then
            let na : Anchor := if d then ⟨a.l, n, 1, a.tag + 1⟩ else ⟨n, a.r, 2, a.tag + 1⟩
            some { s with anchor := na,
                          chain := chainPush d s.chain n,
                          pushed := (s.nodes n).data :: s.pushed,
                          pc := upd s.pc t (.stRd1 .pushDone d na) }
          else some { s with pc := upd s.pc t (.pushLd d n) }
        else none
      | .popCas1 d a =>
        if ok = decide (s.anchor = a) then
          if ok then
            some { s with anchor := ⟨0, 0, a.st, a.tag + 1⟩,
                          chain := chainPop d s.chain,
                          popped := (s.nodes (a.endp d)).data :: s.popped,
                          pc := upd s.pc t (.popFree (a.endp d) (s.nodes (a.endp d)).data) }
          else some { s with pc := upd s.pc t (.popLd d) }
        else none
      | .popCas d a prev =>
        if ok = decide (s.anchor = a) then
          if ok then
            some { s with anchor := if d then ⟨a.l, prev.ptr, a.st, a.tag + 1⟩
                                    else ⟨prev.ptr, a.r, a.st, a.tag + 1⟩,
                          chain := chainPop d s.chain,
                          popped := (s.nodes (a.endp d)).data :: s.popped,
                          pc := upd s.pc t (.popFree (a.endp d) (s.nodes (a.endp d)).data) }
          else some { s with pc := upd s.pc t (.popLd d) }
        else none
      | .stCas k _ a =>
        if ok = decide (s.anchor = a) then
          if ok then
            some { s with anchor := ⟨a.l, a.r, 0, a.tag + 1⟩, pc := upd s.pc t (kont k) }
          else some { s with pc := upd s.pc t (kont k) }
        else none
      | _ => none
    else none
  | .free t n =>
    if t < s.n then
      match s.pc t with
      | .popFree m v =>
        if n = m then some { s with used := upd s.used m false, pc := upd s.pc t (.retn true v) }
        else none
      | _ => none
    else none
  | .ret t ok v =>
    if t < s.n then
      match s.pc t with
      | .retn ok' v' =>
        if ok = ok' ∧ v = v' then some { s with pc := upd s.pc t .idle } else none
      | _ => none
    else none
  | .done t =>
    if t < s.n ∧ s.pc t = .idle then some { s with pc := upd s.pc t .fin } else none

/-- the pinned tree (link tags restart at 0 in every life of a node) -/
@[reducible] def step : St → Ev → Option St := stepG false
/-- the repaired code (link tags survive recycling) -/
@[reducible] def stepF : St → Ev → Option St := stepG true

/-- values stored in the chain, left to right -/
def contents (s : St) : List Nat := s.chain.map (fun n => (s.nodes n).data)

/-! ## The queue back-end adapters of `lockfree_queue_backends.hpp`

Which deque operation a back-end call maps to (`push(val, other_end)`, `pop(val, steal)`). -/
inductive Backend where
  | lifo | abpFifo | abpLifo
  deriving DecidableEq, Repr

/-- end used by `push(val, other_end)` -/
def Backend.pushEnd : Backend → Bool → Bool
  | .lifo, other => other
  | .abpFifo, _ => false
  | .abpLifo, other => other

/-- end used by `pop(val, steal)` -/
def Backend.popEnd : Backend → Bool → Bool
  | .lifo, _ => false
  | .abpFifo, steal => !steal
  | .abpLifo, steal => steal

end PikaVerif.Deque
