import PikaVerif.Model.Sched
/-!
# Coroutine / body layer on top of the scheduler protocol model (C01 follow-up C01b)

`Model/Sched.lean` follows the state word, the scheduling loop and the queue tokens.  This file
adds what happens *inside* a phase: the coroutine of the thread object
(`coroutines/detail/coroutine_impl.cpp`, `coroutine_stackful_self.hpp`, `stackless_coroutine.hpp`).

* `coroutine_impl::operator()` is the function every stack context starts in.  It calls the
  thread function `m_fun` (hook `co.enter`), and when that returns (hook `co.return`, payload =
  the returned schedule state) it binds the result and switches back with `do_return`; when the
  same coroutine object is later rebound to a new function the loop `while (m_state ==
  ctx_running)` goes round and calls the *new* `m_fun` (again `co.enter`).
* `coroutine_stackful_self::yield_impl` binds the requested schedule state (hook `co.yield`,
  payload = that state), switches to the scheduling loop, and returns when the thread object is
  activated again (hook `co.resume`).
* `stackless_coroutine::operator()` calls `f_` directly (`co.enter` / `co.return`); it cannot yield.
* `thread_data::operator()` (called by the scheduling loop between `phase.begin` and `phase.end`)
  returns the result bound by the yield or by the return.

The layer is an acceptor of its own: a state is a `Sched.St` plus one `Co` record per thread
object; a base event is first given to `Sched.step` and then to the layer's extra guard/update.
Hence every log accepted here is accepted by `Sched.step` after erasing the `co.*` events
(`base_accepts`), and every theorem of `Props/C01` / `Props/C02` applies to its base projection.

Ghost fields: `entries` / `exits` count `co.enter` / `co.return` since the last
(re)initialisation of the object; they are *not* used in any guard.
-/
namespace PikaVerif.SchedCo
open PikaVerif PikaVerif.Sched

/-- where the thread function of the current incarnation is -/
inductive CoPc where
  | ready                -- not entered yet (constructed / rebound)
  | inBody               -- executing on the worker that runs the current phase
  | yielded (r : Nat)    -- at a yield point; it asked for schedule state `r`
  | returned             -- the thread function has returned
  deriving DecidableEq, Repr

/-- entered and not yet returned -/
def CoPc.open : CoPc → Bool
  | .inBody => true
  | .yielded _ => true
  | _ => false

def CoPc.isYielded : CoPc → Bool
  | .yielded _ => true
  | _ => false

/-- can be activated by a phase: first entry or resumption -/
def CoPc.resumable : CoPc → Bool
  | .ready => true
  | .yielded _ => true
  | _ => false

/-- the schedule states a yield may ask for: `pending` (yield), `suspended` (suspend),
    `pending_boost` (yield_k / sleep_until) -/
def okReq (r : Nat) : Bool := r == sPending || r == sSuspended || r == sBoost

def CoPc.okReq : CoPc → Bool
  | .yielded r => SchedCo.okReq r
  | _ => true

structure Co where
  pc : CoPc := .ready
  ran : Bool := false     -- the body has been activated (entered or resumed) in the current phase
  entries : Nat := 0      -- ghost: `co.enter` since (re)initialisation
  exits : Nat := 0        -- ghost: `co.return` since (re)initialisation
  ubody : Nat := 0        -- harness-level body of the task: 0 not entered, 1 inside, 2 left
  deriving Repr

inductive Ev where
  | base (e : Sched.Ev)
  | coEnter (a o : Nat)
  | coResume (a o : Nat)
  | coYield (a o r : Nat)
  | coReturn (a o r : Nat)
  deriving Repr

structure St where
  base : Sched.St
  co : Nat → Co

def init : St := { base := Sched.init, co := fun _ => {} }

/-- the layer's guard and update for a base event that `Sched.step` has accepted -/
def coBase (co : Nat → Co) : Sched.Ev → Option (Nat → Co)
  | .new _ o _ => some (upd co o {})
  | .rebind _ o _ => some (upd co o {})
  | .phaseBegin _ o => some (upd co o { co o with ran := false })
  | .phaseEnd _ o r =>
    -- `thread_data::operator()` returns what the yield bound, or `terminated` bound after the
    -- thread function returned; in both cases the coroutine was switched to in this phase
    let c := co o
    if c.ran = true ∧ (c.pc = .yielded r ∨ (c.pc = .returned ∧ r = sTerminated)) then some co else none
  | .bodyEnter _ o =>
    let c := co o
    if c.pc = .inBody ∧ c.ubody = 0 then some (upd co o { c with ubody := 1 }) else none
  | .bodyExit _ o =>
    let c := co o
    if c.pc = .inBody ∧ c.ubody = 1 then some (upd co o { c with ubody := 2 }) else none
  | _ => some co

def step (s : St) : Ev → Option St
  | .base e =>
    match Sched.step s.base e with
    | none => none
    | some b' =>
      match coBase s.co e with
      | none => none
      | some co' => some { base := b', co := co' }
  | .coEnter a o =>
    -- first activation of an incarnation: the trampoline calls the thread function
    let x := s.base.obj o
    let c := s.co o
    if x.live ∧ x.owner = some a ∧ x.inPhase ∧ c.pc = .ready ∧ c.ran = false then
      some { s with co := upd s.co o { c with pc := .inBody, ran := true, entries := c.entries + 1 } }
    else none
  | .coResume a o =>
    -- a later activation continues after the yield it stopped at
    let x := s.base.obj o
    let c := s.co o
    if x.live ∧ x.owner = some a ∧ x.inPhase ∧ c.pc.isYielded ∧ c.ran = false then
      some { s with co := upd s.co o { c with pc := .inBody, ran := true } }
    else none
  | .coYield a o r =>
    let x := s.base.obj o
    let c := s.co o
    if x.live ∧ x.owner = some a ∧ x.inPhase ∧ c.pc = .inBody ∧ okReq r then
      some { s with co := upd s.co o { c with pc := .yielded r } }
    else none
  | .coReturn a o r =>
    let x := s.base.obj o
    let c := s.co o
    if x.live ∧ x.owner = some a ∧ x.inPhase ∧ c.pc = .inBody ∧ r = sTerminated then
      some { s with co := upd s.co o { c with pc := .returned, exits := c.exits + 1 } }
    else none

/-- erase the layer's own events -/
def baseLog : List Ev → List Sched.Ev
  | [] => []
  | .base e :: es => e :: baseLog es
  | _ :: es => baseLog es

end PikaVerif.SchedCo
