import PikaVerif.Gen.Settings
/-!
# Model of pika's start-up configuration resolution (C16)

Follows `command_line_handling::call` / `handle_arguments` (command_line_handling.cpp),
`parse_commandline` + the program_options tokenizer (parse_command_line.cpp, cmdline.cpp,
variables_map.cpp), the default ini of `runtime_configuration::pre_initialize_ini`
(through the generated table `Gen.Settings`), `manage_config` (first insertion wins),
`section::parse` (last assignment wins, unknown keys rejected unless forced with `!`),
`partitioner::setup_schedulers` (prefix match) and `init_helper` (argv of the entry
function).  The model is a total function

  `resolve : Machine → Input → Outcome`

where `Outcome` is the report the probe prints from inside the running runtime, the class of
the start-up error, or `unsupported` for inputs outside the modelled fragment (option files,
`--`, quoting, negative numbers, explicit affinity descriptions, process masks …).
The model follows the code as it is, including the places where the code does not implement
the documented precedence (see `Props/C16.lean`).
-/
namespace PikaVerif.Config
open PikaVerif.Gen.Settings

/-- Topology facts the resolution depends on. -/
structure Machine where
  pus : Nat        -- hardware_concurrency()
  cores : Nat      -- topology::get_number_of_cores()
  maskPus : Nat    -- PUs in the cpubind mask of the main thread
  maskCores : Nat  -- cores that intersect that mask
  deriving Repr, DecidableEq

inductive Err
  -- program_options (thrown by the first parse_commandline)
  | emptyAdjacent | ambiguous | extraParam | missingParam | multiple | badOptValue
  -- handle_arguments
  | badLexical | zeroThreads | zeroMinThreads | badAffinity | puStep | puOffset
  | numaSensitive | bindConflict | hpThreads | hpSched
  -- runtime_configuration::reconfigure (ini definitions from the command line)
  | iniSyntax | iniUnknownKey
  -- after command-line handling
  | tooManyThreads | badScheduler
  -- late command-line handling inside the started runtime: pika::init returns -1
  | unknownOption
  deriving DecidableEq, Repr

inductive Stop
  | err (e : Err)
  | unsup (why : String)
  deriving Repr

abbrev M := Except Stop

def fail {α : Type} (e : Err) : M α := .error (.err e)
def unsup {α : Type} (w : String) : M α := .error (.unsup w)

/-- `if c then throw e` -/
def check (c : Bool) (e : Err) : M Unit := if c then fail e else pure ()
/-- leave the modelled fragment if `c` -/
def checkU (c : Bool) (w : String) : M Unit := if c then unsup w else pure ()

/-- What the probe reports from inside the running runtime. -/
structure Report where
  workers : Nat
  policy : Nat                       -- resource::scheduling_policy of the default pool
  stackSmall : Nat                   -- stack size of a default task
  cfg : List (String × String)       -- final value of every key of the settings table
  argv : List String                 -- argv[1..] seen by the entry function
  deriving Repr, DecidableEq

inductive Outcome
  | ok (r : Report)
  | error (e : Err)
  | unsupported (why : String)
  deriving Repr

structure Input where
  env : List (String × String)
  argv : List String                 -- argv[1..]
  deriving Repr

/-! ## strings and numbers -/

def isDigit (c : Char) : Bool := '0' ≤ c && c ≤ '9'

def digitsVal (cs : List Char) : Nat := cs.foldl (fun n c => 10 * n + (c.toNat - '0'.toNat)) 0

inductive Num
  | ok (n : Nat)
  | bad            -- std::stoul / check_only_whitespace reject the string
  | odd            -- accepted or rejected in ways the model does not follow (sign, blanks, ≥ 2^64)
  deriving DecidableEq, Repr

/-- `from_string<std::size_t>` (std::stoul, base 10, then only white space). -/
def parseNat (s : String) : Num :=
  let cs := s.toList
  if cs.isEmpty then .bad
  else if cs.all isDigit then
    (if digitsVal cs < 2 ^ 64 - 1 then .ok (digitsVal cs) else .odd)
  else if (cs.head? == some '-' || cs.head? == some '+' || cs.any (fun c => c == ' ' || c == '\t')) then .odd
  else if isDigit (cs.headD 'x') then .bad   -- "12abc": stoul parses 12, trailing garbage rejected
  else .bad

/-- `from_string<T>(v)` that throws `bad_lexical_cast`. -/
def natThrow (s : String) : M Nat :=
  match parseNat s with
  | .ok n => pure n
  | .bad => fail .badLexical
  | .odd => unsup s!"number '{s}'"

/-- `from_string<T>(v, dflt)`: a malformed value silently yields the default. -/
def natOr (s : String) (d : Nat) : M Nat :=
  match parseNat s with
  | .ok n => pure n
  | .bad => pure d
  | .odd => unsup s!"number '{s}'"

def hexVal (c : Char) : Option Nat :=
  if isDigit c then some (c.toNat - '0'.toNat)
  else if 'a' ≤ c && c ≤ 'f' then some (c.toNat - 'a'.toNat + 10)
  else if 'A' ≤ c && c ≤ 'F' then some (c.toNat - 'A'.toNat + 10)
  else none

/-- `std::strtoll(s, &end, 0)` as used by `init_stack_size`; `none` = no digits (default used). -/
def parseStack (s : String) : M (Option Nat) :=
  match s.toList with
  | '0' :: 'x' :: rest =>
    if !rest.isEmpty && rest.all (fun c => (hexVal c).isSome) then
      pure (some (rest.foldl (fun n c => 16 * n + (hexVal c).getD 0) 0))
    else unsup s!"stack size '{s}'"
  | cs =>
    if cs.isEmpty then pure none
    else if cs.all isDigit then
      (if cs.head? == some '0' && cs.length > 1 then unsup s!"octal stack size '{s}'" else pure (some (digitsVal cs)))
    else if !isDigit (cs.headD 'x') && cs.head? != some '-' && cs.head? != some '+' && cs.head? != some ' ' then pure none
    else unsup s!"stack size '{s}'"

def isPrefix (p s : String) : Bool := p.toList.isPrefixOf s.toList

/-! ## the generated tables -/

def findRow (k : String) : Option IniRow := iniRows.find? (fun r => r.key == k)

/-- Option lookup of program_options (`find_nothrow` with `allow_guessing`). -/
inductive Lookup
  | found (r : OptRow)
  | ambiguous
  | none

def lookupOpt (table : List OptRow) (name : String) : Lookup :=
  match table.find? (fun r => r.name == name) with
  | some r => .found r
  | none =>
    match table.filter (fun r => isPrefix name r.name) with
    | [r] => .found r
    | [] => .none
    | _ => .ambiguous

/-! ## tokenizer (cmdline.cpp, unix_style, allow_unregistered) -/

/-- Result of the syntactic pass over the arguments. -/
structure Parsed where
  occ : List (String × String)    -- occurrences of registered options (canonical name, value; "" for flags)
  pos : List String               -- positional arguments
  unreg : List String             -- unregistered options (original tokens)
  mixed : List String             -- positional and unregistered tokens in their original order
  deriving Repr, DecidableEq

def Parsed.empty : Parsed := ⟨[], [], [], []⟩

def splitEq (cs : List Char) : List Char × Option (List Char) :=
  match cs.span (· != '=') with
  | (n, []) => (n, none)
  | (n, _ :: v) => (n, some v)

/-- One step of the tokenizer; `rest` are the tokens after the current one.  Returns the updated
    accumulator and the remaining tokens. -/
def tokStep (table : List OptRow) (acc : Parsed) (tok : String) (rest : List String) :
    M (Parsed × List String) :=
  let cs := tok.toList
  match cs with
  | '-' :: '-' :: body =>
    if body.isEmpty then unsup "terminator --" else
    let (n, adj) := splitEq body
    let name := String.ofList n
    if adj == some [] then fail .emptyAdjacent else
    match lookupOpt table name with
    | .ambiguous => fail .ambiguous
    | .none => pure ({ acc with unreg := acc.unreg ++ [tok], mixed := acc.mixed ++ [tok] }, rest)
    | .found r =>
      match r.kind with
      | .flag =>
        if adj.isSome then fail .extraParam
        else pure ({ acc with occ := acc.occ ++ [(r.name, "")] }, rest)
      | .str | .nat | .int | .strs =>
        match adj with
        | some v => pure ({ acc with occ := acc.occ ++ [(r.name, String.ofList v)] }, rest)
        | none =>
          match rest with
          | v :: rest' => pure ({ acc with occ := acc.occ ++ [(r.name, v)] }, rest')
          | [] => fail .missingParam
      | .natOpt _ | .strOpt _ =>
        match adj with
        | some v => pure ({ acc with occ := acc.occ ++ [(r.name, String.ofList v)] }, rest)
        | none => unsup s!"implicit value of --{r.name}"
      | .strDefault _ => unsup s!"--{r.name}"
      | .positional => unsup s!"--{r.name}"
  | '-' :: c :: _ =>
    if c == '-' then unsup "terminator" else
    pure ({ acc with unreg := acc.unreg ++ [tok], mixed := acc.mixed ++ [tok] }, rest)
  | '@' :: _ => unsup "options file"
  | [] => unsup "empty argument"
  | _ => pure ({ acc with pos := acc.pos ++ [tok], mixed := acc.mixed ++ [tok] }, rest)

def tokenize (table : List OptRow) : Nat → Parsed → List String → M Parsed
  | _, acc, [] => pure acc
  | 0, _, _ :: _ => unsup "fuel"
  | fuel + 1, acc, tok :: rest => do
    let (acc', rest') ← tokStep table acc tok rest
    tokenize table fuel acc' rest'

def charsPlain (s : String) : Bool :=
  s.toList.all (fun c => c != '"' && c != '\'' && c != '\\' && c != '\t' && c != '\n' && c != ' ')

/-- split at every blank (structural, so that the kernel can evaluate it) -/
def splitBlank : List Char → List Char → List String
  | cur, [] => [String.ofList cur.reverse]
  | cur, ' ' :: rest => String.ofList cur.reverse :: splitBlank [] rest
  | cur, c :: rest => splitBlank (c :: cur) rest

/-- `prepend_options`: `PIKA_COMMANDLINE_OPTIONS` split at blanks (no quoting in the model). -/
def splitPrepend (s : String) : M (List String) :=
  if s.isEmpty then pure []
  else if s.toList.any (fun c => c == '"' || c == '\\' || c == '\t' || c == '\'') then unsup "quoting in PIKA_COMMANDLINE_OPTIONS"
  else
    let ts := splitBlank [] s.toList
    if ts.any (·.isEmpty) then unsup "repeated blanks in PIKA_COMMANDLINE_OPTIONS" else pure ts

/-! ## variables_map (store): single-valued options may occur once, typed values are validated -/

def composing (name : String) : Bool :=
  match cliOpts.find? (fun r => r.name == name) with
  | some r => r.kind == .strs
  | none => false

def kindOf (name : String) : OptKind :=
  match cliOpts.find? (fun r => r.name == name) with
  | some r => r.kind
  | none => .flag

/-- typed option values are validated when stored -/
def valueCheck (n v : String) : M Unit :=
  match kindOf n with
  | .nat | .natOpt _ =>
    match parseNat v with
    | .ok _ => pure ()
    | .bad => fail .badOptValue
    | .odd => unsup s!"number '{v}'"
  | .int => unsup "integer option"
  | _ => pure ()

def storeCheck : List String → List (String × String) → M Unit
  | _, [] => pure ()
  | seen, (n, v) :: rest =>
    if !composing n && seen.contains n then fail .multiple
    else do
      valueCheck n v
      storeCheck (n :: seen) rest

/-- The view of the parsed command line and the environment used by `handle_arguments`. -/
structure Vm where
  opt : String → Option String      -- single-valued options (canonical name)
  multi : String → List String      -- composing options
  env : String → Option String
  rt : String → String              -- `rtcfg_.get_entry(key)` at the time `handle_arguments` runs

/-- split `key=value` at the first `=`; `none` if there is no `=`. -/
def splitIni (s : String) : Option (String × String) :=
  match splitEq s.toList with
  | (k, some v) => some (String.ofList k, String.ofList v)
  | (_, none) => none

def stripBang (k : String) : String × Bool :=
  match k.toList.reverse with
  | '!' :: r => (String.ofList r.reverse, true)
  | _ => (k, false)

/-- the last `--pika:ini` definition of key `k` (the ini tree: last assignment wins) -/
def lastIni : List String → String → Option String
  | [], _ => none
  | s :: rest, k =>
    match lastIni rest k with
    | some v => some v
    | none => match splitIni s with
      | some (k0, v) => if (stripBang k0).1 == k then some v else none
      | none => none

/-- `rtcfg_.get_entry(key)` on the default ini: `${ENV:default}` is expanded when read. -/
def rtGet (env : String → Option String) (k : String) : String :=
  match findRow k with
  | some r => (match r.env with
    | some e => (env e).getD r.dflt
    | none => r.dflt)
  | none => ""

def mkVm (occ : List (String × String)) (env : List (String × String)) : Vm where
  opt n := (occ.find? (fun p => p.1 == n)).map (·.2)
  multi n := (occ.filter (fun p => p.1 == n)).map (·.2)
  env := fun v => (env.find? (fun p => p.1 == v)).map (·.2)
  rt := rtGet (fun v => (env.find? (fun p => p.1 == v)).map (·.2))

/-- `rtcfg_` after `reconfigure(cfg)`: the `--pika:ini` definitions have been merged into the tree
    (last assignment wins), everything else is still environment / default. -/
def rtFinal (vm : Vm) (k : String) : String :=
  (lastIni (vm.multi "pika:ini") k).getD (rtGet vm.env k)

/-- the view of the second `handle_arguments` pass -/
def Vm.second (vm : Vm) : Vm := { vm with rt := rtFinal vm }

def Vm.count (vm : Vm) (n : String) : Bool := (vm.opt n).isSome

/-- options whose effect the model follows -/
def supportedOpts : List String :=
  ["pika:threads", "pika:cores", "pika:scheduler", "pika:affinity", "pika:bind", "pika:pu-step",
   "pika:pu-offset", "pika:numa-sensitive", "pika:ignore-process-mask", "pika:high-priority-threads",
   "pika:ini", "pika:ignore"]

/-! ## manage_config (cfgmap) and the ini tree (rtcfg_) -/

/-- `manage_config::add`: the first definition of a key wins. -/
def cfgGet (inis : List String) (k : String) : Option String :=
  (inis.filterMap splitIni).findSome? (fun p => if (stripBang p.1).1 == k then some p.2 else none)

/-- `get_entry_as<std::size_t>(rtcfg_, key, d)` -/
def rtNat (env : String → Option String) (k : String) (d : Nat) : M Nat :=
  let e := rtGet env k
  if e.isEmpty then pure d else natOr e d

/-- `cfgmap.get_value<std::size_t>(key, d)` -/
def cfgNat (inis : List String) (k : String) (d : Nat) : M Nat :=
  match cfgGet inis k with
  | some s => natOr s d
  | none => pure d

/-! ## handle_arguments -/

/-- `handle_scheduler`, `handle_affinity`: command line, else cfgmap, else rtcfg_ (environment, default). -/
def handleStr (vm : Vm) (o k : String) : String :=
  match vm.opt o with
  | some v => v
  | none => (cfgGet (vm.multi "pika:ini") k).getD (vm.rt k)

/-- The value selected for a row of the settings table by the documented precedence:
    command-line option, else `--pika:ini` definition (cfgmap), else environment variable, else
    the built-in default (the last two through the `${ENV:default}` line of the default ini). -/
def rawValue (vm : Vm) (s : Setting) : String :=
  match s.opt.bind vm.opt with
  | some v => v
  | none => (cfgGet (vm.multi "pika:ini") s.key).getD (vm.rt s.key)

/-- `cfgmap.get_value<std::size_t>(key, get_entry_as<std::size_t>(rtcfg_, key, d))`
    (`none` = `std::size_t(-1)`): malformed numbers silently fall back. -/
def cfgRtNat (vm : Vm) (k : String) (d : Option Nat) : M (Option Nat) := do
  let e := vm.rt k
  let dn : Option Nat ← (if e.isEmpty then pure d else
    match parseNat e with
    | .ok n => pure (some n)
    | .bad => pure d
    | .odd => unsup s!"number '{e}'")
  match cfgGet (vm.multi "pika:ini") k with
  | some s =>
    match parseNat s with
    | .ok n => pure (some n)
    | .bad => pure dn
    | .odd => unsup s!"number '{s}'"
  | none => pure dn

/-- `handle_pu_step`, `handle_pu_offset`: command line, else cfgmap, else rtcfg_. -/
def handleNat (vm : Vm) (o k : String) (d : Option Nat) : M (Option Nat) :=
  match vm.opt o with
  | some v => do let n ← natThrow v; pure (some n)   -- already validated by the parser
  | none => cfgRtNat vm k d

def keywordThreads (m : Machine) (useMask : Bool) (s : String) : M Nat :=
  let initThreads := if useMask then m.maskPus else m.pus
  let initCores := if useMask then m.maskCores else m.cores
  if s == "cores" then pure initCores
  else if s == "all" then pure initThreads
  else natThrow s

/-- `handle_num_threads` -/
def handleThreads (m : Machine) (vm : Vm) (useMask : Bool) : M Nat := do
  let inis := vm.multi "pika:ini"
  let threadsStr := (cfgGet inis "pika.os_threads").getD (vm.rt "pika.os_threads")
  let defaultThreads ← keywordThreads m useMask threadsStr
  let threads0 ← cfgNat inis "pika.os_threads" defaultThreads
  let threads1 ← (match vm.opt "pika:threads" with
    | some v => do
      let t ← keywordThreads m useMask v
      if t == 0 then fail .zeroThreads else pure t
    | none => pure threads0)
  let minThreads ← cfgNat inis "pika.force_min_os_threads" threads1
  check (minThreads == 0) .zeroMinThreads
  pure (max threads1 minThreads)

/-- `handle_num_cores` (note: the ini entry `pika.cores = ${PIKA_CORES:all}` is never read) -/
def handleCores (m : Machine) (vm : Vm) (useMask : Bool) (threads : Nat) : M Nat := do
  let inis := vm.multi "pika:ini"
  let defaultCores := if useMask then m.maskCores else m.cores
  let cores0 ← (match cfgGet inis "pika.cores" with
    | some s => if s == "all" then pure defaultCores else natOr s threads
    | none => pure threads)
  match vm.opt "pika:cores" with
  | some v => if v == "all" then pure defaultCores else natThrow v
  | none => pure cores0

def affinityDomainOk (s : String) : Bool :=
  isPrefix s "pu" || isPrefix s "core" || isPrefix s "socket" || isPrefix s "machine"

structure Resolved where
  useMask : Bool
  scheduler : String
  affinity : String
  bind : String
  puStep : Nat
  puOffset : Option Nat
  numa : Nat
  threads : Nat
  cores : Nat
  hp : Option Nat
  deriving Repr, DecidableEq

def handleArguments (m : Machine) (vm : Vm) : M Resolved := do
  let inis := vm.multi "pika:ini"
  -- use_process_mask_
  let ipmDefault ← (do
    let e := vm.rt "pika.ignore_process_mask"
    if e.isEmpty then pure 0 else natOr e 0)
  let ipm ← cfgNat inis "pika.ignore_process_mask" ipmDefault
  let useMask := !(ipm > 0 || vm.count "pika:ignore-process-mask")
  -- process mask: not modelled
  checkU (!(handleStr vm "pika:process-mask" "pika.process_mask").isEmpty) "process mask"
  let scheduler := handleStr vm "pika:scheduler" "pika.scheduler"
  let affinity := handleStr vm "pika:affinity" "pika.affinity"
  check (!affinityDomainOk affinity) .badAffinity
  -- handle_affinity_bind
  let bind0 := if (vm.multi "pika:bind").isEmpty then
      (cfgGet inis "pika.bind").getD (vm.rt "pika.bind")
    else ";".intercalate (vm.multi "pika:bind")
  let puStep ← handleNat vm "pika:pu-step" "pika.pu_step" (some 1)
  let puStep := puStep.getD 1
  check (m.pus > 1 && (puStep == 0 || puStep ≥ m.pus)) .puStep
  let puOffset ← handleNat vm "pika:pu-offset" "pika.pu_offset" none
  check ((match puOffset with | some o => decide (o ≥ m.pus) | none => false)) .puOffset
  -- handle_numa_sensitive
  let numa ← (match vm.opt "pika:numa-sensitive" with
    | some v => do
      let n ← natThrow v
      if n > 2 then fail .numaSensitive else pure n
    | none => do
      let d ← cfgRtNat vm "pika.numa_sensitive" (some 0)
      pure (d.getD 0))
  let bind := if puStep == 1 && puOffset.isNone && bind0.isEmpty then "balanced" else bind0
  check (!bind.isEmpty && (!(puOffset.isNone || puOffset == some 0) || puStep != 1 || affinity != "pu")) .bindConflict
  let threads ← handleThreads m vm useMask
  let cores ← handleCores m vm useMask threads
  pure { useMask, scheduler, affinity, bind, puStep, puOffset, numa, threads, cores, hp := none }

/-- the `--pika:high-priority-threads` block reads the member `vm_`, which is still empty during
    the preliminary pass: its errors surface only in the second pass, after the ini definitions
    have been merged. -/
def handleHp (vm : Vm) (r : Resolved) : M Resolved :=
  match vm.opt "pika:high-priority-threads" with
  | some v => do
    let n ← natThrow v
    check (n > r.threads) .hpThreads
    check (!(r.scheduler == "local-priority" || r.scheduler == "abp-priority")) .hpSched
    pure { r with hp := some n }
  | none => pure r

/-! ## final configuration (rtcfg_ after `reconfigure(ini_config_)`) -/

def setKey : List (String × String) → String → String → List (String × String)
  | [], k, v => [(k, v)]
  | a :: t, k, v => if a.1 == k then (k, v) :: t else a :: setKey t k v

/-- the default ini with the environment expanded (only `${ENV:default}` and literal rows) -/
def baseCfg (env : String → Option String) : List (String × String) :=
  settings.map (fun s => (s.key, rtGet env s.key))

/-- keys that exist in the default ini but are not plain values (`$[..]` references, pid, …) -/
def opaqueKeys : List String := (iniRows.filter (fun r => r.kind == .ref || r.kind == .dynamic)).map (·.key)

/-- `section::parse(.., verify_existing = true, .., replace_existing = true)` over the
    `--pika:ini` definitions, in order. -/
def applyInis : List (String × String) → List String → M (List (String × String))
  | cfg, [] => pure cfg
  | cfg, s :: rest =>
    match splitIni s with
    | none => fail .iniSyntax
    | some (k0, v) =>
      let (k, forced) := stripBang k0
      if opaqueKeys.contains k || isPrefix "pika.commandline." k || isPrefix "pika.log." k then unsup s!"ini key {k}"
      else if !charsPlain v || !charsPlain k || v.toList.any (· == '$') then unsup "ini value syntax"
      else if !forced && !cfg.any (fun p => p.1 == k) then fail .iniUnknownKey
      else applyInis (setKey cfg k v) rest

def natStr (n : Nat) : String := toString n

/-- the entries `handle_arguments` appends to `ini_config_` -/
def writeBack (cfg : List (String × String)) (r : Resolved) : List (String × String) :=
  let cfg := setKey cfg "pika.ignore_process_mask" (if r.useMask then "0" else "1")
  let cfg := setKey cfg "pika.process_mask" ""
  let cfg := setKey cfg "pika.scheduler" r.scheduler
  let cfg := setKey cfg "pika.affinity" r.affinity
  let cfg := if r.bind.isEmpty then cfg else setKey cfg "pika.bind" r.bind
  let cfg := setKey cfg "pika.pu_step" (natStr r.puStep)
  let cfg := setKey cfg "pika.pu_offset" (natStr (r.puOffset.getD 0))
  let cfg := setKey cfg "pika.numa_sensitive" (natStr r.numa)
  let cfg := setKey cfg "pika.os_threads" (natStr r.threads)
  let cfg := setKey cfg "pika.cores" (natStr r.cores)
  match r.hp with
  | some n => setKey cfg "pika.thread_queue.high_priority_queues" (natStr n)
  | none => cfg

def cfgLookup (cfg : List (String × String)) (k : String) : String :=
  ((cfg.find? (fun p => p.1 == k)).map (·.2)).getD ""

/-! ## after command-line handling -/

def distributions : List String := ["compact", "scatter", "balanced", "numa-balanced"]

/-- `partitioner::setup_schedulers` -/
def schedulerPolicy (s : String) : Option Nat :=
  (schedulers.find? (fun p => isPrefix s p.1)).map (·.2)

/-- `init_helper`: argv[1..] of the entry function, from `pika.reconstructed_cmd_line`. -/
def entryArgv (allowUnknown : Bool) (p : Parsed) : List String :=
  if allowUnknown then p.mixed.filter (fun a => !isPrefix "--pika:" a) else p.pos

def envFun (env : List (String × String)) : String → Option String :=
  fun v => (env.find? (fun p => p.1 == v)).map (·.2)

/-- Stage 1 (`call`, first `parse_commandline`): prepend `PIKA_COMMANDLINE_OPTIONS`, tokenize,
    store.  Returns the prepended tokens and the parsed command line. -/
def parseStage (inp : Input) : M (List String × Parsed) := do
  let pre ← splitPrepend ((envFun inp.env "PIKA_COMMANDLINE_OPTIONS").getD "")
  let args := pre ++ inp.argv
  checkU (!args.all charsPlain) "argument syntax"
  let p ← tokenize cliOpts (args.length + 1) Parsed.empty args
  storeCheck [] p.occ
  checkU (p.occ.any (fun o => !supportedOpts.contains o.1)) "option outside the model"
  checkU (!p.pos.all (fun a => a.toList.all (· != '='))) "positional with ="
  pure (pre, p)

/-- Stage 2 (`handle_arguments` twice, `reconfigure`): the resolved settings and the final
    configuration tree of the runtime. -/
def configure (m : Machine) (vm : Vm) : M (Resolved × List (String × String)) := do
  -- preliminary pass (its results are discarded, its errors are not)
  let _ ← handleArguments m vm
  -- rtcfg_.reconfigure(cfg): ini definitions from the command line
  let cfg0 ← applyInis (baseCfg vm.env) (vm.multi "pika:ini")
  -- second pass: same cfgmap and options, but rtcfg_ now contains the ini definitions
  let r ← handleArguments m vm.second
  let r ← handleHp vm r
  pure (r, writeBack cfg0 r)

/-- number of worker threads of the default pool -/
def workersOf (m : Machine) (bind : String) (threads : Nat) : Nat :=
  if bind == "none" then min threads m.pus else threads

/-- Stage 3: what happens after command-line handling (affinity set-up, scheduler selection,
    runtime start, late command-line handling, entry function). -/
def startStage (m : Machine) (_pre _argv : List String) (p : Parsed) (r : Resolved)
    (cfg : List (String × String)) : M Report := do
  -- affinity_data::init / parse_affinity_options read the final configuration
  let avail := if r.useMask then m.maskPus else m.pus
  let bind := cfgLookup cfg "pika.bind"
  checkU (!(bind == "none" || distributions.contains bind)) s!"bind '{bind}'"
  check (bind != "none" && r.threads > avail) .tooManyThreads
  -- with the process mask ignored, a core limit below the machine's core count drives the
  -- distribution loops of parse_affinity_options (C15); the pinned tree can spin forever there
  checkU (bind != "none" && !r.useMask && r.cores < m.cores) "core limit with ignored process mask"
  checkU (r.threads > 64) "more than 64 threads"
  -- partitioner::setup_schedulers
  let policy ← (match schedulerPolicy (cfgLookup cfg "pika.scheduler") with
    | some p => pure p
    | none => fail .badScheduler)
  let stack ← parseStack (cfgLookup cfg "pika.stacks.small_size")
  let stackDflt ← parseStack ((findRow "pika.stacks.small_size").map (·.dflt) |>.getD "")
  let stackSmall := (stack.getD (stackDflt.getD 0))
  checkU (stackSmall < 16384 || stackSmall > 1048576 || stackSmall % 4096 != 0) "extreme or unaligned stack size"
  -- late command-line handling
  let allowUnknown := cfgLookup cfg "pika.commandline.allow_unknown" != "0"
  check (!p.unreg.isEmpty && !allowUnknown) .unknownOption
  -- (the second late parse sees the same tokens again: prepended options, then argv)
  pure { workers := workersOf m bind r.threads,
         policy, stackSmall, cfg, argv := entryArgv allowUnknown p }

def resolveM (m : Machine) (inp : Input) : M Report := do
  let (pre, p) ← parseStage inp
  let (r, cfg) ← configure m (mkVm p.occ inp.env)
  startStage m pre inp.argv p r cfg

def resolve (m : Machine) (inp : Input) : Outcome :=
  match resolveM m inp with
  | .ok r => .ok r
  | .error (.err e) => .error e
  | .error (.unsup w) => .unsupported w

/-! ## quoting (C16f): the round trip of the arguments through the configuration registry

`store_command_line` / `store_unregistered_options` write the command line into `pika.cmd_line`,
`pika.commandline.options`, `pika.unknown_cmd_line` (each argument through `encode_and_enquote`) and the
parsed options into `pika.reconstructed_cmd_line` (each value through `embed_in_quotes`);
`handle_late_commandline_options` and `init_helper` split these strings again with `split_unix`
(`boost::escaped_list_separator`, escape `\`, quotes `"` and `'`, separators blank and tab).
`embedOld` / `encodeOld` are the functions of the pinned tree, `embedNew` / `encodeNew` those of the
repaired tree (`fix:` commits on hooks-C16f).  Only the positional part of the reconstructed command line
is modelled (the program name and the `--pika:` options in front of it are plain words). -/

def isSepC (c : Char) : Bool := c == ' ' || c == '\t'
def isQuoteC (c : Char) : Bool := c == '"' || c == '\''
def isEscC (c : Char) : Bool := c == '\\'

/-- `boost::escaped_list_separator` as used by `split_unix`; `none` = it throws (`unknown escape
    sequence`, `cannot end with escape`) -/
def splitU (q : Bool) (cur : List Char) : List Char → Option (List (List Char))
  | [] => some [cur.reverse]
  | c :: rest =>
    if isEscC c then
      match rest with
      | [] => none
      | d :: rest' =>
        if d == 'n' then splitU q ('\n' :: cur) rest'
        else if isEscC d || isQuoteC d || isSepC d then splitU q (d :: cur) rest'
        else none
    else if isSepC c then
      (if q then splitU q (c :: cur) rest else (splitU false [] rest).map (cur.reverse :: ·))
    else if isQuoteC c then splitU (!q) cur rest
    else splitU q (c :: cur) rest

/-- `split_unix`: empty tokens are dropped -/
def splitUnix (s : List Char) : Option (List (List Char)) :=
  (splitU false [] s).map (fun ts => ts.filter (fun t => !t.isEmpty))

/-- a backslash in front of every escape and quote character -/
def escQ : List Char → List Char
  | [] => []
  | c :: r => if isEscC c || isQuoteC c then '\\' :: c :: escQ r else c :: escQ r

/-- an escaped value, wrapped in double quotes if `w` -/
def wrapIf (w : Bool) (e : List Char) : List Char := if w then '"' :: (e ++ ['"']) else e

/-- `embed_in_quotes` (parse_command_line.cpp) after the repair -/
def embedNew (s : List Char) : List Char := wrapIf ((escQ s).any isSepC) (escQ s)

/-- `encode_and_enquote` (command_line_handling.cpp) after the repair -/
def encodeNew (s : List Char) : List Char := wrapIf ((escQ s).any (fun c => isSepC c || c == '"')) (escQ s)

/-- `embed_in_quotes` of the pinned tree: no escaping, the quote character is chosen by looking for `"` -/
def embedOld (s : List Char) : List Char :=
  let quote := if s.any (· == '"') then '\'' else '"'
  if s.any isSepC then quote :: (s ++ [quote]) else s

/-- `encode_and_enquote` of the pinned tree: only `"` is escaped -/
def encodeOld (s : List Char) : List Char :=
  let e := s.flatMap (fun c => if c == '"' then ['\\', '"'] else [c])
  if e.any (fun c => isSepC c || c == '"') then '"' :: (e ++ ['"']) else e

/-- the tokens joined by single blanks, each behind a fixed prefix -/
def joinWith (pre : List Char) (f : List Char → List Char) : List (List Char) → List Char
  | [] => []
  | [a] => pre ++ f a
  | a :: b :: r => pre ++ f a ++ ' ' :: joinWith pre f (b :: r)

/-- `--pika:positional=` -/
def posPrefix : List Char :=
  ['-', '-', 'p', 'i', 'k', 'a', ':', 'p', 'o', 's', 'i', 't', 'i', 'o', 'n', 'a', 'l', '=']

def dropThroughEq : List Char → List Char
  | [] => []
  | c :: r => if c == '=' then r else dropThroughEq r

/-- `init_helper`: tokens that are not pika options are kept, `--pika:positional=x` becomes `x`, other
    pika options are dropped -/
def helperArgs (tokens : List (List Char)) : List (List Char) :=
  tokens.filterMap (fun t =>
    if !(['-', '-', 'p', 'i', 'k', 'a', ':'].isPrefixOf t) then some t
    else if ['p', 'o', 's', 'i', 't', 'i', 'o', 'n', 'a', 'l'].isPrefixOf (t.drop 7) && t.any (· == '=') then
      some (dropThroughEq t)
    else none)

/-- what the entry function `f(int, char**)` receives (argv[1..]) when the positional arguments are `pos`
    and the values are written with `embed`; `none` = `split_unix` throws -/
def entryArgvVia (embed : List Char → List Char) (pos : List String) : Option (List String) :=
  (splitUnix (joinWith posPrefix embed (pos.map (·.toList)))).map (fun ts => (helperArgs ts).map String.ofList)

/-- the late command-line handling re-reads the arguments written with `encode`; `none` = it throws and
    `pika::init` returns -1 -/
def lateReparse (encode : List Char → List Char) (args : List String) : Option (List String) :=
  (splitUnix (joinWith [] encode (args.map (·.toList)))).map (fun ts => ts.map String.ofList)

end PikaVerif.Config
