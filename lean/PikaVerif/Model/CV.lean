import PikaVerif.Core.Basic
import PikaVerif.Core.Sum
/-!
# Model of `pika::condition_variable` / `condition_variable_any` (C07)

Follows `libs/pika/synchronization/include/pika/synchronization/condition_variable.hpp`
(public `wait`, `wait(pred)`, `wait_until/for`, `wait_until/for(pred)`, `notify_one`,
`notify_all`) on top of `detail::condition_variable`
(`src/detail/condition_variable.cpp`: `wait`, `wait_until`, `notify_one`, `notify_all`,
`reset_queue_entry`) at the granularity of the hook events compiled into those files
(`sl.acq`, `sl.rel` on the internal spinlock `data_->mtx_`; `cv.enq`, `cv.pop`, `cv.none`,
`cv.all`, `cv.popall`, `cv.woke`), of the calls the code makes on the execution agent
(`ag.suspend`, `ag.woke`, `ag.resume`, `ag.sleep`, `ag.timeout`) and of the calls it makes
on the *user lock* (`ul.acq`, `ul.rel`).  The user lock is an abstract lock: any `Lockable`
whose `lock()` returns only when nobody else holds it.  The predicate of the predicate
forms reads one shared boolean `flag` that user code changes only while holding the user
lock (operation `set`).

One condition variable, one user lock, `n` threads.  The model is an acceptor:
`step s e = none` means "the code as modelled cannot produce event `e` in state `s`".

The order of the steps of the public `wait` is the order in the C++ text:
`sl.acq` (internal lock) → `ul.rel` (user lock released *under* the internal lock) →
`cv.enq` → `sl.rel` → `ag.suspend` … `ag.woke` → `sl.acq` → `cv.woke` (+ erase of a still
linked entry) → `sl.rel` → `ul.acq`.
-/
namespace PikaVerif.CV

/-- Public operations of a harness thread. -/
inductive Op where
  | lock                         -- user_lock.lock()
  | unlock                       -- user_lock.unlock()
  | set (v : Bool)               -- flag = v (caller holds the user lock)
  | notify (all : Bool)          -- cv.notify_one() / cv.notify_all()
  | wait (tm pr : Bool)          -- cv.wait / wait_for, without / with predicate
  deriving DecidableEq, Repr

def isTimed : Op → Bool
  | .wait tm _ => tm
  | _ => false

def isPred : Op → Bool
  | .wait _ pr => pr
  | _ => false

def isWait : Op → Bool
  | .wait _ _ => true
  | _ => false

def b2n (b : Bool) : Nat := if b then 1 else 0

/-- Program counter of a thread inside an operation. -/
inductive Pc where
  | idle
  | wantU                        -- `lock` invoked, user lock not yet taken
  | unlocking                    -- `unlock` invoked
  | setting (v : Bool)           -- `set v` invoked
  | predChk (final : Bool)       -- about to evaluate the predicate (user lock held);
                                 -- `final`: after a timeout, the value is the result
  | want                         -- inside public wait, internal lock not yet taken
  | locked                       -- internal lock taken, user lock still held
  | released                     -- user lock released (internal lock held), before cv.enq
  | enq (tm : Bool)              -- entry pushed on the queue (internal lock held)
  | unl (tm p : Bool)            -- internal lock released, about to suspend / sleep;
                                 -- `p` = entry already popped by a notifier
  | susp (p : Bool)              -- inside agent.suspend
  | slp (p : Bool)               -- inside agent.sleep_until
  | wokeNL (tm p : Bool)         -- woke up, internal lock not yet re-taken
  | relk (tm p : Bool)           -- internal lock re-taken, before the ctx_ test (cv.woke)
  | post (still : Bool)          -- after cv.woke (+ erase if still linked), internal lock held
  | relockU (still : Bool)       -- internal lock released, user lock not yet re-taken
  | retn (r : Nat)               -- wait about to return r (user lock held)
  | nWant                        -- notify invoked, internal lock not yet taken
  | nLocked                      -- notify: internal lock held, nothing done yet
  | nAll                         -- notify_all: queue swapped out, popping entries
  | nDone                        -- notify_one: done, internal lock held
  | nRet                         -- notify: internal lock released
  | fin
  deriving DecidableEq, Repr

inductive Ev where
  | inv (t : Nat) (o : Op)
  | ret (t : Nat) (r : Nat)
  | ulAcq (t : Nat)
  | ulRel (t : Nat)
  | setFlag (t : Nat) (v : Bool)
  | pred (t : Nat) (v : Bool)
  | slAcq (t : Nat)
  | slRel (t : Nat)
  | cvEnq (t : Nat) (size : Nat) (timed : Bool)
  | popResume (t : Nat) (size : Nat) (tgt : Nat) (dropped : Bool)
  | cvNone (t : Nat)
  | cvAll (t : Nat) (size : Nat)
  | popAll (t : Nat) (size : Nat) (tgt : Nat) (dropped : Bool)
  | cvWoke (t : Nat) (stillQueued timed : Bool)
  | suspend (t : Nat)
  | woke (t : Nat)
  | sleep (t : Nat)
  | timeout (t : Nat)
  | done (t : Nat)
  deriving Repr

structure St where
  n : Nat
  lock : Option Nat              -- holder of the internal spinlock `data_->mtx_`
  ulock : Option Nat             -- holder of the user lock
  queue : List Nat               -- `cond_.queue_` (entries identified by their thread)
  tok : Nat → Nat                -- agent wake-up tokens
  pc : Nat → Pc
  flag : Bool                    -- the shared variable the predicate reads
  curOp : Nat → Op               -- operation each thread invoked last
  /-- history: `waiting t` = thread `t` released the user lock inside a wait and its wait
      entry has been removed neither by a notifier nor by itself since -/
  waiting : Nat → Bool
  /-- history: thread was popped by a notifier since it last entered the public wait -/
  poppedOp : Nat → Bool
  /-- history: number of entries thread `t` pushed / number of times a notifier popped
      (and resumed) thread `t` -/
  enqs : Nat → Nat
  pops : Nat → Nat
  /-- history: some timed wait has been enqueued -/
  everTimed : Bool

def init (n : Nat) (flag : Bool) : St :=
  { n := n, lock := none, ulock := none, queue := [], tok := fun _ => 0, pc := fun _ => .idle,
    flag := flag, curOp := fun _ => .lock, waiting := fun _ => false, poppedOp := fun _ => false,
    enqs := fun _ => 0, pops := fun _ => 0, everTimed := false }

/-- Mark a waiter as popped from the cv queue (its `ctx_` was reset by the notifier). -/
def setPopped : Pc → Option Pc
  | .unl tm false => some (.unl tm true)
  | .susp false => some (.susp true)
  | .slp false => some (.slp true)
  | .wokeNL tm false => some (.wokeNL tm true)
  | _ => none

/-- `notify_one` / one iteration of `notify_all`: pop the front entry, reset its `ctx_`,
    `ctx.resume()` (hook event `cv.pop` / `cv.popall` immediately followed by the agent call;
    no preemption point in between).  The agent drops a resume aimed at a thread that is
    polling a deadline (`dropped`).  `pcT` is the notifier's next program counter. -/
def popCore (s : St) (t size tgt : Nat) (dropped : Bool) (pcT : Pc) : Option St :=
  match s.queue with
  | g :: rest =>
    if size = rest.length ∧ g = tgt then
      match setPopped (s.pc tgt) with
      | some p' =>
        if dropped = decide (s.pc tgt = .slp false) then
          some { s with queue := rest,
                        tok := if dropped then s.tok else upd s.tok tgt (s.tok tgt + 1),
                        pc := upd (upd s.pc tgt p') t pcT,
                        waiting := upd s.waiting tgt false,
                        poppedOp := upd s.poppedOp tgt true,
                        pops := upd s.pops tgt (s.pops tgt + 1) }
        else none
      | none => none
    else none
  | [] => none

def step (s : St) : Ev → Option St
  | .inv t o =>
    if t < s.n ∧ s.pc t = .idle then
      match o with
      | .lock =>
        if s.ulock ≠ some t then some { s with pc := upd s.pc t .wantU, curOp := upd s.curOp t o }
        else none
      | .unlock =>
        if s.ulock = some t then some { s with pc := upd s.pc t .unlocking, curOp := upd s.curOp t o }
        else none
      | .set v =>
        if s.ulock = some t then some { s with pc := upd s.pc t (.setting v), curOp := upd s.curOp t o }
        else none
      | .notify _ => some { s with pc := upd s.pc t .nWant, curOp := upd s.curOp t o }
      | .wait _ pr =>
        -- precondition of wait: the caller owns the user lock
        if s.ulock = some t then
          some { s with pc := upd s.pc t (if pr then .predChk false else .want),
                        curOp := upd s.curOp t o, poppedOp := upd s.poppedOp t false }
        else none
    else none
  | .ulAcq t =>
    if t < s.n ∧ s.ulock = none then
      match s.pc t with
      | .wantU => some { s with ulock := some t, pc := upd s.pc t .idle }
      | .relockU still =>
        -- public wait returns: plain forms report the status, predicate forms re-test
        some { s with ulock := some t,
                      pc := upd s.pc t (if isPred (s.curOp t)
                                         then .predChk (isTimed (s.curOp t) && still)
                                         else .retn (b2n (isTimed (s.curOp t) && still))) }
      | _ => none
    else none
  | .ulRel t =>
    if t < s.n ∧ s.ulock = some t then
      match s.pc t with
      | .unlocking => some { s with ulock := none, pc := upd s.pc t .idle }
      | .locked => some { s with ulock := none, pc := upd s.pc t .released,
                                 waiting := upd s.waiting t true }
      | _ => none
    else none
  | .setFlag t v =>
    if t < s.n then
      match s.pc t with
      | .setting v' => if v = v' then some { s with flag := v, pc := upd s.pc t .idle } else none
      | _ => none
    else none
  | .pred t v =>
    if t < s.n ∧ v = s.flag then
      match s.pc t with
      | .predChk final =>
        some { s with pc := upd s.pc t (if final then .retn (b2n v) else if v then .retn 1 else .want) }
      | _ => none
    else none
  | .slAcq t =>
    if t < s.n ∧ s.lock = none then
      match s.pc t with
      | .want => some { s with lock := some t, pc := upd s.pc t .locked,
                               poppedOp := upd s.poppedOp t false }
      | .wokeNL tm p => some { s with lock := some t, pc := upd s.pc t (.relk tm p) }
      | .nWant => some { s with lock := some t, pc := upd s.pc t .nLocked }
      | _ => none
    else none
  | .slRel t =>
    if t < s.n ∧ s.lock = some t then
      match s.pc t with
      | .enq tm => some { s with lock := none, pc := upd s.pc t (.unl tm false) }
      | .post still => some { s with lock := none, pc := upd s.pc t (.relockU still) }
      | .nDone => some { s with lock := none, pc := upd s.pc t .nRet }
      | .nAll => if s.queue = [] then some { s with lock := none, pc := upd s.pc t .nRet } else none
      | _ => none
    else none
  | .cvEnq t size tm =>
    if t < s.n ∧ s.lock = some t ∧ size = s.queue.length + 1 ∧ tm = isTimed (s.curOp t) then
      match s.pc t with
      | .released =>
        some { s with queue := s.queue ++ [t], pc := upd s.pc t (.enq tm),
                      enqs := upd s.enqs t (s.enqs t + 1), everTimed := s.everTimed || tm }
      | _ => none
    else none
  | .popResume t size tgt dropped =>
    if t < s.n ∧ s.lock = some t ∧ s.curOp t = .notify false then
      match s.pc t with
      | .nLocked => popCore s t size tgt dropped .nDone
      | _ => none
    else none
  | .cvNone t =>
    if t < s.n ∧ s.lock = some t ∧ s.queue = [] ∧ s.curOp t = .notify false then
      match s.pc t with
      | .nLocked => some { s with pc := upd s.pc t .nDone }
      | _ => none
    else none
  | .cvAll t size =>
    if t < s.n ∧ s.lock = some t ∧ size = s.queue.length ∧ s.curOp t = .notify true then
      match s.pc t with
      | .nLocked => some { s with pc := upd s.pc t .nAll }
      | _ => none
    else none
  | .popAll t size tgt dropped =>
    if t < s.n ∧ s.lock = some t then
      match s.pc t with
      | .nAll => popCore s t size tgt dropped .nAll
      | _ => none
    else none
  | .suspend t =>
    if t < s.n then
      match s.pc t with
      | .unl false p => some { s with pc := upd s.pc t (.susp p) }
      | _ => none
    else none
  | .woke t =>
    if t < s.n ∧ 0 < s.tok t then
      match s.pc t with
      | .susp p => some { s with tok := upd s.tok t (s.tok t - 1), pc := upd s.pc t (.wokeNL false p) }
      | _ => none
    else none
  | .sleep t =>
    if t < s.n then
      match s.pc t with
      | .unl true p => some { s with tok := upd s.tok t 0, pc := upd s.pc t (.slp p) }
      | _ => none
    else none
  | .timeout t =>
    if t < s.n then
      match s.pc t with
      | .slp p => some { s with pc := upd s.pc t (.wokeNL true p) }
      | _ => none
    else none
  | .cvWoke t still tm =>
    if t < s.n ∧ s.lock = some t then
      match s.pc t with
      | .relk tmm popped =>
        if tm = tmm ∧ still = !popped then
          if popped then some { s with pc := upd s.pc t (.post false) }
          else
            -- entry still linked: `reset_queue_entry` erases it (timeout, or a wake-up that
            -- was not caused by a notifier)
            some { s with queue := s.queue.erase t, waiting := upd s.waiting t false,
                          pc := upd s.pc t (.post true) }
        else none
      | _ => none
    else none
  | .ret t r =>
    if t < s.n then
      match s.pc t with
      | .retn b => if b = r then some { s with pc := upd s.pc t .idle } else none
      | .nRet => if r = 0 then some { s with pc := upd s.pc t .idle } else none
      | _ => none
    else none
  | .done t =>
    if t < s.n ∧ s.pc t = .idle then some { s with pc := upd s.pc t .fin } else none

end PikaVerif.CV
