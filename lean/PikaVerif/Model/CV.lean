import PikaVerif.Core.Basic
import PikaVerif.Core.Sum
/-!
# Model of `pika::condition_variable` / `condition_variable_any` (C07)

Follows `libs/pika/synchronization/include/pika/synchronization/condition_variable.hpp`
(public `wait`, `wait(pred)`, `wait_until/for`, `wait_until/for(pred)`, `notify_one`,
`notify_all`) on top of `detail::condition_variable`
(`src/detail/condition_variable.cpp`: `wait`, `wait_until`, `notify_one`, `notify_all`,
`reset_queue_entry`) at the granularity of the hook events compiled into those files
(`sl.acq`, `sl.rel` on the internal spinlock `data_->mtx_`; `cv.enq`, `cv.pop`, `cv.none`,
`cv.all`, `cv.popall`, `cv.woke`), of the calls the code makes on the execution agent
(`ag.suspend`, `ag.woke`, `ag.resume`, `ag.sleep`, `ag.timeout`) and of the calls it makes
on the *user lock* (`ul.acq`, `ul.rel`).  The user lock is an abstract lock: any `Lockable`
whose `lock()` returns only when nobody else holds it.  The predicate of the predicate
forms reads one shared boolean `flag` that user code changes only while holding the user
lock (operation `set`).

One condition variable, one user lock, `n` threads.  The model is an acceptor:
`step s e = none` means "the code as modelled cannot produce event `e` in state `s`".

The order of the steps of the public `wait` is the order in the C++ text:
`sl.acq` (internal lock) → `ul.rel` (user lock released *under* the internal lock) →
`cv.enq` → `sl.rel` → `ag.suspend` … `ag.woke` → `sl.acq` → `cv.woke` (+ erase of a still
linked entry) → `sl.rel` → `ul.acq`.

## Stop-token wait (follow-up C07s)

`condition_variable_any::wait(lock, stop_token, pred)` (operation `swait false`),
`wait_until/wait_for(lock, stop_token, t, pred)` (operation `swait true`: the same text with
`cond_.wait_until`, plus `should_stop = timeout || stop_requested()` (S2, event `cva.stop2`)
computed under the internal lock after the wait and `if (should_stop) return pred()`) and
`stop_source::request_stop()` (operation `stop`) on one shared stop state:

```
S0:  if (stoken.stop_requested()) return pred();                       cva.stop0 v
     stop_callback cb(stoken, [&]{ lock mtx_; cond_.notify_all(); });  stop.acq(2) stop.push | (stop seen) callback inline, stop.infin
     while (!pred()) {                                                 pred v
       unique_lock l(data->mtx_);                                      sl.acq
S1:    if (stoken.stop_requested()) return false;                      cva.stop1 v   (sl.rel on the way out)
       unlock user lock; cond_.wait(l); relock                         ul.rel cv.enq sl.rel ag.suspend … ul.acq
     }
     return true;        ~stop_callback: remove_callback               stop.acq(0) stop.unlink r [stop.self stop.waited]
```

The stop state is *not* modelled here in detail — that is C14's subject (`Model/Stop.lean`).
This model talks to it through a small interface, the events that change the abstract state
`stopReq` (the stop-requested bit), `sLock` (holder of the lock bit), `cbs` (`callbacks_`,
head first; a callback is identified by the waiting thread that owns it), `cur` (the
callback `request_stop` has dequeued and not yet marked finished), `cbFin`
(`callback_finished_executing_`) and `kept` (`stop_callback::state_` is non-null, i.e.
`add_callback` returned true):

| event here | C14 event (`Stop.Ev`) | hook line |
|---|---|---|
| `stAcq t 1` | `acq` of kind `rs` (sets the stop bit and the lock bit in one CAS) | `stop.acq _ 1` |
| `stAcq t 2` / `stAcq t 0` | `acq` of kind `reg` / `unreg`, `relock` | `stop.acq _ 2` / `_ 0` |
| `stSeen t` | `load`/`casFail`/`reload` of kind `reg` that observes the stop bit | `stop.load/casfail/reload w 2` |
| `stPush`, `stDeq`, `stFin`, `stInFin`, `stUnlink`, `stSelf`, `stWaited`, `stRsDone` | `push`, `deq`, `finStore`, `inFin`, `unlink`, `selfChk`, `waited`, `rsDone` | `stop.push` … |

The lock loops of `stop_state` (`stop.load`, `stop.cas`, `stop.casfail`, `stop.reload`) are
stutter for this model, except that a registration that *observes* the stop bit runs the
callback on the registering thread.  As in C14's model the `unlock()` (no hook, no
preemption point) is merged into the event before it (`push`, `deq`, `unlink`, `rsDone`).
The callback is a `notify_all` (pcs `cWant/cLocked/cAll/cRet k`; `k = true`: run by the
waiter itself from the `stop_callback` constructor).
-/
namespace PikaVerif.CV

/-- Public operations of a harness thread. -/
inductive Op where
  | lock                         -- user_lock.lock()
  | unlock                       -- user_lock.unlock()
  | set (v : Bool)               -- flag = v (caller holds the user lock)
  | notify (all : Bool)          -- cv.notify_one() / cv.notify_all()
  | wait (tm pr : Bool)          -- cv.wait / wait_for, without / with predicate
  | swait (tm : Bool)            -- cv.wait(lock, stop_token, pred) / cv.wait_for(lock, stop_token, d, pred)
  | stop                         -- stop_source.request_stop()
  deriving DecidableEq, Repr

def isTimed : Op → Bool
  | .wait tm _ => tm
  | .swait tm => tm
  | _ => false

def isPred : Op → Bool
  | .wait _ pr => pr
  | .swait _ => true
  | _ => false

def isWait : Op → Bool
  | .wait _ _ => true
  | .swait _ => true
  | _ => false

def isStop : Op → Bool
  | .swait _ => true
  | _ => false

def b2n (b : Bool) : Nat := if b then 1 else 0

/-- Program counter of a thread inside an operation. -/
inductive Pc where
  | idle
  | wantU                        -- `lock` invoked, user lock not yet taken
  | unlocking                    -- `unlock` invoked
  | setting (v : Bool)           -- `set v` invoked
  | predChk (final : Bool)       -- about to evaluate the predicate (user lock held);
                                 -- `final`: after a timeout, the value is the result
  | want                         -- inside public wait, internal lock not yet taken
  | locked                       -- internal lock taken, user lock still held
  | released                     -- user lock released (internal lock held), before cv.enq
  | enq (tm : Bool)              -- entry pushed on the queue (internal lock held)
  | unl (tm p : Bool)            -- internal lock released, about to suspend / sleep;
                                 -- `p` = entry already popped by a notifier
  | susp (p : Bool)              -- inside agent.suspend
  | slp (p : Bool)               -- inside agent.sleep_until
  | wokeNL (tm p : Bool)         -- woke up, internal lock not yet re-taken
  | relk (tm p : Bool)           -- internal lock re-taken, before the ctx_ test (cv.woke)
  | post (still : Bool)          -- after cv.woke (+ erase if still linked), internal lock held
  | postS (still : Bool)         -- timed stop-token wait: `should_stop` computed (S2), internal lock held
  | relockU (still : Bool)       -- internal lock released, user lock not yet re-taken
  | retn (r : Nat)               -- wait about to return r (user lock held)
  | nWant                        -- notify invoked, internal lock not yet taken
  | nLocked                      -- notify: internal lock held, nothing done yet
  | nAll                         -- notify_all: queue swapped out, popping entries
  | nDone                        -- notify_one: done, internal lock held
  | nRet                         -- notify: internal lock released
  -- stop-token wait (operation `swait`)
  | sChk0                        -- before the first `stoken.stop_requested()` (S0)
  | sReg                         -- constructing the stop_callback: inside add_callback, stop lock not taken
  | sRegLk                       -- add_callback holds the stop-state lock, before the push
  | cWant (k : Bool)             -- the stop callback was called (k: inline from the constructor); before `mtx_.lock()`
  | cLocked (k : Bool)           -- callback: internal lock held, before notify_all's swap
  | cAll (k : Bool)              -- callback: notify_all popping entries
  | cRet (k : Bool)              -- callback: internal lock released, before the finished store
  | sChk1                        -- loop body: internal lock held, before `stoken.stop_requested()` (S1)
  | sStopped                     -- S1 read true: `return false`, internal lock still held
  | sDtor (r : Nat)              -- result r computed; `~stop_callback` of a registered callback, stop lock not taken
  | sRm (r : Nat)                -- remove_callback holds the stop-state lock
  | sRmChk (r : Nat)             -- not in the list any more; before the signalling-thread comparison
  | sRmWait (r : Nat)            -- waiting for `callback_finished_executing_`
  -- request_stop (operation `stop`)
  | rsWant                       -- inside lock_and_request_stop
  | rsLocked                     -- stop bit set by this thread, stop lock held: head of the callback loop
  | rsRelock                     -- callback finished, re-taking the stop lock
  | rsRet (b : Bool)             -- about to return b
  | fin
  deriving DecidableEq, Repr

inductive Ev where
  | inv (t : Nat) (o : Op)
  | ret (t : Nat) (r : Nat)
  | ulAcq (t : Nat)
  | ulRel (t : Nat)
  | setFlag (t : Nat) (v : Bool)
  | pred (t : Nat) (v : Bool)
  | slAcq (t : Nat)
  | slRel (t : Nat)
  | cvEnq (t : Nat) (size : Nat) (timed : Bool)
  | popResume (t : Nat) (size : Nat) (tgt : Nat) (dropped : Bool)
  | cvNone (t : Nat)
  | cvAll (t : Nat) (size : Nat)
  | popAll (t : Nat) (size : Nat) (tgt : Nat) (dropped : Bool)
  | cvWoke (t : Nat) (stillQueued timed : Bool)
  | suspend (t : Nat)
  | woke (t : Nat)
  | sleep (t : Nat)
  | timeout (t : Nat)
  | done (t : Nat)
  -- stop-token interface (see the table in the header)
  | stop0 (t : Nat) (v : Bool)
  | stop1 (t : Nat) (v : Bool)
  | stop2 (t : Nat) (ss : Bool)
  | stSeen (t : Nat)
  | stAcq (t : Nat) (mode : Nat)
  | stPush (t : Nat) (hadNext : Bool)
  | stDeq (t : Nat) (c : Nat) (more : Bool)
  | stFin (t : Nat) (c : Nat) (removed : Bool)
  | stInFin (t : Nat)
  | stUnlink (t : Nat) (r : Bool)
  | stSelf (t : Nat) (eq : Bool)
  | stWaited (t : Nat)
  | stRsDone (t : Nat)
  deriving Repr

structure St where
  n : Nat
  lock : Option Nat              -- holder of the internal spinlock `data_->mtx_`
  ulock : Option Nat             -- holder of the user lock
  queue : List Nat               -- `cond_.queue_` (entries identified by their thread)
  tok : Nat → Nat                -- agent wake-up tokens
  pc : Nat → Pc
  flag : Bool                    -- the shared variable the predicate reads
  curOp : Nat → Op               -- operation each thread invoked last
  /-- history: `waiting t` = thread `t` released the user lock inside a wait and its wait
      entry has been removed neither by a notifier nor by itself since -/
  waiting : Nat → Bool
  /-- history: thread was popped by a notifier since it last entered the public wait -/
  poppedOp : Nat → Bool
  /-- history: number of entries thread `t` pushed / number of times a notifier popped
      (and resumed) thread `t` -/
  enqs : Nat → Nat
  pops : Nat → Nat
  /-- history: some timed wait has been enqueued -/
  everTimed : Bool
  /-- abstract stop state (interface to C14): stop-requested bit, holder of the lock bit,
      `callbacks_` (head first; callback = owning thread), the callback dequeued by
      `request_stop` and not yet marked finished, `callback_finished_executing_`,
      `stop_callback::state_ != nullptr` of the thread's current callback object -/
  stopReq : Bool
  sLock : Option Nat
  cbs : List Nat
  cur : Option Nat
  cbFin : Nat → Bool
  kept : Nat → Bool
  /-- the local `should_stop` of `wait_until(lock, stop_token, …)` -/
  sstop : Nat → Bool
  /-- history: the thread whose `request_stop` won; that call has finished its callback loop -/
  reqT : Nat
  stopDone : Bool

def init (n : Nat) (flag : Bool) : St :=
  { n := n, lock := none, ulock := none, queue := [], tok := fun _ => 0, pc := fun _ => .idle,
    flag := flag, curOp := fun _ => .lock, waiting := fun _ => false, poppedOp := fun _ => false,
    enqs := fun _ => 0, pops := fun _ => 0, everTimed := false,
    stopReq := false, sLock := none, cbs := [], cur := none, cbFin := fun _ => false,
    kept := fun _ => false, sstop := fun _ => false, reqT := 0, stopDone := false }

/-- Where a wait form goes once its result `r` is known: a stop-token wait whose callback is
    registered runs `~stop_callback` first. -/
def exitPc (s : St) (t : Nat) (r : Nat) : Pc :=
  if isStop (s.curOp t) = true ∧ s.kept t = true then .sDtor r else .retn r

/-- Mark a waiter as popped from the cv queue (its `ctx_` was reset by the notifier). -/
def setPopped : Pc → Option Pc
  | .unl tm false => some (.unl tm true)
  | .susp false => some (.susp true)
  | .slp false => some (.slp true)
  | .wokeNL tm false => some (.wokeNL tm true)
  | _ => none

/-- `notify_one` / one iteration of `notify_all`: pop the front entry, reset its `ctx_`,
    `ctx.resume()` (hook event `cv.pop` / `cv.popall` immediately followed by the agent call;
    no preemption point in between).  The agent drops a resume aimed at a thread that is
    polling a deadline (`dropped`).  `pcT` is the notifier's next program counter. -/
def popCore (s : St) (t size tgt : Nat) (dropped : Bool) (pcT : Pc) : Option St :=
  match s.queue with
  | g :: rest =>
    if size = rest.length ∧ g = tgt then
      match setPopped (s.pc tgt) with
      | some p' =>
        if dropped = decide (s.pc tgt = .slp false) then
          some { s with queue := rest,
                        tok := if dropped then s.tok else upd s.tok tgt (s.tok tgt + 1),
                        pc := upd (upd s.pc tgt p') t pcT,
                        waiting := upd s.waiting tgt false,
                        poppedOp := upd s.poppedOp tgt true,
                        pops := upd s.pops tgt (s.pops tgt + 1) }
        else none
      | none => none
    else none
  | [] => none

def step (s : St) : Ev → Option St
  | .inv t o =>
    if t < s.n ∧ s.pc t = .idle then
      match o with
      | .lock =>
        if s.ulock ≠ some t then some { s with pc := upd s.pc t .wantU, curOp := upd s.curOp t o }
        else none
      | .unlock =>
        if s.ulock = some t then some { s with pc := upd s.pc t .unlocking, curOp := upd s.curOp t o }
        else none
      | .set v =>
        if s.ulock = some t then some { s with pc := upd s.pc t (.setting v), curOp := upd s.curOp t o }
        else none
      | .notify _ => some { s with pc := upd s.pc t .nWant, curOp := upd s.curOp t o }
      | .wait _ pr =>
        -- precondition of wait: the caller owns the user lock
        if s.ulock = some t then
          some { s with pc := upd s.pc t (if pr then .predChk false else .want),
                        curOp := upd s.curOp t o, poppedOp := upd s.poppedOp t false }
        else none
      | .swait _ =>
        if s.ulock = some t then
          some { s with pc := upd s.pc t .sChk0, curOp := upd s.curOp t o,
                        poppedOp := upd s.poppedOp t false, kept := upd s.kept t false }
        else none
      | .stop => some { s with pc := upd s.pc t .rsWant, curOp := upd s.curOp t o }
    else none
  | .ulAcq t =>
    if t < s.n ∧ s.ulock = none then
      match s.pc t with
      | .wantU => some { s with ulock := some t, pc := upd s.pc t .idle }
      | .relockU still =>
        -- public wait returns: plain forms report the status, predicate forms re-test
        some { s with ulock := some t,
                      pc := upd s.pc t (if isPred (s.curOp t)
                                         then .predChk (if isStop (s.curOp t) && isTimed (s.curOp t) then s.sstop t
                                                        else isTimed (s.curOp t) && still)
                                         else .retn (b2n (isTimed (s.curOp t) && still))) }
      | _ => none
    else none
  | .ulRel t =>
    if t < s.n ∧ s.ulock = some t then
      match s.pc t with
      | .unlocking => some { s with ulock := none, pc := upd s.pc t .idle }
      | .locked => some { s with ulock := none, pc := upd s.pc t .released,
                                 waiting := upd s.waiting t true }
      | _ => none
    else none
  | .setFlag t v =>
    if t < s.n then
      match s.pc t with
      | .setting v' => if v = v' then some { s with flag := v, pc := upd s.pc t .idle } else none
      | _ => none
    else none
  | .pred t v =>
    if t < s.n ∧ v = s.flag then
      match s.pc t with
      | .predChk final =>
        some { s with pc := upd s.pc t (if final then exitPc s t (b2n v) else if v then exitPc s t 1 else .want) }
      | _ => none
    else none
  | .slAcq t =>
    if t < s.n ∧ s.lock = none then
      match s.pc t with
      | .want => some { s with lock := some t, pc := upd s.pc t (if isStop (s.curOp t) then .sChk1 else .locked),
                               poppedOp := upd s.poppedOp t false }
      | .cWant k => some { s with lock := some t, pc := upd s.pc t (.cLocked k) }
      | .wokeNL tm p => some { s with lock := some t, pc := upd s.pc t (.relk tm p) }
      | .nWant => some { s with lock := some t, pc := upd s.pc t .nLocked }
      | _ => none
    else none
  | .slRel t =>
    if t < s.n ∧ s.lock = some t then
      match s.pc t with
      | .enq tm => some { s with lock := none, pc := upd s.pc t (.unl tm false) }
      | .post still =>
        -- the timed stop-token wait computes `should_stop` (S2) before it leaves the block
        if isStop (s.curOp t) && isTimed (s.curOp t) then none
        else some { s with lock := none, pc := upd s.pc t (.relockU still) }
      | .postS still => some { s with lock := none, pc := upd s.pc t (.relockU still) }
      | .nDone => some { s with lock := none, pc := upd s.pc t .nRet }
      | .nAll => if s.queue = [] then some { s with lock := none, pc := upd s.pc t .nRet } else none
      | .cAll k => if s.queue = [] then some { s with lock := none, pc := upd s.pc t (.cRet k) } else none
      | .sStopped => some { s with lock := none, pc := upd s.pc t (exitPc s t 0) }
      | _ => none
    else none
  | .cvEnq t size tm =>
    if t < s.n ∧ s.lock = some t ∧ size = s.queue.length + 1 ∧ tm = isTimed (s.curOp t) then
      match s.pc t with
      | .released =>
        some { s with queue := s.queue ++ [t], pc := upd s.pc t (.enq tm),
                      enqs := upd s.enqs t (s.enqs t + 1), everTimed := s.everTimed || tm }
      | _ => none
    else none
  | .popResume t size tgt dropped =>
    if t < s.n ∧ s.lock = some t ∧ s.curOp t = .notify false then
      match s.pc t with
      | .nLocked => popCore s t size tgt dropped .nDone
      | _ => none
    else none
  | .cvNone t =>
    if t < s.n ∧ s.lock = some t ∧ s.queue = [] ∧ s.curOp t = .notify false then
      match s.pc t with
      | .nLocked => some { s with pc := upd s.pc t .nDone }
      | _ => none
    else none
  | .cvAll t size =>
    if t < s.n ∧ s.lock = some t ∧ size = s.queue.length then
      match s.pc t with
      | .nLocked => if s.curOp t = .notify true then some { s with pc := upd s.pc t .nAll } else none
      | .cLocked k => some { s with pc := upd s.pc t (.cAll k) }
      | _ => none
    else none
  | .popAll t size tgt dropped =>
    if t < s.n ∧ s.lock = some t then
      match s.pc t with
      | .nAll => popCore s t size tgt dropped .nAll
      | .cAll k => popCore s t size tgt dropped (.cAll k)
      | _ => none
    else none
  | .suspend t =>
    if t < s.n then
      match s.pc t with
      | .unl false p => some { s with pc := upd s.pc t (.susp p) }
      | _ => none
    else none
  | .woke t =>
    if t < s.n ∧ 0 < s.tok t then
      match s.pc t with
      | .susp p => some { s with tok := upd s.tok t (s.tok t - 1), pc := upd s.pc t (.wokeNL false p) }
      | _ => none
    else none
  | .sleep t =>
    if t < s.n then
      match s.pc t with
      | .unl true p => some { s with tok := upd s.tok t 0, pc := upd s.pc t (.slp p) }
      | _ => none
    else none
  | .timeout t =>
    if t < s.n then
      match s.pc t with
      | .slp p => some { s with pc := upd s.pc t (.wokeNL true p) }
      | _ => none
    else none
  | .cvWoke t still tm =>
    if t < s.n ∧ s.lock = some t then
      match s.pc t with
      | .relk tmm popped =>
        if tm = tmm ∧ still = !popped then
          if popped then some { s with pc := upd s.pc t (.post false) }
          else
            -- entry still linked: `reset_queue_entry` erases it (timeout, or a wake-up that
            -- was not caused by a notifier)
            some { s with queue := s.queue.erase t, waiting := upd s.waiting t false,
                          pc := upd s.pc t (.post true) }
        else none
      | _ => none
    else none
  | .ret t r =>
    if t < s.n then
      match s.pc t with
      | .retn b => if b = r then some { s with pc := upd s.pc t .idle } else none
      | .nRet => if r = 0 then some { s with pc := upd s.pc t .idle } else none
      | .rsRet b => if r = b2n b then some { s with pc := upd s.pc t .idle } else none
      -- lock_and_request_stop observed the stop bit: request_stop returns false
      | .rsWant => if r = 0 ∧ s.stopReq = true then some { s with pc := upd s.pc t .idle } else none
      | _ => none
    else none
  | .done t =>
    if t < s.n ∧ s.pc t = .idle then some { s with pc := upd s.pc t .fin } else none
  | .stop0 t v =>
    if t < s.n ∧ v = s.stopReq then
      match s.pc t with
      | .sChk0 => some { s with pc := upd s.pc t (if v then .predChk true else .sReg) }
      | _ => none
    else none
  | .stop1 t v =>
    if t < s.n ∧ s.lock = some t ∧ v = s.stopReq then
      match s.pc t with
      | .sChk1 => some { s with pc := upd s.pc t (if v then .sStopped else .locked) }
      | _ => none
    else none
  | .stop2 t ss =>
    -- should_stop = (reason == timeout) || stoken.stop_requested(), under the internal lock
    if t < s.n ∧ s.lock = some t ∧ s.curOp t = .swait true then
      match s.pc t with
      | .post still =>
        if ss = (still || s.stopReq) then
          some { s with sstop := upd s.sstop t ss, pc := upd s.pc t (.postS still) }
        else none
      | _ => none
    else none
  | .stSeen t =>
    -- lock_if_not_stopped observed the stop bit: the callback runs on this thread
    if t < s.n ∧ s.stopReq = true then
      match s.pc t with
      | .sReg => some { s with pc := upd s.pc t (.cWant true) }
      | _ => none
    else none
  | .stAcq t mode =>
    if t < s.n ∧ s.sLock = none then
      match s.pc t with
      | .sReg =>
        if mode = 2 ∧ s.stopReq = false then some { s with sLock := some t, pc := upd s.pc t .sRegLk }
        else none
      | .rsWant =>
        if mode = 1 ∧ s.stopReq = false then
          some { s with sLock := some t, stopReq := true, reqT := t, pc := upd s.pc t .rsLocked }
        else none
      | .rsRelock => if mode = 0 then some { s with sLock := some t, pc := upd s.pc t .rsLocked } else none
      | .sDtor r => if mode = 0 then some { s with sLock := some t, pc := upd s.pc t (.sRm r) } else none
      | _ => none
    else none
  | .stPush t hadNext =>
    if t < s.n ∧ s.sLock = some t ∧ hadNext = decide (s.cbs ≠ []) then
      match s.pc t with
      | .sRegLk =>
        some { s with cbs := t :: s.cbs, sLock := none, kept := upd s.kept t true,
                      cbFin := upd s.cbFin t false, pc := upd s.pc t (.predChk false) }
      | _ => none
    else none
  | .stDeq t c more =>
    if t < s.n ∧ s.sLock = some t then
      match s.pc t with
      | .rsLocked =>
        match s.cbs with
        | h :: rest =>
          if h = c ∧ more = decide (rest ≠ []) then
            some { s with cbs := rest, sLock := none, cur := some c, pc := upd s.pc t (.cWant false) }
          else none
        | [] => none
      | _ => none
    else none
  | .stFin t c removed =>
    if t < s.n ∧ s.cur = some c ∧ removed = false then
      match s.pc t with
      | .cRet false => some { s with cbFin := upd s.cbFin c true, cur := none, pc := upd s.pc t .rsRelock }
      | _ => none
    else none
  | .stInFin t =>
    if t < s.n then
      match s.pc t with
      | .cRet true => some { s with cbFin := upd s.cbFin t true, pc := upd s.pc t (.predChk false) }
      | _ => none
    else none
  | .stUnlink t r =>
    if t < s.n ∧ s.sLock = some t ∧ r = decide (t ∈ s.cbs) then
      match s.pc t with
      | .sRm res =>
        if r then some { s with cbs := s.cbs.erase t, sLock := none, kept := upd s.kept t false,
                                pc := upd s.pc t (.retn res) }
        else some { s with sLock := none, pc := upd s.pc t (.sRmChk res) }
      | _ => none
    else none
  | .stSelf t eq =>
    -- the waiter is never the signalling thread (it is inside its wait): only `false` is
    -- produced by the code as modelled
    if t < s.n ∧ eq = false then
      match s.pc t with
      | .sRmChk res => some { s with pc := upd s.pc t (.sRmWait res) }
      | _ => none
    else none
  | .stWaited t =>
    if t < s.n ∧ s.cbFin t = true then
      match s.pc t with
      | .sRmWait res => some { s with kept := upd s.kept t false, pc := upd s.pc t (.retn res) }
      | _ => none
    else none
  | .stRsDone t =>
    if t < s.n ∧ s.sLock = some t ∧ s.cbs = [] then
      match s.pc t with
      | .rsLocked => some { s with sLock := none, stopDone := true, pc := upd s.pc t (.rsRet true) }
      | _ => none
    else none

end PikaVerif.CV
