import PikaVerif.Model.Sched
/-!
# Helper tasks that owe the re-entry into `set_thread_state` (C02x)

`set_active_state` logs `sas.retry` and then calls `set_thread_state` in straight line, which logs
`sts.enter` on the same thread for the same target.  The protocol model (`Model/Sched.lean`) keeps
no state for the stretch between the two hooks; the obligation is a fold over the log instead, used
as a hypothesis of `C02_no_lost_wakeup` (`Props/C02x.lean`) and checked by the driver on every real
log (`Driver/SchedDrv.lean`: it must be empty at the end of a run).  No state is added to the model.
-/
namespace PikaVerif.Sched

/-- one log event: a retry decision adds (actor, target); the actor's `sts.enter` on that target
    removes it -/
def owStep (ow : List (Nat × Nat)) : Ev → List (Nat × Nat)
  | .sasRetry a o => (a, o) :: ow
  | .stsEnter a o _ => ow.erase (a, o)
  | _ => ow

/-- helpers that decided to retry and have not re-entered `set_thread_state` yet, after a log -/
def owing : List (Nat × Nat) → List Ev → List (Nat × Nat)
  | ow, [] => ow
  | ow, e :: es => owing (owStep ow e) es

end PikaVerif.Sched
