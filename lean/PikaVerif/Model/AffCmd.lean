import PikaVerif.Model.Aff
/-!
# Model of the command-line layer in front of the affinity decoders (C15, follow-up C15t)

Follows `libs/pika/command_line_handling/src/command_line_handling.cpp`
(`get_number_of_default_threads`, `get_number_of_default_cores`, `handle_num_threads`,
`handle_num_cores`, the computation of `use_process_mask_`) and the call of
`affinity_data::init` in `libs/pika/init_runtime/src/init_runtime.cpp:run_or_start`
(`used_cores` is the literal `0`, `max_cores` is `pika.cores`, the thread count is
`pika.os_threads`).  Only the options that decide the binding are modelled; configuration-file
entries (`pika.os_threads=…` in an ini file) and `pika.force_min_os_threads` are left at their
defaults.
-/
namespace PikaVerif.Aff
open PikaVerif

/-- `--pika:threads=<n|cores|all>`; `dflt` = option not given: the configuration default
    `os_threads = ${PIKA_THREADS:cores}` applies (environment variable unset) -/
inductive ThreadsArg
  | dflt | num (n : Nat) | cores | all
  deriving DecidableEq, Repr

/-- `--pika:cores=<k|all>`; `dflt` = option not given (`pika.cores` = number of threads) -/
inductive CoresArg
  | dflt | num (n : Nat) | all
  deriving DecidableEq, Repr

/-- the options that decide the binding -/
structure Cmd where
  threads : ThreadsArg
  cores : CoresArg
  ignoreMask : Bool            -- `--pika:ignore-process-mask`
  bind : Option Mode           -- `--pika:bind=`; `none` = `--pika:bind=none`

/-- `get_number_of_default_threads(use_process_mask)` -/
def defaultThreads (cfg : Cfg) : Nat := if cfg.usePm then countMask cfg else numPus cfg.t

/-- `bit_and(init_core_affinity_mask_from_core(c), proc_mask)`: core `c` has a PU in the mask -/
def coreInPm (cfg : Cfg) (c : Nat) : Bool :=
  !cfg.t.noCoreObjs &&
    decide (0 < sumTo (cfg.t.pus c) (fun p => if cfg.pm (base cfg.t c + p) then 1 else 0))

/-- `get_number_of_default_cores(use_process_mask)` -/
def defaultCores (cfg : Cfg) : Nat :=
  if cfg.usePm then sumTo cfg.t.nc (fun c => if coreInPm cfg c then 1 else 0) else cfg.t.nc

/-- `handle_num_threads` (command line only) -/
def cmdThreads (a : ThreadsArg) (cfg : Cfg) : Nat :=
  match a with
  | .dflt => defaultCores cfg
  | .num n => n
  | .cores => defaultCores cfg
  | .all => defaultThreads cfg

/-- `handle_num_cores` (command line only) -/
def cmdCores (a : CoresArg) (threads : Nat) (cfg : Cfg) : Nat :=
  match a with
  | .dflt => threads
  | .num k => k
  | .all => defaultCores cfg

/-- the request the decoders see; `none`: `--pika:threads` evaluates to 0
    ("Number of --pika:threads must be greater than 0") -/
def cmdCfg (cmd : Cmd) (t : Topo) (pm : Nat → Bool) : Option Cfg :=
  let cfg0 : Cfg := { t := t, pm := pm, usePm := !cmd.ignoreMask, used := 0, maxCores := 0, n := 0 }
  let n := cmdThreads cmd.threads cfg0
  if n = 0 then none
  else some { cfg0 with n := n, maxCores := cmdCores cmd.cores n cfg0 }

/-- what `affinity_data::get_pu_mask(worker i)` returns after `init` with `--pika:bind=none`.
    `init` sets bit `get_pu_num(j) = j % #PUs` of `no_affinity_` for every worker `j`, i.e. it
    indexes the bit set with **PU numbers**; `get_pu_mask` tests it with the **worker number**.
    For workers `i < #PUs` the two coincide (empty mask: unbound).  With more workers than PUs
    the test of worker `i ≥ #PUs` reads past the `#PUs` bits of `no_affinity_` (0 while `i` stays
    inside the last storage word; formally out of range), `affinity_masks_` is empty, and the
    `pu` affinity-domain branch returns the mask of PU `i % #PUs`: that worker **is bound**. -/
def noneMask (cfg : Cfg) (i : Nat) : List Nat :=
  if i < numPus cfg.t then [] else [i % numPus cfg.t]

/-- masks and PU numbers of all workers after `affinity_data::init`: as `affInit`, with the
    per-worker masks of `--pika:bind=none` made explicit -/
def affInitMasks (desc : Option Mode) (cfg : Cfg) : Bind :=
  match desc with
  | none => .bound (noneMask cfg) (fun i => i % numPus cfg.t)
  | some m => affInit (some m) cfg

/-- outcome of the start-up as far as the binding is concerned -/
inductive Start
  | cmdlineError
  | init (b : Bind)

/-- `command_line_handling::call` followed by `affinity_data::init` -/
def startup (cmd : Cmd) (t : Topo) (pm : Nat → Bool) : Start :=
  match cmdCfg cmd t pm with
  | none => .cmdlineError
  | some cfg => .init (affInitMasks cmd.bind cfg)

end PikaVerif.Aff
