import PikaVerif.Model.Barrier
/-!
# Fine-grained model of `pika::barrier` (C09 follow-up C09t)

Refines `PikaVerif.Barrier` (same file anchors) in two places where the first model was coarser
than the code:

1. **`wait(token, busy_wait_timeout)` / `arrive_and_wait(busy_wait_timeout)` with a non-zero
   time-out.**  The code is

   ```
   bool const do_busy_wait = busy_wait_timeout > 0;
   if (do_busy_wait && yield_while_timeout(poll, busy_wait_timeout, "barrier::wait", false)) return;
   yield_while(poll, "barrier::wait", true);
   ```

   `yield_while_timeout` is `for (k = 0;; ++k) { if (elapsed > timeout) return false;
   if (!poll()) return true; spin_k(k); }` (the *busy-wait phase*: never suspends), `yield_while`
   is `for (k = 0; poll(); ++k) yield_k(k);` (the *blocking phase*: the task yields / sleeps
   between polls).  The wall clock is not modelled: the time-out may fire at **any** iteration of
   the busy-wait loop, including the first.  Events: `invT` (operation invoked with a non-zero
   time-out), `c (.poll …)` (a poll that keeps waiting, in either phase, or a poll of the blocking
   phase that ends the wait), `spinok` (a poll of the busy-wait phase saw the flip:
   `yield_while_timeout` returned `true`, hook `bar.spinok`), `block t timed` (the thread enters
   `yield_while`: at once when the time-out is zero, after the time-out fired otherwise; hook
   `bar.block`).

2. **The completion step as the code does it**: `completion()` (`compl`), then
   `expected += expected_adjustment.load()` (`adjLoad`, hook `bar.adjld`/`bar.adjv`), then
   `expected_adjustment.store(0)` (`adjStore`, hook `bar.adjst`) as *separate* atomic steps, then
   the phase store.  `arrive_and_drop`'s `fetch_sub` (`c (.adj t)`) is enabled whenever a thread is
   at that program point — the model does not forbid it between the load and the store; a
   `fetch_sub` that lands there is overwritten by the store and counted in the ghost `lost`.

All other events are those of the coarse model and act on the same variables (`St.c` holds the
real variables `expected`, `expected_adjustment`, `phase`, the tickets, the coarse program
counters and the ghosts).  `compl` moves the coarse pc to `.pub`; the sub-state inside the
completion step is `wx t`.
-/
namespace PikaVerif.BarrierT
open PikaVerif PikaVerif.Barrier

/-- Where the last arriver is inside the completion step (coarse pc `.pub`). -/
inductive W where
  | none                -- not in the step, or `expected_adjustment.store(0)` done
  | cdone               -- completion function returned, adjustment not loaded yet
  | adjd (a : Nat)      -- `expected += load` done (loaded `-a`), `store(0)` not yet
  deriving DecidableEq, Repr

inductive Ev where
  | c (e : Barrier.Ev)
  | invT (t : Nat) (o : Op)
  | spinok (t tok seen : Nat)
  | block (t : Nat) (timed : Bool)
  | compl (t : Nat)
  | adjLoad (t a e : Nat)
  | adjStore (t : Nat)
  deriving Repr

structure St where
  c : Barrier.St
  /-- the current operation of the thread was invoked with `busy_wait_timeout > 0` -/
  timed : Nat → Bool
  /-- the thread's `wait` has entered `yield_while` (blocking phase) -/
  blk : Nat → Bool
  wx : Nat → W
  /-- ghost: `fetch_sub`s overwritten by a `store(0)` that followed a load which did not see them -/
  lost : Nat

def init (n N : Nat) : St :=
  { c := Barrier.init n N, timed := fun _ => false, blk := fun _ => false, wx := fun _ => .none, lost := 0 }

def step (s : St) : Ev → Option St
  | .c e =>
    match e with
    | .compl _ => none
    | .inv t _ =>
      (Barrier.step s.c e).map fun c' =>
        { s with c := c', timed := upd s.timed t false, blk := upd s.blk t false }
    | .poll t tok seen =>
      -- blocking phase: any outcome; busy-wait phase: only a poll that keeps spinning (a poll
      -- that sees the flip there is `spinok`); before `block` an untimed wait does not poll
      if s.blk t = true ∨ (s.timed t = true ∧ seen = tok) then
        (Barrier.step s.c e).map fun c' => { s with c := c' }
      else none
    | .publish t _ _ =>
      if s.wx t = .none then (Barrier.step s.c e).map fun c' => { s with c := c' } else none
    | _ => (Barrier.step s.c e).map fun c' => { s with c := c' }
  | .invT t o =>
    match o with
    | .wait | .aw =>
      (Barrier.step s.c (.inv t o)).map fun c' =>
        { s with c := c', timed := upd s.timed t true, blk := upd s.blk t false }
    | _ => none
  | .spinok t tok seen =>
    if s.timed t = true ∧ s.blk t = false ∧ seen ≠ tok then
      (Barrier.step s.c (.poll t tok seen)).map fun c' => { s with c := c' }
    else none
  | .block t b =>
    if t < s.c.n ∧ s.c.pc t = .polling ∧ s.blk t = false ∧ b = s.timed t then
      some { s with blk := upd s.blk t true }
    else none
  | .compl t =>
    if t < s.c.n then
      match s.c.pc t with
      | .won u r =>
        some { s with c := { s.c with compls := s.c.compls + 1, pc := upd s.c.pc t (.pub u r) },
                      wx := upd s.wx t .cdone }
      | _ => none
    else none
  | .adjLoad t a e =>
    if t < s.c.n ∧ s.wx t = .cdone ∧ a = s.c.adj ∧ e = s.c.expected - a then
      some { s with c := { s.c with expected := e }, wx := upd s.wx t (.adjd a) }
    else none
  | .adjStore t =>
    if t < s.c.n then
      match s.wx t with
      | .adjd a =>
        some { s with c := { s.c with adj := 0 }, wx := upd s.wx t .none, lost := s.lost + (s.c.adj - a) }
      | _ => none
    else none

/-! ## Abstraction to the coarse model -/

/-- `expected` / `-expected_adjustment` as the coarse model has them: there the completion step
    adjusts both in the same event as the completion call. -/
def aexp (s : St) : Nat :=
  match s.c.win with
  | some w => (match s.wx w with | .cdone => s.c.expected - s.c.adj | _ => s.c.expected)
  | none => s.c.expected
def aadj (s : St) : Nat :=
  match s.c.win with
  | some w => (match s.wx w with | .none => s.c.adj | _ => 0)
  | none => s.c.adj

def abs (s : St) : Barrier.St := { s.c with expected := aexp s, adj := aadj s }

/-- The coarse event a fine event stands for (`none`: a stutter step of the coarse model). -/
def proj : Ev → Option Barrier.Ev
  | .c e => some e
  | .invT t o => some (.inv t o)
  | .spinok t a b => some (.poll t a b)
  | .block _ _ => none
  | .compl t => some (.compl t)
  | .adjLoad _ _ _ => none
  | .adjStore _ => none

def projLog : List Ev → List Barrier.Ev
  | [] => []
  | e :: l => match proj e with
    | some e' => e' :: projLog l
    | none => projLog l

end PikaVerif.BarrierT
