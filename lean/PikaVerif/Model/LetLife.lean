import PikaVerif.Model.SchedFromLife
/-!
# Life cycle of the `let_value` / `let_error` operation state (C03, follow-up C03x)

`libs/pika/execution/include/pika/execution/algorithms/let_value.hpp` and `let_error.hpp` (`Cfg.onError`; the two
files are mirror images: let_value stores the predecessor's *values* and passes error / stopped through, let_error
stores the predecessor's *error* and passes values / stopped through).  Events at the granularity of the statements
of the code **as it is** (`let_value_predecessor_receiver::set_value`, `set_value_visitor`):

* `start t`     - `start(predecessor_op_state)`;
* `pred t c`    - the predecessor completes the adaptor's receiver on thread `t` (inline in `start()` or later);
* channel not stored: `fwd t c` - forwarded to the downstream receiver directly;
* stored channel, everything inside `try_catch_exception_ptr`:
  `store t r`   - `predecessor_ts.emplace<tuple<decay_t<Ts>...>>(ts...)` (`r = some e`: the copy / move throws `e`);
  `call t r`    - `std::apply(std::move(f), t)`: the user function is invoked with REFERENCES to the stored values and
                  returns the successor sender (`r = some e`: it throws `e`);
  `conn t r late` - `successor_op_state.emplace(connect(<successor sender>, std::move(receiver)))`: the downstream
                  receiver is moved into the successor's operation state (`r = some e`: `connect` throws `e`; `late`:
                  after it had already moved from `op_state.receiver`);
  `sstart t`    - `visit(start_visitor{}, successor_op_state)`: from here on the successor may complete, on this
                  thread inside the call or on another thread while this one has not yet returned;
  catch handler - `fwd t (error e)`: `set_error(std::move(receiver), ep)`;
* `succ t c`    - the successor completes the downstream receiver (which it owns) with `c`: THE downstream
                  completion of the adaptor.  The receiver may destroy the whole operation state - including the
                  stored values and the successor's operation state - inside this call (`selfdel`);
* `ret t`, `destroy t` (the owner destroys the operation state, `selfdel = false`), `tdone t`.

History (ghost) fields as in `Model/SchedFromLife.lean`; additionally `thrown` (the exception caught by the handler),
`rcvMoved` (`op_state.receiver` has been moved from), `hollow` (a completion was issued on a moved-from receiver),
`lateThrow` (a `connect` threw after moving the receiver).
-/
namespace PikaVerif.LetLife
open PikaVerif
open PikaVerif.SchedFromLife (Sig b2n)

structure Cfg where
  /-- the downstream receiver destroys the operation state inside its completion call -/
  selfdel : Bool
  /-- `let_error` (stores the error channel), otherwise `let_value` -/
  onError : Bool
  deriving DecidableEq, Repr

/-- The channel whose payload is stored and handed to the user function. -/
def Cfg.stores (c : Cfg) : Sig → Bool
  | .value _ => !c.onError
  | .error _ => c.onError
  | .stopped => false

def payload : Sig → Nat
  | .value v => v
  | .error e => e
  | .stopped => 0

inductive Pc where
  | idle
  | starting
  | pred (c : Sig)
  | stored
  | called
  | connected
  | sstarted
  | caught (e : Nat)
  | out
  | fin
  deriving DecidableEq, Repr

/-- The thread is inside adaptor code that will access the operation state again. -/
def busy : Pc → Bool
  | .pred _ | .stored | .called | .connected | .caught _ => true
  | _ => false

inductive Ev where
  | start (t : Nat)
  | pred (t : Nat) (c : Sig)
  | store (t : Nat) (r : Option Nat)
  | call (t : Nat) (r : Option Nat)
  | conn (t : Nat) (r : Option Nat) (late : Bool)
  | sstart (t : Nat)
  | succ (t : Nat) (c : Sig)
  | fwd (t : Nat) (c : Sig)
  | ret (t : Nat)
  | destroy (t : Nat)
  | tdone (t : Nat)
  deriving DecidableEq, Repr

structure St where
  cfg : Cfg
  pc : Nat → Pc
  started : Bool
  predSig : Option Sig
  thrown : Option Nat
  succSig : Option Sig
  holder : Option Nat
  /-- `predecessor_ts` / `predecessor_error`: `none` = monostate -/
  ts : Option Nat
  tsCtor : Nat
  tsDtor : Nat
  /-- `successor_op_state` holds an operation state -/
  sop : Bool
  sopArmed : Bool
  sopCtor : Nat
  sopDtor : Nat
  rcvMoved : Bool
  lateThrow : Bool
  hollow : Bool
  delivered : Nat
  result : Option Sig
  freed : Bool
  nfree : Nat
  uaf : Bool

def init (c : Cfg) : St :=
  { cfg := c, pc := fun _ => .idle, started := false, predSig := none, thrown := none, succSig := none, holder := none,
    ts := none, tsCtor := 0, tsDtor := 0, sop := false, sopArmed := false, sopCtor := 0, sopDtor := 0, rcvMoved := false,
    lateThrow := false, hollow := false, delivered := 0, result := none, freed := false, nfree := 0, uaf := false }

/-- Events that read or write the operation state (`destroy` is the owner's, not the adaptor's). -/
def touches : Ev → Bool
  | .ret _ | .tdone _ | .destroy _ => false
  | _ => true

def free (s : St) : St :=
  { s with freed := true, nfree := s.nfree + 1, tsDtor := s.tsDtor + b2n s.ts.isSome, ts := none,
           sopDtor := s.sopDtor + b2n s.sop, sop := false }

/-- The downstream completion `c` issued by thread `t`; `viaOwn`: through `op_state.receiver` (the adaptor's own
    forwarding), otherwise by the successor through the receiver it was given. -/
def deliver (s : St) (t : Nat) (c : Sig) (viaOwn : Bool) : St :=
  let s1 := { s with pc := upd s.pc t .out, holder := none, delivered := s.delivered + 1, result := some c,
                     hollow := s.hollow || (viaOwn && s.rcvMoved), uaf := s.uaf || s.freed }
  if s.cfg.selfdel = true then free s1 else s1

/-- the handler of `try_catch_exception_ptr` is entered with the exception `e` -/
def catchE (s : St) (t : Nat) (e : Nat) : St :=
  { s with pc := upd s.pc t (.caught e), thrown := some e, uaf := s.uaf || s.freed }

def step (s : St) : Ev → Option St
  | .start t =>
    if s.pc t = .idle ∧ s.started = false then
      some { s with pc := upd s.pc t .starting, started := true, uaf := s.uaf || s.freed }
    else none
  | .pred t c =>
    if (s.pc t = .idle ∨ s.pc t = .starting) ∧ s.started = true ∧ s.predSig = none then
      some { s with pc := upd s.pc t (.pred c), predSig := some c, holder := some t, uaf := s.uaf || s.freed }
    else none
  | .store t r =>
    match s.pc t with
    | .pred c =>
      if s.cfg.stores c = true then
        match r with
        | none => some { s with pc := upd s.pc t .stored, ts := some (payload c), tsCtor := s.tsCtor + 1,
                                uaf := s.uaf || s.freed }
        | some e => some (catchE s t e)
      else none
    | _ => none
  | .call t r =>
    if s.pc t = .stored then
      match r with
      | none => some { s with pc := upd s.pc t .called, uaf := s.uaf || s.freed }
      | some e => some (catchE s t e)
    else none
  | .conn t r late =>
    if s.pc t = .called then
      match r with
      | none => some { s with pc := upd s.pc t .connected, sop := true, sopCtor := s.sopCtor + 1, rcvMoved := true,
                              uaf := s.uaf || s.freed }
      | some e => some { catchE s t e with rcvMoved := late, lateThrow := s.lateThrow || late }
    else none
  | .sstart t =>
    if s.pc t = .connected then
      some { s with pc := upd s.pc t .sstarted, holder := none, sopArmed := true, uaf := s.uaf || s.freed }
    else none
  | .succ t c =>
    if (s.pc t = .idle ∨ s.pc t = .sstarted) ∧ s.sopArmed = true ∧ s.succSig = none then
      some (deliver { s with succSig := some c } t c false)
    else none
  | .fwd t c =>
    match s.pc t with
    | .pred p => if s.cfg.stores p = false ∧ c = p then some (deliver s t c true) else none
    | .caught e => if c = .error e then some (deliver s t c true) else none
    | _ => none
  | .ret t =>
    if s.pc t = .out ∨ s.pc t = .sstarted ∨ s.pc t = .starting then some { s with pc := upd s.pc t .idle }
    else none
  | .destroy t =>
    if s.pc t = .idle ∧ s.delivered = 1 ∧ s.freed = false ∧ s.cfg.selfdel = false then some (free s) else none
  | .tdone t =>
    if s.pc t = .idle then some { s with pc := upd s.pc t .fin } else none

/-- The denoted completion as far as the history determines it: a predecessor completion on a channel that is
    not stored passes through; an exception thrown while storing / by the user function / while connecting
    becomes `set_error` with that exception; otherwise the completion of the successor sender. -/
def expected (s : St) : Option Sig :=
  match s.predSig with
  | none => none
  | some p =>
    if s.cfg.stores p = true then
      (match s.thrown with
       | some e => some (.error e)
       | none => s.succSig)
    else some p

def quiescent (s : St) : Prop := ∀ t, s.pc t = .idle ∨ s.pc t = .fin

end PikaVerif.LetLife
