import PikaVerif.Gen.BulkArith
/-!
# What `bulk_receiver::set_value` computes before any worker starts (C11)

Composition of the generated pieces (`Gen/BulkArith.lean`) in the order of the C++ code:
`chunk_size = get_chunk_size(num_worker_threads, shape)`, `num_chunks = …`,
`init_queue(worker_thread, num_chunks)` for every worker, and the `task_function` fields that
`do_work_chunk` later uses.  Everything is computed with the C++ types of shape type `S`.
-/
namespace PikaVerif.BulkPlan
open PikaVerif PikaVerif.Gen.BulkArith

/-- Fuel for the `get_chunk_size` loop: `chunk_size` is a 32-bit value that is doubled, so after
    33 iterations it is 0 and the loop condition no longer changes (`C11.gcs_diverges`). -/
def fuel : Nat := 64

/-- Range `[first, last)` that `init_queue` stores in worker `k`'s queue. -/
def queueRange (S : CTy) (w n c k : Int) : Int × Int :=
  let a := initQueueArgs S k (numChunksOf S n c)
  (partBegin w a.1 a.2, partEnd w a.1 a.2)

/-- Index range `[i_begin, i_end)` that worker `k`'s `do_work_chunk` runs for chunk `j`. -/
def chunkRange (S : CTy) (n c k j : Int) : Int × Int :=
  let t := taskArgs S n c k
  (iBegin S j t.2.1, iEnd S j t.2.1 t.1)

/-- No undefined behaviour in any of the above for worker `k` / chunk `j`. -/
def noUB (S : CTy) (w n c k j : Int) : Bool :=
  let a := initQueueArgs S k (numChunksOf S n c)
  let t := taskArgs S n c k
  numChunksNoUB S n c && initQueueNoUB w a.1 a.2 && doWorkChunkNoUB S j t.2.1 t.1

/-- Number of calls `f(i)` made by `do_work_chunk` for chunk `j` (`for (i = i_begin; i < i_end; ++i)`). -/
def chunkCalls (S : CTy) (n c k j : Int) : Nat :=
  let r := chunkRange S n c k j
  (r.2 - r.1).toNat

/-- Calls made for the chunks initially owned by worker `k` (whoever pops them). -/
def callsOfQueue (S : CTy) (w n c k : Int) : Nat :=
  let r := queueRange S w n c k
  ((List.range (r.2 - r.1).toNat).map (fun (d : Nat) => chunkCalls S n c k (r.1 + (d : Int)))).foldl Nat.add 0

/-- Total number of calls of `f` when every queued chunk is processed once, with `w` workers. -/
def totalCalls (S : CTy) (w : Nat) (n c : Int) : Nat :=
  ((List.range w).map (fun (k : Nat) => callsOfQueue S w n c (k : Int))).foldl Nat.add 0

end PikaVerif.BulkPlan
