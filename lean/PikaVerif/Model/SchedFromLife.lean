import PikaVerif.Core.Basic
/-!
# Life cycle of the `schedule_from` operation state (C03, follow-up C03x)

`libs/pika/execution/include/pika/execution/algorithms/schedule_from.hpp` - the implementation behind
`continues_on` / `transfer` / `transfer_just`.  One operation state, any number of threads.  Events at the
granularity of the statements of the code **as it is**:

* `start t`      - `operation_state::start()`: `start(sender_os)`;
* `pred t c`     - the predecessor completes `predecessor_sender_receiver` on thread `t` with `c` (inline in
                   `start()` on the starter's thread, or later on any thread);
* error / stopped predecessor: `fwd t c` - `set_error_predecessor_sender` / `set_stopped_predecessor_sender`
                   forward to the downstream receiver directly;
* value predecessor, `set_value_predecessor_sender` (declared `noexcept`, **no** try/catch):
  `store t ok`   - `ts.emplace<tuple<decay_t<Us>...>>(us...)`; `ok = false`: the copy/move throws, the exception
                   leaves a `noexcept` function: `std::terminate` (`aborted`);
  `conn t ok`    - `scheduler_op_state.emplace(connect(schedule(scheduler), scheduler_sender_receiver{*this}))`;
                   `ok = false`: `schedule` / `connect` throws: `std::terminate` as well;
  `sstart t`     - `start(*scheduler_op_state)`: from here on the scheduler may complete, on this thread inside
                   the call or on the target context while this thread has not yet returned;
* `sch t c`      - the scheduler completes `scheduler_sender_receiver` on thread `t` (value / error / stopped);
* `reset t`      - `scheduler_op_state.reset()`: FIRST statement of `set_*_scheduler_sender`;
* `fwd t c`      - the downstream completion, LAST statement: `visit(visitor{move(receiver)}, move(ts))` resp.
                   `set_error` / `set_stopped(move(receiver))`.  The downstream receiver may destroy the whole
                   operation state inside this call (`selfdel`: `start_detached`, the harness' `self_deleting_op`);
* `ret t`        - the thread returns (from `start()`, from the predecessor's / scheduler's receiver call);
* `destroy t`    - the owner destroys the operation state after the completion (`selfdel = false`).

Code variants (`Cfg.swapV/E/S`): the two statements of `set_value/error/stopped_scheduler_sender` swapped - forward
first, reset afterwards (`swapV` = the seeded change `/verif/seeded/C03f/patch.diff`).  `poison`: freed memory
reads non-zero (poisoning / recycling allocator) - the stale `reset()` then sees an engaged optional and runs the
destructor of the scheduler's operation state a second time; without it the memory keeps what `~optional` left.

History (ghost) fields, never tested by `step` except to enforce the environment's contract (one `start`, the
predecessor and the scheduler complete at most once, and only after they were started): `predSig`, `schSig`,
`holder` (the thread that currently executes adaptor code), `tsCtor/tsDtor`, `sopCtor/sopDtor` (constructions /
destructions of the stored value tuple and of the scheduler's operation state), `delivered`, `result`, `freed`,
`nfree`, `uaf` (an event that reads or writes the operation state happened after it was destroyed; the acceptor
never refuses such an event).
-/
namespace PikaVerif.SchedFromLife
open PikaVerif

inductive Sig where
  | value (v : Nat)
  | error (e : Nat)
  | stopped
  deriving DecidableEq, Repr

def Sig.isValue : Sig → Bool
  | .value _ => true
  | _ => false

structure Cfg where
  /-- the downstream receiver destroys the operation state inside its completion call -/
  selfdel : Bool
  /-- `set_value_scheduler_sender` forwards first and resets afterwards (seeded change C03f) -/
  swapV : Bool
  swapE : Bool
  swapS : Bool
  /-- freed memory reads non-zero -/
  poison : Bool
  deriving DecidableEq, Repr

def Cfg.swapped (c : Cfg) : Sig → Bool
  | .value _ => c.swapV
  | .error _ => c.swapE
  | .stopped => c.swapS

/-- The code as it is. -/
def Cfg.ok (c : Cfg) : Prop := c.swapV = false ∧ c.swapE = false ∧ c.swapS = false

inductive Pc where
  | idle
  | starting
  | pred (c : Sig)
  | stored
  | connected
  | sstarted
  | sch (c : Sig)
  | rst (c : Sig)
  | fwdd (c : Sig)
  | out
  | fin
  deriving DecidableEq, Repr

/-- The thread is inside adaptor code that will access the operation state again. -/
def busy : Pc → Bool
  | .pred _ | .stored | .connected | .sch _ | .rst _ | .fwdd _ => true
  | _ => false

inductive Ev where
  | start (t : Nat)
  | pred (t : Nat) (c : Sig)
  | store (t : Nat) (ok : Bool)
  | conn (t : Nat) (ok : Bool)
  | sstart (t : Nat)
  | sch (t : Nat) (c : Sig)
  | reset (t : Nat)
  | fwd (t : Nat) (c : Sig)
  | ret (t : Nat)
  | destroy (t : Nat)
  | tdone (t : Nat)
  deriving DecidableEq, Repr

structure St where
  cfg : Cfg
  pc : Nat → Pc
  started : Bool
  predSig : Option Sig
  schSig : Option Sig
  holder : Option Nat
  /-- `ts`: `none` = monostate -/
  ts : Option Nat
  tsCtor : Nat
  tsDtor : Nat
  /-- `scheduler_op_state.has_value()` as the memory reads -/
  sop : Bool
  sopArmed : Bool
  sopCtor : Nat
  sopDtor : Nat
  delivered : Nat
  result : Option Sig
  freed : Bool
  nfree : Nat
  uaf : Bool
  aborted : Bool

def init (c : Cfg) : St :=
  { cfg := c, pc := fun _ => .idle, started := false, predSig := none, schSig := none, holder := none, ts := none,
    tsCtor := 0, tsDtor := 0, sop := false, sopArmed := false, sopCtor := 0, sopDtor := 0, delivered := 0,
    result := none, freed := false, nfree := 0, uaf := false, aborted := false }

def b2n (b : Bool) : Nat := if b then 1 else 0

/-- Events that read or write the operation state (`destroy` is the owner's, not the adaptor's). -/
def touches : Ev → Bool
  | .ret _ | .tdone _ | .destroy _ => false
  | _ => true

/-- Destruction of the operation state: the members are destroyed (`ts` if it holds a tuple, the scheduler's
    operation state if the optional is engaged); afterwards the memory reads as the allocator leaves it. -/
def free (s : St) : St :=
  { s with freed := true, nfree := s.nfree + 1, tsDtor := s.tsDtor + b2n s.ts.isSome, ts := none,
           sopDtor := s.sopDtor + b2n s.sop, sop := s.cfg.poison }

/-- The downstream completion `c` issued by thread `t`, which goes on at `nxt`. -/
def deliver (s : St) (t : Nat) (c : Sig) (nxt : Pc) (h : Option Nat) : St :=
  let s1 := { s with pc := upd s.pc t nxt, holder := h, delivered := s.delivered + 1, result := some c,
                     uaf := s.uaf || s.freed }
  if s.cfg.selfdel = true then free s1 else s1

/-- `scheduler_op_state.reset()`. -/
def doReset (s : St) (t : Nat) (nxt : Pc) (h : Option Nat) : St :=
  { s with pc := upd s.pc t nxt, holder := h, sopDtor := s.sopDtor + b2n s.sop, sop := false, uaf := s.uaf || s.freed }

/-- What `set_*_scheduler_sender` forwards: the stored values on the value channel, the scheduler's error / stopped. -/
def outSig (s : St) : Sig → Option Sig
  | .value _ => (match s.ts with | some v => some (.value v) | none => none)
  | q => some q

def step (s : St) (e : Ev) : Option St :=
  if s.aborted = true then none else
  match e with
  | .start t =>
    if s.pc t = .idle ∧ s.started = false then
      some { s with pc := upd s.pc t .starting, started := true, uaf := s.uaf || s.freed }
    else none
  | .pred t c =>
    if (s.pc t = .idle ∨ s.pc t = .starting) ∧ s.started = true ∧ s.predSig = none then
      some { s with pc := upd s.pc t (.pred c), predSig := some c, holder := some t, uaf := s.uaf || s.freed }
    else none
  | .store t ok =>
    match s.pc t with
    | .pred (.value v) =>
      if ok = true then
        some { s with pc := upd s.pc t .stored, ts := some v, tsCtor := s.tsCtor + 1, uaf := s.uaf || s.freed }
      else some { s with aborted := true }
    | _ => none
  | .conn t ok =>
    if s.pc t = .stored then
      if ok = true then
        some { s with pc := upd s.pc t .connected, sop := true, sopCtor := s.sopCtor + 1, uaf := s.uaf || s.freed }
      else some { s with aborted := true }
    else none
  | .sstart t =>
    if s.pc t = .connected then
      some { s with pc := upd s.pc t .sstarted, holder := none, sopArmed := true, uaf := s.uaf || s.freed }
    else none
  | .sch t c =>
    if (s.pc t = .idle ∨ s.pc t = .sstarted) ∧ s.sopArmed = true ∧ s.schSig = none then
      some { s with pc := upd s.pc t (.sch c), schSig := some c, holder := some t, uaf := s.uaf || s.freed }
    else none
  | .reset t =>
    match s.pc t with
    | .sch c => if s.cfg.swapped c = true then none else some (doReset s t (.rst c) (some t))
    | .fwdd _ => some (doReset s t .out none)
    | _ => none
  | .fwd t c =>
    match s.pc t with
    | .pred p =>
      if p.isValue = false ∧ c = p then some (deliver s t c .out none) else none
    | .rst q =>
      if outSig s q = some c then some (deliver s t c .out none) else none
    | .sch q =>
      if s.cfg.swapped q = true ∧ outSig s q = some c then some (deliver s t c (.fwdd q) (some t))
      else none
    | _ => none
  | .ret t =>
    if s.pc t = .out ∨ s.pc t = .sstarted ∨ s.pc t = .starting then some { s with pc := upd s.pc t .idle }
    else none
  | .destroy t =>
    if s.pc t = .idle ∧ s.delivered = 1 ∧ s.freed = false ∧ s.cfg.selfdel = false then some (free s) else none
  | .tdone t =>
    if s.pc t = .idle then some { s with pc := upd s.pc t .fin } else none

/-- The completion the adaptor stands for: the predecessor's values after a successful hop, the predecessor's
    error / stopped, otherwise the scheduler's error / stopped. -/
def denote (p q : Sig) : Sig :=
  match p with
  | .value v => (match q with | .value _ => .value v | x => x)
  | x => x

/-- The denoted completion as far as the history determines it. -/
def expected (s : St) : Option Sig :=
  match s.predSig with
  | none => none
  | some (.value v) => (match s.schSig with | none => none | some q => some (denote (.value v) q))
  | some p => some p

def quiescent (s : St) : Prop := ∀ t, s.pc t = .idle ∨ s.pc t = .fin

end PikaVerif.SchedFromLife
