import PikaVerif.Core.Basic
/-! Finite sums of a per-thread weight over threads `0 … n-1`, and how they change under `upd`. -/
namespace PikaVerif

def sumTo (n : Nat) (f : Nat → Nat) : Nat :=
  match n with
  | 0 => 0
  | k + 1 => sumTo k f + f k

@[simp] theorem sumTo_zero (f : Nat → Nat) : sumTo 0 f = 0 := rfl
theorem sumTo_succ (k : Nat) (f : Nat → Nat) : sumTo (k + 1) f = sumTo k f + f k := rfl

theorem sumTo_congr {n : Nat} {f g : Nat → Nat} (h : ∀ t, t < n → f t = g t) :
    sumTo n f = sumTo n g := by
  induction n with
  | zero => rfl
  | succ k ih =>
    simp only [sumTo_succ]
    rw [ih (fun t ht => h t (Nat.lt_succ_of_lt ht)), h k (Nat.lt_succ_self k)]

/-- Updating a thread outside the range does not change the sum. -/
theorem sumTo_upd_ge {α : Type} (n : Nat) (w : α → Nat) (f : Nat → α) (t : Nat) (v : α)
    (h : n ≤ t) : sumTo n (fun u => w (upd f t v u)) = sumTo n (fun u => w (f u)) := by
  apply sumTo_congr
  intro u hu
  have : u ≠ t := by omega
  simp [upd, this]

/-- Updating thread `t < n`: the sum moves by the difference of the weights. -/
theorem sumTo_upd {α : Type} (n : Nat) (w : α → Nat) (f : Nat → α) (t : Nat) (v : α)
    (h : t < n) :
    sumTo n (fun u => w (upd f t v u)) + w (f t) = sumTo n (fun u => w (f u)) + w v := by
  induction n with
  | zero => exact absurd h (Nat.not_lt_zero _)
  | succ k ih =>
    simp only [sumTo_succ]
    by_cases hk : t = k
    · subst hk
      have h1 := sumTo_upd_ge t w f t v (Nat.le_refl t)
      simp only [upd_same]
      omega
    · have hlt : t < k := by omega
      have := ih hlt
      have hne : k ≠ t := fun h => hk h.symm
      simp only [upd_other _ _ _ _ hne]
      omega

theorem sumTo_eq_zero {n : Nat} {f : Nat → Nat} (h : ∀ t, t < n → f t = 0) : sumTo n f = 0 := by
  induction n with
  | zero => rfl
  | succ k ih =>
    simp only [sumTo_succ]
    rw [ih (fun t ht => h t (Nat.lt_succ_of_lt ht)), h k (Nat.lt_succ_self k)]

theorem le_sumTo {n : Nat} {f : Nat → Nat} {t : Nat} (h : t < n) : f t ≤ sumTo n f := by
  induction n with
  | zero => exact absurd h (Nat.not_lt_zero _)
  | succ k ih =>
    simp only [sumTo_succ]
    by_cases hk : t = k
    · subst hk; omega
    · have := ih (by omega); omega

theorem exists_pos_of_sumTo_pos {n : Nat} {f : Nat → Nat} (h : 0 < sumTo n f) :
    ∃ t, t < n ∧ 0 < f t := by
  induction n with
  | zero => exact absurd h (Nat.lt_irrefl 0)
  | succ k ih =>
    simp only [sumTo_succ] at h
    by_cases hk : 0 < f k
    · exact ⟨k, Nat.lt_succ_self k, hk⟩
    · have : 0 < sumTo k f := by omega
      obtain ⟨t, ht, hp⟩ := ih this
      exact ⟨t, Nat.lt_succ_of_lt ht, hp⟩

end PikaVerif

namespace PikaVerif
/-- Rewrite form of `sumTo_upd` (the subtraction is exact by `le_sumTo`). -/
theorem sumTo_upd_eq {α : Type} (n : Nat) (w : α → Nat) (f : Nat → α) (t : Nat) (v : α)
    (h : t < n) :
    sumTo n (fun u => w (upd f t v u)) = sumTo n (fun u => w (f u)) - w (f t) + w v := by
  have h1 := sumTo_upd n w f t v h
  have h2 := le_sumTo (f := fun u => w (f u)) h
  omega
end PikaVerif
