/-
Core definitions shared by all models.

A model is an *acceptor*: `step : σ → ε → Option σ` over a type of events `ε` that
mirrors the hook events of the instrumented pika code.  The set of event logs accepted
from `init` is the behaviour of the model; property theorems quantify over all accepted
logs (hence over every schedule, thread count and length).  The correspondence engines
feed the logs the real code produces to the same `step`.
-/
namespace PikaVerif

abbrev Tid := Nat

/-- Pointwise update of a per-thread map. -/
def upd {α : Type} (f : Nat → α) (t : Nat) (v : α) : Nat → α :=
  fun u => if u = t then v else f u

@[simp] theorem upd_same {α : Type} (f : Nat → α) (t : Nat) (v : α) : upd f t v t = v := by
  simp [upd]

@[simp] theorem upd_other {α : Type} (f : Nat → α) (t u : Nat) (v : α) (h : u ≠ t) :
    upd f t v u = f u := by
  simp [upd, h]

theorem upd_apply {α : Type} (f : Nat → α) (t u : Nat) (v : α) :
    upd f t v u = if u = t then v else f u := rfl

/-- Run an acceptor over a log; `none` = some event was rejected. -/
def runLog {σ ε : Type} (step : σ → ε → Option σ) : σ → List ε → Option σ
  | s, [] => some s
  | s, e :: es => match step s e with
    | none => none
    | some s' => runLog step s' es

@[simp] theorem runLog_nil {σ ε : Type} (step : σ → ε → Option σ) (s : σ) :
    runLog step s [] = some s := rfl

theorem runLog_cons {σ ε : Type} (step : σ → ε → Option σ) (s : σ) (e : ε) (es : List ε) :
    runLog step s (e :: es) = (step s e).bind (fun s' => runLog step s' es) := by
  simp only [runLog]; cases step s e <;> rfl

theorem runLog_append {σ ε : Type} (step : σ → ε → Option σ) (s : σ) (l₁ l₂ : List ε) :
    runLog step s (l₁ ++ l₂) = (runLog step s l₁).bind (fun s' => runLog step s' l₂) := by
  induction l₁ generalizing s with
  | nil => simp
  | cons e es ih =>
    simp only [List.cons_append, runLog]
    cases step s e with
    | none => simp
    | some s' => simpa using ih s'

/-- An invariant preserved by every accepted step holds after every accepted log. -/
theorem inv_of_runLog {σ ε : Type} {step : σ → ε → Option σ} (Inv : σ → Prop)
    (hstep : ∀ s e s', Inv s → step s e = some s' → Inv s')
    {s s' : σ} {log : List ε} (h0 : Inv s) (h : runLog step s log = some s') : Inv s' := by
  induction log generalizing s with
  | nil => simp at h; exact h ▸ h0
  | cons e es ih =>
    simp only [runLog] at h
    cases hs : step s e with
    | none => simp [hs] at h
    | some s1 => simp only [hs] at h; exact ih (hstep s e s1 h0 hs) h

/-- Every prefix of an accepted log is accepted. -/
theorem runLog_prefix {σ ε : Type} {step : σ → ε → Option σ} {s s' : σ} {l₁ l₂ : List ε}
    (h : runLog step s (l₁ ++ l₂) = some s') : ∃ s₁, runLog step s l₁ = some s₁ ∧
      runLog step s₁ l₂ = some s' := by
  rw [runLog_append] at h
  cases h1 : runLog step s l₁ with
  | none => simp [h1] at h
  | some s1 => exact ⟨s1, rfl, by simpa [h1] using h⟩

/-- Reachability in a model. -/
def Reach {σ ε : Type} (step : σ → ε → Option σ) (init s : σ) : Prop :=
  ∃ log, runLog step init log = some s

theorem Reach.inv {σ ε : Type} {step : σ → ε → Option σ} {init s : σ} (Inv : σ → Prop)
    (h0 : Inv init) (hstep : ∀ s e s', Inv s → step s e = some s' → Inv s')
    (h : Reach step init s) : Inv s := by
  obtain ⟨log, hl⟩ := h
  exact inv_of_runLog Inv hstep h0 hl

end PikaVerif
