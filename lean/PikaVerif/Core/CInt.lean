/-!
# C++ integer types for generated arithmetic (LP64)

The translator (`tools/translate/bulk_arith.py`) turns C++ integer expressions into Lean
terms over mathematical integers (`Int`) in which every operation is followed by the
conversion to its C++ result type (`CTy.wrap`): unsigned types wrap modulo `2^bits`;
signed types are modelled with two's complement wrap-around as well (what the compilers in
use do with `-fwrapv`, and what the hardware does), and every signed operation additionally
contributes a conjunct `CTy.ok T exact` to a generated `…NoUB` predicate, because signed
overflow is undefined behaviour in C++ (the theorems need the guard; the counterexamples
show what happens without it).

Types are values (`CTy`) so that generated code can be parametric in the bulk `Shape` type;
`common` is the usual arithmetic conversion for LP64 targets.
-/
namespace PikaVerif

structure CTy where
  bits : Nat
  signed : Bool
  deriving DecidableEq, Repr

namespace CTy

def i32 : CTy := ⟨32, true⟩
def u32 : CTy := ⟨32, false⟩
def i64 : CTy := ⟨64, true⟩
def u64 : CTy := ⟨64, false⟩

/-- Conversion of a mathematical integer to type `T` (modular; two's complement if signed). -/
def wrap (T : CTy) (x : Int) : Int :=
  if T.signed then (x + 2 ^ (T.bits - 1)) % 2 ^ T.bits - 2 ^ (T.bits - 1)
  else x % 2 ^ T.bits

/-- `x` is representable in `T`. -/
def fits (T : CTy) (x : Int) : Bool :=
  if T.signed then decide (-(2 ^ (T.bits - 1)) ≤ x ∧ x < 2 ^ (T.bits - 1))
  else decide (0 ≤ x ∧ x < 2 ^ T.bits)

/-- No undefined behaviour: an exact result of a signed operation must be representable. -/
def ok (T : CTy) (x : Int) : Bool := !T.signed || T.fits x

/-- Integer promotion (types narrower than `int` become `int`). -/
def promote (T : CTy) : CTy := if T.bits < 32 then i32 else T

/-- Usual arithmetic conversions (LP64: int 32, long = long long 64). -/
def common (A B : CTy) : CTy :=
  let A := promote A
  let B := promote B
  if A.bits = B.bits then ⟨A.bits, A.signed && B.signed⟩
  else if A.bits < B.bits then B else A

/-- The shapes for which `thread_pool_scheduler_bulk.hpp` compiles: `(std::min)(…, n)` in
    `do_work_chunk` needs both arguments to have type `Shape`, which fails for types that are
    promoted (`short`, `char`, …). -/
def isShape (S : CTy) : Bool := S.bits == 32 || S.bits == 64

/-- `std::min<T>(a, b)` = `(b < a) ? b : a`; both arguments must have the same type (otherwise
    the call does not compile: value 0 here and `decide (A = B)` fails in the `…NoUB` predicate). -/
def minSame (A B : CTy) (a b : Int) : Int :=
  if A = B then (if b < a then b else a) else 0

theorem wrap_of_fits {T : CTy} {x : Int} (hb : 0 < T.bits) (h : T.fits x = true) :
    T.wrap x = x := by
  unfold fits at h
  unfold wrap
  split at h <;> rename_i hs <;> simp only [hs, if_true] <;> simp at h
  · have hp : (0 : Int) < 2 ^ (T.bits - 1) := Int.pow_pos (by decide)
    have h2 : (2 : Int) ^ T.bits = 2 ^ (T.bits - 1) * 2 := by
      obtain ⟨k, hk⟩ : ∃ k, T.bits = k + 1 := ⟨T.bits - 1, by omega⟩
      rw [hk]; simp [Int.pow_succ]
    rw [Int.emod_eq_of_lt (by omega) (by omega)]; omega
  · exact Int.emod_eq_of_lt h.1 h.2

end CTy
end PikaVerif
