import PikaVerif.Lemmas.Stop2E.Inv
import PikaVerif.Lemmas.Stop2E.Ret
import PikaVerif.Lemmas.Stop2E.Load
import PikaVerif.Lemmas.Stop2E.CasFail
import PikaVerif.Lemmas.Stop2E.Reload
import PikaVerif.Lemmas.Stop2E.Acq
import PikaVerif.Lemmas.Stop2E.Deq
import PikaVerif.Lemmas.Stop2E.RsDone
import PikaVerif.Lemmas.Stop2E.PreExec
import PikaVerif.Lemmas.Stop2E.CbBegin
import PikaVerif.Lemmas.Stop2E.CbEnd
import PikaVerif.Lemmas.Stop2E.FinStore
import PikaVerif.Lemmas.Stop2E.InFin
import PikaVerif.Lemmas.Stop2E.Push
import PikaVerif.Lemmas.Stop2E.Unlink
import PikaVerif.Lemmas.Stop2E.SelfChk
import PikaVerif.Lemmas.Stop2E.Waited
import PikaVerif.Lemmas.Stop2E.SrcInc
import PikaVerif.Lemmas.Stop2E.SrcDec
import PikaVerif.Lemmas.Stop2E.Query
import PikaVerif.Lemmas.Stop2E.Done
/-! Invariants A and B hold after every accepted log of the repaired code. -/
namespace PikaVerif.Stop
open PikaVerif

theorem stepB (s s' : St) (e : Ev) (hA : InvA s) (hi : InvB s) (h : step s e = some s') : InvB s' := by
  cases e with
  | inv a k => exact stepB_inv s s' a k hA hi h
  | ret a r => exact stepB_ret s s' a r hA hi h
  | load a lk rq src => exact stepB_load s s' a lk rq src hA hi h
  | casFail a lk rq src => exact stepB_casFail s s' a lk rq src hA hi h
  | reload a lk rq src => exact stepB_reload s s' a lk rq src hA hi h
  | acq a => exact stepB_acq s s' a hA hi h
  | deq a c m => exact stepB_deq s s' a c m hA hi h
  | rsDone a => exact stepB_rsDone s s' a hA hi h
  | preExec a c => exact stepB_preExec s s' a c hA hi h
  | cbBegin a c => exact stepB_cbBegin s s' a c hA hi h
  | cbEnd a c => exact stepB_cbEnd s s' a c hA hi h
  | finStore a c r => exact stepB_finStore s s' a c r hA hi h
  | inFin a c => exact stepB_inFin s s' a c hA hi h
  | push a c b => exact stepB_push s s' a c b hA hi h
  | unlink a c r => exact stepB_unlink s s' a c r hA hi h
  | selfChk a c e p => exact stepB_selfChk s s' a c e p hA hi h
  | waited a c => exact stepB_waited s s' a c hA hi h
  | srcInc a => exact stepB_srcInc s s' a hA hi h
  | srcDec a => exact stepB_srcDec s s' a hA hi h
  | query a x y => exact stepB_query s s' a x y hA hi h
  | done a => exact stepB_done s s' a hA hi h

theorem invAB_of_accepted {n K : Nat} {ident : Nat → Nat} {fc : Bool} {srcs : Nat} {log : List Ev} {s : St}
    (h : runLog step (init n K ident true fc srcs) log = some s) : InvA s ∧ InvB s := by
  have : ∀ (log : List Ev) (s0 s : St), InvA s0 ∧ InvB s0 → runLog step s0 log = some s → InvA s ∧ InvB s := by
    intro log
    induction log with
    | nil => intro s0 s h0 h; simp at h; exact h ▸ h0
    | cons e es ih =>
      intro s0 s h0 h
      simp only [runLog] at h
      cases hs : step s0 e with
      | none => simp [hs] at h
      | some s1 =>
        simp only [hs] at h
        exact ih s1 s ⟨stepA s0 s1 e h0.1 hs, stepB s0 s1 e h0.1 h0.2 hs⟩ h
  exact this log _ s ⟨invA_init n K ident fc srcs, invB_init n K ident true fc srcs⟩ h

end PikaVerif.Stop
