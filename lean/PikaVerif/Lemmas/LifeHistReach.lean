import PikaVerif.Lemmas.LifeHistCount
/-! Reachable states of life-cycle histories (C05t): all invariants, run bounds, maximal extensions,
    the `Final` predicate. -/
namespace PikaVerif.Life
open PikaVerif

/-- the documented preconditions on a history: the script is well formed (`Life.wf`) from "no
    runtime", and the log's bound on thread objects covers the tasks of the history -/
def HOk (na no : Nat) (script : List Call) (kids : Nat) : Prop :=
  wf na .none false script ∧ nsub script + kids ≤ no

def HReach (h : HSt) : Prop :=
  ∃ na no script kids yields log, HOk na no script kids ∧
    runLog hstep (hinit na no script kids yields) log = some h

theorem hinvA_init (na no : Nat) (script : List Call) (kids yields : Nat) (hok : HOk na no script kids) :
    HInvA (hinit na no script kids yields) := by
  refine ⟨?_, ?_, ?_, ?_, ?_⟩ <;> simp [hinit, init]
  exact hok.2

theorem hinvB_init (na no : Nat) (script : List Call) (kids yields : Nat) (hok : HOk na no script kids) :
    HInvB (hinit na no script kids yields) := by
  refine ⟨?_, ?_, ?_, ?_, ?_, ?_, ?_, ?_, ?_, ?_, ?_, ?_, ?_, ?_, ?_, ?_, ?_, ?_⟩ <;>
    simp [hinit, init, postPh, postFin]
  exact hok.1

theorem hinvC_init (na no : Nat) (script : List Call) (kids yields : Nat) :
    HInvC (hinit na no script kids yields) := by
  refine ⟨?_, ?_⟩ <;> simp only [entered, exited, wPotF]
  · rw [sumTo_eq_zero (fun t _ => by simp [wTerm, hinit, init])]; simp [hinit, init]
  · rw [sumTo_eq_zero (fun t _ => by simp [wTerm, hinit, init])]; simp [hinit, init]

structure AllInv (h : HSt) : Prop where
  i : Inv h.s
  a : HInvA h
  b : HInvB h
  c : HInvC h

theorem allInv_runLog (log : List Ev) : ∀ (h h' : HSt), AllInv h → runLog hstep h log = some h' → AllInv h' := by
  induction log with
  | nil => intro h h' hi hr; simp at hr; subst hr; exact hi
  | cons e es ih =>
    intro h h' hi hr
    simp only [runLog] at hr
    cases hs : hstep h e with
    | none => simp [hs] at hr
    | some h1 =>
      simp only [hs] at hr
      exact ih h1 h' ⟨step_inv _ _ _ hi.i (hstep_step h h1 e hs), hinvA_step h h1 e hi.i hi.a hs,
        hinvB_step h h1 e hi.i hi.b hs, hinvC_step h h1 e hi.i hi.c hs⟩ hr

theorem allInv_of_reach {h : HSt} (hr : HReach h) : AllInv h := by
  obtain ⟨na, no, script, kids, yields, log, hok, hl⟩ := hr
  exact allInv_runLog log _ h ⟨inv_init na no, hinvA_init na no script kids yields hok,
    hinvB_init na no script kids yields hok, hinvC_init na no script kids yields⟩ hl

theorem reach_append {h h' : HSt} (hr : HReach h) (log : List Ev) (hl : runLog hstep h log = some h') : HReach h' := by
  obtain ⟨na, no, script, kids, yields, log0, hok, hl0⟩ := hr
  refine ⟨na, no, script, kids, yields, log0 ++ log, hok, ?_⟩
  rw [runLog_append, hl0]; simpa using hl


/-- the busy poll of `wait()`: with the controller polling in `wait()` and a non-zero counter, the
    sample is accepted and leaves the controller polling with the same counter -/
def Polling (c : Nat) (h : HSt) : Prop :=
  h.cpc = .wait1 ∧ h.s.cnt = c ∧ 0 < h.s.na ∧ h.s.cur 0 = none ∧ h.s.stopper = none

theorem poll_step (c : Nat) (hc : 0 < c) (h : HSt) (hp : Polling c h) :
    ∃ h', hstep h (.sample 0 c 0) = some h' ∧ Polling c h' := by
  obtain ⟨h1, h2, h3, h4, h5⟩ := hp
  have hnot : ¬ c ≤ 0 := by omega
  refine ⟨_, by simp [hstep, step, led, h1, h2, h3, h4, h5, b2n, hnot]; rfl, ?_⟩
  exact ⟨rfl, rfl, h3, h4, rfl⟩


theorem scost_le (M : Nat) : ∀ (script : List Call) (th : Nat), th ≤ M →
    (∀ t p, Call.start t p ∈ script → t ≤ M) → scost th script ≤ (M + 10) * script.length := by
  intro script
  induction script with
  | nil => intro th _ _; simp [scost]
  | cons c r ih =>
    intro th hth hall
    have hr : ∀ t p, Call.start t p ∈ r → t ≤ M := fun t p hm => hall t p (List.mem_cons_of_mem _ hm)
    simp only [List.length_cons, Nat.mul_succ]
    cases c with
    | start t p =>
      have ht : t ≤ M := hall t p (List.mem_cons_self ..)
      have := ih t ht hr
      simp only [scost]; omega
    | submit => have := ih th hth hr; simp only [scost]; omega
    | wait => have := ih th hth hr; simp only [scost]; omega
    | suspend => have := ih th hth hr; simp only [scost]; omega
    | resume => have := ih th hth hr; simp only [scost]; omega
    | finalize => have := ih th hth hr; simp only [scost]; omega
    | stop => have := ih th hth hr; simp only [scost]; omega


/-- every state of a history extends, by non-neutral events only, to a maximal state -/
theorem exists_maximal : ∀ (k : Nat) (h : HSt), Inv h.s → phi h ≤ k →
    ∃ ext h', runLog hstep h ext = some h' ∧ Maximal h' ∧ ext.length ≤ phi h ∧ nMoves ext = ext.length := by
  intro k
  induction k with
  | zero =>
    intro h hi hk
    refine ⟨[], h, rfl, ?_, Nat.zero_le _, rfl⟩
    intro e h' hs
    cases hn : neutral e with
    | true => rfl
    | false => have := (phi_step h h' e hi hs).1 hn; omega
  | succ k ih =>
    intro h hi hk
    by_cases hm : Maximal h
    · exact ⟨[], h, rfl, hm, Nat.zero_le _, rfl⟩
    · have : ∃ e h', hstep h e = some h' ∧ neutral e = false := by
        apply Classical.byContradiction
        intro hc
        apply hm
        intro e h' hs
        cases hn : neutral e with
        | true => rfl
        | false => exact absurd ⟨e, h', hs, hn⟩ hc
      obtain ⟨e, h1, hs, hn⟩ := this
      have hlt := (phi_step h h1 e hi hs).1 hn
      have hi1 := step_inv _ _ _ hi (hstep_step h h1 e hs)
      obtain ⟨ext, h', hrun, hmax, hlen, hmv⟩ := ih h1 hi1 (by omega)
      refine ⟨e :: ext, h', ?_, hmax, ?_, ?_⟩
      · simp only [runLog, hs]; exact hrun
      · simp only [List.length_cons]; omega
      · simp only [nMoves, hn, List.length_cons]; simp; omega


/-- everything is done: the script is exhausted and every issued call has returned (no thread is inside
    `stop()`, `wait()`, `suspend()`, `resume()`), the activity counter is zero with nothing in flight,
    staged, live or being destroyed, every unit ever started has finished, every task was entered and
    left exactly once (`bodies = exits = started`), and no OS thread is inside a task -/
def Final (h : HSt) : Prop :=
  h.script = [] ∧ h.cpc = .idle ∧ h.s.spc = .out ∧ h.s.stopper = none ∧
  h.s.cnt = 0 ∧ h.s.creating = 0 ∧ h.s.staged = 0 ∧ h.s.destroying = 0 ∧ (∀ o, h.s.live o = false) ∧
  h.s.finished = h.s.started ∧ h.bodies = h.s.started ∧ h.exits = h.s.started ∧ (∀ a, h.s.cur a = none)

theorem final_of_drained {h : HSt} (hall : AllInv h) (hscr : h.script = []) (hc : h.cpc = .idle)
    (hcnt : h.s.cnt = 0) : Final h := by
  have hd := drained_of_cnt_zero hall.i hcnt
  have hspc : h.s.spc = .out := by
    cases hs : h.s.spc with
    | out => rfl
    | _ => have := hall.b.stop.2 (by rw [hs]; simp); rw [hc] at this; cases this
  have hfin : h.s.finished = h.s.started := by have := hall.i.history; omega
  have he : entered h = 0 := sumTo_eq_zero (fun t _ => by simp [wTerm, hd.2.2.2 t])
  have hx : exited h = 0 := sumTo_eq_zero (fun t _ => by simp [wTerm, hd.2.2.2 t])
  have hb := hall.c.bodies
  have hex := hall.c.exits
  refine ⟨hscr, hc, hspc, hall.i.outStopper hspc, hcnt, hd.1, hd.2.1, hd.2.2.1, hd.2.2.2, hfin,
    by omega, by omega, ?_⟩
  intro a
  cases hcur : h.s.cur a with
  | none => rfl
  | some o => have := (hall.i.curLive a o hcur).1; rw [hd.2.2.2 o] at this; cases this


end PikaVerif.Life
