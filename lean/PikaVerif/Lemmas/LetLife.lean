import PikaVerif.Model.LetLife
import PikaVerif.Lemmas.SchedFromLife
/-!
Invariants of the life-cycle model of `let_value` / `let_error` (C03x): chain of control (`CInv`), stored objects
(`OInv`), result (`RInv`); same structure as Lemmas/SchedFromLife.lean.
-/
namespace PikaVerif.LetLife
open PikaVerif
open PikaVerif.SchedFromLife (Sig b2n)

/-- Chain of control. -/
structure CInv (s : St) : Prop where
  busyHolder : ∀ t, busy (s.pc t) = true → s.holder = some t
  holderBusy : ∀ t, s.holder = some t → busy (s.pc t) = true
  delivLe : s.delivered ≤ 1
  holderDeliv : ∀ t, s.holder = some t → s.delivered = 0
  predStarted : s.predSig ≠ none → s.started = true
  predNone : s.predSig = none → s.holder = none ∧ s.delivered = 0 ∧ s.sopArmed = false ∧ s.succSig = none ∧ s.thrown = none
  armedWait : s.sopArmed = true → s.succSig = none → s.holder = none ∧ s.delivered = 0
  succArmed : s.succSig ≠ none → s.sopArmed = true
  armedNoThrow : s.sopArmed = true → s.thrown = none ∧ ∀ p, s.predSig = some p → s.cfg.stores p = true
  pcPred : ∀ t c, s.pc t = .pred c → s.predSig = some c ∧ s.sopArmed = false ∧ s.thrown = none
  pcStored : ∀ t, s.pc t = .stored → s.sopArmed = false ∧ s.thrown = none ∧ ∀ p, s.predSig = some p → s.cfg.stores p = true
  pcCalled : ∀ t, s.pc t = .called → s.sopArmed = false ∧ s.thrown = none ∧ ∀ p, s.predSig = some p → s.cfg.stores p = true
  pcConn : ∀ t, s.pc t = .connected → s.sopArmed = false ∧ s.thrown = none ∧ ∀ p, s.predSig = some p → s.cfg.stores p = true
  pcCaught : ∀ t e, s.pc t = .caught e → s.thrown = some e ∧ s.sopArmed = false ∧ ∀ p, s.predSig = some p → s.cfg.stores p = true
  progress : s.predSig ≠ none → s.delivered = 1 ∨ s.holder ≠ none ∨ (s.sopArmed = true ∧ s.succSig = none)

theorem cinv_init (c : Cfg) : CInv (init c) := by
  constructor <;> simp [init, busy]

attribute [local grind] busy b2n payload

set_option hygiene false in
macro "lt_step" : tactic => `(tactic| (
  simp only [step] at h
  repeat' split at h
  all_goals first | (simp at h; done) | skip
  all_goals (
    simp only [Option.some.injEq] at h
    subst h
    (try simp only [deliver, catchE])
    (try split)
    all_goals (try simp only [free])
    all_goals (constructor <;> (try dsimp only)))
  all_goals first
    | assumption
    | (intro u; grind [upd])
    | grind [upd]))

set_option maxHeartbeats 2000000 in
theorem step_cinv (s s' : St) (e : Ev) (hc : CInv s) (h : step s e = some s') : CInv s' := by
  obtain ⟨c1,c2,c3,c4,c5,c6,c7,c8,c9,c10,c11,c12,c13,c14,c15⟩ := hc
  cases e <;> lt_step

/-- The stored objects (`predecessor_ts`, `successor_op_state`), the receiver, destruction, `uaf`. -/
structure OInv (s : St) : Prop where
  predNoneO : s.predSig = none → s.tsCtor = 0 ∧ s.sopCtor = 0 ∧ s.ts = none ∧ s.sop = false ∧ s.freed = false ∧ s.rcvMoved = false
  pcPredO : ∀ t c, s.pc t = .pred c → s.tsCtor = 0 ∧ s.sopCtor = 0 ∧ s.ts = none ∧ s.sop = false ∧ s.rcvMoved = false
  pcStoredO : ∀ t, s.pc t = .stored → s.ts ≠ none ∧ s.sopCtor = 0 ∧ s.sop = false ∧ s.rcvMoved = false
  pcCalledO : ∀ t, s.pc t = .called → s.ts ≠ none ∧ s.sopCtor = 0 ∧ s.sop = false ∧ s.rcvMoved = false
  pcConnO : ∀ t, s.pc t = .connected → s.ts ≠ none ∧ s.sop = true
  pcCaughtO : ∀ t e, s.pc t = .caught e → s.sopCtor = 0 ∧ s.sop = false ∧ (s.rcvMoved = true → s.lateThrow = true)
  armedO : s.sopArmed = true → s.succSig = none → s.ts ≠ none ∧ s.sop = true ∧ s.freed = false
  tsPred : ∀ v p, s.ts = some v → s.predSig = some p → payload p = v ∧ s.cfg.stores p = true
  freedDeliv : s.freed = true → s.delivered = 1
  selfFreed : s.cfg.selfdel = true → s.delivered = 1 → s.freed = true
  nfreeEq : s.nfree = b2n s.freed
  tsCount : s.freed = false → s.tsCtor = s.tsDtor + b2n s.ts.isSome
  tsCountF : s.freed = true → s.tsCtor = s.tsDtor ∧ s.ts = none
  sopCount : s.freed = false → s.sopCtor = s.sopDtor + b2n s.sop
  sopCountF : s.freed = true → s.sopCtor = s.sopDtor
  ctorLe : s.tsCtor ≤ 1 ∧ s.sopCtor ≤ 1
  hollowLate : s.hollow = true → s.lateThrow = true
  uafF : s.uaf = false

theorem oinv_init (c : Cfg) : OInv (init c) := by
  constructor <;> simp [init, b2n]

set_option maxHeartbeats 4000000 in
theorem step_oinv (s s' : St) (e : Ev) (hc : CInv s) (ho : OInv s) (h : step s e = some s') : OInv s' := by
  obtain ⟨c1,c2,c3,c4,c5,c6,c7,c8,c9,c10,c11,c12,c13,c14,c15⟩ := hc
  obtain ⟨o1,o2,o3,o4,o5,o6,o7,o8,o9,o10,o11,o12,o13,o14,o15,o16,o17,o18⟩ := ho
  cases e <;> lt_step

/-- The result is the denoted completion. -/
structure RInv (s : St) : Prop where
  resP : ∀ p, s.delivered = 1 → s.predSig = some p → s.cfg.stores p = false → s.result = some p
  resT : ∀ p e, s.delivered = 1 → s.predSig = some p → s.cfg.stores p = true → s.thrown = some e → s.result = some (.error e)
  resS : ∀ p, s.delivered = 1 → s.predSig = some p → s.cfg.stores p = true → s.thrown = none →
    s.result = s.succSig ∧ s.succSig ≠ none
  resNone : s.delivered = 0 → s.result = none

theorem rinv_init (c : Cfg) : RInv (init c) := by
  constructor <;> simp [init]

set_option maxHeartbeats 2000000 in
theorem step_rinv (s s' : St) (e : Ev) (hc : CInv s) (hr : RInv s) (h : step s e = some s') : RInv s' := by
  obtain ⟨c1,c2,c3,c4,c5,c6,c7,c8,c9,c10,c11,c12,c13,c14,c15⟩ := hc
  obtain ⟨r1, r2, r3, r4⟩ := hr
  cases e <;> lt_step

structure Full (s : St) : Prop where
  c : CInv s
  o : OInv s
  r : RInv s

theorem full_init (c : Cfg) : Full (init c) := ⟨cinv_init c, oinv_init c, rinv_init c⟩

theorem step_full (s : St) (e : Ev) (s' : St) (hf : Full s) (h : step s e = some s') : Full s' :=
  ⟨step_cinv s s' e hf.c h, step_oinv s s' e hf.c hf.o h, step_rinv s s' e hf.c hf.r h⟩

theorem full_of_runLog {c : Cfg} {log : List Ev} {s : St} (h : runLog step (init c) log = some s) : Full s :=
  inv_of_runLog Full step_full (full_init c) h

theorem cfg_of_runLog {s0 s : St} {log : List Ev} (h : runLog step s0 log = some s) : s.cfg = s0.cfg := by
  induction log generalizing s0 with
  | nil => simp at h; rw [← h]
  | cons e es ih =>
    simp only [runLog] at h
    cases hs : step s0 e with
    | none => simp [hs] at h
    | some s1 =>
      simp only [hs] at h
      rw [ih h]
      simp only [step] at hs
      repeat' split at hs
      all_goals first | (simp at hs; done) | skip
      all_goals (simp only [Option.some.injEq] at hs; subst hs; (try simp only [deliver, catchE]); (try split); all_goals (try simp only [free]))

end PikaVerif.LetLife
