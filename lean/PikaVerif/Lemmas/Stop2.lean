import PikaVerif.Lemmas.Stop
/-! Second invariant of the stop_state model: life cycle of the callbacks (definitions, the
    constructor-wise equations of the phase functions used by `grind`, and the proof script;
    one file per event kind under `Stop2E/` so that they build in parallel). -/
namespace PikaVerif.Stop
open PikaVerif

/-- constructor of `c` in progress, callback not (yet) registered -/
def regPhase : Pc → Option Nat
  | .ld (.reg c) | .cas (.reg c) _ | .spin (.reg c) | .locked (.reg c) => some c
  | .exec c inl | .body c inl | .post c inl => if inl then some c else none
  | _ => none

/-- the lock loop of the constructor of `c` after its first load -/
def regLockPhase : Pc → Option Nat
  | .cas (.reg c) _ | .spin (.reg c) | .locked (.reg c) => some c
  | _ => none

/-- request_stop is processing the dequeued callback `c` -/
def winPhase : Pc → Option Nat
  | .pre c => some c
  | .exec c inl | .body c inl | .post c inl => if inl then none else some c
  | _ => none

def ranOf : Pc → Nat
  | .body _ _ | .post _ _ => 1
  | _ => 0

def unregOf : Pc → Option Nat
  | .ld (.unreg c) | .cas (.unreg c) _ | .spin (.unreg c) | .locked (.unreg c) => some c
  | .chk c | .wait c | .retn (.unreg c) _ => some c
  | _ => none

/-- destructor of `c` past the unlink attempt -/
def unregDone : Pc → Option Nat
  | .chk c | .wait c | .retn (.unreg c) _ => some c
  | _ => none

def started : Life → Bool
  | .live | .dying | .dead => true
  | _ => false

structure InvB (s : St) : Prop where
  nodup : s.list.Nodup
  inList : ∀ c, c ∈ s.list → s.pushed c = true ∧ s.deqd c = false ∧ s.runs c = 0 ∧ s.life c ≠ .new ∧ s.life c ≠ .dead
  fresh : ∀ c, s.life c = .new → s.pushed c = false ∧ s.deqd c = false ∧ s.runs c = 0 ∧ s.ranInl c = false ∧ s.fin c = false
  pushedWhere : ∀ c, s.pushed c = true → c ∈ s.list ∨ s.deqd c = true ∨ s.life c = .dying ∨ s.life c = .dead
  deqPushed : ∀ c, s.deqd c = true → s.pushed c = true
  ownerR : ∀ a c, regPhase (s.pc a) = some c → s.owner c = a
  ownerW : ∀ a c, winPhase (s.pc a) = some c → s.owner c = a
  regP : ∀ a c, regPhase (s.pc a) = some c → s.life c = .ctor ∧ s.pushed c = false ∧ s.ranInl c = false
  winP : ∀ a c, winPhase (s.pc a) = some c → s.deqd c = true
  runsR : ∀ a c, regPhase (s.pc a) = some c → s.runs c = ranOf (s.pc a)
  runsW : ∀ a c, winPhase (s.pc a) = some c → s.runs c = ranOf (s.pc a)
  retRegP : ∀ a c b, s.pc a = .retn (.reg c) b → s.life c = .ctor ∧ b = s.pushed c
  ctorR : ∀ a c, regPhase (s.pc a) = some c → s.ctorBy c = a
  ctorRet : ∀ a c b, s.pc a = .retn (.reg c) b → s.ctorBy c = a
  unregP : ∀ a c, unregOf (s.pc a) = some c → s.life c = .dying
  unregOut : ∀ a c, unregDone (s.pc a) = some c → c ∉ s.list ∧ s.life c = .dying ∧ s.dtorBy c = a
  dtorP : ∀ a c, unregOf (s.pc a) = some c → s.dtorBy c = a
  deqRuns : ∀ c, s.deqd c = true → s.runs c = 0 → (s.pc (s.owner c) = .pre c ∨ s.pc (s.owner c) = .exec c false)
  deqWinner : ∀ c, s.deqd c = true → s.winner = some (s.owner c)
  inlRuns : ∀ c, s.ranInl c = true → s.runs c = 1
  runsLe : ∀ c, s.runs c ≤ 1
  finRuns : ∀ c, s.fin c = true → s.runs c = 1
  keptP : ∀ c, started (s.life c) = true → s.kept c = s.pushed c
  atRegReq : ∀ c, s.reqAtReg c = true → s.req = true
  atRegLock : ∀ a c, regLockPhase (s.pc a) = some c → s.reqAtReg c = false
  atRegRet : ∀ a c b, s.pc a = .retn (.reg c) b → s.reqAtReg c = true → s.ranInl c = true
  atRegLive : ∀ c, started (s.life c) = true → s.reqAtReg c = true → s.ranInl c = true

theorem invB_init (n K : Nat) (id : Nat → Nat) (f1 f2 : Bool) (m : Nat) : InvB (init n K id f1 f2 m) := by
  refine ⟨?_, ?_, ?_, ?_, ?_, ?_, ?_, ?_, ?_, ?_, ?_, ?_, ?_, ?_, ?_, ?_, ?_, ?_, ?_, ?_, ?_, ?_, ?_, ?_, ?_, ?_, ?_⟩ <;>
    simp [init, regPhase, winPhase, unregOf, unregDone, regLockPhase, started]

theorem regPhase_idle : regPhase .idle = (none : Option Nat) := rfl
theorem regPhase_fin : regPhase .fin = (none : Option Nat) := rfl
theorem regPhase_ld_rs : regPhase (.ld .rs) = (none : Option Nat) := rfl
theorem regPhase_cas_rs (b : Bool) : regPhase (.cas .rs b) = (none : Option Nat) := rfl
theorem regPhase_spin_rs : regPhase (.spin .rs) = (none : Option Nat) := rfl
theorem regPhase_locked_rs : regPhase (.locked .rs) = (none : Option Nat) := rfl
theorem regPhase_retn_rs (r : Bool) : regPhase (.retn .rs r) = (none : Option Nat) := rfl
theorem regPhase_ld_reg (c : Nat) : regPhase (.ld (.reg c)) = (some c : Option Nat) := rfl
theorem regPhase_cas_reg (c : Nat) (b : Bool) : regPhase (.cas (.reg c) b) = (some c : Option Nat) := rfl
theorem regPhase_spin_reg (c : Nat) : regPhase (.spin (.reg c)) = (some c : Option Nat) := rfl
theorem regPhase_locked_reg (c : Nat) : regPhase (.locked (.reg c)) = (some c : Option Nat) := rfl
theorem regPhase_retn_reg (c : Nat) (r : Bool) : regPhase (.retn (.reg c) r) = (none : Option Nat) := rfl
theorem regPhase_ld_unreg (c : Nat) : regPhase (.ld (.unreg c)) = (none : Option Nat) := rfl
theorem regPhase_cas_unreg (c : Nat) (b : Bool) : regPhase (.cas (.unreg c) b) = (none : Option Nat) := rfl
theorem regPhase_spin_unreg (c : Nat) : regPhase (.spin (.unreg c)) = (none : Option Nat) := rfl
theorem regPhase_locked_unreg (c : Nat) : regPhase (.locked (.unreg c)) = (none : Option Nat) := rfl
theorem regPhase_retn_unreg (c : Nat) (r : Bool) : regPhase (.retn (.unreg c) r) = (none : Option Nat) := rfl
theorem regPhase_ld_relock : regPhase (.ld .relock) = (none : Option Nat) := rfl
theorem regPhase_cas_relock (b : Bool) : regPhase (.cas .relock b) = (none : Option Nat) := rfl
theorem regPhase_spin_relock : regPhase (.spin .relock) = (none : Option Nat) := rfl
theorem regPhase_locked_relock : regPhase (.locked .relock) = (none : Option Nat) := rfl
theorem regPhase_retn_relock (r : Bool) : regPhase (.retn .relock r) = (none : Option Nat) := rfl
theorem regPhase_pre (c : Nat) : regPhase (.pre c) = (none : Option Nat) := rfl
theorem regPhase_exec (c : Nat) (inl : Bool) : regPhase (.exec c inl) = (if inl then some c else none : Option Nat) := by cases ‹Bool› <;> rfl
theorem regPhase_body (c : Nat) (inl : Bool) : regPhase (.body c inl) = (if inl then some c else none : Option Nat) := by cases ‹Bool› <;> rfl
theorem regPhase_post (c : Nat) (inl : Bool) : regPhase (.post c inl) = (if inl then some c else none : Option Nat) := by cases ‹Bool› <;> rfl
theorem regPhase_chk (c : Nat) : regPhase (.chk c) = (none : Option Nat) := rfl
theorem regPhase_wait (c : Nat) : regPhase (.wait c) = (none : Option Nat) := rfl
theorem regLockPhase_idle : regLockPhase .idle = (none : Option Nat) := rfl
theorem regLockPhase_fin : regLockPhase .fin = (none : Option Nat) := rfl
theorem regLockPhase_ld_rs : regLockPhase (.ld .rs) = (none : Option Nat) := rfl
theorem regLockPhase_cas_rs (b : Bool) : regLockPhase (.cas .rs b) = (none : Option Nat) := rfl
theorem regLockPhase_spin_rs : regLockPhase (.spin .rs) = (none : Option Nat) := rfl
theorem regLockPhase_locked_rs : regLockPhase (.locked .rs) = (none : Option Nat) := rfl
theorem regLockPhase_retn_rs (r : Bool) : regLockPhase (.retn .rs r) = (none : Option Nat) := rfl
theorem regLockPhase_ld_reg (c : Nat) : regLockPhase (.ld (.reg c)) = (none : Option Nat) := rfl
theorem regLockPhase_cas_reg (c : Nat) (b : Bool) : regLockPhase (.cas (.reg c) b) = (some c : Option Nat) := rfl
theorem regLockPhase_spin_reg (c : Nat) : regLockPhase (.spin (.reg c)) = (some c : Option Nat) := rfl
theorem regLockPhase_locked_reg (c : Nat) : regLockPhase (.locked (.reg c)) = (some c : Option Nat) := rfl
theorem regLockPhase_retn_reg (c : Nat) (r : Bool) : regLockPhase (.retn (.reg c) r) = (none : Option Nat) := rfl
theorem regLockPhase_ld_unreg (c : Nat) : regLockPhase (.ld (.unreg c)) = (none : Option Nat) := rfl
theorem regLockPhase_cas_unreg (c : Nat) (b : Bool) : regLockPhase (.cas (.unreg c) b) = (none : Option Nat) := rfl
theorem regLockPhase_spin_unreg (c : Nat) : regLockPhase (.spin (.unreg c)) = (none : Option Nat) := rfl
theorem regLockPhase_locked_unreg (c : Nat) : regLockPhase (.locked (.unreg c)) = (none : Option Nat) := rfl
theorem regLockPhase_retn_unreg (c : Nat) (r : Bool) : regLockPhase (.retn (.unreg c) r) = (none : Option Nat) := rfl
theorem regLockPhase_ld_relock : regLockPhase (.ld .relock) = (none : Option Nat) := rfl
theorem regLockPhase_cas_relock (b : Bool) : regLockPhase (.cas .relock b) = (none : Option Nat) := rfl
theorem regLockPhase_spin_relock : regLockPhase (.spin .relock) = (none : Option Nat) := rfl
theorem regLockPhase_locked_relock : regLockPhase (.locked .relock) = (none : Option Nat) := rfl
theorem regLockPhase_retn_relock (r : Bool) : regLockPhase (.retn .relock r) = (none : Option Nat) := rfl
theorem regLockPhase_pre (c : Nat) : regLockPhase (.pre c) = (none : Option Nat) := rfl
theorem regLockPhase_exec (c : Nat) (inl : Bool) : regLockPhase (.exec c inl) = (none : Option Nat) := by cases ‹Bool› <;> rfl
theorem regLockPhase_body (c : Nat) (inl : Bool) : regLockPhase (.body c inl) = (none : Option Nat) := by cases ‹Bool› <;> rfl
theorem regLockPhase_post (c : Nat) (inl : Bool) : regLockPhase (.post c inl) = (none : Option Nat) := by cases ‹Bool› <;> rfl
theorem regLockPhase_chk (c : Nat) : regLockPhase (.chk c) = (none : Option Nat) := rfl
theorem regLockPhase_wait (c : Nat) : regLockPhase (.wait c) = (none : Option Nat) := rfl
theorem winPhase_idle : winPhase .idle = (none : Option Nat) := rfl
theorem winPhase_fin : winPhase .fin = (none : Option Nat) := rfl
theorem winPhase_ld_rs : winPhase (.ld .rs) = (none : Option Nat) := rfl
theorem winPhase_cas_rs (b : Bool) : winPhase (.cas .rs b) = (none : Option Nat) := rfl
theorem winPhase_spin_rs : winPhase (.spin .rs) = (none : Option Nat) := rfl
theorem winPhase_locked_rs : winPhase (.locked .rs) = (none : Option Nat) := rfl
theorem winPhase_retn_rs (r : Bool) : winPhase (.retn .rs r) = (none : Option Nat) := rfl
theorem winPhase_ld_reg (c : Nat) : winPhase (.ld (.reg c)) = (none : Option Nat) := rfl
theorem winPhase_cas_reg (c : Nat) (b : Bool) : winPhase (.cas (.reg c) b) = (none : Option Nat) := rfl
theorem winPhase_spin_reg (c : Nat) : winPhase (.spin (.reg c)) = (none : Option Nat) := rfl
theorem winPhase_locked_reg (c : Nat) : winPhase (.locked (.reg c)) = (none : Option Nat) := rfl
theorem winPhase_retn_reg (c : Nat) (r : Bool) : winPhase (.retn (.reg c) r) = (none : Option Nat) := rfl
theorem winPhase_ld_unreg (c : Nat) : winPhase (.ld (.unreg c)) = (none : Option Nat) := rfl
theorem winPhase_cas_unreg (c : Nat) (b : Bool) : winPhase (.cas (.unreg c) b) = (none : Option Nat) := rfl
theorem winPhase_spin_unreg (c : Nat) : winPhase (.spin (.unreg c)) = (none : Option Nat) := rfl
theorem winPhase_locked_unreg (c : Nat) : winPhase (.locked (.unreg c)) = (none : Option Nat) := rfl
theorem winPhase_retn_unreg (c : Nat) (r : Bool) : winPhase (.retn (.unreg c) r) = (none : Option Nat) := rfl
theorem winPhase_ld_relock : winPhase (.ld .relock) = (none : Option Nat) := rfl
theorem winPhase_cas_relock (b : Bool) : winPhase (.cas .relock b) = (none : Option Nat) := rfl
theorem winPhase_spin_relock : winPhase (.spin .relock) = (none : Option Nat) := rfl
theorem winPhase_locked_relock : winPhase (.locked .relock) = (none : Option Nat) := rfl
theorem winPhase_retn_relock (r : Bool) : winPhase (.retn .relock r) = (none : Option Nat) := rfl
theorem winPhase_pre (c : Nat) : winPhase (.pre c) = (some c : Option Nat) := rfl
theorem winPhase_exec (c : Nat) (inl : Bool) : winPhase (.exec c inl) = (if inl then none else some c : Option Nat) := by cases ‹Bool› <;> rfl
theorem winPhase_body (c : Nat) (inl : Bool) : winPhase (.body c inl) = (if inl then none else some c : Option Nat) := by cases ‹Bool› <;> rfl
theorem winPhase_post (c : Nat) (inl : Bool) : winPhase (.post c inl) = (if inl then none else some c : Option Nat) := by cases ‹Bool› <;> rfl
theorem winPhase_chk (c : Nat) : winPhase (.chk c) = (none : Option Nat) := rfl
theorem winPhase_wait (c : Nat) : winPhase (.wait c) = (none : Option Nat) := rfl
theorem ranOf_idle : ranOf .idle = (0 : Nat) := rfl
theorem ranOf_fin : ranOf .fin = (0 : Nat) := rfl
theorem ranOf_ld_rs : ranOf (.ld .rs) = (0 : Nat) := rfl
theorem ranOf_cas_rs (b : Bool) : ranOf (.cas .rs b) = (0 : Nat) := rfl
theorem ranOf_spin_rs : ranOf (.spin .rs) = (0 : Nat) := rfl
theorem ranOf_locked_rs : ranOf (.locked .rs) = (0 : Nat) := rfl
theorem ranOf_retn_rs (r : Bool) : ranOf (.retn .rs r) = (0 : Nat) := rfl
theorem ranOf_ld_reg (c : Nat) : ranOf (.ld (.reg c)) = (0 : Nat) := rfl
theorem ranOf_cas_reg (c : Nat) (b : Bool) : ranOf (.cas (.reg c) b) = (0 : Nat) := rfl
theorem ranOf_spin_reg (c : Nat) : ranOf (.spin (.reg c)) = (0 : Nat) := rfl
theorem ranOf_locked_reg (c : Nat) : ranOf (.locked (.reg c)) = (0 : Nat) := rfl
theorem ranOf_retn_reg (c : Nat) (r : Bool) : ranOf (.retn (.reg c) r) = (0 : Nat) := rfl
theorem ranOf_ld_unreg (c : Nat) : ranOf (.ld (.unreg c)) = (0 : Nat) := rfl
theorem ranOf_cas_unreg (c : Nat) (b : Bool) : ranOf (.cas (.unreg c) b) = (0 : Nat) := rfl
theorem ranOf_spin_unreg (c : Nat) : ranOf (.spin (.unreg c)) = (0 : Nat) := rfl
theorem ranOf_locked_unreg (c : Nat) : ranOf (.locked (.unreg c)) = (0 : Nat) := rfl
theorem ranOf_retn_unreg (c : Nat) (r : Bool) : ranOf (.retn (.unreg c) r) = (0 : Nat) := rfl
theorem ranOf_ld_relock : ranOf (.ld .relock) = (0 : Nat) := rfl
theorem ranOf_cas_relock (b : Bool) : ranOf (.cas .relock b) = (0 : Nat) := rfl
theorem ranOf_spin_relock : ranOf (.spin .relock) = (0 : Nat) := rfl
theorem ranOf_locked_relock : ranOf (.locked .relock) = (0 : Nat) := rfl
theorem ranOf_retn_relock (r : Bool) : ranOf (.retn .relock r) = (0 : Nat) := rfl
theorem ranOf_pre (c : Nat) : ranOf (.pre c) = (0 : Nat) := rfl
theorem ranOf_exec (c : Nat) (inl : Bool) : ranOf (.exec c inl) = (0 : Nat) := by cases ‹Bool› <;> rfl
theorem ranOf_body (c : Nat) (inl : Bool) : ranOf (.body c inl) = (1 : Nat) := by cases ‹Bool› <;> rfl
theorem ranOf_post (c : Nat) (inl : Bool) : ranOf (.post c inl) = (1 : Nat) := by cases ‹Bool› <;> rfl
theorem ranOf_chk (c : Nat) : ranOf (.chk c) = (0 : Nat) := rfl
theorem ranOf_wait (c : Nat) : ranOf (.wait c) = (0 : Nat) := rfl
theorem unregOf_idle : unregOf .idle = (none : Option Nat) := rfl
theorem unregOf_fin : unregOf .fin = (none : Option Nat) := rfl
theorem unregOf_ld_rs : unregOf (.ld .rs) = (none : Option Nat) := rfl
theorem unregOf_cas_rs (b : Bool) : unregOf (.cas .rs b) = (none : Option Nat) := rfl
theorem unregOf_spin_rs : unregOf (.spin .rs) = (none : Option Nat) := rfl
theorem unregOf_locked_rs : unregOf (.locked .rs) = (none : Option Nat) := rfl
theorem unregOf_retn_rs (r : Bool) : unregOf (.retn .rs r) = (none : Option Nat) := rfl
theorem unregOf_ld_reg (c : Nat) : unregOf (.ld (.reg c)) = (none : Option Nat) := rfl
theorem unregOf_cas_reg (c : Nat) (b : Bool) : unregOf (.cas (.reg c) b) = (none : Option Nat) := rfl
theorem unregOf_spin_reg (c : Nat) : unregOf (.spin (.reg c)) = (none : Option Nat) := rfl
theorem unregOf_locked_reg (c : Nat) : unregOf (.locked (.reg c)) = (none : Option Nat) := rfl
theorem unregOf_retn_reg (c : Nat) (r : Bool) : unregOf (.retn (.reg c) r) = (none : Option Nat) := rfl
theorem unregOf_ld_unreg (c : Nat) : unregOf (.ld (.unreg c)) = (some c : Option Nat) := rfl
theorem unregOf_cas_unreg (c : Nat) (b : Bool) : unregOf (.cas (.unreg c) b) = (some c : Option Nat) := rfl
theorem unregOf_spin_unreg (c : Nat) : unregOf (.spin (.unreg c)) = (some c : Option Nat) := rfl
theorem unregOf_locked_unreg (c : Nat) : unregOf (.locked (.unreg c)) = (some c : Option Nat) := rfl
theorem unregOf_retn_unreg (c : Nat) (r : Bool) : unregOf (.retn (.unreg c) r) = (some c : Option Nat) := rfl
theorem unregOf_ld_relock : unregOf (.ld .relock) = (none : Option Nat) := rfl
theorem unregOf_cas_relock (b : Bool) : unregOf (.cas .relock b) = (none : Option Nat) := rfl
theorem unregOf_spin_relock : unregOf (.spin .relock) = (none : Option Nat) := rfl
theorem unregOf_locked_relock : unregOf (.locked .relock) = (none : Option Nat) := rfl
theorem unregOf_retn_relock (r : Bool) : unregOf (.retn .relock r) = (none : Option Nat) := rfl
theorem unregOf_pre (c : Nat) : unregOf (.pre c) = (none : Option Nat) := rfl
theorem unregOf_exec (c : Nat) (inl : Bool) : unregOf (.exec c inl) = (none : Option Nat) := by cases ‹Bool› <;> rfl
theorem unregOf_body (c : Nat) (inl : Bool) : unregOf (.body c inl) = (none : Option Nat) := by cases ‹Bool› <;> rfl
theorem unregOf_post (c : Nat) (inl : Bool) : unregOf (.post c inl) = (none : Option Nat) := by cases ‹Bool› <;> rfl
theorem unregOf_chk (c : Nat) : unregOf (.chk c) = (some c : Option Nat) := rfl
theorem unregOf_wait (c : Nat) : unregOf (.wait c) = (some c : Option Nat) := rfl
theorem unregDone_idle : unregDone .idle = (none : Option Nat) := rfl
theorem unregDone_fin : unregDone .fin = (none : Option Nat) := rfl
theorem unregDone_ld_rs : unregDone (.ld .rs) = (none : Option Nat) := rfl
theorem unregDone_cas_rs (b : Bool) : unregDone (.cas .rs b) = (none : Option Nat) := rfl
theorem unregDone_spin_rs : unregDone (.spin .rs) = (none : Option Nat) := rfl
theorem unregDone_locked_rs : unregDone (.locked .rs) = (none : Option Nat) := rfl
theorem unregDone_retn_rs (r : Bool) : unregDone (.retn .rs r) = (none : Option Nat) := rfl
theorem unregDone_ld_reg (c : Nat) : unregDone (.ld (.reg c)) = (none : Option Nat) := rfl
theorem unregDone_cas_reg (c : Nat) (b : Bool) : unregDone (.cas (.reg c) b) = (none : Option Nat) := rfl
theorem unregDone_spin_reg (c : Nat) : unregDone (.spin (.reg c)) = (none : Option Nat) := rfl
theorem unregDone_locked_reg (c : Nat) : unregDone (.locked (.reg c)) = (none : Option Nat) := rfl
theorem unregDone_retn_reg (c : Nat) (r : Bool) : unregDone (.retn (.reg c) r) = (none : Option Nat) := rfl
theorem unregDone_ld_unreg (c : Nat) : unregDone (.ld (.unreg c)) = (none : Option Nat) := rfl
theorem unregDone_cas_unreg (c : Nat) (b : Bool) : unregDone (.cas (.unreg c) b) = (none : Option Nat) := rfl
theorem unregDone_spin_unreg (c : Nat) : unregDone (.spin (.unreg c)) = (none : Option Nat) := rfl
theorem unregDone_locked_unreg (c : Nat) : unregDone (.locked (.unreg c)) = (none : Option Nat) := rfl
theorem unregDone_retn_unreg (c : Nat) (r : Bool) : unregDone (.retn (.unreg c) r) = (some c : Option Nat) := rfl
theorem unregDone_ld_relock : unregDone (.ld .relock) = (none : Option Nat) := rfl
theorem unregDone_cas_relock (b : Bool) : unregDone (.cas .relock b) = (none : Option Nat) := rfl
theorem unregDone_spin_relock : unregDone (.spin .relock) = (none : Option Nat) := rfl
theorem unregDone_locked_relock : unregDone (.locked .relock) = (none : Option Nat) := rfl
theorem unregDone_retn_relock (r : Bool) : unregDone (.retn .relock r) = (none : Option Nat) := rfl
theorem unregDone_pre (c : Nat) : unregDone (.pre c) = (none : Option Nat) := rfl
theorem unregDone_exec (c : Nat) (inl : Bool) : unregDone (.exec c inl) = (none : Option Nat) := by cases ‹Bool› <;> rfl
theorem unregDone_body (c : Nat) (inl : Bool) : unregDone (.body c inl) = (none : Option Nat) := by cases ‹Bool› <;> rfl
theorem unregDone_post (c : Nat) (inl : Bool) : unregDone (.post c inl) = (none : Option Nat) := by cases ‹Bool› <;> rfl
theorem unregDone_chk (c : Nat) : unregDone (.chk c) = (some c : Option Nat) := rfl
theorem unregDone_wait (c : Nat) : unregDone (.wait c) = (some c : Option Nat) := rfl


theorem InvA.loopWinner {s : St} (hA : InvA s) :
    ∀ a, (s.pc a = .locked .rs ∨ s.pc a = .locked .relock) → s.winner = some a := by
  intro a h
  apply hA.winIs
  rcases h with h | h <;> simp [h, wAct, wRet, isLoopKind, b2n]

theorem InvA.casNoReq {s : St} (hA : InvA s) :
    ∀ a b, s.pc a = .cas .rs b → b = false := by
  intro a b h
  have := hA.casReq a _ b h
  simpa [lockOnly] using this

attribute [grind] checked isBody started
attribute [grind =] regPhase_idle regPhase_fin regPhase_ld_rs regPhase_cas_rs regPhase_spin_rs regPhase_locked_rs regPhase_retn_rs regPhase_ld_reg regPhase_cas_reg regPhase_spin_reg regPhase_locked_reg regPhase_retn_reg regPhase_ld_unreg regPhase_cas_unreg regPhase_spin_unreg regPhase_locked_unreg regPhase_retn_unreg regPhase_ld_relock regPhase_cas_relock regPhase_spin_relock regPhase_locked_relock regPhase_retn_relock regPhase_pre regPhase_exec regPhase_body regPhase_post regPhase_chk regPhase_wait regLockPhase_idle regLockPhase_fin regLockPhase_ld_rs regLockPhase_cas_rs regLockPhase_spin_rs regLockPhase_locked_rs regLockPhase_retn_rs regLockPhase_ld_reg regLockPhase_cas_reg regLockPhase_spin_reg regLockPhase_locked_reg regLockPhase_retn_reg regLockPhase_ld_unreg regLockPhase_cas_unreg regLockPhase_spin_unreg regLockPhase_locked_unreg regLockPhase_retn_unreg regLockPhase_ld_relock regLockPhase_cas_relock regLockPhase_spin_relock regLockPhase_locked_relock regLockPhase_retn_relock regLockPhase_pre regLockPhase_exec regLockPhase_body regLockPhase_post regLockPhase_chk regLockPhase_wait winPhase_idle winPhase_fin winPhase_ld_rs winPhase_cas_rs winPhase_spin_rs winPhase_locked_rs winPhase_retn_rs winPhase_ld_reg winPhase_cas_reg winPhase_spin_reg winPhase_locked_reg winPhase_retn_reg winPhase_ld_unreg winPhase_cas_unreg winPhase_spin_unreg winPhase_locked_unreg winPhase_retn_unreg winPhase_ld_relock winPhase_cas_relock winPhase_spin_relock winPhase_locked_relock winPhase_retn_relock winPhase_pre winPhase_exec winPhase_body winPhase_post winPhase_chk winPhase_wait ranOf_idle ranOf_fin ranOf_ld_rs ranOf_cas_rs ranOf_spin_rs ranOf_locked_rs ranOf_retn_rs ranOf_ld_reg ranOf_cas_reg ranOf_spin_reg ranOf_locked_reg ranOf_retn_reg ranOf_ld_unreg ranOf_cas_unreg ranOf_spin_unreg ranOf_locked_unreg ranOf_retn_unreg ranOf_ld_relock ranOf_cas_relock ranOf_spin_relock ranOf_locked_relock ranOf_retn_relock ranOf_pre ranOf_exec ranOf_body ranOf_post ranOf_chk ranOf_wait unregOf_idle unregOf_fin unregOf_ld_rs unregOf_cas_rs unregOf_spin_rs unregOf_locked_rs unregOf_retn_rs unregOf_ld_reg unregOf_cas_reg unregOf_spin_reg unregOf_locked_reg unregOf_retn_reg unregOf_ld_unreg unregOf_cas_unreg unregOf_spin_unreg unregOf_locked_unreg unregOf_retn_unreg unregOf_ld_relock unregOf_cas_relock unregOf_spin_relock unregOf_locked_relock unregOf_retn_relock unregOf_pre unregOf_exec unregOf_body unregOf_post unregOf_chk unregOf_wait unregDone_idle unregDone_fin unregDone_ld_rs unregDone_cas_rs unregDone_spin_rs unregDone_locked_rs unregDone_retn_rs unregDone_ld_reg unregDone_cas_reg unregDone_spin_reg unregDone_locked_reg unregDone_retn_reg unregDone_ld_unreg unregDone_cas_unreg unregDone_spin_unreg unregDone_locked_unreg unregDone_retn_unreg unregDone_ld_relock unregDone_cas_relock unregDone_spin_relock unregDone_locked_relock unregDone_retn_relock unregDone_pre unregDone_exec unregDone_body unregDone_post unregDone_chk unregDone_wait

theorem mem_of_mem_erase' {l : List Nat} {c d : Nat} (h : d ∈ l.erase c) : d ∈ l := List.mem_of_mem_erase h
theorem mem_erase_ne {l : List Nat} {c d : Nat} (h : d ∈ l) (hne : d ≠ c) : d ∈ l.erase c :=
  (List.mem_erase_of_ne hne).2 h
theorem not_mem_erase_self {l : List Nat} {c : Nat} (h : l.Nodup) : c ∉ l.erase c := by
  intro hm; exact ((List.Nodup.mem_erase_iff h).1 hm).1 rfl
theorem nodup_erase' {l : List Nat} {c : Nat} (h : l.Nodup) : (l.erase c).Nodup := h.erase c

set_option maxHeartbeats 8000000

set_option hygiene false in
macro "stopB" : tactic => `(tactic| (
  have hA2 := hA.loopWinner
  have hA3 := hA.winReq
  have hA4 := hA.casNoReq
  simp only [step] at h
  obtain ⟨h1,h2,h3,h4,h5,h6,h7,h8,h9,h10,h11,h12,h13,h14,h15,h16,h17,h18,h19,h20,h21,h22,h23,h24,h25,h26,h27⟩ := hi
  split at h
  case isFalse => simp at h
  rename_i hg
  repeat' split at h
  all_goals first | (simp at h; done) | skip
  all_goals try cases ‹Kind›
  all_goals (
    simp only [Option.some.injEq] at h
    subst h
    refine ⟨?_, ?_, ?_, ?_, ?_, ?_, ?_, ?_, ?_, ?_, ?_, ?_, ?_, ?_, ?_, ?_, ?_, ?_, ?_, ?_, ?_, ?_, ?_, ?_, ?_, ?_, ?_⟩ <;> try dsimp only
  )
  all_goals first
    | assumption
    | (intro u; grind (instances := 40000) [upd])
    | grind (instances := 40000) [upd, mem_of_mem_erase', mem_erase_ne, not_mem_erase_self, nodup_erase']))


end PikaVerif.Stop
