import PikaVerif.Lemmas.BarrierU7
/-! C09u, coarse barrier: the stutter is the *only* accepted event that leaves a reachable state
    unchanged (a miss always moves the cursor). -/
namespace PikaVerif.Barrier
open PikaVerif PikaVerif.C09Barrier

/-- a `cas` miss in a reachable state changes the state: the search is never on a one-node round
    whose node is full -/
theorem cas_miss_moves (s s' : St) (hr : Reachable s) (t a b v : Nat)
    (h : step s (.cas t a b (.miss v)) = some s') : s'.pc t ≠ s.pc t := by
  obtain ⟨_, hb⟩ := hr.inv
  simp only [step] at h
  split at h
  case isFalse => simp at h
  rename_i htn
  split at h
  case h_2 => simp at h
  rename_i u cur r m hpc
  have hshape := hb.shape t
  rw [hpc] at hshape; simp only [pcOk] at hshape
  obtain ⟨hm, hcur⟩ := hshape
  have htp := hb.tokPhase t (by simp [inArr, hpc])
  by_cases hm2 : m = 2
  · -- one node with two slots: a searching thread finds it free or half-taken
    exfalso
    subst hm2
    have hmr : 1 < mr s.e0 r := by omega
    obtain ⟨c, hc, hav⟩ := C09B_slot_available s hr t htn r (by simp [hpc, inR]) hmr
    have hn : nodes s.e0 r = 1 := by rw [nodes_eq hmr, ← hm]
    have hc0 : c = 0 := by omega
    subst hc0
    have hcur' := hcur (by omega)
    have ha : (if cur = (2 + 1) / 2 then 0 else cur) = 0 := by split <;> omega
    rw [ha, htp.1] at h
    simp at h
    obtain ⟨⟨_, ha0⟩, h1, h2, _⟩ := h
    rw [ha0] at h1 h2
    rcases hav with hav | hav
    · exact h1 hav
    · exact h2 hav.1
  · intro heq
    generalize hc0 : (if cur = (m + 1) / 2 then 0 else cur) = c0 at h
    split at h
    case isFalse => simp at h
    rename_i hgd
    have hm1 := hgd.1
    have hcur' := hcur hm1
    have hne : c0 + 1 ≠ cur := by
      rw [← hc0]; split <;> omega
    simp only [reduceCtorEq, ↓reduceIte] at h
    repeat' split at h
    all_goals first | (simp at h; done) | skip
    all_goals (
      simp only [Option.some.injEq] at h
      subst h
      simp only [upd_same, hpc, Pc.try.injEq] at heq
      obtain ⟨_, h2, _⟩ := heq
      have := hgd.2.2
      omega)

/-- **Exactly the stutter**: in a reachable state every accepted event that is not the stutter
    changes the state. -/
theorem nonstutter_moves (s s' : St) (e : Ev) (hr : Reachable s) (hst : isStutter e = false)
    (h : step s e = some s') : s' ≠ s := by
  intro heq
  by_cases hi : isInv e = true
  · cases e <;> simp [isInv] at hi
    rename_i t o
    have := mu_inv 0 s s' t o h
    rw [heq] at this
    cases o <;> simp [opRank] at this <;> omega
  · by_cases hm : isMiss e = true
    · cases e <;> simp [isMiss] at hm
      case cas t a b o =>
        cases o <;> simp [isMiss] at hm
        rename_i v
        exact cas_miss_moves s s' hr t a b v h (by rw [heq])
      case cas2 t a b o =>
        simp only [step] at h
        split at h
        case isFalse => simp at h
        split at h
        case h_2 => simp at h
        rename_i u cur r m hpc
        (repeat' split at h) <;> first | (simp at h; done) | skip
        all_goals (
          simp only [Option.some.injEq] at h
          rw [← heq, ← h] at hpc
          simp at hpc)
    · have := (mu_step s.expected s s' e (Nat.le_refl _) (by simpa using hi) h).1 hst (by simpa using hm)
      rw [heq] at this; omega

end PikaVerif.Barrier
