import PikaVerif.Lemmas.BulkCProg
/-!
Progress of the bulk protocol model `PikaVerif.Bulk` (C11, follow-up C11p):

* `SpInv`: the spawner loop has handled exactly the workers below `next` (other than the local
  worker `L`, which is never spawned);
* `actor`: while the outcome is undecided some participant is in a state from which it can move
  (the classification used for the protocol model and for the composed model);
* `muP`: termination measure of the protocol model (the pops are atomic here): it decreases with
  every accepted event except the stutter event `chunk` (which only confirms the chunk index).
-/
namespace PikaVerif.Bulk
open PikaVerif

/-! ### the spawner loop -/

def SpI (L nx : Nat) (pc : Nat → Pc) : Prop :=
  (∀ k, nx ≤ k → k ≠ L → pc k = .idle) ∧ (∀ k, k < nx → k ≠ L → pc k ≠ .idle) ∧ pc L ≠ .spawned

def SpInv (s : St) : Prop := SpI s.L s.next s.pc

theorem spI_upd {L nx : Nat} {pc : Nat → Pc} (k : Nat) (x : Pc) (h : SpI L nx pc)
    (hx : x ≠ .idle) (hx2 : x ≠ .spawned) (hk : pc k ≠ .idle ∨ k = L) : SpI L nx (upd pc k x) := by
  refine ⟨fun u hu hL => ?_, fun u hu hL => ?_, ?_⟩
  · by_cases e : u = k
    · subst e
      rcases hk with hk | hk
      · exact absurd (h.1 u hu hL) hk
      · exact absurd hk hL
    · rw [upd_other _ _ _ _ e]; exact h.1 u hu hL
  · by_cases e : u = k
    · subst e; rw [upd_same]; exact hx
    · rw [upd_other _ _ _ _ e]; exact h.2.1 u hu hL
  · by_cases e : L = k
    · subst e; rw [upd_same]; exact hx2
    · rw [upd_other _ _ _ _ e]; exact h.2.2

theorem spI_spawn {L nx : Nat} {pc : Nat → Pc} (k : Nat) (x : Pc) (h : SpI L nx pc)
    (hx : x ≠ .idle) (hk : k = if nx = L then nx + 1 else nx) : SpI L (k + 1) (upd pc k x) := by
  refine ⟨fun u hu hL => ?_, fun u hu hL => ?_, ?_⟩
  · have e : u ≠ k := by omega
    rw [upd_other _ _ _ _ e]; exact h.1 u (by split at hk <;> omega) hL
  · by_cases e : u = k
    · subst e; rw [upd_same]; exact hx
    · rw [upd_other _ _ _ _ e]; exact h.2.1 u (by split at hk <;> omega) hL
  · have e : L ≠ k := by split at hk <;> omega
    rw [upd_other _ _ _ _ e]; exact h.2.2

theorem offOf_ne_idle {p : Pc} {off : Nat} (h : offOf p = some off) : p ≠ .idle := by
  cases p <;> simp [offOf] at h ⊢

theorem afterEmpty_ne (w off : Nat) : afterEmpty w off ≠ .idle ∧ afterEmpty w off ≠ .spawned := by
  unfold afterEmpty; split <;> simp

theorem spInv_step (s s' : St) (e : Ev) (h : SpInv s) (hs : step s e = some s') : SpInv s' := by
  unfold SpInv at h ⊢
  cases e with
  | spawn k =>
    simp only [step] at hs
    split at hs
    next hg =>
      simp only [Option.some.injEq] at hs; subst hs
      exact spI_spawn k _ h (by simp) hg.2.1
    next => simp at hs
  | skip k =>
    simp only [step] at hs
    split at hs
    next hg =>
      simp only [Option.some.injEq] at hs; subst hs
      exact spI_spawn k _ h (by simp) hg.2.1
    next => simp at hs
  | task k =>
    simp only [step] at hs
    split at hs
    next hk =>
      split at hs
      next hL =>
        split at hs
        next hg =>
          simp only [Option.some.injEq] at hs; subst hs
          exact spI_upd k _ h (by simp) (by simp) (Or.inr hL)
        next => simp at hs
      next hL =>
        split at hs
        next hg =>
          simp only [Option.some.injEq] at hs; subst hs
          exact spI_upd k _ h (by simp) (by simp) (Or.inl (by rw [hg]; simp))
        next => simp at hs
    next => simp at hs
  | pop k q r =>
    cases r with
    | none =>
      obtain ⟨_, off, hoff, hp⟩ := eff_popNone _ _ _ _ hs
      subst hp
      exact spI_upd k _ h (afterEmpty_ne _ _).1 (afterEmpty_ne _ _).2 (Or.inl (offOf_ne_idle hoff))
    | some j =>
      obtain ⟨_, off, hoff, _, _, _, hp⟩ := eff_popSome _ _ _ _ _ hs
      subst hp
      exact spI_upd k _ h (by simp) (by simp) (Or.inl (offOf_ne_idle hoff))
  | chunk k j =>
    obtain ⟨hp, _⟩ := eff_chunk _ _ _ _ hs
    subst hp; exact h
  | exc k =>
    obtain ⟨_, _, ⟨off, j, hpc⟩, hp⟩ := eff_exc _ _ _ hs
    subst hp
    exact spI_upd k _ h (by simp) (by simp) (Or.inl (by rw [hpc]; simp))
  | dec k last =>
    obtain ⟨_, _, _, hp⟩ := eff_dec _ _ _ _ hs
    rcases hp with ⟨⟨t, hpc⟩, hp⟩ | ⟨⟨off, j, hpc⟩, _, hp⟩
    · subst hp
      exact spI_upd k _ h (by simp) (by simp) (Or.inl (by rw [hpc]; simp))
    · subst hp
      exact spI_upd k _ h (by simp) (by simp) (Or.inl (by rw [hpc]; simp))
  | sig err =>
    obtain ⟨_, _, hp⟩ := eff_sig _ _ _ hs
    subst hp; exact h

theorem spInv_init (w L : Nat) (a : Nat → Nat) : SpInv (init w L a) :=
  ⟨fun _ _ _ => rfl, fun k hk _ => absurd hk (Nat.not_lt_zero k), by simp [init]⟩

theorem spInv_of_accepted {w L : Nat} {a : Nat → Nat} {log : List Ev} {s : St}
    (h : runLog step (init w L a) log = some s) : SpInv s :=
  inv_of_runLog SpInv (fun s e s' => spInv_step s s' e) (spInv_init w L a) h

/-! ### who can move -/

theorem exists_zero_of_sumTo_lt {n : Nat} {f : Nat → Nat} (h : sumTo n f < n) :
    ∃ k, k < n ∧ f k = 0 := by
  induction n with
  | zero => omega
  | succ m ih =>
    simp only [sumTo_succ] at h
    by_cases hm : f m = 0
    · exact ⟨m, by omega, hm⟩
    · obtain ⟨k, hk, hz⟩ := ih (by omega)
      exact ⟨k, by omega, hz⟩

/-- **Who can move.**  While the outcome is undecided, (1) the spawner loop is at an untouched
    worker, or (2) the spawner loop is finished and the local worker has not started, or some
    worker `k < w` is (3) spawned and not started, (4) inside `do_work` (popping, or inside
    `do_work_chunk`), or (5) about to decrement the join counter. -/
theorem actor (s : St) (hi : Inv s) (hsp : SpInv s) (ho : s.outcome = none) :
    (cur s < s.w ∧ s.pc (cur s) = .idle) ∨
    (s.w ≤ cur s ∧ s.pc s.L = .idle) ∨
    (∃ k, k < s.w ∧ k ≠ s.L ∧ s.pc k = .spawned) ∨
    (∃ k off, k < s.w ∧ offOf (s.pc k) = some off) ∨
    (∃ k t, k < s.w ∧ s.pc k = .fin t) := by
  by_cases hc : cur s < s.w
  · refine Or.inl ⟨hc, hsp.1 (cur s) ?_ (cur_ne_L s)⟩
    unfold cur; split <;> omega
  · by_cases hL : s.pc s.L = .idle
    · exact Or.inr (Or.inl ⟨by omega, hL⟩)
    · have hr := (hi.outn ho).1
      have hcnt := hi.cnt
      obtain ⟨k, hk, hz⟩ := exists_zero_of_sumTo_lt (n := s.w) (f := fun k => isDecd (s.pc k)) (by omega)
      refine Or.inr (Or.inr ?_)
      cases hp : s.pc k with
      | idle =>
        exfalso
        have hkL : k ≠ s.L := fun e => hL (e ▸ hp)
        have : k < s.next := by
          unfold cur at hc
          have := hi.wL
          split at hc <;> omega
        exact hsp.2.1 k this hkL hp
      | spawned =>
        exact Or.inl ⟨k, hk, fun e => hsp.2.2 (e ▸ hp), hp⟩
      | run off => exact Or.inr (Or.inl ⟨k, off, hk, by rw [hp]; rfl⟩)
      | work off j => exact Or.inr (Or.inl ⟨k, off, hk, by rw [hp]; rfl⟩)
      | fin t => exact Or.inr (Or.inr ⟨k, t, hk, hp⟩)
      | decd => rw [hp] at hz; simp [isDecd] at hz

/-! ### enabled events of the protocol model -/

theorem en_spawn_skip (s : St) (hc : cur s < s.w) (hp : s.pc (cur s) = .idle) :
    ∃ e s', (e = .spawn (cur s) ∨ e = .skip (cur s)) ∧ step s e = some s' := by
  cases hq : qEmpty (s.qs (cur s)) with
  | false => exact ⟨.spawn (cur s), _, Or.inl rfl, by simp only [step]; rw [if_pos ⟨hc, trivial, hp, hq⟩]⟩
  | true => exact ⟨.skip (cur s), _, Or.inr rfl, by simp only [step]; rw [if_pos ⟨hc, trivial, hp, hq⟩]⟩

theorem en_taskL (s : St) (hi : Inv s) (hc : s.w ≤ cur s) (hp : s.pc s.L = .idle) :
    ∃ s', step s (.task s.L) = some s' :=
  ⟨_, by simp only [step]; rw [if_pos hi.wL, if_pos trivial, if_pos ⟨hc, hp⟩]⟩

theorem en_task (s : St) (k : Nat) (hk : k < s.w) (hL : k ≠ s.L) (hp : s.pc k = .spawned) :
    ∃ s', step s (.task k) = some s' :=
  ⟨_, by simp only [step]; rw [if_pos hk, if_neg hL, if_pos hp]⟩

theorem en_popNone (s : St) (k off : Nat) (hk : k < s.w) (hoff : offOf (s.pc k) = some off)
    (hq : qEmpty (s.qs ((k + off) % s.w)) = true) :
    ∃ s', step s (.pop k ((k + off) % s.w) none) = some s' := by
  cases hp : s.pc k with
  | run o =>
    rw [hp] at hoff; simp only [offOf, Option.some.injEq] at hoff; subst hoff
    exact ⟨_, by simp only [step]; rw [if_pos hk, hp]; dsimp only; rw [if_pos rfl, if_pos hq]⟩
  | work o j =>
    rw [hp] at hoff; simp only [offOf, Option.some.injEq] at hoff; subst hoff
    exact ⟨_, by simp only [step]; rw [if_pos hk, hp]; dsimp only; rw [if_pos rfl, if_pos hq]⟩
  | _ => rw [hp] at hoff; simp [offOf] at hoff

theorem en_popSome (s : St) (k off : Nat) (hk : k < s.w) (hoff : offOf (s.pc k) = some off)
    (hq : qEmpty (s.qs ((k + off) % s.w)) = false) :
    step s (.pop k ((k + off) % s.w)
        (some (if off = 0 then (s.qs ((k + off) % s.w)).1 else (s.qs ((k + off) % s.w)).2 - 1))) =
      some { s with
        qs := upd s.qs ((k + off) % s.w)
          (if off = 0 then ((s.qs ((k + off) % s.w)).1 + 1, (s.qs ((k + off) % s.w)).2)
           else ((s.qs ((k + off) % s.w)).1, (s.qs ((k + off) % s.w)).2 - 1)),
        popped := upd s.popped (if off = 0 then (s.qs ((k + off) % s.w)).1 else (s.qs ((k + off) % s.w)).2 - 1)
          (s.popped (if off = 0 then (s.qs ((k + off) % s.w)).1 else (s.qs ((k + off) % s.w)).2 - 1) + 1),
        pc := upd s.pc k (.work off
          (if off = 0 then (s.qs ((k + off) % s.w)).1 else (s.qs ((k + off) % s.w)).2 - 1)) } := by
  cases hp : s.pc k with
  | run o =>
    rw [hp] at hoff; simp only [offOf, Option.some.injEq] at hoff; subst hoff
    simp only [step]; rw [if_pos hk, hp]; dsimp only; rw [if_pos rfl, if_pos ⟨hq, rfl⟩]
  | work o j =>
    rw [hp] at hoff; simp only [offOf, Option.some.injEq] at hoff; subst hoff
    simp only [step]; rw [if_pos hk, hp]; dsimp only; rw [if_pos rfl, if_pos ⟨hq, rfl⟩]
  | _ => rw [hp] at hoff; simp [offOf] at hoff

theorem en_dec_fin (s : St) (k : Nat) (t : Bool) (hk : k < s.w) (hr : 1 ≤ s.remaining)
    (hp : s.pc k = .fin t) : ∃ s', step s (.dec k (decide (s.remaining = 1))) = some s' :=
  ⟨_, by simp only [step]; rw [if_pos ⟨hk, hr, trivial⟩, hp]⟩

theorem en_dec_work (s : St) (k off j : Nat) (hk : k < s.w) (hr : 1 ≤ s.remaining)
    (hp : s.pc k = .work off j) (hx : s.excThrown = true) :
    ∃ s', step s (.dec k (decide (s.remaining = 1))) = some s' :=
  ⟨_, by simp only [step]; rw [if_pos ⟨hk, hr, trivial⟩, hp]; dsimp only; rw [if_pos hx]⟩

theorem en_exc (s : St) (k off j : Nat) (hk : k < s.w) (hp : s.pc k = .work off j)
    (hx : s.excThrown = false) : ∃ s', step s (.exc k) = some s' :=
  ⟨_, by simp only [step]; rw [if_pos ⟨hk, hx⟩, hp]⟩

theorem en_chunk (s : St) (k off j : Nat) (hk : k < s.w) (hp : s.pc k = .work off j) :
    step s (.chunk k j) = some s := by
  simp only [step]; rw [if_pos hk, hp]; dsimp only; rw [if_pos rfl]

theorem en_sig (s : St) (e : Bool) (ho : s.outcome = some e) (h0 : s.signals = 0) :
    ∃ s', step s (.sig e) = some s' :=
  ⟨_, by simp only [step]; rw [if_pos ⟨ho, h0⟩]⟩

end PikaVerif.Bulk
