import PikaVerif.Lemmas.BulkCProg
/-!
Progress of the bulk protocol model `PikaVerif.Bulk` (C11, follow-up C11p):

* `SpInv`: the spawner loop has handled exactly the workers below `next` (other than the local
  worker `L`, which is never spawned);
* `actor`: while the outcome is undecided some participant is in a state from which it can move
  (the classification used for the protocol model and for the composed model);
* `muP`: termination measure of the protocol model (the pops are atomic here): it decreases with
  every accepted event except the stutter event `chunk` (which only confirms the chunk index).
-/
namespace PikaVerif.Bulk
open PikaVerif

/-! ### the spawner loop -/

def SpI (L nx : Nat) (pc : Nat → Pc) : Prop :=
  (∀ k, nx ≤ k → k ≠ L → pc k = .idle) ∧ (∀ k, k < nx → k ≠ L → pc k ≠ .idle) ∧ pc L ≠ .spawned

def SpInv (s : St) : Prop := SpI s.L s.next s.pc

theorem spI_upd {L nx : Nat} {pc : Nat → Pc} (k : Nat) (x : Pc) (h : SpI L nx pc)
    (hx : x ≠ .idle) (hx2 : x ≠ .spawned) (hk : pc k ≠ .idle ∨ k = L) : SpI L nx (upd pc k x) := by
  refine ⟨fun u hu hL => ?_, fun u hu hL => ?_, ?_⟩
  · by_cases e : u = k
    · subst e
      rcases hk with hk | hk
      · exact absurd (h.1 u hu hL) hk
      · exact absurd hk hL
    · rw [upd_other _ _ _ _ e]; exact h.1 u hu hL
  · by_cases e : u = k
    · subst e; rw [upd_same]; exact hx
    · rw [upd_other _ _ _ _ e]; exact h.2.1 u hu hL
  · by_cases e : L = k
    · subst e; rw [upd_same]; exact hx2
    · rw [upd_other _ _ _ _ e]; exact h.2.2

theorem spI_spawn {L nx : Nat} {pc : Nat → Pc} (k : Nat) (x : Pc) (h : SpI L nx pc)
    (hx : x ≠ .idle) (hk : k = if nx = L then nx + 1 else nx) : SpI L (k + 1) (upd pc k x) := by
  refine ⟨fun u hu hL => ?_, fun u hu hL => ?_, ?_⟩
  · have e : u ≠ k := by omega
    rw [upd_other _ _ _ _ e]; exact h.1 u (by split at hk <;> omega) hL
  · by_cases e : u = k
    · subst e; rw [upd_same]; exact hx
    · rw [upd_other _ _ _ _ e]; exact h.2.1 u (by split at hk <;> omega) hL
  · have e : L ≠ k := by split at hk <;> omega
    rw [upd_other _ _ _ _ e]; exact h.2.2

theorem offOf_ne_idle {p : Pc} {off : Nat} (h : offOf p = some off) : p ≠ .idle := by
  cases p <;> simp [offOf] at h ⊢

theorem afterEmpty_ne (w off : Nat) : afterEmpty w off ≠ .idle ∧ afterEmpty w off ≠ .spawned := by
  unfold afterEmpty; split <;> simp

theorem spInv_step (s s' : St) (e : Ev) (h : SpInv s) (hs : step s e = some s') : SpInv s' := by
  unfold SpInv at h ⊢
  cases e with
  | spawn k =>
    simp only [step] at hs
    split at hs
    next hg =>
      simp only [Option.some.injEq] at hs; subst hs
      exact spI_spawn k _ h (by simp) hg.2.1
    next => simp at hs
  | skip k =>
    simp only [step] at hs
    split at hs
    next hg =>
      simp only [Option.some.injEq] at hs; subst hs
      exact spI_spawn k _ h (by simp) hg.2.1
    next => simp at hs
  | task k =>
    simp only [step] at hs
    split at hs
    next hk =>
      split at hs
      next hL =>
        split at hs
        next hg =>
          simp only [Option.some.injEq] at hs; subst hs
          exact spI_upd k _ h (by simp) (by simp) (Or.inr hL)
        next => simp at hs
      next hL =>
        split at hs
        next hg =>
          simp only [Option.some.injEq] at hs; subst hs
          exact spI_upd k _ h (by simp) (by simp) (Or.inl (by rw [hg]; simp))
        next => simp at hs
    next => simp at hs
  | pop k q r =>
    cases r with
    | none =>
      obtain ⟨_, off, hoff, hp⟩ := eff_popNone _ _ _ _ hs
      subst hp
      exact spI_upd k _ h (afterEmpty_ne _ _).1 (afterEmpty_ne _ _).2 (Or.inl (offOf_ne_idle hoff))
    | some j =>
      obtain ⟨_, off, hoff, _, _, _, hp⟩ := eff_popSome _ _ _ _ _ hs
      subst hp
      exact spI_upd k _ h (by simp) (by simp) (Or.inl (offOf_ne_idle hoff))
  | chunk k j =>
    obtain ⟨hp, _⟩ := eff_chunk _ _ _ _ hs
    subst hp; exact h
  | exc k =>
    obtain ⟨_, _, ⟨off, j, hpc⟩, hp⟩ := eff_exc _ _ _ hs
    subst hp
    exact spI_upd k _ h (by simp) (by simp) (Or.inl (by rw [hpc]; simp))
  | dec k last =>
    obtain ⟨_, _, _, hp⟩ := eff_dec _ _ _ _ hs
    rcases hp with ⟨⟨t, hpc⟩, hp⟩ | ⟨⟨off, j, hpc⟩, _, hp⟩
    · subst hp
      exact spI_upd k _ h (by simp) (by simp) (Or.inl (by rw [hpc]; simp))
    · subst hp
      exact spI_upd k _ h (by simp) (by simp) (Or.inl (by rw [hpc]; simp))
  | sig err =>
    obtain ⟨_, _, hp⟩ := eff_sig _ _ _ hs
    subst hp; exact h

theorem spInv_init (w L : Nat) (a : Nat → Nat) : SpInv (init w L a) :=
  ⟨fun _ _ _ => rfl, fun k hk _ => absurd hk (Nat.not_lt_zero k), by simp [init]⟩

theorem spInv_of_accepted {w L : Nat} {a : Nat → Nat} {log : List Ev} {s : St}
    (h : runLog step (init w L a) log = some s) : SpInv s :=
  inv_of_runLog SpInv (fun s e s' => spInv_step s s' e) (spInv_init w L a) h

/-! ### who can move -/

theorem exists_zero_of_sumTo_lt {n : Nat} {f : Nat → Nat} (h : sumTo n f < n) :
    ∃ k, k < n ∧ f k = 0 := by
  induction n with
  | zero => omega
  | succ m ih =>
    simp only [sumTo_succ] at h
    by_cases hm : f m = 0
    · exact ⟨m, by omega, hm⟩
    · obtain ⟨k, hk, hz⟩ := ih (by omega)
      exact ⟨k, by omega, hz⟩

/-- **Who can move.**  While the outcome is undecided, (1) the spawner loop is at an untouched
    worker, or (2) the spawner loop is finished and the local worker has not started, or some
    worker `k < w` is (3) spawned and not started, (4) inside `do_work` (popping, or inside
    `do_work_chunk`), or (5) about to decrement the join counter. -/
theorem actor (s : St) (hi : Inv s) (hsp : SpInv s) (ho : s.outcome = none) :
    (cur s < s.w ∧ s.pc (cur s) = .idle) ∨
    (s.w ≤ cur s ∧ s.pc s.L = .idle) ∨
    (∃ k, k < s.w ∧ k ≠ s.L ∧ s.pc k = .spawned) ∨
    (∃ k off, k < s.w ∧ offOf (s.pc k) = some off) ∨
    (∃ k t, k < s.w ∧ s.pc k = .fin t) := by
  by_cases hc : cur s < s.w
  · refine Or.inl ⟨hc, hsp.1 (cur s) ?_ (cur_ne_L s)⟩
    unfold cur; split <;> omega
  · by_cases hL : s.pc s.L = .idle
    · exact Or.inr (Or.inl ⟨by omega, hL⟩)
    · have hr := (hi.outn ho).1
      have hcnt := hi.cnt
      obtain ⟨k, hk, hz⟩ := exists_zero_of_sumTo_lt (n := s.w) (f := fun k => isDecd (s.pc k)) (by omega)
      refine Or.inr (Or.inr ?_)
      cases hp : s.pc k with
      | idle =>
        exfalso
        have hkL : k ≠ s.L := fun e => hL (e ▸ hp)
        have : k < s.next := by
          unfold cur at hc
          have := hi.wL
          split at hc <;> omega
        exact hsp.2.1 k this hkL hp
      | spawned =>
        exact Or.inl ⟨k, hk, fun e => hsp.2.2 (e ▸ hp), hp⟩
      | run off => exact Or.inr (Or.inl ⟨k, off, hk, by rw [hp]; rfl⟩)
      | work off j => exact Or.inr (Or.inl ⟨k, off, hk, by rw [hp]; rfl⟩)
      | fin t => exact Or.inr (Or.inr ⟨k, t, hk, hp⟩)
      | decd => rw [hp] at hz; simp [isDecd] at hz

/-! ### enabled events of the protocol model -/

theorem en_spawn_skip (s : St) (hc : cur s < s.w) (hp : s.pc (cur s) = .idle) :
    ∃ e s', (e = .spawn (cur s) ∨ e = .skip (cur s)) ∧ step s e = some s' := by
  cases hq : qEmpty (s.qs (cur s)) with
  | false => exact ⟨.spawn (cur s), _, Or.inl rfl, by simp only [step]; rw [if_pos ⟨hc, trivial, hp, hq⟩]⟩
  | true => exact ⟨.skip (cur s), _, Or.inr rfl, by simp only [step]; rw [if_pos ⟨hc, trivial, hp, hq⟩]⟩

theorem en_taskL (s : St) (hi : Inv s) (hc : s.w ≤ cur s) (hp : s.pc s.L = .idle) :
    ∃ s', step s (.task s.L) = some s' :=
  ⟨_, by simp only [step]; rw [if_pos hi.wL, if_pos trivial, if_pos ⟨hc, hp⟩]⟩

theorem en_task (s : St) (k : Nat) (hk : k < s.w) (hL : k ≠ s.L) (hp : s.pc k = .spawned) :
    ∃ s', step s (.task k) = some s' :=
  ⟨_, by simp only [step]; rw [if_pos hk, if_neg hL, if_pos hp]⟩

theorem en_popNone (s : St) (k off : Nat) (hk : k < s.w) (hoff : offOf (s.pc k) = some off)
    (hq : qEmpty (s.qs ((k + off) % s.w)) = true) :
    ∃ s', step s (.pop k ((k + off) % s.w) none) = some s' := by
  cases hp : s.pc k with
  | run o =>
    rw [hp] at hoff; simp only [offOf, Option.some.injEq] at hoff; subst hoff
    exact ⟨_, by simp only [step]; rw [if_pos hk, hp]; dsimp only; rw [if_pos rfl, if_pos hq]⟩
  | work o j =>
    rw [hp] at hoff; simp only [offOf, Option.some.injEq] at hoff; subst hoff
    exact ⟨_, by simp only [step]; rw [if_pos hk, hp]; dsimp only; rw [if_pos rfl, if_pos hq]⟩
  | _ => rw [hp] at hoff; simp [offOf] at hoff

theorem en_popSome (s : St) (k off : Nat) (hk : k < s.w) (hoff : offOf (s.pc k) = some off)
    (hq : qEmpty (s.qs ((k + off) % s.w)) = false) :
    step s (.pop k ((k + off) % s.w)
        (some (if off = 0 then (s.qs ((k + off) % s.w)).1 else (s.qs ((k + off) % s.w)).2 - 1))) =
      some { s with
        qs := upd s.qs ((k + off) % s.w)
          (if off = 0 then ((s.qs ((k + off) % s.w)).1 + 1, (s.qs ((k + off) % s.w)).2)
           else ((s.qs ((k + off) % s.w)).1, (s.qs ((k + off) % s.w)).2 - 1)),
        popped := upd s.popped (if off = 0 then (s.qs ((k + off) % s.w)).1 else (s.qs ((k + off) % s.w)).2 - 1)
          (s.popped (if off = 0 then (s.qs ((k + off) % s.w)).1 else (s.qs ((k + off) % s.w)).2 - 1) + 1),
        pc := upd s.pc k (.work off
          (if off = 0 then (s.qs ((k + off) % s.w)).1 else (s.qs ((k + off) % s.w)).2 - 1)) } := by
  cases hp : s.pc k with
  | run o =>
    rw [hp] at hoff; simp only [offOf, Option.some.injEq] at hoff; subst hoff
    simp only [step]; rw [if_pos hk, hp]; dsimp only; rw [if_pos rfl, if_pos ⟨hq, rfl⟩]
  | work o j =>
    rw [hp] at hoff; simp only [offOf, Option.some.injEq] at hoff; subst hoff
    simp only [step]; rw [if_pos hk, hp]; dsimp only; rw [if_pos rfl, if_pos ⟨hq, rfl⟩]
  | _ => rw [hp] at hoff; simp [offOf] at hoff

theorem en_dec_fin (s : St) (k : Nat) (t : Bool) (hk : k < s.w) (hr : 1 ≤ s.remaining)
    (hp : s.pc k = .fin t) : ∃ s', step s (.dec k (decide (s.remaining = 1))) = some s' :=
  ⟨_, by simp only [step]; rw [if_pos ⟨hk, hr, trivial⟩, hp]⟩

theorem en_dec_work (s : St) (k off j : Nat) (hk : k < s.w) (hr : 1 ≤ s.remaining)
    (hp : s.pc k = .work off j) (hx : s.excThrown = true) :
    ∃ s', step s (.dec k (decide (s.remaining = 1))) = some s' :=
  ⟨_, by simp only [step]; rw [if_pos ⟨hk, hr, trivial⟩, hp]; dsimp only; rw [if_pos hx]⟩

theorem en_exc (s : St) (k off j : Nat) (hk : k < s.w) (hp : s.pc k = .work off j)
    (hx : s.excThrown = false) : ∃ s', step s (.exc k) = some s' :=
  ⟨_, by simp only [step]; rw [if_pos ⟨hk, hx⟩, hp]⟩

theorem en_chunk (s : St) (k off j : Nat) (hk : k < s.w) (hp : s.pc k = .work off j) :
    step s (.chunk k j) = some s := by
  simp only [step]; rw [if_pos hk, hp]; dsimp only; rw [if_pos rfl]

theorem en_sig (s : St) (e : Bool) (ho : s.outcome = some e) (h0 : s.signals = 0) :
    ∃ s', step s (.sig e) = some s' :=
  ⟨_, by simp only [step]; rw [if_pos ⟨ho, h0⟩]⟩

/-! ### termination measure of the protocol model -/

/-- chunks left in the queues + place of every participant + the pending completion -/
def muP (s : St) : Nat :=
  sumTo s.w (fun q => (s.qs q).2 - (s.qs q).1) + sumTo s.w (fun k => BulkC.pcw s.w (s.pc k)) +
    (1 - s.signals)

/-- `chunk k j` only confirms the chunk index: the one event that leaves the state unchanged -/
def isChunk : Ev → Bool
  | .chunk _ _ => true
  | _ => false

theorem muP_pc (s s' : St) (k : Nat) (x : Pc) (hk : k < s.w) (hw : s'.w = s.w) (hqs : s'.qs = s.qs)
    (hsig : s'.signals = s.signals) (hpc : s'.pc = upd s.pc k x)
    (hlt : BulkC.pcw s.w x < BulkC.pcw s.w (s.pc k)) : muP s' < muP s := by
  unfold muP
  rw [hw, hqs, hsig, hpc]
  have := sumTo_upd s.w (BulkC.pcw s.w) s.pc k x hk
  omega

/-- **Every accepted event of the protocol model other than `chunk` decreases `muP`.** -/
theorem muP_step (s s' : St) (e : Ev) (he : isChunk e = false) (h : step s e = some s') :
    muP s' < muP s := by
  cases e with
  | spawn k =>
    obtain ⟨hk, hpc, hp⟩ := eff_spawn _ _ _ h
    subst hp
    exact muP_pc s _ k .spawned hk rfl rfl rfl rfl (by rw [hpc]; simp only [BulkC.pcw]; omega)
  | skip k =>
    obtain ⟨hk, hpc, hp⟩ := eff_skip _ _ _ h
    subst hp
    exact muP_pc s _ k (.fin false) hk rfl rfl rfl rfl (by rw [hpc]; simp only [BulkC.pcw]; omega)
  | task k =>
    obtain ⟨hk, hpc, hp⟩ := eff_task _ _ _ h
    subst hp
    exact muP_pc s _ k (.run 0) hk rfl rfl rfl rfl
      (by rcases hpc with hpc | hpc <;> rw [hpc] <;> simp only [BulkC.pcw] <;> omega)
  | pop k q r =>
    cases r with
    | none =>
      obtain ⟨hk, off, hoff, hp⟩ := eff_popNone _ _ _ _ h
      subst hp
      exact muP_pc s _ k _ hk rfl rfl rfl rfl (by have := BulkC.pcw_afterEmpty s.w off _ hoff; omega)
    | some j =>
      obtain ⟨hk, off, hoff, hqq, hne, hj, hp⟩ := eff_popSome _ _ _ _ _ h
      have hqw : q < s.w := by rw [hqq]; exact Nat.mod_lt _ (by omega)
      have hlt := (qEmpty_false_iff _).1 hne
      have hp0 := BulkC.pcw_of_offOf s.w off j _ hoff
      have B := sumTo_upd s.w (BulkC.pcw s.w) s.pc k (.work off j) hk
      subst hp
      unfold muP
      dsimp only
      by_cases h0 : off = 0
      · simp only [h0, if_true] at B ⊢
        have A := sumTo_upd s.w (fun r : Nat × Nat => r.2 - r.1) s.qs q ((s.qs q).1 + 1, (s.qs q).2) hqw
        dsimp only at A
        rw [h0] at hp0
        omega
      · simp only [h0, if_false] at B ⊢
        have A := sumTo_upd s.w (fun r : Nat × Nat => r.2 - r.1) s.qs q ((s.qs q).1, (s.qs q).2 - 1) hqw
        dsimp only at A
        omega
  | chunk k j => simp [isChunk] at he
  | exc k =>
    obtain ⟨hk, _, ⟨off, j, hpc⟩, hp⟩ := eff_exc _ _ _ h
    subst hp
    exact muP_pc s _ k (.fin true) hk rfl rfl rfl rfl (by rw [hpc]; simp only [BulkC.pcw]; omega)
  | dec k last =>
    obtain ⟨hk, _, _, hp⟩ := eff_dec _ _ _ _ h
    rcases hp with ⟨⟨t, hpc⟩, hp⟩ | ⟨⟨off, j, hpc⟩, _, hp⟩
    · subst hp
      exact muP_pc s _ k .decd hk rfl rfl rfl rfl (by rw [hpc]; simp only [BulkC.pcw]; omega)
    · subst hp
      exact muP_pc s _ k .decd hk rfl rfl rfl rfl (by rw [hpc]; simp only [BulkC.pcw]; omega)
  | sig err =>
    obtain ⟨_, h0, hp⟩ := eff_sig _ _ _ h
    subst hp
    unfold muP
    dsimp only
    rw [h0]
    omega

theorem chunk_same (s s' : St) (e : Ev) (he : isChunk e = true) (h : step s e = some s') : s' = s := by
  cases e with
  | chunk k j => exact (eff_chunk _ _ _ _ h).1
  | _ => simp [isChunk] at he

/-- non-`chunk` events of a log -/
def workP (log : List Ev) : Nat := (log.filter (fun e => !isChunk e)).length

theorem workP_le_muP (s s' : St) (log : List Ev) (h : runLog step s log = some s') :
    workP log + muP s' ≤ muP s := by
  induction log generalizing s with
  | nil => simp only [runLog_nil, Option.some.injEq] at h; subst h; simp [workP]
  | cons e es ih =>
    simp only [runLog] at h
    cases hs : step s e with
    | none => simp [hs] at h
    | some s1 =>
      simp only [hs] at h
      have := ih s1 h
      cases hst : isChunk e with
      | true =>
        have := chunk_same s s1 e hst hs
        subst this
        have : workP (e :: es) = workP es := by simp [workP, hst]
        omega
      | false =>
        have := muP_step s s1 e hst hs
        have : workP (e :: es) = workP es + 1 := by simp [workP, hst]
        omega

theorem size_tele (a : Nat → Nat) (m : Nat) (hm : ∀ k, k < m → a k ≤ a (k + 1)) :
    sumTo m (fun k => a (k + 1) - a k) = a m - a 0 ∧ a 0 ≤ a m := by
  induction m with
  | zero => simp
  | succ j ih =>
    obtain ⟨e, hle⟩ := ih (fun k hk => hm k (by omega))
    have h1 := hm j (by omega)
    simp only [sumTo_succ]
    rw [e]
    omega

theorem muP_init (w L : Nat) (a : Nat → Nat) (hm : ∀ k, k < w → a k ≤ a (k + 1)) :
    muP (init w L a) = (a w - a 0) + w * (3 * w + 8) + 1 := by
  obtain ⟨t1, _⟩ := size_tele a w hm
  have e1 : sumTo w (fun _ => BulkC.pcw w Pc.idle) = w * (3 * w + 8) := by
    have hp : BulkC.pcw w Pc.idle = 3 * w + 8 := rfl
    rw [hp]
    generalize 3 * w + 8 = z
    have : ∀ m, sumTo m (fun _ => z) = m * z := by
      intro m; induction m with
      | zero => simp
      | succ j ih => rw [sumTo_succ, ih, Nat.succ_mul]
    exact this w
  unfold muP
  show sumTo w (fun k => a (k + 1) - a k) + sumTo w (fun _ => BulkC.pcw w Pc.idle) + (1 - 0) = _
  rw [t1, e1]

/-- **No stuck state of the protocol model**: while the receiver has not been signalled some
    event other than the stutter `chunk` is enabled (see `actor` for who moves). -/
theorem proto_progress (s : St) (hi : Inv s) (hsp : SpInv s) (h0 : s.signals = 0) :
    ∃ e s', isChunk e = false ∧ step s e = some s' := by
  cases ho : s.outcome with
  | some err =>
    obtain ⟨s', hs'⟩ := en_sig s err ho h0
    exact ⟨_, s', rfl, hs'⟩
  | none =>
    have hrem := (hi.outn ho).1
    rcases actor s hi hsp ho with ⟨hc, hidle⟩ | ⟨hc, hidle⟩ | ⟨k, hk, hkL, hpc⟩ |
        ⟨k, off, hk, hoff⟩ | ⟨k, t, hk, hpc⟩
    · obtain ⟨e, s', he, hs'⟩ := en_spawn_skip s hc hidle
      rcases he with he | he <;> subst he <;> exact ⟨_, s', rfl, hs'⟩
    · obtain ⟨s', hs'⟩ := en_taskL s hi hc hidle
      exact ⟨_, s', rfl, hs'⟩
    · obtain ⟨s', hs'⟩ := en_task s k hk hkL hpc
      exact ⟨_, s', rfl, hs'⟩
    · cases hq : qEmpty (s.qs ((k + off) % s.w)) with
      | true =>
        obtain ⟨s', hs'⟩ := en_popNone s k off hk hoff hq
        exact ⟨_, s', rfl, hs'⟩
      | false => exact ⟨_, _, rfl, en_popSome s k off hk hoff hq⟩
    · obtain ⟨s', hs'⟩ := en_dec_fin s k t hk hrem hpc
      exact ⟨_, s', rfl, hs'⟩

end PikaVerif.Bulk
