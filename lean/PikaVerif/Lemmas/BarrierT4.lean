import PikaVerif.Lemmas.BarrierT3
/-! The fine-only events, the step theorem and the log-level refinement theorem. -/
namespace PikaVerif.BarrierT
open PikaVerif PikaVerif.Barrier

theorem sim_compl (s s' : St) (hi : FInv s) (t : Nat) (h : step s (.compl t) = some s') :
    Barrier.step (abs s) (.compl t) = some (abs s') ∧ J s' := by
  simp only [step] at h
  split at h
  · rename_i ht
    split at h
    · rename_i u r hpc
      simp only [Option.some.injEq] at h
      have hwin : s.c.win = some t := by
        have := hi.b.winOk t (by rw [abs_pc, hpc]; simp [isWin, isWon])
        simpa using this
      have hxt : s.wx t = .none := by
        by_cases hx : s.wx t = .none
        · exact hx
        · have := hi.j.wxPub t hx; rw [hpc] at this; simp [isPub] at this
      have hcl : ∀ w, s.c.win = some w → s.wx w = .none := by
        intro w hw; rw [hwin] at hw; simp only [Option.some.injEq] at hw; subst hw; exact hxt
      constructor
      · rw [abs_eq hcl]
        subst h
        simp [Barrier.step, ht, hpc, abs, aexp, aadj, hwin]
      · have hwf := hi.b.wonF t (by rw [abs_pc, hpc]; simp [isWon])
        rw [abs_eq hcl] at hwf
        subst h
        refine ⟨?_, ?_, hi.j.lost0, ?_, ?_⟩
        · intro t' hx'
          dsimp only at hx' ⊢
          by_cases he : t' = t
          · subst he; simp [isPub]
          · rw [upd_other _ _ _ _ he] at hx' ⊢; exact hi.j.wxPub t' hx'
        · intro t' a hx'
          dsimp only at hx' ⊢
          by_cases he : t' = t
          · subst he; simp at hx'
          · rw [upd_other _ _ _ _ he] at hx'; exact hi.j.adjdEq t' a hx'
        · intro t' hx'
          dsimp only at hx' ⊢
          exact ⟨hwf.1, hwf.2.1⟩
        · intro t' a hx'
          dsimp only at hx' ⊢
          by_cases he : t' = t
          · subst he; simp at hx'
          · rw [upd_other _ _ _ _ he] at hx'
            have := wx_none_of_win_none (s := s) hi
            have h3 := win_of_wx hi (t := t') (by rw [hx']; simp)
            rw [hwin] at h3; simp only [Option.some.injEq] at h3; exact absurd h3.symm he
    · simp at h
  · simp at h

theorem sim_adjLoad (s s' : St) (hi : FInv s) (t a e : Nat) (h : step s (.adjLoad t a e) = some s') :
    abs s' = abs s ∧ J s' := by
  simp only [step] at h
  split at h
  · rename_i hg
    obtain ⟨ht, hx, ha, he⟩ := hg
    simp only [Option.some.injEq] at h
    have hwin : s.c.win = some t := win_of_wx hi (by rw [hx]; simp)
    subst h
    constructor
    · simp [abs, aexp, aadj, hwin, hx, ha, he]
    · have hcd := hi.j.cdoneEq t hx
      have hother : ∀ t', t' ≠ t → s.wx t' = .none := by
        intro t' hne
        by_cases hx' : s.wx t' = .none
        · exact hx'
        · have h3 := win_of_wx hi hx'
          rw [hwin] at h3; simp only [Option.some.injEq] at h3; exact absurd h3.symm hne
      refine ⟨?_, ?_, hi.j.lost0, ?_, ?_⟩
      · intro t' hx'
        dsimp only at hx' ⊢
        by_cases h2 : t' = t
        · subst h2; exact hi.j.wxPub t' (by rw [hx]; simp)
        · rw [upd_other _ _ _ _ h2] at hx'; exact hi.j.wxPub t' hx'
      · intro t' a' hx'
        dsimp only at hx' ⊢
        by_cases h2 : t' = t
        · subst h2; simp at hx'; omega
        · rw [upd_other _ _ _ _ h2] at hx'; exact hi.j.adjdEq t' a' hx'
      · intro t' hx'
        dsimp only at hx' ⊢
        by_cases h2 : t' = t
        · subst h2; simp at hx'
        · rw [upd_other _ _ _ _ h2] at hx'; rw [hother t' h2] at hx'; cases hx'
      · intro t' a' hx'
        dsimp only at hx' ⊢
        by_cases h2 : t' = t
        · subst h2; simp at hx'; subst hx'; omega
        · rw [upd_other _ _ _ _ h2] at hx'; rw [hother t' h2] at hx'; cases hx'
  · simp at h

theorem sim_adjStore (s s' : St) (hi : FInv s) (t : Nat) (h : step s (.adjStore t) = some s') :
    abs s' = abs s ∧ J s' := by
  simp only [step] at h
  split at h
  · rename_i ht
    split at h
    · rename_i a hx
      simp only [Option.some.injEq] at h
      have hwin : s.c.win = some t := win_of_wx hi (by rw [hx]; simp)
      have hadj := hi.j.adjdEq t a hx
      have hl := hi.j.lost0
      subst h
      constructor
      · simp [abs, aexp, aadj, hwin, hx]
      · have hother : ∀ t', t' ≠ t → s.wx t' = .none := by
          intro t' hne
          by_cases hx' : s.wx t' = .none
          · exact hx'
          · have h3 := win_of_wx hi hx'
            rw [hwin] at h3; simp only [Option.some.injEq] at h3; exact absurd h3.symm hne
        refine ⟨?_, ?_, ?_, ?_, ?_⟩
        · intro t' hx'
          dsimp only at hx' ⊢
          by_cases h2 : t' = t
          · subst h2; simp at hx'
          · rw [upd_other _ _ _ _ h2] at hx'; exact hi.j.wxPub t' hx'
        · intro t' a' hx'
          dsimp only at hx' ⊢
          by_cases h2 : t' = t
          · subst h2; simp at hx'
          · rw [upd_other _ _ _ _ h2] at hx'
            have := win_of_wx hi (t := t') (by rw [hx']; simp)
            rw [hwin] at this; simp only [Option.some.injEq] at this; exact absurd this.symm h2
        · dsimp only; omega
        · intro t' hx'
          dsimp only at hx' ⊢
          by_cases h2 : t' = t
          · subst h2; simp at hx'
          · rw [upd_other _ _ _ _ h2] at hx'; rw [hother t' h2] at hx'; cases hx'
        · intro t' a' hx'
          dsimp only at hx' ⊢
          by_cases h2 : t' = t
          · subst h2; simp at hx'
          · rw [upd_other _ _ _ _ h2] at hx'; rw [hother t' h2] at hx'; cases hx'
    · simp at h
  · simp at h

theorem sim_block (s s' : St) (hi : FInv s) (t : Nat) (b : Bool) (h : step s (.block t b) = some s') :
    abs s' = abs s ∧ J s' := by
  simp only [step] at h
  split at h
  · simp only [Option.some.injEq] at h; subst h
    exact ⟨rfl, ⟨hi.j.wxPub, hi.j.adjdEq, hi.j.lost0, hi.j.cdoneEq, hi.j.adjdVal⟩⟩
  · simp at h

/-- **One accepted fine step is one coarse step (or a coarse stutter) on the abstraction.** -/
theorem sim (s s' : St) (e : Ev) (hi : FInv s) (h : step s e = some s') : SimStep s s' e ∧ J s' := by
  cases e with
  | compl t => exact sim_compl s s' hi t h
  | adjLoad t a e => exact sim_adjLoad s s' hi t a e h
  | adjStore t => exact sim_adjStore s s' hi t h
  | block t b => exact sim_block s s' hi t b h
  | invT t o =>
    simp only [step] at h
    cases o with
    | arrive u => simp at h
    | drop => simp at h
    | wait =>
      simp only [Option.map_eq_some_iff] at h
      obtain ⟨c', hc, rfl⟩ := h
      exact sim_framed s hi _ rfl c' _ _ hc
    | aw =>
      simp only [Option.map_eq_some_iff] at h
      obtain ⟨c', hc, rfl⟩ := h
      exact sim_framed s hi _ rfl c' _ _ hc
  | spinok t tok seen =>
    simp only [step] at h
    split at h
    · simp only [Option.map_eq_some_iff] at h
      obtain ⟨c', hc, rfl⟩ := h
      exact sim_framed s hi _ rfl c' s.timed s.blk hc
    · simp at h
  | c e0 =>
    cases e0 with
    | compl t => simp [step] at h
    | inv t o =>
      simp only [step, Option.map_eq_some_iff] at h
      obtain ⟨c', hc, rfl⟩ := h
      exact sim_framed s hi _ rfl c' _ _ hc
    | poll t a b =>
      simp only [step] at h
      split at h
      · simp only [Option.map_eq_some_iff] at h
        obtain ⟨c', hc, rfl⟩ := h
        exact sim_framed s hi _ rfl c' s.timed s.blk hc
      · simp at h
    | publish t a b =>
      simp only [step] at h
      split at h
      · rename_i hx
        simp only [Option.map_eq_some_iff] at h
        obtain ⟨c', hc, rfl⟩ := h
        exact sim_publish s hi t a b c' hx hc
      · simp at h
    | adj t =>
      simp only [step, Option.map_eq_some_iff] at h
      obtain ⟨c', hc, rfl⟩ := h
      exact sim_adj s hi t c' hc
    | load t a b =>
      simp only [step, Option.map_eq_some_iff] at h
      obtain ⟨c', hc, rfl⟩ := h
      exact sim_load s hi t a b c' hc
    | start t a =>
      simp only [step, Option.map_eq_some_iff] at h
      obtain ⟨c', hc, rfl⟩ := h
      exact sim_start s hi t a c' hc
    | last t a b =>
      simp only [step, Option.map_eq_some_iff] at h
      obtain ⟨c', hc, rfl⟩ := h
      exact sim_last s hi t a b c' hc
    | cas t a b o =>
      simp only [step, Option.map_eq_some_iff] at h
      obtain ⟨c', hc, rfl⟩ := h
      exact sim_framed s hi _ rfl c' s.timed s.blk hc
    | cas2 t a b o =>
      simp only [step, Option.map_eq_some_iff] at h
      obtain ⟨c', hc, rfl⟩ := h
      exact sim_framed s hi _ rfl c' s.timed s.blk hc
    | ret t =>
      simp only [step, Option.map_eq_some_iff] at h
      obtain ⟨c', hc, rfl⟩ := h
      exact sim_framed s hi _ rfl c' s.timed s.blk hc
    | done t =>
      simp only [step, Option.map_eq_some_iff] at h
      obtain ⟨c', hc, rfl⟩ := h
      exact sim_framed s hi _ rfl c' s.timed s.blk hc

theorem finv_init (n N : Nat) : FInv (init n N) := by
  have he : abs (init n N) = Barrier.init n N := abs_eq_of_none rfl
  refine ⟨?_, ?_, ?_, ?_⟩
  · rw [he]; exact invA_init n N
  · rw [he]; exact invB_init n N
  · rw [he]; exact invC_init n N
  · exact ⟨(by intro t h; exact absurd rfl h), (by intro t a h; cases h), rfl, (by intro t h; cases h), (by intro t a h; cases h)⟩

theorem finv_step (s s' : St) (e : Ev) (hi : FInv s) (h : step s e = some s') : FInv s' := by
  obtain ⟨hs, hj⟩ := sim s s' e hi h
  unfold SimStep at hs
  cases hp : proj e with
  | none =>
    rw [hp] at hs; dsimp only at hs
    exact ⟨hs ▸ hi.a, hs ▸ hi.b, hs ▸ hi.c, hj⟩
  | some e' =>
    rw [hp] at hs; dsimp only at hs
    exact ⟨stepA _ _ e' hi.a hs, stepB _ _ e' hi.a hi.b hs, stepC _ _ e' hi.a hi.b hi.c hs, hj⟩

/-- **Refinement.**  Every log accepted by the fine model projects (event by event, dropping the
    stutter steps) to a log accepted by the coarse model, and the coarse run ends in the
    abstraction of the fine final state. -/
theorem refines_from (log : List Ev) : ∀ (s s' : St), FInv s → runLog step s log = some s' →
    runLog Barrier.step (abs s) (projLog log) = some (abs s') ∧ FInv s' := by
  induction log with
  | nil => intro s s' hi h; simp at h; subst h; exact ⟨rfl, hi⟩
  | cons e es ih =>
    intro s s' hi h
    simp only [runLog] at h
    cases hs : step s e with
    | none => simp [hs] at h
    | some s1 =>
      simp only [hs] at h
      have hi1 := finv_step s s1 e hi hs
      obtain ⟨h1, h2⟩ := ih s1 s' hi1 h
      refine ⟨?_, h2⟩
      have hsim := (sim s s1 e hi hs).1
      unfold SimStep at hsim
      cases hp : proj e with
      | none =>
        rw [hp] at hsim; dsimp only at hsim
        simp only [projLog, hp]; rw [← hsim]; exact h1
      | some e' =>
        rw [hp] at hsim; dsimp only at hsim
        simp only [projLog, hp, runLog, hsim]; exact h1

theorem refines {n N : Nat} {log : List Ev} {s : St} (h : runLog step (init n N) log = some s) :
    runLog Barrier.step (Barrier.init n N) (projLog log) = some (abs s) ∧ FInv s := by
  have := refines_from log (init n N) s (finv_init n N) h
  rwa [abs_eq_of_none (s := init n N) rfl] at this

end PikaVerif.BarrierT
