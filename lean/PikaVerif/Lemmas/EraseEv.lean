import PikaVerif.Lemmas.EraseSim
/-! Ledger counters of the model = number of construction / destruction events it emits. -/
set_option linter.unusedVariables false
namespace PikaVerif.Erase
open PikaVerif

/-- number of construction events (`C`, `K`, `M`) of object `id` in an event list -/
def ctorsOf (id : Nat) : List LEv → Nat
  | [] => 0
  | .C i _ :: l => (if i = id then 1 else 0) + ctorsOf id l
  | .K i _ :: l => (if i = id then 1 else 0) + ctorsOf id l
  | .M i _ :: l => (if i = id then 1 else 0) + ctorsOf id l
  | _ :: l => ctorsOf id l

/-- number of destruction events of object `id` -/
def dtorsOf (id : Nat) : List LEv → Nat
  | [] => 0
  | .D i :: l => (if i = id then 1 else 0) + dtorsOf id l
  | _ :: l => dtorsOf id l

theorem ctorsOf_append (id : Nat) (l₁ l₂ : List LEv) :
    ctorsOf id (l₁ ++ l₂) = ctorsOf id l₁ + ctorsOf id l₂ := by
  induction l₁ with
  | nil => simp [ctorsOf]
  | cons e l ih => cases e <;> simp [ctorsOf, ih] <;> omega

theorem dtorsOf_append (id : Nat) (l₁ l₂ : List LEv) :
    dtorsOf id (l₁ ++ l₂) = dtorsOf id l₁ + dtorsOf id l₂ := by
  induction l₁ with
  | nil => simp [dtorsOf]
  | cons e l ih => cases e <;> simp [dtorsOf, ih] <;> omega

theorem ctorsOf_inEv (id : Nat) (cp : Bool) (b a : Nat) (l : List LEv) :
    ctorsOf id (inEv cp b a :: l) = (if b = id then 1 else 0) + ctorsOf id l := by
  cases cp <;> simp [inEv, ctorsOf]

theorem dtorsOf_inEv (id : Nat) (cp : Bool) (b a : Nat) (l : List LEv) :
    dtorsOf id (inEv cp b a :: l) = dtorsOf id l := by
  cases cp <;> simp [inEv, dtorsOf]

theorem ctorsOf_dEv (id : Nat) (o : Option Obj) : ctorsOf id (dEv o) = 0 := by
  cases o <;> simp [dEv, ctorsOf]

theorem dtorsOf_dEv_some (id : Nat) (o : Obj) : dtorsOf id (dEv (some o)) = if o.id = id then 1 else 0 := by
  simp [dEv, dtorsOf]

theorem dtorsOf_dEv_none (id : Nat) : dtorsOf id (dEv none) = 0 := by
  simp [dEv, dtorsOf]

theorem counts_exec (c : Cfg) (s : St) (op : Op) (id : Nat) :
    (exec c s op).st.ctor id = s.ctor id + ctorsOf id (exec c s op).evs ∧
    (exec c s op).st.dtor id = s.dtor id + dtorsOf id (exec c s op).evs := by
  cases op <;>
  simp only [exec, execStore, inval, St.put, St.die, St.dieO, St.own, St.ownO, St.born, St.leak, St.tick,
    Slot.dead, Slot.emptyW] <;>
  (repeat' split) <;>
  (try simp only [*]) <;>
  simp only [ctorsOf_inEv, dtorsOf_inEv, ctorsOf_dEv, dtorsOf_dEv_some, dtorsOf_dEv_none, ctorsOf, dtorsOf,
    ctorsOf_append, dtorsOf_append, upd] <;>
  grind
end PikaVerif.Erase
