import PikaVerif.Gen.SwapAsm
/-!
# Symbolic execution of the generated context-switch routine

Per-opcode stepping lemmas for `X86.run` (side conditions: the accessed address is aligned and
no 64-bit wrap-around happens) and the resulting closed-form specification `swap_spec` of
`Gen.SwapAsm.prog`.  The proof of `swap_spec` replays the generated instruction list, so any
change of the asm text that alters the routine breaks it (fail closed).
-/
namespace PikaVerif.X86

theorem W_eq : W = 18446744073709551616 := rfl

section step
variable {rest : List Instr} {reg : Reg → Nat} {mem : Nat → Nat} {mx fc : Nat}

theorem run_load {off : Nat} {b d : Reg} (a : Nat) (ha : reg b + off = a) (hW : a < W) (h8 : a % 8 = 0) :
    run (.load off b d :: rest) ⟨reg, mem, mx, fc⟩ = run rest ⟨setReg reg d (mem a), mem, mx, fc⟩ := by
  have : ea ⟨reg, mem, mx, fc⟩ off b = a := by unfold ea wadd; dsimp only; rw [ha]; exact Nat.mod_eq_of_lt hW
  simp [run, exec, this, h8]

theorem run_store {src : Reg} {off : Nat} {b : Reg} (a : Nat) (ha : reg b + off = a) (hW : a < W)
    (h8 : a % 8 = 0) :
    run (.store src off b :: rest) ⟨reg, mem, mx, fc⟩ = run rest ⟨reg, upd mem a (reg src), mx, fc⟩ := by
  have : ea ⟨reg, mem, mx, fc⟩ off b = a := by unfold ea wadd; dsimp only; rw [ha]; exact Nat.mod_eq_of_lt hW
  simp [run, exec, this, h8]

theorem run_mov {src d : Reg} :
    run (.mov src d :: rest) ⟨reg, mem, mx, fc⟩ = run rest ⟨setReg reg d (reg src), mem, mx, fc⟩ := by
  simp [run, exec]

theorem run_push {r : Reg} (sp : Nat) (hsp : reg .rsp = sp) (h8 : sp % 8 = 0) (h1 : 8 ≤ sp) :
    run (.push r :: rest) ⟨reg, mem, mx, fc⟩ =
      run rest ⟨setReg reg .rsp (sp - 8), upd mem (sp - 8) (reg r), mx, fc⟩ := by
  have e : wsub (reg .rsp) 8 = sp - 8 := by rw [hsp]; unfold wsub; simp [h1]
  have e8 : (sp - 8) % 8 = 0 := by omega
  simp [run, exec, e, e8]

theorem run_pop {r : Reg} (sp : Nat) (hsp : reg .rsp = sp) (h8 : sp % 8 = 0) (h2 : sp + 8 < W) :
    run (.pop r :: rest) ⟨reg, mem, mx, fc⟩ =
      run rest ⟨setReg (setReg reg .rsp (sp + 8)) r (mem sp), mem, mx, fc⟩ := by
  have e : wadd sp 8 = sp + 8 := Nat.mod_eq_of_lt h2
  simp [run, exec, hsp, h8, e]

theorem run_addi {imm : Nat} {d : Reg} (v : Nat) (hv : reg d + imm = v) (hW : v < W) :
    run (.addi imm d :: rest) ⟨reg, mem, mx, fc⟩ = run rest ⟨setReg reg d v, mem, mx, fc⟩ := by
  have e : wadd (reg d) imm = v := by unfold wadd; rw [hv]; exact Nat.mod_eq_of_lt hW
  simp [run, exec, e]

theorem run_jmpr {r : Reg} : run (.jmpr r :: rest) ⟨reg, mem, mx, fc⟩ = some (⟨reg, mem, mx, fc⟩, reg r) := by
  simp [run]

end step

/-! ## Closed form of the generated routine -/
open PikaVerif.Gen.SwapAsm

/-- Memory after the save half: the eight pushed registers below the old stack pointer and the new
    stack pointer stored through `rdi` (`*from = rsp`). -/
def savedMem (s : St) : Nat → Nat :=
  let sp := s.reg .rsp
  upd (upd (upd (upd (upd (upd (upd (upd (upd s.mem (sp - 8) (s.reg .rbp)) (sp - 16) (s.reg .rbx)) (sp - 24) (s.reg .rax))
    (sp - 32) (s.reg .rdx)) (sp - 40) (s.reg .r12)) (sp - 48) (s.reg .r13)) (sp - 56) (s.reg .r14)) (sp - 64) (s.reg .r15))
    (s.reg .rdi) (sp - 64)

/-- What one execution of the routine does (`s` at entry, `s'` when it jumps to `t`). -/
structure SwapPost (s s' : St) (t : Nat) : Prop where
  tgt : t = s.mem (s.reg .rsi + 64)
  mem : s'.mem = savedMem s
  rsp : s'.reg .rsp = s.reg .rsi + 72
  r15 : s'.reg .r15 = savedMem s (s.reg .rsi)
  r14 : s'.reg .r14 = savedMem s (s.reg .rsi + 8)
  r13 : s'.reg .r13 = savedMem s (s.reg .rsi + 16)
  r12 : s'.reg .r12 = savedMem s (s.reg .rsi + 24)
  rdx : s'.reg .rdx = savedMem s (s.reg .rsi + 32)
  rax : s'.reg .rax = savedMem s (s.reg .rsi + 40)
  rbx : s'.reg .rbx = savedMem s (s.reg .rsi + 48)
  rbp : s'.reg .rbp = savedMem s (s.reg .rsi + 56)
  rdi : s'.reg .rdi = savedMem s (s.reg .rsi + 80)
  rcx : s'.reg .rcx = s.mem (s.reg .rsi + 64)
  rsi : s'.reg .rsi = s.reg .rsi
  r8 : s'.reg .r8 = s.reg .r8
  r9 : s'.reg .r9 = s.reg .r9
  r10 : s'.reg .r10 = s.reg .r10
  r11 : s'.reg .r11 = s.reg .r11
  mxcsr : s'.mxcsr = s.mxcsr
  fcw : s'.fcw = s.fcw

/-- **Specification of the generated routine.**  From any state with an 8-aligned stack pointer
    (at least 64 bytes above 0), 8-aligned `rdi` (`&from.m_sp`) and `rsi` (`to.m_sp`), the routine
    runs to its `jmp` and establishes `SwapPost`. -/
theorem swap_spec (s : St) (hsp : s.reg .rsp % 8 = 0) (hsp1 : 64 ≤ s.reg .rsp)
    (hto : s.reg .rsi % 8 = 0) (hto2 : s.reg .rsi + 88 < W) (hfrom : s.reg .rdi % 8 = 0)
    (hfrom2 : s.reg .rdi < W) :
    ∃ s' t, run prog s = some (s', t) ∧ SwapPost s s' t := by
  obtain ⟨reg, mem, mx, fc⟩ := s
  simp only at hsp hsp1 hto hto2 hfrom hfrom2
  generalize hsp' : reg .rsp = sp at *
  generalize hto' : reg .rsi = to at *
  generalize hfr' : reg .rdi = fr at *
  unfold prog
  rw [run_load (to + 64) (by simp [hto']) (by omega) (by omega)]
  rw [run_push sp (by simp [setReg, hsp']) (by omega) (by omega)]
  rw [run_push (sp - 8) (by simp [setReg]) (by omega) (by omega)]
  rw [run_push (sp - 16) (by simp [setReg]; omega) (by omega) (by omega)]
  rw [run_push (sp - 24) (by simp [setReg]; omega) (by omega) (by omega)]
  rw [run_push (sp - 32) (by simp [setReg]; omega) (by omega) (by omega)]
  rw [run_push (sp - 40) (by simp [setReg]; omega) (by omega) (by omega)]
  rw [run_push (sp - 48) (by simp [setReg]; omega) (by omega) (by omega)]
  rw [run_push (sp - 56) (by simp [setReg]; omega) (by omega) (by omega)]
  rw [run_store fr (by simp [setReg, hfr']) (by omega) (by omega)]
  rw [run_mov]
  rw [run_pop to (by simp [setReg, hto']) (by omega) (by omega)]
  rw [run_pop (to + 8) (by simp [setReg]) (by omega) (by omega)]
  rw [run_pop (to + 16) (by simp [setReg]) (by omega) (by omega)]
  rw [run_pop (to + 24) (by simp [setReg]) (by omega) (by omega)]
  rw [run_pop (to + 32) (by simp [setReg]) (by omega) (by omega)]
  rw [run_pop (to + 40) (by simp [setReg]) (by omega) (by omega)]
  rw [run_pop (to + 48) (by simp [setReg]) (by omega) (by omega)]
  rw [run_pop (to + 56) (by simp [setReg]) (by omega) (by omega)]
  rw [run_load (to + 80) (by simp [setReg, hto']) (by omega) (by omega)]
  rw [run_addi (to + 72) (by simp [setReg]) (by omega)]
  rw [run_jmpr]
  refine ⟨_, _, rfl, ?_⟩
  have e2 : sp - 8 - 8 = sp - 16 := by omega
  have e3 : sp - 16 - 8 = sp - 24 := by omega
  have e4 : sp - 24 - 8 = sp - 32 := by omega
  have e5 : sp - 32 - 8 = sp - 40 := by omega
  have e6 : sp - 40 - 8 = sp - 48 := by omega
  have e7 : sp - 48 - 8 = sp - 56 := by omega
  have e8 : sp - 56 - 8 = sp - 64 := by omega
  constructor <;> simp [setReg, savedMem, hsp', hto', hfr', e2, e3, e4, e5, e6, e7, e8]

/-! ## Reading the saved frame -/

theorem savedMem_outside (s : St) (a : Nat) (h : a < s.reg .rsp - 64 ∨ s.reg .rsp ≤ a) (hf : a ≠ s.reg .rdi)
    (h64 : 64 ≤ s.reg .rsp) : savedMem s a = s.mem a := by
  simp (disch := omega) only [savedMem, upd_other]

theorem savedMem_from (s : St) : savedMem s (s.reg .rdi) = s.reg .rsp - 64 := by
  simp [savedMem]

theorem savedMem_slot (s : St) (hf : s.reg .rdi < s.reg .rsp - 64 ∨ s.reg .rsp ≤ s.reg .rdi) (h64 : 64 ≤ s.reg .rsp) :
    savedMem s (s.reg .rsp - 64) = s.reg .r15 ∧ savedMem s (s.reg .rsp - 64 + 8) = s.reg .r14 ∧
    savedMem s (s.reg .rsp - 64 + 16) = s.reg .r13 ∧ savedMem s (s.reg .rsp - 64 + 24) = s.reg .r12 ∧
    savedMem s (s.reg .rsp - 64 + 32) = s.reg .rdx ∧ savedMem s (s.reg .rsp - 64 + 40) = s.reg .rax ∧
    savedMem s (s.reg .rsp - 64 + 48) = s.reg .rbx ∧ savedMem s (s.reg .rsp - 64 + 56) = s.reg .rbp := by
  have e1 : s.reg .rsp - 64 + 8 = s.reg .rsp - 56 := by omega
  have e2 : s.reg .rsp - 64 + 16 = s.reg .rsp - 48 := by omega
  have e3 : s.reg .rsp - 64 + 24 = s.reg .rsp - 40 := by omega
  have e4 : s.reg .rsp - 64 + 32 = s.reg .rsp - 32 := by omega
  have e5 : s.reg .rsp - 64 + 40 = s.reg .rsp - 24 := by omega
  have e6 : s.reg .rsp - 64 + 48 = s.reg .rsp - 16 := by omega
  have e7 : s.reg .rsp - 64 + 56 = s.reg .rsp - 8 := by omega
  rw [e1, e2, e3, e4, e5, e6, e7]
  refine ⟨?_, ?_, ?_, ?_, ?_, ?_, ?_, ?_⟩ <;> simp (disch := omega) only [savedMem, upd_other, upd_same]

end PikaVerif.X86
