import PikaVerif.Lemmas.LifeHistMax
/-! Every task runs exactly once (C05t): the number of `body.enter` / `body.exit` events equals the
    number of units whose thread object was destroyed plus the live objects that are past that point. -/
namespace PikaVerif.Life
open PikaVerif

def wTerm (w : Nat → Nat) (live : Nat → Bool) (tp : Nat → Nat) (o : Nat) : Nat := if live o = true then w (tp o) else 0
def wPotF (w : Nat → Nat) (no : Nat) (live : Nat → Bool) (tp : Nat → Nat) : Nat := sumTo no (wTerm w live tp)

theorem wPotF_change (w : Nat → Nat) (no : Nat) (live live' : Nat → Bool) (tp tp' : Nat → Nat) (o : Nat) (ho : o < no)
    (hoth : ∀ u, u ≠ o → live' u = live u ∧ tp' u = tp u) :
    wPotF w no live' tp' + wTerm w live tp o = wPotF w no live tp + wTerm w live' tp' o := by
  simp only [wPotF]
  exact sumTo_change ho (fun u hu => by simp only [wTerm, (hoth u hu).1, (hoth u hu).2])

def ge2 (t : Nat) : Nat := if 2 ≤ t then 1 else 0
def ge4 (t : Nat) : Nat := if 4 ≤ t then 1 else 0

/-- live objects whose task has entered / has left its body -/
def entered (h : HSt) : Nat := wPotF ge2 h.s.no h.s.live h.tp
def exited (h : HSt) : Nat := wPotF ge4 h.s.no h.s.live h.tp

structure HInvC (h : HSt) : Prop where
  bodies : h.bodies = h.s.finished + h.s.destroying + entered h
  exits : h.exits = h.s.finished + h.s.destroying + exited h

set_option hygiene false in
macro "hinvc" : tactic => `(tactic| (
  obtain ⟨c1, c2⟩ := hc
  simp only [entered, exited] at c1 c2
  hist_open
  all_goals (clear hs; refine ⟨?_, ?_⟩ <;> simp only [entered, exited])
  all_goals first
    | assumption
    | omega
    | (simp_all; done)
    | (simp_all; omega)))

theorem hinvC_inc (h h' : HSt) (a n : Nat) (hc : HInvC h) (hs : hstep h (.inc a n) = some h') : HInvC h' := by hinvc
theorem hinvC_dec (h h' : HSt) (a n : Nat) (hc : HInvC h) (hs : hstep h (.dec a n) = some h') : HInvC h' := by hinvc
theorem hinvC_stage (h h' : HSt) (a : Nat) (hc : HInvC h) (hs : hstep h (.stage a) = some h') : HInvC h' := by hinvc
theorem hinvC_unstage (h h' : HSt) (a : Nat) (hc : HInvC h) (hs : hstep h (.unstage a) = some h') : HInvC h' := by hinvc
theorem hinvC_sample (h h' : HSt) (a v w : Nat) (hc : HInvC h) (hs : hstep h (.sample a v w) = some h') : HInvC h' := by hinvc
theorem hinvC_rtState (h h' : HSt) (a v : Nat) (hc : HInvC h) (hs : hstep h (.rtState a v) = some h') : HInvC h' := by hinvc
theorem hinvC_result (h h' : HSt) (a r : Nat) (hc : HInvC h) (hs : hstep h (.result a r) = some h') : HInvC h' := by hinvc
theorem hinvC_fin (h h' : HSt) (a : Nat) (hc : HInvC h) (hs : hstep h (.fin a) = some h') : HInvC h' := by hinvc
theorem hinvC_stopEnter (h h' : HSt) (a : Nat) (hc : HInvC h) (hs : hstep h (.stopEnter a) = some h') : HInvC h' := by hinvc
theorem hinvC_waitFin (h h' : HSt) (a : Nat) (hc : HInvC h) (hs : hstep h (.waitFin a) = some h') : HInvC h' := by hinvc
theorem hinvC_waited (h h' : HSt) (a r : Nat) (hc : HInvC h) (hs : hstep h (.waited a r) = some h') : HInvC h' := by hinvc
theorem hinvC_stopExit (h h' : HSt) (a r : Nat) (hc : HInvC h) (hs : hstep h (.stopExit a r) = some h') : HInvC h' := by hinvc
theorem hinvC_suspendEnter (h h' : HSt) (a : Nat) (hc : HInvC h) (hs : hstep h (.suspendEnter a) = some h') : HInvC h' := by hinvc
theorem hinvC_resumeEnter (h h' : HSt) (a : Nat) (hc : HInvC h) (hs : hstep h (.resumeEnter a) = some h') : HInvC h' := by hinvc
theorem hinvC_worker (h h' : HSt) (a : Nat) (hc : HInvC h) (hs : hstep h (.worker a) = some h') : HInvC h' := by hinvc
theorem hinvC_sleep (h h' : HSt) (a : Nat) (hc : HInvC h) (hs : hstep h (.sleep a) = some h') : HInvC h' := by hinvc
theorem hinvC_wake (h h' : HSt) (a : Nat) (hc : HInvC h) (hs : hstep h (.wake a) = some h') : HInvC h' := by hinvc
theorem hinvC_waitEnter (h h' : HSt) (a : Nat) (hc : HInvC h) (hs : hstep h (.waitEnter a) = some h') : HInvC h' := by hinvc
theorem hinvC_waitExit (h h' : HSt) (a : Nat) (hc : HInvC h) (hs : hstep h (.waitExit a) = some h') : HInvC h' := by hinvc
theorem hinvC_reqCfg (h h' : HSt) (a t p : Nat) (hc : HInvC h) (hs : hstep h (.reqCfg a t p) = some h') : HInvC h' := by hinvc
theorem hinvC_seenCfg (h h' : HSt) (a t p : Nat) (hc : HInvC h) (hs : hstep h (.seenCfg a t p) = some h') : HInvC h' := by hinvc

theorem hinvC_new (h h' : HSt) (a o : Nat) (hi : Inv h.s) (hc : HInvC h) (hs : hstep h (.new a o) = some h') : HInvC h' := by
  obtain ⟨c1, c2⟩ := hc
  simp only [entered, exited] at c1 c2
  hist_open
  · rename_i hg
    have ho : o < h.s.no := hg.2.1
    have e2 := wPotF_change ge2 h.s.no h.s.live (upd h.s.live o true) h.tp (upd h.tp o 0) o ho (fun u hu => ⟨by simp [upd, hu], by simp [upd, hu]⟩)
    have e4 := wPotF_change ge4 h.s.no h.s.live (upd h.s.live o true) h.tp (upd h.tp o 0) o ho (fun u hu => ⟨by simp [upd, hu], by simp [upd, hu]⟩)
    refine ⟨?_, ?_⟩ <;> simp only [entered, exited] <;> simp_all [wTerm, ge2, ge4, upd] <;> omega

theorem hinvC_destroy (h h' : HSt) (a o : Nat) (hi : Inv h.s) (hc : HInvC h) (hs : hstep h (.destroy a o) = some h') : HInvC h' := by
  obtain ⟨c1, c2⟩ := hc
  simp only [entered, exited] at c1 c2
  hist_open
  · rename_i hg _
    have ho : o < h.s.no := hg.2.1
    have e2 := wPotF_change ge2 h.s.no h.s.live (upd h.s.live o false) h.tp (h.tp) o ho (fun u hu => ⟨by simp [upd, hu], by simp [upd, hu]⟩)
    have e4 := wPotF_change ge4 h.s.no h.s.live (upd h.s.live o false) h.tp (h.tp) o ho (fun u hu => ⟨by simp [upd, hu], by simp [upd, hu]⟩)
    refine ⟨?_, ?_⟩ <;> simp only [entered, exited] <;> simp_all [wTerm, ge2, ge4, upd] <;> omega

theorem hinvC_phaseBegin (h h' : HSt) (a o : Nat) (hi : Inv h.s) (hc : HInvC h) (hs : hstep h (.phaseBegin a o) = some h') : HInvC h' := by
  obtain ⟨c1, c2⟩ := hc
  simp only [entered, exited] at c1 c2
  hist_open
  · rename_i hg _
    have ho : o < h.s.no := hg.2.1
    have e2 := wPotF_change ge2 h.s.no h.s.live (h.s.live) h.tp (upd h.tp o 1) o ho (fun u hu => ⟨by simp [upd, hu], by simp [upd, hu]⟩)
    have e4 := wPotF_change ge4 h.s.no h.s.live (h.s.live) h.tp (upd h.tp o 1) o ho (fun u hu => ⟨by simp [upd, hu], by simp [upd, hu]⟩)
    refine ⟨?_, ?_⟩ <;> simp only [entered, exited] <;> simp_all [wTerm, ge2, ge4, upd] <;> omega
  · rename_i hg _ _
    have ho : o < h.s.no := hg.2.1
    have e2 := wPotF_change ge2 h.s.no h.s.live (h.s.live) h.tp (upd h.tp o 2) o ho (fun u hu => ⟨by simp [upd, hu], by simp [upd, hu]⟩)
    have e4 := wPotF_change ge4 h.s.no h.s.live (h.s.live) h.tp (upd h.tp o 2) o ho (fun u hu => ⟨by simp [upd, hu], by simp [upd, hu]⟩)
    refine ⟨?_, ?_⟩ <;> simp only [entered, exited] <;> simp_all [wTerm, ge2, ge4, upd] <;> omega

theorem hinvC_phaseEnd (h h' : HSt) (a o : Nat) (hi : Inv h.s) (hc : HInvC h) (hs : hstep h (.phaseEnd a o) = some h') : HInvC h' := by
  obtain ⟨c1, c2⟩ := hc
  simp only [entered, exited] at c1 c2
  hist_open
  · rename_i hg _
    have hl : h.s.live o = true := (hi.curLive a o hg.2).1
    have ho : o < h.s.no := hi.liveBound o hl
    have e2 := wPotF_change ge2 h.s.no h.s.live (h.s.live) h.tp (upd h.tp o 3) o ho (fun u hu => ⟨by simp [upd, hu], by simp [upd, hu]⟩)
    have e4 := wPotF_change ge4 h.s.no h.s.live (h.s.live) h.tp (upd h.tp o 3) o ho (fun u hu => ⟨by simp [upd, hu], by simp [upd, hu]⟩)
    refine ⟨?_, ?_⟩ <;> simp only [entered, exited] <;> simp_all [wTerm, ge2, ge4, upd] <;> omega
  · rename_i hg _ _
    have hl : h.s.live o = true := (hi.curLive a o hg.2).1
    have ho : o < h.s.no := hi.liveBound o hl
    have e2 := wPotF_change ge2 h.s.no h.s.live (h.s.live) h.tp (upd h.tp o 5) o ho (fun u hu => ⟨by simp [upd, hu], by simp [upd, hu]⟩)
    have e4 := wPotF_change ge4 h.s.no h.s.live (h.s.live) h.tp (upd h.tp o 5) o ho (fun u hu => ⟨by simp [upd, hu], by simp [upd, hu]⟩)
    refine ⟨?_, ?_⟩ <;> simp only [entered, exited] <;> simp_all [wTerm, ge2, ge4, upd] <;> omega

theorem hinvC_body (h h' : HSt) (a o : Nat) (hi : Inv h.s) (hc : HInvC h) (hs : hstep h (.body a o) = some h') : HInvC h' := by
  obtain ⟨c1, c2⟩ := hc
  simp only [entered, exited] at c1 c2
  hist_open
  · rename_i hg _
    have hl : h.s.live o = true := (hi.curLive a o hg.2).1
    have ho : o < h.s.no := hi.liveBound o hl
    have e2 := wPotF_change ge2 h.s.no h.s.live (h.s.live) h.tp (upd h.tp o 2) o ho (fun u hu => ⟨by simp [upd, hu], by simp [upd, hu]⟩)
    have e4 := wPotF_change ge4 h.s.no h.s.live (h.s.live) h.tp (upd h.tp o 2) o ho (fun u hu => ⟨by simp [upd, hu], by simp [upd, hu]⟩)
    refine ⟨?_, ?_⟩ <;> simp only [entered, exited] <;> simp_all [wTerm, ge2, ge4, upd] <;> omega
  · rename_i hg _ _
    have hl : h.s.live o = true := (hi.curLive a o hg.2).1
    have ho : o < h.s.no := hi.liveBound o hl
    have e2 := wPotF_change ge2 h.s.no h.s.live (h.s.live) h.tp (upd h.tp o 4) o ho (fun u hu => ⟨by simp [upd, hu], by simp [upd, hu]⟩)
    have e4 := wPotF_change ge4 h.s.no h.s.live (h.s.live) h.tp (upd h.tp o 4) o ho (fun u hu => ⟨by simp [upd, hu], by simp [upd, hu]⟩)
    refine ⟨?_, ?_⟩ <;> simp only [entered, exited] <;> simp_all [wTerm, ge2, ge4, upd] <;> omega

theorem hinvC_step (h h' : HSt) (e : Ev) (hi : Inv h.s) (hc : HInvC h) (hs : hstep h e = some h') : HInvC h' := by
  cases e with
  | inc a n => exact hinvC_inc h h' a n hc hs
  | dec a n => exact hinvC_dec h h' a n hc hs
  | stage a => exact hinvC_stage h h' a hc hs
  | unstage a => exact hinvC_unstage h h' a hc hs
  | new a o => exact hinvC_new h h' a o hi hc hs
  | destroy a o => exact hinvC_destroy h h' a o hi hc hs
  | phaseBegin a o => exact hinvC_phaseBegin h h' a o hi hc hs
  | phaseEnd a o => exact hinvC_phaseEnd h h' a o hi hc hs
  | body a o => exact hinvC_body h h' a o hi hc hs
  | sample a v w => exact hinvC_sample h h' a v w hc hs
  | rtState a v => exact hinvC_rtState h h' a v hc hs
  | result a r => exact hinvC_result h h' a r hc hs
  | fin a => exact hinvC_fin h h' a hc hs
  | stopEnter a => exact hinvC_stopEnter h h' a hc hs
  | waitFin a => exact hinvC_waitFin h h' a hc hs
  | waited a r => exact hinvC_waited h h' a r hc hs
  | stopExit a r => exact hinvC_stopExit h h' a r hc hs
  | suspendEnter a => exact hinvC_suspendEnter h h' a hc hs
  | resumeEnter a => exact hinvC_resumeEnter h h' a hc hs
  | worker a => exact hinvC_worker h h' a hc hs
  | sleep a => exact hinvC_sleep h h' a hc hs
  | wake a => exact hinvC_wake h h' a hc hs
  | waitEnter a => exact hinvC_waitEnter h h' a hc hs
  | waitExit a => exact hinvC_waitExit h h' a hc hs
  | reqCfg a t p => exact hinvC_reqCfg h h' a t p hc hs
  | seenCfg a t p => exact hinvC_seenCfg h h' a t p hc hs

end PikaVerif.Life
