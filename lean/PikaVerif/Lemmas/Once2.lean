import PikaVerif.Lemmas.Once2d
/-! `InvP` is preserved by every event; lifted to all accepted logs. -/
namespace PikaVerif.Once
open PikaVerif

theorem sum_notify (n : Nat) (q : List Nat) (pc : Nat → Pc) (t : Nat) (v : Pc) (w : Pc → Nat)
    (hw : ∀ p, w (popd p) = w p) (hv : w v = w (pc t)) :
    sumTo n (fun u => w (upd (fun u => if u ∈ q then popd (pc u) else pc u) t v u)) =
      sumTo n (fun u => w (pc u)) := by
  apply sumTo_congr
  intro u _
  by_cases hut : u = t
  · subst hut; simp [upd, hv]
  · simp only [upd, hut, if_false]
    split
    · exact hw _
    · rfl

theorem popd_facts2 (p : Pc) : (∀ o, needsSet (popd p) o = needsSet p o) ∧ runW (popd p) = runW p ∧
    ranOkW (popd p) = ranOkW p ∧ setW (popd p) = setW p ∧ owesSetW (popd p) = owesSetW p ∧
    (∀ o, needsComplete (popd p) o = needsComplete p o) ∧ onceWaiter (popd p) = onceWaiter p := by
  cases p <;> simp [popd, needsSet, runW, ranOkW, setW, owesSetW, needsComplete, onceWaiter]

theorem step_invP_notifyAll (s s' : St) (t : Nat) (l : List Nat) (hA : Inv s) (hi : InvP s)
    (h : step s (.notifyAll t l) = some s') : InvP s' := by
  simp only [step] at h
  obtain ⟨h1,h2,h3,h4,h5,h6,h7,h8,h9,h10,h11,h12⟩ := hi
  split at h
  case isFalse => simp at h
  rename_i hg
  obtain ⟨htn, hl, hq⟩ := hg
  split at h
  case h_2 => simp at h
  rename_i c hpc
  simp only [Option.some.injEq] at h
  subst h
  simp only [rsum, ksum, ssum, osum] at h3 h5 h9 h10
  refine ⟨?_, ?_, ?_, ?_, ?_, ?_, ?_, ?_, ?_, ?_, ?_, ?_⟩ <;> dsimp only [rsum, ksum, ssum, osum]
  · exact h1
  · intro u hu
    by_cases hut : u = t
    · subst hut; simp [upd, needsSet] at hu
    · simp only [upd, hut, if_false] at hu
      split at hu
      · rw [(popd_facts2 (s.pc u)).1] at hu; exact h2 u hu
      · exact h2 u hu
  · rw [sum_notify s.n s.queue s.pc t _ runW (fun p => (popd_facts2 p).2.1) (by rw [hpc]; rfl)]; exact h3
  · exact h4
  · rw [sum_notify s.n s.queue s.pc t _ ranOkW (fun p => (popd_facts2 p).2.2.1) (by rw [hpc]; rfl)]; exact h5
  · exact h6
  · intro u hu
    by_cases hut : u = t
    · subst hut; simp [upd, onceWaiter] at hu
    · simp only [upd, hut, if_false] at hu
      split at hu
      · rw [(popd_facts2 (s.pc u)).2.2.2.2.2.2] at hu; exact h7 u hu
      · exact h7 u hu
  · intro u hu
    by_cases hut : u = t
    · subst hut
      have := h8 u
      rw [hpc] at this
      simp only [upd, if_true] at hu
      exact this (by simpa [needsComplete] using hu)
    · simp only [upd, hut, if_false] at hu
      split at hu
      · rw [(popd_facts2 (s.pc u)).2.2.2.2.2.1] at hu; exact h8 u hu
      · exact h8 u hu
  · intro _ hne; simp at hne
  · rw [sum_notify s.n s.queue s.pc t _ owesSetW (fun p => (popd_facts2 p).2.2.2.2.1) (by rw [hpc]; rfl)]; exact h10
  · exact h11
  · intro u hu
    by_cases hut : u = t
    · subst hut; simp [upd] at hu
    · simp only [upd, hut, if_false] at hu
      split at hu
      · have : s.pc u = .retn 2 := by
          cases hp : s.pc u <;> simp [hp, popd] at hu ⊢
          exact hu
        exact h12 u this
      · exact h12 u hu

theorem step_invM_notifyAll (s s' : St) (t : Nat) (l : List Nat) (hA : Inv s) (hi : InvM s)
    (h : step s (.notifyAll t l) = some s') : InvM s' := by
  simp only [step] at h
  split at h
  case isFalse => simp at h
  rename_i hg
  obtain ⟨htn, hl, hq⟩ := hg
  split at h
  case h_2 => simp at h
  rename_i c hpc
  simp only [Option.some.injEq] at h
  subst h
  refine ⟨?_⟩
  dsimp only
  · intro u c' hu hf
    exfalso
    by_cases hut : u = t
    · subst hut; simp [upd] at hu
    · simp only [upd, hut, if_false] at hu
      have hpu : s.pc u = .wMustEnq c' := by
        split at hu
        · cases hp : s.pc u <;> simp [hp, popd] at hu ⊢
          exact hu
        · exact hu
      have := hA.lockHolder u (by rw [hpu]; rfl)
      rw [hl] at this
      simp at this
      exact hut this.symm



theorem step_invM (s s' : St) (e : Ev) (hA : Inv s) (hi : InvM s) (h : step s e = some s') : InvM s' := by
  cases e with
  | inv t o => exact step_invM_inv s s' t o hA hi h
  | ret t r => exact step_invM_ret s s' t r hA hi h
  | slAcq t => exact step_invM_slAcq s s' t hA hi h
  | slRel t => exact step_invM_slRel s s' t hA hi h
  | evLoad t v => exact step_invM_evLoad s s' t v hA hi h
  | evLoadL t v => exact step_invM_evLoadL s s' t v hA hi h
  | stored t v => exact step_invM_stored s s' t v hA hi h
  | cvEnq t z => exact step_invM_cvEnq s s' t z hA hi h
  | notifyAll t l => exact step_invM_notifyAll s s' t l hA hi h
  | cvWoke t a => exact step_invM_cvWoke s s' t a hA hi h
  | suspend t => exact step_invM_suspend s s' t hA hi h
  | woke t => exact step_invM_woke s s' t hA hi h
  | onceLoad t => exact step_invM_onceLoad s s' t hA hi h
  | onceWon t => exact step_invM_onceWon s s' t hA hi h
  | onceLost t a => exact step_invM_onceLost s s' t a hA hi h
  | body t a => exact step_invM_body s s' t a hA hi h
  | onceStored t a => exact step_invM_onceStored s s' t a hA hi h
  | done t => exact step_invM_done s s' t hA hi h

theorem step_invP (s s' : St) (e : Ev) (hA : Inv s) (hM : InvM s) (hi : InvP s) (h : step s e = some s') : InvP s' := by
  cases e with
  | inv t o => exact step_invP_inv s s' t o hA hi h
  | ret t r => exact step_invP_ret s s' t r hA hi h
  | slAcq t => exact step_invP_slAcq s s' t hA hi h
  | slRel t => exact step_invP_slRel s s' t hA hi h
  | evLoad t v => exact step_invP_evLoad s s' t v hA hi h
  | evLoadL t v => exact step_invP_evLoadL s s' t v hA hi h
  | stored t v => exact step_invP_stored s s' t v hA hi h
  | cvEnq t z => exact step_invP_cvEnq s s' t z hA hM hi h
  | notifyAll t l => exact step_invP_notifyAll s s' t l hA hi h
  | cvWoke t a => exact step_invP_cvWoke s s' t a hA hi h
  | suspend t => exact step_invP_suspend s s' t hA hi h
  | woke t => exact step_invP_woke s s' t hA hi h
  | onceLoad t => exact step_invP_onceLoad s s' t hA hi h
  | onceWon t => exact step_invP_onceWon s s' t hA hi h
  | onceLost t a => exact step_invP_onceLost s s' t a hA hi h
  | body t a => exact step_invP_body s s' t a hA hi h
  | onceStored t a => exact step_invP_onceStored s s' t a hA hi h
  | done t => exact step_invP_done s s' t hA hi h

theorem inv_of_accepted' {n : Nat} {log : List Ev} {s : St}
    (h : runLog step (init n) log = some s) : Inv s ∧ InvM s ∧ InvP s := by
  have : ∀ (log : List Ev) (s0 s : St), Inv s0 ∧ InvM s0 ∧ InvP s0 → runLog step s0 log = some s →
      Inv s ∧ InvM s ∧ InvP s := by
    intro log
    induction log with
    | nil => intro s0 s h0 h; simp at h; exact h ▸ h0
    | cons e es ih =>
      intro s0 s h0 h
      simp only [runLog] at h
      cases hs : step s0 e with
      | none => simp [hs] at h
      | some s1 =>
        simp only [hs] at h
        exact ih s1 s ⟨step_inv s0 s1 e h0.1 hs, step_invM s0 s1 e h0.1 h0.2.1 hs,
          step_invP s0 s1 e h0.1 h0.2.1 h0.2.2 hs⟩ h
  exact this log _ s ⟨inv_init n, invM_init n, invP_init n⟩ h

theorem inv_of_accepted {n : Nat} {log : List Ev} {s : St}
    (h : runLog step (init n) log = some s) : Inv s ∧ InvP s :=
  ⟨(inv_of_accepted' h).1, (inv_of_accepted' h).2.2⟩

end PikaVerif.Once
