import PikaVerif.Lemmas.Once2
/-!
# Termination measure of the event / call_once model (C09u)

No accepted event of `PikaVerif.Once.step` leaves the state unchanged (every event moves the
program counter of its thread), but the model has a *spin round*: a caller of `call_once` that
lost the CAS (`status = running`) and finds the event flag still `true` (left by the `set` of an
earlier failed attempt, the re-elected winner has not yet executed `event_.reset()`) goes
`cLoad → cCas → wWant (once) → cLoad` through the three events
`onceLoad t, onceLost t false, evLoad t true` and is back in exactly the same state.  The event
closing the round, the fast-path return `evLoad t true` of `event_.wait()` called from inside
`call_once`, is the only accepted event that does not decrease the measure `mu` below (it raises
it by 2 = the two other events of the round).

`mu` = Σ rank of the pcs + 14 · Σ wake-up tokens.  The rank of the four pcs of `event::wait` from
which the flag is still to be read under the lock (`wLockW wLocked wokeNL relk`) depends on the
current value of the flag: with the flag `true` such a waiter will leave the loop and (inside
`call_once`) go back to the status load, 7 higher.  A `stored true` raises at most `n` waiters by
7 each and is paid by the setter (`sWant → sLockW` drops by `7 n + 1`); `notify_all` creates at
most `n` tokens (`sLocked → sRel` drops by `14 n + 1`).  A caller of `call_once` carries the
price of its own possible `event_.set()` (`21 n + 6`) until it either wins or returns.
-/
namespace PikaVerif.Once
open PikaVerif

/-- offset of the pcs of `event::wait` by calling context -/
def cOff (n : Nat) : Ctx → Nat
  | .top => 0
  | .once _ => 21 * n + 1

/-- surcharge of a waiter that will read the flag under the lock, by the current flag -/
def hiF (f : Bool) : Nat := if f then 7 else 0

def rank (n : Nat) (f : Bool) : Pc → Nat
  | .fin => 0
  | .idle => 1
  | .retn _ => 2
  | .oWant => 2
  | .rWant => 3
  | .wWant c => cOff n c + 8
  | .wLockW c => cOff n c + 7 + hiF f
  | .wLocked c => cOff n c + 6 + hiF f
  | .wMustEnq c => cOff n c + 5
  | .enq c => cOff n c + 4
  | .unl c _ => cOff n c + 3
  | .susp c _ => cOff n c + 2
  | .wokeNL c _ => cOff n c + 8 + hiF f
  | .relk c _ => cOff n c + 7 + hiF f
  | .wPass c => cOff n c + 12
  | .sWant _ => 21 * n + 6
  | .sLockW _ => 14 * n + 5
  | .sLocked _ => 14 * n + 4
  | .sRel _ => 3
  | .cLoad _ => 21 * n + 11
  | .cCas _ => 21 * n + 10
  | .cReset _ => 21 * n + 9
  | .cBody _ => 21 * n + 8
  | .cRan _ => 21 * n + 7

/-- value of wake-up tokens -/
def tokW (k : Nat) : Nat := 14 * k

/-- the measure on model states -/
def mu (s : St) : Nat :=
  sumTo s.n (fun t => rank s.n s.flag (s.pc t)) + sumTo s.n (fun t => tokW (s.tok t))

theorem rank_flag_le (n : Nat) (f f' : Bool) (p : Pc) : rank n f p ≤ rank n f' p + 7 := by
  cases p <;> cases f <;> cases f' <;> simp [rank, hiF]

theorem rank_false_le (n : Nat) (f : Bool) (p : Pc) : rank n false p ≤ rank n f p := by
  cases p <;> cases f <;> simp [rank, hiF]

theorem sum_flag_le (n : Nat) (f f' : Bool) (pc : Nat → Pc) : ∀ m,
    sumTo m (fun u => rank n f (pc u)) ≤ sumTo m (fun u => rank n f' (pc u)) + 7 * m := by
  intro m
  induction m with
  | zero => simp
  | succ k ih =>
    simp only [sumTo_succ]
    have := rank_flag_le n f f' (pc k)
    omega

theorem sum_false_le (n : Nat) (f : Bool) (pc : Nat → Pc) : ∀ m,
    sumTo m (fun u => rank n false (pc u)) ≤ sumTo m (fun u => rank n f (pc u)) := by
  intro m
  induction m with
  | zero => simp
  | succ k ih =>
    simp only [sumTo_succ]
    have := rank_false_le n f (pc k)
    omega

attribute [local grind] rank cOff hiF b2n tokW wDone sDone entry

set_option hygiene false in
macro "mu_step" t:term : tactic => `(tactic| (
  simp only [step] at h
  split at h
  case isFalse => simp at h
  rename_i hg
  have htn : $t < s.n := by grind
  have hle := le_sumTo (f := fun u => rank s.n s.flag (s.pc u)) htn
  have hle2 := le_sumTo (f := fun u => tokW (s.tok u)) htn
  repeat' split at h
  all_goals first | (simp at h; done) | skip
  all_goals (
    simp only [Option.some.injEq] at h
    subst h
    simp only [mu]
    try rw [sumTo_upd_eq _ (rank s.n s.flag) _ _ _ htn]
    try rw [sumTo_upd_eq _ tokW _ _ _ htn]
    grind)))

theorem mu_ret (s s' : St) (t r : Nat) (h : step s (.ret t r) = some s') : mu s' < mu s := by mu_step t
theorem mu_slAcq (s s' : St) (t : Nat) (h : step s (.slAcq t) = some s') : mu s' < mu s := by mu_step t
theorem rank_sDone (n : Nat) (f : Bool) (c : Ctx) : rank n f (sDone c) = 2 := by
  cases c <;> simp [sDone, rank]
theorem rank_wDone (n : Nat) (f : Bool) (c : Ctx) : rank n f (wDone c) ≤ cOff n c + 10 := by
  cases c <;> simp [wDone, rank, cOff]
theorem mu_slRel (s s' : St) (t : Nat) (h : step s (.slRel t) = some s') : mu s' < mu s := by
  have h1 := rank_sDone s.n s.flag
  have h2 := rank_wDone s.n s.flag
  mu_step t
theorem mu_evLoadL (s s' : St) (t : Nat) (v : Bool) (h : step s (.evLoadL t v) = some s') : mu s' < mu s := by mu_step t
theorem mu_cvEnq (s s' : St) (t z : Nat) (h : step s (.cvEnq t z) = some s') : mu s' < mu s := by mu_step t
theorem mu_cvWoke (s s' : St) (t : Nat) (a : Bool) (h : step s (.cvWoke t a) = some s') : mu s' < mu s := by mu_step t
theorem mu_suspend (s s' : St) (t : Nat) (h : step s (.suspend t) = some s') : mu s' < mu s := by mu_step t
theorem mu_woke (s s' : St) (t : Nat) (h : step s (.woke t) = some s') : mu s' < mu s := by mu_step t
theorem mu_onceLoad (s s' : St) (t : Nat) (h : step s (.onceLoad t) = some s') : mu s' < mu s := by mu_step t
theorem mu_onceWon (s s' : St) (t : Nat) (h : step s (.onceWon t) = some s') : mu s' < mu s := by mu_step t
theorem mu_onceLost (s s' : St) (t : Nat) (a : Bool) (h : step s (.onceLost t a) = some s') : mu s' < mu s := by mu_step t
theorem mu_body (s s' : St) (t : Nat) (a : Bool) (h : step s (.body t a) = some s') : mu s' < mu s := by mu_step t
theorem mu_onceStored (s s' : St) (t : Nat) (a : Bool) (h : step s (.onceStored t a) = some s') : mu s' < mu s := by mu_step t
theorem mu_done (s s' : St) (t : Nat) (h : step s (.done t) = some s') : mu s' < mu s := by mu_step t


/-- the fast-path read of `event::wait`: decreases `mu` except for a `true` read inside
    `call_once` (the loser goes back to the status load), which raises it by exactly 2 -/
theorem mu_evLoad (s s' : St) (t : Nat) (v : Bool) (h : step s (.evLoad t v) = some s') :
    (v = false ∨ s.pc t = .wWant .top → mu s' < mu s) ∧
    (v = true → ∀ thr, s.pc t = .wWant (.once thr) → mu s' = mu s + 2) := by
  simp only [step] at h
  split at h
  case isFalse => simp at h
  rename_i hg
  have htn : t < s.n := hg.1
  have hle := le_sumTo (f := fun u => rank s.n s.flag (s.pc u)) htn
  split at h
  case h_2 => simp at h
  rename_i c hpc
  simp only [Option.some.injEq] at h
  subst h
  simp only [mu]
  rw [sumTo_upd_eq _ (rank s.n s.flag) _ _ _ htn]
  rw [hpc] at hle ⊢
  generalize (sumTo s.n fun u => rank s.n s.flag (s.pc u)) = A at hle ⊢
  have hfl : s.flag = v := hg.2.symm
  cases c <;> cases v <;> simp [rank, wDone, cOff, hiF, hfl] at hle ⊢ <;> omega

theorem mu_inv (s s' : St) (t : Nat) (o : Op) (h : step s (.inv t o) = some s') :
    mu s' + 1 = mu s + rank s.n false (entry o) := by
  simp only [step] at h
  split at h
  case isFalse => simp at h
  rename_i hg
  have htn : t < s.n := hg.1
  have hle := le_sumTo (f := fun u => rank s.n s.flag (s.pc u)) htn
  simp only [Option.some.injEq] at h
  subst h
  simp only [mu]
  rw [sumTo_upd_eq _ (rank s.n s.flag) _ _ _ htn]
  rw [hg.2] at hle ⊢
  generalize (sumTo s.n fun u => rank s.n s.flag (s.pc u)) = A at hle ⊢
  cases o <;> simp [rank, entry, cOff] at hle ⊢ <;> omega

theorem mu_stored (s s' : St) (t : Nat) (v : Bool) (h : step s (.stored t v) = some s') : mu s' < mu s := by
  simp only [step] at h
  split at h
  case isFalse => simp at h
  rename_i htn
  have hle := le_sumTo (f := fun u => rank s.n s.flag (s.pc u)) htn
  have hT := sum_flag_le s.n true s.flag s.pc s.n
  have hF := sum_false_le s.n s.flag s.pc s.n
  have hlT := le_sumTo (f := fun u => rank s.n true (s.pc u)) htn
  have hlF := le_sumTo (f := fun u => rank s.n false (s.pc u)) htn
  repeat' split at h
  all_goals first | (simp at h; done) | skip
  all_goals (
    rename_i hpc _
    simp only [Option.some.injEq] at h
    subst h
    simp only [mu]
    try rw [sumTo_upd_eq _ (rank s.n true) _ _ _ htn]
    try rw [sumTo_upd_eq _ (rank s.n false) _ _ _ htn]
    rw [hpc] at hle hlT hlF ⊢
    generalize (sumTo s.n fun u => rank s.n s.flag (s.pc u)) = A at *
    generalize (sumTo s.n fun u => rank s.n true (s.pc u)) = AT at *
    generalize (sumTo s.n fun u => rank s.n false (s.pc u)) = AF at *
    simp only [rank] at hle hlT hlF ⊢
    omega)

theorem sum_popd (n m : Nat) (f : Bool) (q : List Nat) (pc : Nat → Pc) :
    sumTo m (fun u => rank n f (if u ∈ q then popd (pc u) else pc u)) = sumTo m (fun u => rank n f (pc u)) := by
  apply sumTo_congr
  intro u _
  split
  · cases pc u <;> rfl
  · rfl

theorem sum_tok_notify (q : List Nat) (tok : Nat → Nat) : ∀ m,
    sumTo m (fun u => tokW (if u ∈ q then tok u + 1 else tok u)) ≤ sumTo m (fun u => tokW (tok u)) + 14 * m := by
  intro m
  induction m with
  | zero => simp
  | succ k ih =>
    simp only [sumTo_succ]
    have : tokW (if k ∈ q then tok k + 1 else tok k) ≤ tokW (tok k) + 14 := by
      split <;> simp [tokW] <;> omega
    omega

theorem mu_notifyAll (s s' : St) (t : Nat) (l : List Nat) (h : step s (.notifyAll t l) = some s') : mu s' < mu s := by
  simp only [step] at h
  split at h
  case isFalse => simp at h
  rename_i hg
  have htn : t < s.n := hg.1
  have hle := le_sumTo (f := fun u => rank s.n s.flag (s.pc u)) htn
  have h1 := sum_popd s.n s.n s.flag s.queue s.pc
  have h2 := sum_tok_notify s.queue s.tok s.n
  split at h
  case h_2 => simp at h
  rename_i c hpc
  simp only [Option.some.injEq] at h
  subst h
  simp only [mu]
  rw [sumTo_upd_eq _ (rank s.n s.flag) _ _ _ htn, h1]
  have h3 : rank s.n s.flag (if t ∈ s.queue then popd (s.pc t) else s.pc t) = 14 * s.n + 4 := by
    rw [hpc]; split <;> simp [popd, rank]
  rw [h3]
  rw [hpc] at hle
  generalize (sumTo s.n fun u => rank s.n s.flag (s.pc u)) = A at *
  generalize (sumTo s.n fun u => tokW (s.tok u)) = B at *
  generalize (sumTo s.n fun u => tokW (if u ∈ s.queue then s.tok u + 1 else s.tok u)) = B' at *
  simp only [rank] at hle ⊢
  omega

/-- **Every accepted event other than `inv` and the fast-path return `evLoad _ true` strictly
    decreases `mu`.** -/
theorem mu_step (s s' : St) (e : Ev) (hne : ∀ t o, e ≠ .inv t o) (hns : ∀ t, e ≠ .evLoad t true)
    (h : step s e = some s') : mu s' < mu s := by
  cases e with
  | inv t o => exact absurd rfl (hne t o)
  | ret t r => exact mu_ret s s' t r h
  | slAcq t => exact mu_slAcq s s' t h
  | slRel t => exact mu_slRel s s' t h
  | evLoad t v =>
    cases v with
    | true => exact absurd rfl (hns t)
    | false => exact (mu_evLoad s s' t false h).1 (Or.inl rfl)
  | evLoadL t v => exact mu_evLoadL s s' t v h
  | stored t v => exact mu_stored s s' t v h
  | cvEnq t z => exact mu_cvEnq s s' t z h
  | notifyAll t l => exact mu_notifyAll s s' t l h
  | cvWoke t a => exact mu_cvWoke s s' t a h
  | suspend t => exact mu_suspend s s' t h
  | woke t => exact mu_woke s s' t h
  | onceLoad t => exact mu_onceLoad s s' t h
  | onceWon t => exact mu_onceWon s s' t h
  | onceLost t a => exact mu_onceLost s s' t a h
  | body t a => exact mu_body s s' t a h
  | onceStored t a => exact mu_onceStored s s' t a h
  | done t => exact mu_done s s' t h

/-- a fast-path return raises `mu` by at most 2 -/
theorem mu_spin (s s' : St) (t : Nat) (h : step s (.evLoad t true) = some s') : mu s' ≤ mu s + 2 := by
  have h0 := mu_evLoad s s' t true h
  have hc : ∃ c, s.pc t = .wWant c := by
    simp only [step] at h
    split at h
    · split at h
      · rename_i c hpc; exact ⟨c, hpc⟩
      · simp at h
    · simp at h
  obtain ⟨c, hpc⟩ := hc
  cases c with
  | top => have := h0.1 (Or.inr hpc); omega
  | once thr => have := h0.2 rfl thr hpc; omega

end PikaVerif.Once
