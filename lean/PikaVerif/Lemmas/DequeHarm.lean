import PikaVerif.Lemmas.DequeTag
/-!
# The weakest sufficient condition proved for the pinned tree: no stale link CAS on a *live* link

A stale link CAS of `stabilize_left/right` (it succeeds although the anchor it was computed for has
changed) writes `prev->outward := (end, tag+1)` into some node `P`.  That write is harmless when the
link it hits is *dead* — nobody trusts its value before it is rewritten:

* `P` is in the chain and is the current end node on side `d` (the outward link of an end node is
  only read by a later stabilisation, which corrects it), or
* `P` is not in the chain, is allocated, and is not the private node of a push on the opposite side
  that has already stored its inward link (`pushCas (!d) P _` — the same physical word), or
* `P` is in the freelist and the word is the `right` link (`alloc_node` re-initialises it; the
  `left` word of a free node is the freelist's own `next` pointer — a CAS that succeeds there
  corrupts the freelist, which is outside the model's freelist assumption, so it counts as harm).

`harmFreeB fx s log` runs this test beside the acceptor.  It is implied by `stale = false`
(`harmFree_of_stale_false`) and strictly weaker (example in `Props/C17.lean`: a stale CAS on a
recycled end node).  Under it the invariant `Inv` of `Lemmas/Deque2.lean` holds (`inv_of_harmFree`).
-/
namespace PikaVerif.Deque
open PikaVerif

def isPushCasOf (d : Bool) (P : Nat) : Pc → Bool
  | .pushCas d' n _ => d' == d && n == P
  | _ => false

/-- the outward link on side `d` of node `P` is dead -/
def deadLinkB (s : St) (d : Bool) (P : Nat) : Bool :=
  if P ∈ s.chain then P == s.anchor.endp d
  else (List.range s.n).all (fun u => !isPushCasOf (!d) P (s.pc u)) && (s.used P || d)

/-- the test at one event: a successful link CAS is current, or hits a dead link -/
def harmStep (s : St) : Ev → Bool
  | .lcas t true =>
    match s.pc t with
    | .stLink _ d a prev _ => decide (s.anchor = a) || deadLinkB s d prev.ptr
    | _ => true
  | _ => true

/-- **the log condition**: no link CAS succeeds stale on a live link -/
def harmFreeB (fx : Bool) : St → List Ev → Bool
  | _, [] => true
  | s, e :: es => harmStep s e && (match stepG fx s e with
    | none => true
    | some s' => harmFreeB fx s' es)

/-- threads outside `[0, n)` never move -/
def IdleOut (s : St) : Prop := ∀ u, s.n ≤ u → s.pc u = .idle

theorem idleOut_step {fx : Bool} {s s' : St} {e : Ev} (hi : IdleOut s) (h : stepG fx s e = some s') :
    IdleOut s' ∧ s'.n = s.n := by
  cases e <;> simp only [stepG] at h <;> (repeat' split at h) <;>
    first
    | (simp at h; done)
    | (simp only [Option.some.injEq] at h; subst h
       refine ⟨fun u hu => ?_, rfl⟩
       have := hi u hu
       dsimp only at hu ⊢
       simp only [upd]
       split
       · rename_i he; exfalso; subst he; omega
       · exact this)

/-! ## a write into a dead link preserves the structural invariant -/

theorem Glob.dead_write {A : Anchor} {C : List Nat} {N : Nat → Node} {U : Nat → Bool}
    (g : Glob A C N U) (d : Bool) {P : Nat} (hP : P ∈ C → P = A.endp d) (lk : Link) :
    Glob A C (upd N P (setOutward d (N P) lk)) U := by
  by_cases hm : P ∈ C
  · have hE := hP hm
    have hne : C ≠ [] := fun hc => by rw [hc] at hm; simp at hm
    refine ⟨g.hd, g.lst, g.mem, g.nodup, g.st, ?_, ?_⟩
    · intro a b hab he
      by_cases hap : a = P
      · subst hap
        cases d
        · simp [upd, setOutward]; exact g.rlink a b hab he
        · exfalso
          simp only [Anchor.endp, if_true] at hE
          exact adj_not_last g.nodup hab (by rw [g.last_eq hne, hE])
      · simp [upd, hap]; exact g.rlink a b hab he
    · intro a b hab he
      by_cases hbp : b = P
      · subst hbp
        cases d
        · exfalso
          simp only [Anchor.endp, Bool.false_eq_true, if_false] at hE
          exact adj_not_head g.nodup hab (by rw [g.head_eq hne, hE])
        · simp [upd, setOutward]; exact g.llink a b hab he
      · simp [upd, hbp]; exact g.llink a b hab he
  · exact g.frame (fun x hx => by
      have : x ≠ P := fun h => hm (h ▸ hx)
      simp [upd, this]) (fun x hx => (g.mem x hx).2)

theorem inward_setOutward (d : Bool) (nd : Node) (lk : Link) :
    inward d (setOutward d nd lk) = inward d nd := by cases d <;> rfl

theorem outward_setOutward_ne (d : Bool) (nd : Node) (lk : Link) :
    outward (!d) (setOutward d nd lk) = outward (!d) nd := by cases d <;> rfl

theorem loc_dead_write {A : Anchor} {C : List Nat} {N : Nat → Node} {p : Pc} {d : Bool} {P : Nat}
    {lk : Link} (h : Loc A C N p) (hn : C.Nodup) (hP : P ∈ C → P = A.endp d)
    (hpriv : isPushCasOf (!d) P p = false) :
    Loc A C (upd N P (setOutward d (N P) lk)) p := by
  cases p <;> simp only [Loc] at h ⊢ <;> try exact h
  case pushCas d' n a =>
    refine ⟨h.1, h.2.1, h.2.2.1, fun he => ?_⟩
    by_cases hnP : n = P
    · subst hnP
      have hd : d' = d := by
        simp only [isPushCasOf, beq_self_eq_true, Bool.and_true] at hpriv
        cases d <;> cases d' <;> simp at hpriv <;> rfl
      subst hd
      simp only [upd, if_true]
      rw [inward_setOutward]; exact h.2.2.2 he
    · simp only [upd, hnP, if_false]; exact h.2.2.2 he
  case stCas k d' a =>
    refine ⟨h.1, h.2.1, fun he q hq => ?_⟩
    by_cases hqP : q = P
    · subst hqP
      subst he
      have hE := hP (nbr_mem hq).2
      by_cases hd : d' = d
      · subst hd
        exfalso
        rw [← hE] at hq
        cases d'
        · exact adj_ne_of_nodup hn (by simpa [Nbr] using hq) rfl
        · exact adj_ne_of_nodup hn (by simpa [Nbr] using hq) rfl
      · have hd' : d' = !d := by cases d <;> cases d' <;> simp at hd ⊢
        subst hd'
        simp only [upd, if_true]
        rw [outward_setOutward_ne]; exact h.2.2 rfl q hq
    · simp only [upd, hqP, if_false]; exact h.2.2 he q hq

theorem deadLinkB_spec {s : St} {d : Bool} {P : Nat} (h : deadLinkB s d P = true) (ho : IdleOut s) :
    (P ∈ s.chain → P = s.anchor.endp d) ∧
    (P ∉ s.chain → ∀ u, isPushCasOf (!d) P (s.pc u) = false) := by
  simp only [deadLinkB] at h
  refine ⟨fun hm => ?_, fun hm u => ?_⟩
  · rw [if_pos hm] at h; simpa using h
  · rw [if_neg hm] at h
    simp only [Bool.and_eq_true, List.all_eq_true, List.mem_range, Bool.not_eq_true'] at h
    by_cases hu : u < s.n
    · exact h.1 u hu
    · rw [ho u (by omega)]; rfl

/-- the link CAS step when it is current or hits a dead link (any tagging discipline) -/
theorem step_inv_lcas_dead {fx : Bool} {s s' : St} (hi : Inv s) (ho : IdleOut s) (t : Nat) (ok : Bool)
    (h : stepG fx s (.lcas t ok) = some s') (hh : harmStep s (.lcas t ok) = true) : Inv s' := by
  simp only [stepG] at h
  split at h
  case isFalse => simp at h
  split at h
  case h_2 => simp at h
  rename_i k d a prev pn hpc
  have hl := hi.loc t; rw [hpc] at hl; simp only [Loc] at hl
  have ht := hi.tags t; rw [hpc] at ht; simp only [heldTag] at ht
  have hk := fun p' (hp : owned p' = ownedK k) => keep_owned hi t (p' := p') (by rw [hpc]; simpa [owned] using hp)
  split at h
  case isFalse => simp at h
  split at h
  · rename_i hok
    subst hok
    simp only [Option.some.injEq] at h; subst h
    simp only [harmStep, hpc, Bool.or_eq_true, decide_eq_true_eq] at hh
    by_cases hA : s.anchor = a
    · -- current: the argument of `step_inv_lcas`
      have hP := hl.2.2 hA
      subst hA
      have hPm := (nbr_mem hP).2
      refine inv_upd_core hi t _ _ s.used (hi.glob.lcas d hP _) ?_ ?_ (by same_heap hi) ?_
        (by simpa [heldTag] using ht) (hk _ rfl).1 (hk _ rfl).2 _
      · intro u hu
        refine loc_lcas (hi.loc u) hi.glob.nodup hP hl.2.1 ?_
        intro he
        by_cases h0 : owned (s.pc u) = 0
        · rw [h0] at he; exact (hi.glob.mem _ hPm).1 he.symm
        · exact (hi.own u h0).2 (he ▸ hPm)
      · intro x _
        simp only [upd]; split
        · rename_i hx; subst hx; simp
        · rfl
      · simp only [Loc]
        refine ⟨hl.1, hl.2.1, fun _ p hp => ?_⟩
        have := nbr_unique hi.glob.nodup hp hP
        subst this
        simp [upd]
    · -- stale, but the link is dead
      have hdead := hh.resolve_left hA
      obtain ⟨hE, hpriv⟩ := deadLinkB_spec hdead ho
      have hpriv' : ∀ u, isPushCasOf (!d) prev.ptr (s.pc u) = false := by
        intro u
        by_cases hm : prev.ptr ∈ s.chain
        · cases hpu : s.pc u <;> simp only [isPushCasOf] <;> try rfl
          rename_i d' n a'
          by_cases hn : n = prev.ptr
          · exfalso
            have := not_owned_of_mem hi hm u
            rw [hpu] at this; exact this hn
          · simp [hn]
        · exact hpriv hm u
      refine inv_upd_core hi t _ _ s.used (hi.glob.dead_write d hE _) ?_ ?_ (by same_heap hi) ?_
        (by simpa [heldTag] using ht) (hk _ rfl).1 (hk _ rfl).2 _
      · intro u _
        exact loc_dead_write (hi.loc u) hi.glob.nodup hE (hpriv' u)
      · intro x _
        simp only [upd]; split
        · rename_i hx; subst hx; simp
        · rfl
      · simp only [Loc]
        exact ⟨hl.1, hl.2.1, fun he => absurd he hA⟩
  · simp only [Option.some.injEq] at h; subst h
    exact inv_upd hi t _ s.nodes s.used (by same_heap hi) (by same_heap hi) (by same_heap hi) (by same_heap hi)
      (loc_kont hl.1) (by simp [heldTag_kont]) (hk _ (owned_kont k)).1 (hk _ (owned_kont k)).2

theorem step_inv_dead {fx : Bool} {s s' : St} {e : Ev} (hi : Inv s) (ho : IdleOut s)
    (h : stepG fx s e = some s') (hh : harmStep s e = true) : Inv s' := by
  cases e with
  | inv t p d v => exact step_inv_inv hi t p d v h
  | alloc t n => exact step_inv_alloc hi t n h
  | ld t a => exact step_inv_ld hi t a h
  | chk t b => exact step_inv_chk hi t b h
  | rd t lk => exact step_inv_rd hi t lk h
  | link t n g => exact step_inv_link hi t n g h
  | lcas t ok => exact step_inv_lcas_dead hi ho t ok h hh
  | cas t ok => exact step_inv_cas hi t ok h
  | free t n => exact step_inv_free hi t n h
  | ret t ok v => exact step_inv_ret hi t ok v h
  | done t => exact step_inv_done hi t h

/-- The invariant holds after every accepted log without a harmful link CAS. -/
theorem inv_of_harmFree {fx : Bool} {n : Nat} {log : List Ev} {s : St}
    (h : runLog (stepG fx) (init n) log = some s) (hf : harmFreeB fx (init n) log = true) : Inv s := by
  have key : ∀ (log : List Ev) (s0 s : St), Inv s0 → IdleOut s0 →
      runLog (stepG fx) s0 log = some s → harmFreeB fx s0 log = true → Inv s := by
    intro log
    induction log with
    | nil => intro s0 s h0 _ h _; simp at h; subst h; exact h0
    | cons e es ih =>
      intro s0 s h0 ho h hf
      simp only [runLog] at h
      simp only [harmFreeB, Bool.and_eq_true] at hf
      cases he : stepG fx s0 e with
      | none => simp [he] at h
      | some s1 =>
        simp only [he] at h hf
        exact ih s1 s (step_inv_dead h0 ho he hf.1) (idleOut_step ho he).1 h hf.2
  exact key log (init n) s (inv_init n) (fun _ _ => rfl) h hf

/-- `stale` is sticky along a run -/
theorem stale_mono_run {fx : Bool} {log : List Ev} {s0 s : St}
    (h : runLog (stepG fx) s0 log = some s) (hs : s.stale = false) : s0.stale = false := by
  induction log generalizing s0 with
  | nil => simp at h; subst h; exact hs
  | cons e es ih =>
    simp only [runLog] at h
    cases he : stepG fx s0 e with
    | none => simp [he] at h
    | some s1 =>
      simp only [he] at h
      exact stale_mono he (ih h)

theorem harmStep_of_not_stale {fx : Bool} {s s' : St} {e : Ev} (h : stepG fx s e = some s')
    (hs : s'.stale = false) : harmStep s e = true := by
  cases e <;> try rfl
  rename_i t ok
  cases ok
  · rfl
  simp only [harmStep]
  split <;> try rfl
  rename_i k d a prev pn hpc
  simp only [stepG] at h
  split at h
  case isFalse => simp at h
  rw [hpc] at h
  simp only at h
  split at h
  case isFalse => simp at h
  simp only [if_true, Option.some.injEq] at h
  subst h
  simp only [Bool.or_eq_false_iff, decide_eq_false_iff_not, Decidable.not_not] at hs
  simp [hs.2]

/-- **`stale = false` implies the condition** (so the condition is the weaker one) -/
theorem harmFree_of_stale_false {fx : Bool} {log : List Ev} {s0 s : St}
    (h : runLog (stepG fx) s0 log = some s) (hs : s.stale = false) : harmFreeB fx s0 log = true := by
  induction log generalizing s0 with
  | nil => rfl
  | cons e es ih =>
    simp only [runLog] at h
    cases he : stepG fx s0 e with
    | none => simp [he] at h
    | some s1 =>
      simp only [he] at h
      simp only [harmFreeB, he, Bool.and_eq_true]
      exact ⟨harmStep_of_not_stale he (stale_mono_run h hs), ih h⟩

end PikaVerif.Deque
