import PikaVerif.Lemmas.BarrierT2
/-! The simulation theorem: fine barrier model ⊑ coarse barrier model. -/
namespace PikaVerif.BarrierT
open PikaVerif PikaVerif.Barrier

/-- What one accepted fine step means for the coarse model. -/
def SimStep (s s' : St) (e : Ev) : Prop :=
  match proj e with
  | some e' => Barrier.step (abs s) e' = some (abs s')
  | none => abs s' = abs s

theorem framed_ne_publish {e : Barrier.Ev} (hf : framed e = true) : ∀ a b d, e ≠ .publish a b d := by
  intro a b d he; subst he; simp [framed] at hf

/-- framed coarse events (also used for `invT`, `spinok`) -/
theorem sim_framed (s : St) (hi : FInv s) (e : Barrier.Ev) (hf : framed e = true) (c' : Barrier.St)
    (tm bl : Nat → Bool) (h : Barrier.step s.c e = some c') :
    Barrier.step (abs s) e = some (abs { s with c := c', timed := tm, blk := bl }) ∧
    J { s with c := c', timed := tm, blk := bl } := by
  obtain ⟨h1, h2, h3, h4, h5⟩ := frame_keeps hf h
  constructor
  · rw [abs_of_keeps s c' tm bl h1 h2 h3]
    show Barrier.step { s.c with expected := aexp s, adj := aadj s } e = _
    rw [frame _ _ _ _ hf, h]; rfl
  · refine ⟨?_, ?_, hi.j.lost0, ?_, ?_⟩
    · intro t hx
      have hp := hi.j.wxPub t hx
      show isPub (c'.pc t) = true
      rw [pub_stays h (framed_ne_publish hf) t hp]; exact hp
    · intro t a hx
      show c'.adj = a
      rw [h3]; exact hi.j.adjdEq t a hx
    · intro t hx
      show c'.expected = c'.e0 ∧ c'.adj = c'.drops
      rw [h2, h3, h4, h5]; exact hi.j.cdoneEq t hx
    · intro t a hx
      show a = c'.drops ∧ c'.expected = c'.e0 - c'.drops
      rw [h2, h4, h5]; exact hi.j.adjdVal t a hx

/-- coarse events that are enabled only while no last arriver exists -/
theorem sim_closed (s : St) (hi : FInv s) (e : Barrier.Ev) (c' : Barrier.St)
    (h : Barrier.step s.c e = some c') (hw : s.c.win = none)
    (hw' : ∀ w, c'.win = some w → s.wx w = .none) :
    Barrier.step (abs s) e = some (abs { s with c := c' }) ∧ J { s with c := c' } := by
  have hall := wx_none_of_win_none hi hw
  constructor
  · rw [abs_eq_of_none hw, h]
    congr 1
    exact (abs_eq (s := { s with c := c' }) hw').symm
  · refine ⟨?_, ?_, hi.j.lost0, ?_, ?_⟩
    · intro t hx; exact absurd (hall t) hx
    · intro t a hx; have := hall t; rw [this] at hx; cases hx
    · intro t hx; have := hall t; rw [this] at hx; cases hx
    · intro t a hx; have := hall t; rw [this] at hx; cases hx

theorem sim_adj (s : St) (hi : FInv s) (t : Nat) (c' : Barrier.St)
    (h : Barrier.step s.c (.adj t) = some c') :
    Barrier.step (abs s) (.adj t) = some (abs { s with c := c' }) ∧ J { s with c := c' } := by
  have h0 := h
  simp only [Barrier.step] at h
  split at h
  · rename_i hg
    obtain ⟨ht, hpc⟩ := hg
    simp only [Option.some.injEq] at h
    have hw : s.c.win = none := by
      have := no_win_of_rem hi.b t ht (by rw [abs_pc, hpc]; simp [rem])
      simpa using this
    refine sim_closed s hi _ c' h0 hw ?_
    intro w hw2; subst h; simp [hw] at hw2
  · simp at h

theorem sim_load (s : St) (hi : FInv s) (t a b : Nat) (c' : Barrier.St)
    (h : Barrier.step s.c (.load t a b) = some c') :
    Barrier.step (abs s) (.load t a b) = some (abs { s with c := c' }) ∧ J { s with c := c' } := by
  have h0 := h
  simp only [Barrier.step] at h
  split at h
  · rename_i hg
    split at h
    · rename_i u hpc
      simp only [Option.some.injEq] at h
      have hu : 1 ≤ u := by have := hi.b.shape t; rw [abs_pc, hpc] at this; exact this
      have hw : s.c.win = none := by
        have := no_win_of_rem hi.b t hg.1 (by rw [abs_pc, hpc]; simpa [rem] using hu)
        simpa using this
      refine sim_closed s hi _ c' h0 hw ?_
      intro w hw2; subst h; simp [hw] at hw2
    · simp at h
  · simp at h

theorem sim_start (s : St) (hi : FInv s) (t a : Nat) (c' : Barrier.St)
    (h : Barrier.step s.c (.start t a) = some c') :
    Barrier.step (abs s) (.start t a) = some (abs { s with c := c' }) ∧ J { s with c := c' } := by
  have h0 := h
  simp only [Barrier.step] at h
  split at h
  · rename_i hg
    split at h
    · rename_i u hpc
      split at h
      · rename_i hu
        simp only [Option.some.injEq] at h
        have hw : s.c.win = none := by
          have := no_win_of_rem hi.b t hg.1 (by rw [abs_pc, hpc]; simpa [rem] using hu)
          simpa using this
        refine sim_closed s hi _ c' h0 hw ?_
        intro w hw2; subst h; simp [hw] at hw2
      · simp at h
    · simp at h
  · simp at h

theorem sim_last (s : St) (hi : FInv s) (t a b : Nat) (c' : Barrier.St)
    (h : Barrier.step s.c (.last t a b) = some c') :
    Barrier.step (abs s) (.last t a b) = some (abs { s with c := c' }) ∧ J { s with c := c' } := by
  have h0 := h
  simp only [Barrier.step] at h
  split at h
  · rename_i hg
    split at h
    · rename_i u cur r m hpc
      split at h
      · simp only [Option.some.injEq] at h
        have hnp : isPub (s.c.pc t) = false := by rw [hpc]; rfl
        have hxt : s.wx t = .none := by
          by_cases hx : s.wx t = .none
          · exact hx
          · have := hi.j.wxPub t hx; rw [hnp] at this; cases this
        have hw : s.c.win = none := by
          rcases no_win_of_inR hi.b t r hg.1 (by rw [abs_pc, hpc]; simp [inR]) with h1 | h1
          · simpa using h1
          · have := (hi.b.winConv t h1).1
            rw [abs_pc, hpc] at this; simp [isWin, isWon, isPub] at this
        refine sim_closed s hi _ c' h0 hw ?_
        intro w hw2; subst h; simp at hw2; subst hw2; exact hxt
      · simp at h
    · simp at h
  · simp at h

theorem sim_publish (s : St) (hi : FInv s) (t a b : Nat) (c' : Barrier.St) (hx : s.wx t = .none)
    (h : Barrier.step s.c (.publish t a b) = some c') :
    Barrier.step (abs s) (.publish t a b) = some (abs { s with c := c' }) ∧ J { s with c := c' } := by
  have h0 := h
  simp only [Barrier.step] at h
  split at h
  · rename_i hg
    split at h
    · rename_i u r hpc
      simp only [Option.some.injEq] at h
      have hwin : s.c.win = some t := by
        have := hi.b.winOk t (by rw [abs_pc, hpc]; simp [isWin, isPub])
        simpa using this
      have hall : ∀ t', s.wx t' = .none := by
        intro t'
        by_cases hx' : s.wx t' = .none
        · exact hx'
        · have := win_of_wx hi hx'; rw [hwin] at this
          simp only [Option.some.injEq] at this; subst this; exact hx
      have hcl : ∀ w, s.c.win = some w → s.wx w = .none := fun w _ => hall w
      constructor
      · rw [abs_eq hcl, h0]
        congr 1
        exact (abs_eq (s := { s with c := c' }) (fun w _ => hall w)).symm
      · refine ⟨?_, ?_, hi.j.lost0, ?_, ?_⟩
        · intro t' hx'; exact absurd (hall t') hx'
        · intro t' a' hx'; have := hall t'; rw [this] at hx'; cases hx'
        · intro t' hx'; have := hall t'; rw [this] at hx'; cases hx'
        · intro t' a' hx'; have := hall t'; rw [this] at hx'; cases hx'
    · simp at h
  · simp at h

end PikaVerif.BarrierT
