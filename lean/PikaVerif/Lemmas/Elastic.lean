import PikaVerif.Model.Elastic
/-! Inductive (per worker) invariant of the `Elastic` model. -/
namespace PikaVerif.Elastic
open PikaVerif

structure WInv (x : Wk) : Prop where
  /-- a guarded selector holds the pu mutex ⇒ the worker is still schedulable (or the state was
      changed behind the mutex' back by a pool suspend) -/
  selRun : ∀ a, x.lk = some (a, .sel true) → x.st ≤ rsSuspended ∨ x.dirty = true
  /-- the iteration-local `running == false` is never stale -/
  flagSt : x.flagRun = false → x.pc = .loop → rsPreSleep ≤ x.st
  commitSt : x.pc = .commit → x.st = rsPreSleep
  sleepSt : x.pc ≠ .loop → x.pc ≠ .commit → x.st = rsSleeping
  stPc : x.st = rsSleeping → x.pc ≠ .loop ∧ x.pc ≠ .commit
  emptyFlag : x.emptySeen = true → x.flagRun = false ∧ x.pc = .loop
  strand : (x.emptySeen = true ∨ x.pc ≠ .loop) → x.dirty = false → x.q ≤ x.late
  waitPre : x.waiters ≠ [] → x.st = rsPreSleep
  notif : x.notified = true → x.pc = .waiting

def Inv (s : St) : Prop := ∀ w, WInv (s.wk w)

theorem inv_init (cfg : Cfg) : Inv (init cfg) := by
  intro w
  refine ⟨?_, ?_, ?_, ?_, ?_, ?_, ?_, ?_, ?_⟩ <;> simp [init]

attribute [local grind] casResult

set_option hygiene false in
macro "el_step" : tactic => `(tactic| (
  simp only [step] at h
  repeat' split at h
  all_goals first | (simp at h; done) | skip
  all_goals (
    simp only [Option.some.injEq] at h
    subst h
    intro w'
    first
    | exact hi w'
    | (by_cases hw : w' = w
       · subst hw
         have hx := hi w'
         obtain ⟨h1,h2,h3,h4,h5,h6,h7,h8,h9⟩ := hx
         try simp only [upd_same]
         refine ⟨?_, ?_, ?_, ?_, ?_, ?_, ?_, ?_, ?_⟩ <;> first | assumption | grind
       · try simp only [upd_other _ _ _ _ hw]
         exact hi w'))))

theorem step_inv (s s' : St) (e : Ev) (hi : Inv s) (h : step s e = some s') : Inv s' := by
  cases e with
  | start a w old => el_step
  | top w v => el_step
  | qlen a w len => el_step
  | chk w v c => el_step
  | sleep w => el_step
  | wait w => el_step
  | woke w => el_step
  | wake w b af => el_step
  | inc a w => el_step
  | dec a w => el_step
  | incLow a => el_step
  | decLow a => el_step
  | sel a w v mx owns ok => el_step
  | unl a w => el_step
  | slock a w => el_step
  | cas a w b af => el_step
  | sunl a w => el_step
  | sdone a w v => el_step
  | ucas a w b af => el_step
  | notify a w => el_step
  | rload a w v => el_step
  | refuse a => el_step
  | ret a => el_step

theorem inv_of_accepted {cfg : Cfg} {log : List Ev} {s : St} (h : runLog step (init cfg) log = some s) :
    Inv s :=
  inv_of_runLog Inv (fun s e s' => step_inv s s' e) (inv_init cfg) h

end PikaVerif.Elastic
