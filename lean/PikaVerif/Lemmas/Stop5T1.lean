import PikaVerif.Lemmas.Stop5
/-! Follow-up C14p: preservation of layer T (destructor and running callback on one thread), events group 1. -/
namespace PikaVerif.Stop
open PikaVerif
set_option maxHeartbeats 4000000

theorem stepT_inv (s s' : St) (a : Nat) (k : Kind) (hA : InvA s) (hB : InvB s) (hS : InvS s) (hf : Faith s) (hD : InvD s) (hi : InvT s) (h : step s (.inv a k) = some s') : InvT s' := by stopTi
theorem stepT_ret (s s' : St) (a : Nat) (r : Bool) (hA : InvA s) (hB : InvB s) (hS : InvS s) (hf : Faith s) (hD : InvD s) (hi : InvT s) (h : step s (.ret a r) = some s') : InvT s' := by stopT
theorem stepT_load (s s' : St) (a : Nat) (lk rq : Bool) (src : Nat) (hA : InvA s) (hB : InvB s) (hS : InvS s) (hf : Faith s) (hD : InvD s) (hi : InvT s) (h : step s (.load a lk rq src) = some s') : InvT s' := by stopT
theorem stepT_casFail (s s' : St) (a : Nat) (lk rq : Bool) (src : Nat) (hA : InvA s) (hB : InvB s) (hS : InvS s) (hf : Faith s) (hD : InvD s) (hi : InvT s) (h : step s (.casFail a lk rq src) = some s') : InvT s' := by stopT
theorem stepT_reload (s s' : St) (a : Nat) (lk rq : Bool) (src : Nat) (hA : InvA s) (hB : InvB s) (hS : InvS s) (hf : Faith s) (hD : InvD s) (hi : InvT s) (h : step s (.reload a lk rq src) = some s') : InvT s' := by stopT
theorem stepT_acq (s s' : St) (a : Nat) (hA : InvA s) (hB : InvB s) (hS : InvS s) (hf : Faith s) (hD : InvD s) (hi : InvT s) (h : step s (.acq a) = some s') : InvT s' := by stopT
theorem stepT_deq (s s' : St) (a c : Nat) (m : Bool) (hA : InvA s) (hB : InvB s) (hS : InvS s) (hf : Faith s) (hD : InvD s) (hi : InvT s) (h : step s (.deq a c m) = some s') : InvT s' := by stopT

end PikaVerif.Stop
