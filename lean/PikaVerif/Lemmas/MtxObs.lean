import PikaVerif.Lemmas.Mtx2
/-!
# What a `try_lock_for` that returned false has observed (C06t)

An *observer* runs beside the model without influencing it (`tstep` accepts exactly the logs of
`step`, `trun_exists`).  It records, per task and for the operation in progress, four facts that
are readable from the events and from `owner_id_` alone:
* `held`    — `owner_id_` was valid when the call linked its entry into the wait queue (`cv.enq`),
* `dl`      — the call's deadline event (`ag.timeout`) has occurred,
* `still`   — the payload of the call's last `cv.woke`: entry still queued = the wait reports `timeout`,
* `heldRel` — `owner_id_` was valid when the call last released the internal spinlock.
-/
namespace PikaVerif.Mtx
open PikaVerif

structure Obs where
  held : Nat → Bool
  dl : Nat → Bool
  still : Nat → Bool
  heldRel : Nat → Bool

def obs0 : Obs := ⟨fun _ => false, fun _ => false, fun _ => false, fun _ => false⟩

def observe (o : Obs) (s : St) : Ev → Obs
  | .inv t _ => ⟨upd o.held t false, upd o.dl t false, upd o.still t false, upd o.heldRel t false⟩
  | .cvEnq t _ _ => { o with held := upd o.held t (decide (s.owner ≠ none)) }
  | .timeout t => { o with dl := upd o.dl t true }
  | .cvWoke t st _ => { o with still := upd o.still t st }
  | .slRel t => { o with heldRel := upd o.heldRel t (decide (s.owner ≠ none)) }
  | _ => o

structure TSt where
  s : St
  o : Obs

def tstep (p : TSt) (e : Ev) : Option TSt := (step p.s e).map (fun s' => ⟨s', observe p.o p.s e⟩)

def tinit (n : Nat) : TSt := ⟨init n, obs0⟩

/-- the observer does not restrict the model: every accepted log has its observer run -/
theorem trun_exists (log : List Ev) : ∀ (p : TSt) (s' : St), runLog step p.s log = some s' →
    ∃ p', runLog tstep p log = some p' ∧ p'.s = s' := by
  induction log with
  | nil => intro p s' h; simp at h; exact ⟨p, rfl, h⟩
  | cons e es ih =>
    intro p s' h
    simp only [runLog] at h ⊢
    cases hs : step p.s e with
    | none => simp [hs] at h
    | some s1 =>
      simp only [hs] at h
      obtain ⟨p', h1, h2⟩ := ih ⟨s1, observe p.o p.s e⟩ s' h
      refine ⟨p', ?_, h2⟩
      simp only [tstep, hs, Option.map_some]; exact h1

theorem trun_step (log : List Ev) : ∀ (p p' : TSt), runLog tstep p log = some p' →
    runLog step p.s log = some p'.s := by
  induction log with
  | nil => intro p p' h; simp at h; subst h; simp
  | cons e es ih =>
    intro p p' h
    simp only [runLog] at h ⊢
    cases hs : step p.s e with
    | none => simp [tstep, hs] at h
    | some s1 =>
      simp only [tstep, hs, Option.map_some] at h
      exact ih _ p' h

/-- what the observer must have recorded at each program counter of a timed call -/
def TInv (p : TSt) : Prop := ∀ t,
  match p.s.pc t with
  | .enq true | .unl true _ | .slp _ => p.o.held t = true
  | .wokeNL true _ | .relk true _ | .sig => p.o.held t = true ∧ p.o.dl t = true
  | .timedOut => p.o.held t = true ∧ p.o.dl t = true ∧ p.o.still t = true
  | .retn .timed .fail =>
    p.o.held t = true ∧ p.o.dl t = true ∧ (p.o.still t = true ∨ p.o.heldRel t = true)
  | _ => True

theorem tinv_init (n : Nat) : TInv (tinit n) := by intro t; simp [tinit, init]

attribute [local grind] setPopped observe

set_option hygiene false in
macro "tinv_case" t:term : tactic => `(tactic| (
  simp only [step] at hs
  (repeat' split at hs) <;> first | (simp at hs; done) | skip
  all_goals (
    simp only [Option.some.injEq] at hs; subst hs
    simp only [observe]
    by_cases h1 : u = $t
    · subst h1
      first
      | (simp_all [upd]; done)
      | (simp_all [upd]; split at hu <;> simp_all)
    · simp_all [upd])))

theorem tinv_step (p p' : TSt) (e : Ev) (hi : TInv p) (h : tstep p e = some p') : TInv p' := by
  simp only [tstep, Option.map_eq_some_iff] at h
  obtain ⟨s', hs, hp⟩ := h
  subst hp
  intro u
  have hu := hi u
  cases e with
  | popResume t z g d =>
    have hg := hi g
    simp only [step] at hs
    (repeat' split at hs) <;> first | (simp at hs; done) | skip
    all_goals (
      have hsp := ‹setPopped _ = some _›
      simp only [Option.some.injEq] at hs; subst hs
      simp only [observe]
      by_cases h1 : u = t
      · subst h1; simp [upd]
      · by_cases h2 : u = g
        · subst h2
          simp only [upd, h1, if_false, if_true]
          unfold setPopped at hsp
          split at hsp <;> simp at hsp <;> subst hsp <;>
            first
            | (simp_all; done)
            | (simp_all; split at hu <;> simp_all)
        · simp only [upd, h1, h2, if_false]; exact hu)
  | inv t o => tinv_case t
  | ret t r => tinv_case t
  | slAcq t => tinv_case t
  | slRel t => tinv_case t
  | cvEnq t z b => tinv_case t
  | cvNone t => tinv_case t
  | cvWoke t a b => tinv_case t
  | own t k w => tinv_case t
  | disown t => tinv_case t
  | suspend t => tinv_case t
  | woke t => tinv_case t
  | sleep t => tinv_case t
  | timeout t => tinv_case t
  | csEnter t => tinv_case t
  | csExit t => tinv_case t
  | done t => tinv_case t

theorem runLog_tinv (log : List Ev) : ∀ (p p' : TSt), TInv p → runLog tstep p log = some p' → TInv p' := by
  induction log with
  | nil => intro p p' hf h; simp at h; subst h; exact hf
  | cons e es ih =>
    intro p p' hf h
    simp only [runLog] at h
    cases hs : tstep p e with
    | none => simp [hs] at h
    | some p1 => simp only [hs] at h; exact ih p1 p' (tinv_step p p1 e hf hs) h

end PikaVerif.Mtx
