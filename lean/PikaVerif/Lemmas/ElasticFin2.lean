import PikaVerif.Lemmas.ElasticFin
/-! Maximal states relative to pending resume calls, with work stealing (C19t). -/
namespace PikaVerif.Elastic
open PikaVerif

/-- worker `v` can steal: its thread has started, is in its scheduling loop and `running` -/
def thiefAt (s : St) (v : Nat) : Option Nat :=
  match (s.wk v).actor with
  | some b => if (s.wk v).pc = .loop ∧ (s.wk v).st = rsRunning then some b else none
  | none => none

/-- the OS thread of some worker `< N` that can steal -/
def thief (N : Nat) (s : St) : Option Nat := (List.range N).findSome? (thiefAt s)

/-- with `enable_stealing`, a running worker owes the take of work queued on any worker -/
def owedSteal (N : Nat) (s : St) (w : Nat) : Option (List Ev) :=
  if s.cfg.stealing = true ∧ 0 < (s.wk w).q then
    match thief N s with
    | some b => some [.dec b w]
    | none => none
  else none

/-- a pending `resume_processing_unit` call on `w` (the resume loop `while (state == sleeping)
    resume(w)`) owes a notify as long as the worker is inside `wait` un-notified -/
def owedNotify (R : Nat → Bool) (s : St) (w : Nat) : Option (List Ev) :=
  if R w = true ∧ (s.wk w).pc = .waiting ∧ (s.wk w).notified = false then some [.notify 0 w] else none

/-- maximal relative to the set `R` of workers with a pending resume call -/
def MaximalR (N : Nat) (R : Nat → Bool) (s : St) : Prop :=
  Maximal N s ∧ ∀ i, i < N → (owedSteal N s i).isNone = true ∧ (owedNotify R s i).isNone = true

instance (N : Nat) (R : Nat → Bool) (s : St) : Decidable (MaximalR N R s) := by
  unfold MaximalR; exact inferInstance

theorem owedSteal_ok (N : Nat) (s : St) (w : Nat) (evs : List Ev) (hw : w < N) (h : owedSteal N s w = some evs) :
    ∃ s', runLog step s evs = some s' ∧ 1 ≤ nEff s evs ∧ wsum evs = 0 ∧ evs.length ≤ 3 ∧
      (∀ e, e ∈ evs → inR N e = true) := by
  simp only [owedSteal] at h
  split at h
  · rename_i hg
    split at h
    · simp only [Option.some.injEq] at h
      subst h
      simp [runLog, step, hg.1, hg.2, nEff, eff, moves, b2n, wsum, weight, inR, hw]
    · simp at h
  · simp at h

theorem owedNotify_ok (N : Nat) (R : Nat → Bool) (s : St) (w : Nat) (evs : List Ev) (hw : w < N)
    (h : owedNotify R s w = some evs) :
    ∃ s', runLog step s evs = some s' ∧ 1 ≤ nEff s evs ∧ wsum evs = 0 ∧ evs.length ≤ 3 ∧
      (∀ e, e ∈ evs → inR N e = true) := by
  simp only [owedNotify] at h
  split at h
  · rename_i hg
    simp only [Option.some.injEq] at h
    subst h
    simp [runLog, step, hg.2.1, hg.2.2, nEff, eff, b2n, wsum, weight, inR, hw]
  · simp at h

theorem owed_of_not_maximalR (N : Nat) (R : Nat → Bool) (s : St) (hi : Inv s) (hm : ¬ MaximalR N R s) :
    ∃ evs s', runLog step s evs = some s' ∧ mu N s' < mu N s ∧ evs.length ≤ 3 ∧ wsum evs = 0 ∧
      (∀ e, e ∈ evs → inR N e = true) := by
  by_cases hm0 : Maximal N s
  · have hex : ∃ i, i < N ∧ ¬ ((owedSteal N s i).isNone = true ∧ (owedNotify R s i).isNone = true) := by
      apply Classical.byContradiction
      intro hne
      apply hm
      refine ⟨hm0, ?_⟩
      intro i hi'
      apply Classical.byContradiction
      intro hc
      exact hne ⟨i, hi', hc⟩
    obtain ⟨i, hiN, hnot⟩ := hex
    have key : ∃ evs s', runLog step s evs = some s' ∧ 1 ≤ nEff s evs ∧ wsum evs = 0 ∧ evs.length ≤ 3 ∧
        (∀ e, e ∈ evs → inR N e = true) := by
      cases h1 : owedSteal N s i with
      | some evs => exact ⟨evs, owedSteal_ok N s i evs hiN h1⟩
      | none =>
        cases h2 : owedNotify R s i with
        | some evs => exact ⟨evs, owedNotify_ok N R s i evs hiN h2⟩
        | none => exact absurd (by simp [h1, h2]) hnot
    obtain ⟨evs, s', hrun, hn, hw0, hlen, hin⟩ := key
    have := mu_runLog N evs s s' hi hin hrun
    exact ⟨evs, s', hrun, by omega, hlen, hw0, hin⟩
  · exact owed_of_not_maximal N s hi hm0

theorem wsum_append (l1 l2 : List Ev) : wsum (l1 ++ l2) = wsum l1 + wsum l2 := by
  induction l1 with
  | nil => simp [wsum]
  | cons e es ih => simp only [List.cons_append, wsum, ih]; omega

theorem exists_maximalR (N : Nat) (R : Nat → Bool) : ∀ (n : Nat) (s : St), Inv s → mu N s ≤ n →
    ∃ ext s', runLog step s ext = some s' ∧ MaximalR N R s' ∧ ext.length ≤ 3 * mu N s ∧ wsum ext = 0 ∧
      (∀ e, e ∈ ext → inR N e = true) := by
  intro n
  induction n with
  | zero =>
    intro s hi h0
    by_cases hm : MaximalR N R s
    · exact ⟨[], s, rfl, hm, by simp, rfl, by intro e he; cases he⟩
    · obtain ⟨evs, s', _, hlt, _⟩ := owed_of_not_maximalR N R s hi hm
      omega
  | succ k ih =>
    intro s hi hk
    by_cases hm : MaximalR N R s
    · exact ⟨[], s, rfl, hm, by simp, rfl, by intro e he; cases he⟩
    · obtain ⟨evs, s1, hrun, hlt, hlen, hw0, hin⟩ := owed_of_not_maximalR N R s hi hm
      obtain ⟨ext, s2, hrun2, hmax, hlen2, hw2, hin2⟩ := ih s1 (inv_runLog hi hrun) (by omega)
      refine ⟨evs ++ ext, s2, ?_, hmax, ?_, ?_, ?_⟩
      · rw [runLog_append, hrun]; simpa using hrun2
      · simp only [List.length_append]; omega
      · rw [wsum_append, hw0, hw2]
      · intro e he
        simp only [List.mem_append] at he
        cases he with
        | inl h => exact hin e h
        | inr h => exact hin2 e h

/-- in a maximal state with stealing and a worker that can steal, every queue is empty -/
theorem stolen_of_maximalR (N : Nat) (R : Nat → Bool) (s : St) (hm : MaximalR N R s)
    (hs : s.cfg.stealing = true) (v : Nat) (hv : v < N) (b : Nat) (ha : (s.wk v).actor = some b)
    (hpc : (s.wk v).pc = .loop) (hst : (s.wk v).st = rsRunning) (w : Nat) (hw : w < N) : (s.wk w).q = 0 := by
  apply Classical.byContradiction
  intro hq
  have h1 := (hm.2 w hw).1
  have hth : thief N s ≠ none := by
    intro hn
    simp only [thief] at hn
    rw [List.findSome?_eq_none_iff] at hn
    have := hn v (List.mem_range.mpr hv)
    simp [thiefAt, ha, hpc, hst] at this
  simp only [owedSteal] at h1
  rw [if_pos ⟨hs, by omega⟩] at h1
  cases ht : thief N s with
  | none => exact hth ht
  | some b' => simp [ht] at h1

/-- a worker with a pending resume call is not asleep in a maximal state -/
theorem resumed_of_maximalR (N : Nat) (R : Nat → Bool) (s : St) (hi : Inv s) (hm : MaximalR N R s)
    (w : Nat) (hw : w < N) (hR : R w = true) : (s.wk w).st ≠ rsSleeping ∧ (s.wk w).pc = .loop := by
  have hf := final_of_maximal N s hi hm.1 w hw
  have h2 := (hm.2 w hw).2
  cases hf.pcFin with
  | inl hl =>
    refine ⟨?_, hl⟩
    intro h8
    exact (hi w).stPc h8 |>.1 hl
  | inr hr =>
    simp [owedNotify, hR, hr.1, hr.2.1] at h2

end PikaVerif.Elastic
