import PikaVerif.Lemmas.Bulk
/-! Chunk accounting invariant of the bulk protocol model. -/
namespace PikaVerif.Bulk
open PikaVerif

def offOf : Pc → Option Nat
  | .run off => some off
  | .work off _ => some off
  | _ => none

structure InvQ (s : St) : Prop where
  mono : ∀ k, k < s.w → s.a k ≤ s.a (k + 1)
  rng : ∀ k, k < s.w → s.a k ≤ (s.qs k).1 ∧ (s.qs k).1 ≤ (s.qs k).2 ∧ (s.qs k).2 ≤ s.a (k + 1)
  acc : ∀ k j, k < s.w → s.a k ≤ j → j < s.a (k + 1) →
    s.popped j + (if (s.qs k).1 ≤ j ∧ j < (s.qs k).2 then 1 else 0) = 1
  out : ∀ j, (∀ k, k < s.w → ¬ (s.a k ≤ j ∧ j < s.a (k + 1))) → s.popped j = 0
  offlt : ∀ k off, k < s.w → offOf (s.pc k) = some off → off < s.w
  seen : ∀ k off, k < s.w → offOf (s.pc k) = some off →
    ∀ o, o < off → qEmpty (s.qs ((k + o) % s.w)) = true
  all : s.sawAll = true → ∀ q, q < s.w → qEmpty (s.qs q) = true
  locF : s.pc s.L = .fin false → s.sawAll = true
  locD : s.pc s.L = .decd → s.sawAll = true ∨ s.excThrown = true

theorem invQ_init (w L : Nat) (a : Nat → Nat) (hm : ∀ k, k < w → a k ≤ a (k + 1)) :
    InvQ (init w L a) := by
  refine ⟨hm, ?_, ?_, ?_, ?_, ?_, ?_, ?_, ?_⟩ <;> simp [init, offOf]
  · intro k hk; exact hm k hk
  · intro k j _ h1 h2; simp [h1, h2]

/-- every queue index is `(k + o) % w` for some `o < w` -/
theorem mod_cover (w k q : Nat) (hk : k < w) (hq : q < w) : ∃ o, o < w ∧ (k + o) % w = q := by
  by_cases h : k ≤ q
  · exact ⟨q - k, by omega, by rw [show k + (q - k) = q by omega]; exact Nat.mod_eq_of_lt hq⟩
  · refine ⟨q + w - k, by omega, ?_⟩
    rw [show k + (q + w - k) = q + w by omega, Nat.add_mod_right]
    exact Nat.mod_eq_of_lt hq

theorem qEmpty_iff (r : Nat × Nat) : qEmpty r = true ↔ r.2 ≤ r.1 := by simp [qEmpty]
theorem qEmpty_false_iff (r : Nat × Nat) : qEmpty r = false ↔ r.1 < r.2 := by
  simp [qEmpty]

/-- Events that touch neither the queues nor the history: only the pc of one task changes. -/
theorem invQ_pc_only (s : St) (k : Nat) (p : Pc) (ex : Bool) (nx rem thr sg : Nat) (oc : Option Bool)
    (hq : InvQ s) (hoff : offOf p = none ∨ offOf p = some 0)
    (hF : k = s.L → p = .fin false → s.sawAll = true)
    (hD : k = s.L → p = .decd → s.sawAll = true ∨ ex = true)
    (hex : s.excThrown = true → ex = true) :
    InvQ { s with pc := upd s.pc k p, excThrown := ex, next := nx, remaining := rem, threw := thr,
                  signals := sg, outcome := oc } := by
  obtain ⟨q1, q2, q3, q4, q5, q6, q7, q8, q9⟩ := hq
  refine ⟨q1, q2, q3, q4, ?_, ?_, q7, ?_, ?_⟩ <;> dsimp only
  · intro u off hu ho
    by_cases huk : u = k
    · subst huk; simp only [upd_same] at ho
      rcases hoff with h | h <;> rw [h] at ho <;> simp at ho
      omega
    · simp only [upd, huk, if_false] at ho; exact q5 u off hu ho
  · intro u off hu ho o hoo
    by_cases huk : u = k
    · subst huk; simp only [upd_same] at ho
      rcases hoff with h | h <;> rw [h] at ho <;> simp at ho
      omega
    · simp only [upd, huk, if_false] at ho; exact q6 u off hu ho o hoo
  · intro h
    by_cases hk : s.L = k
    · subst hk; simp only [upd_same] at h; exact hF rfl h
    · simp only [upd, hk, if_false] at h; exact q8 h
  · intro h
    by_cases hk : s.L = k
    · subst hk; simp only [upd_same] at h; exact hD rfl h
    · simp only [upd, hk, if_false] at h
      rcases q9 h with h' | h'
      · exact Or.inl h'
      · exact Or.inr (hex h')


theorem cur_ne_L (s : St) : cur s ≠ s.L := by
  unfold cur; split <;> omega

theorem stepQ_spawn (s s' : St) (k : Nat) (hq : InvQ s) (h : step s (.spawn k) = some s') : InvQ s' := by
  simp only [step] at h
  split at h
  · rename_i hg
    simp only [Option.some.injEq] at h; subst h
    have hk : k ≠ s.L := by rw [hg.2.1]; exact cur_ne_L s
    exact invQ_pc_only s k .spawned s.excThrown (k + 1) s.remaining s.threw s.signals s.outcome hq
      (Or.inl rfl) (fun h => absurd h hk) (fun h => absurd h hk) id
  · simp at h

theorem stepQ_skip (s s' : St) (k : Nat) (hq : InvQ s) (h : step s (.skip k) = some s') : InvQ s' := by
  simp only [step] at h
  split at h
  · rename_i hg
    simp only [Option.some.injEq] at h; subst h
    have hk : k ≠ s.L := by rw [hg.2.1]; exact cur_ne_L s
    exact invQ_pc_only s k (.fin false) s.excThrown (k + 1) s.remaining s.threw s.signals s.outcome hq
      (Or.inl rfl) (fun h => absurd h hk) (fun h => absurd h hk) id
  · simp at h

theorem stepQ_task (s s' : St) (k : Nat) (hq : InvQ s) (h : step s (.task k) = some s') : InvQ s' := by
  simp only [step] at h
  repeat' split at h
  all_goals first | (simp at h; done) | skip
  all_goals (
    simp only [Option.some.injEq] at h; subst h
    exact invQ_pc_only s k (.run 0) s.excThrown s.next s.remaining s.threw s.signals s.outcome hq
      (Or.inr rfl) (fun _ h => by simp at h) (fun _ h => by simp at h) id)

theorem stepQ_exc (s s' : St) (k : Nat) (hq : InvQ s) (h : step s (.exc k) = some s') : InvQ s' := by
  simp only [step] at h
  repeat' split at h
  all_goals first | (simp at h; done) | skip
  all_goals (
    simp only [Option.some.injEq] at h; subst h
    exact invQ_pc_only s k (.fin true) true s.next s.remaining (s.threw + 1) s.signals s.outcome hq
      (Or.inl rfl) (fun _ h => by simp at h) (fun _ h => by simp at h) (fun _ => rfl))

theorem stepQ_dec (s s' : St) (k : Nat) (l : Bool) (hi : Inv s) (hq : InvQ s) (h : step s (.dec k l) = some s') : InvQ s' := by
  simp only [step] at h
  split at h
  · split at h
    · rename_i t hpc
      simp only [Option.some.injEq] at h; subst h
      refine invQ_pc_only s k .decd s.excThrown s.next (s.remaining - 1) s.threw s.signals _ hq
        (Or.inl rfl) (fun _ h => by simp at h) ?_ id
      intro hk _
      subst hk
      cases t
      · exact Or.inl (hq.locF hpc)
      · exact Or.inr (hi.finT _ hpc)
    · split at h
      · rename_i hex
        simp only [Option.some.injEq] at h; subst h
        exact invQ_pc_only s k .decd s.excThrown s.next (s.remaining - 1) (s.threw + 1) s.signals _ hq
          (Or.inl rfl) (fun _ h => by simp at h) (fun _ _ => Or.inr hex) id
      · simp at h
    · simp at h
  · simp at h



theorem stepQ_chunk (s s' : St) (k j : Nat) (hq : InvQ s) (h : step s (.chunk k j) = some s') : InvQ s' := by
  simp only [step] at h
  repeat' split at h
  all_goals first | (simp at h; done) | (simp only [Option.some.injEq] at h; subst h; exact hq)

theorem stepQ_sig (s s' : St) (e : Bool) (hq : InvQ s) (h : step s (.sig e) = some s') : InvQ s' := by
  simp only [step] at h
  split at h
  · simp only [Option.some.injEq] at h; subst h
    exact ⟨hq.mono, hq.rng, hq.acc, hq.out, hq.offlt, hq.seen, hq.all, hq.locF, hq.locD⟩
  · simp at h

/-- pop that found the queue empty -/
theorem stepQ_popNone (s : St) (k off : Nat) (hk : k < s.w) (hq : InvQ s)
    (hoff : offOf (s.pc k) = some off) (he : qEmpty (s.qs ((k + off) % s.w)) = true) :
    InvQ { s with pc := upd s.pc k (afterEmpty s.w off),
                  sawAll := s.sawAll || decide (s.w ≤ off + 1) } := by
  have hoffw := hq.offlt k off hk hoff
  have hseen := hq.seen k off hk hoff
  have hcover : s.w ≤ off + 1 → ∀ q, q < s.w → qEmpty (s.qs q) = true := by
    intro hw q hqw
    obtain ⟨o, ho, hoq⟩ := mod_cover s.w k q hk hqw
    by_cases h : o < off
    · rw [← hoq]; exact hseen o h
    · have : o = off := by omega
      subst this; rw [← hoq]; exact he
  obtain ⟨q1, q2, q3, q4, q5, q6, q7, q8, q9⟩ := hq
  refine ⟨q1, q2, q3, q4, ?_, ?_, ?_, ?_, ?_⟩ <;> dsimp only
  · intro u o hu ho
    by_cases huk : u = k
    · subst huk; simp only [upd_same, afterEmpty] at ho
      split at ho <;> simp [offOf] at ho
      omega
    · simp only [upd, huk, if_false] at ho; exact q5 u o hu ho
  · intro u o hu ho o' ho'
    by_cases huk : u = k
    · subst huk; simp only [upd_same, afterEmpty] at ho
      split at ho <;> simp [offOf] at ho
      subst ho
      by_cases h : o' < off
      · exact hseen o' h
      · have : o' = off := by omega
        subst this; exact he
    · simp only [upd, huk, if_false] at ho; exact q6 u o hu ho o' ho'
  · intro h q hqw
    simp only [Bool.or_eq_true, decide_eq_true_eq] at h
    rcases h with h | h
    · exact q7 h q hqw
    · exact hcover h q hqw
  · intro h
    by_cases hLk : s.L = k
    · subst hLk; simp only [upd_same, afterEmpty] at h
      split at h
      · simp at h
      · rename_i hw; simp only [Bool.or_eq_true, decide_eq_true_eq]; right; omega
    · simp only [upd, hLk, if_false] at h
      simp only [Bool.or_eq_true]; left; exact q8 h
  · intro h
    by_cases hLk : s.L = k
    · subst hLk; simp only [upd_same, afterEmpty] at h
      split at h <;> simp at h
    · simp only [upd, hLk, if_false] at h
      rcases q9 h with h' | h'
      · left; simp [h']
      · right; exact h'



theorem stepQ_popSome (s : St) (k off q j : Nat) (hk : k < s.w) (hq : InvQ s)
    (hoff : offOf (s.pc k) = some off) (hqq : q = (k + off) % s.w)
    (hne : qEmpty (s.qs q) = false)
    (hj : j = if off = 0 then (s.qs q).1 else (s.qs q).2 - 1) :
    InvQ { s with qs := upd s.qs q (if off = 0 then ((s.qs q).1 + 1, (s.qs q).2)
                                    else ((s.qs q).1, (s.qs q).2 - 1)),
                  popped := upd s.popped j (s.popped j + 1),
                  pc := upd s.pc k (.work off j) } := by
  have hqw : q < s.w := by rw [hqq]; exact Nat.mod_lt _ (by omega)
  have hlt := (qEmpty_false_iff _).1 hne
  obtain ⟨q1, q2, q3, q4, q5, q6, q7, q8, q9⟩ := hq
  have hr := q2 q hqw
  have hjc : s.a q ≤ j ∧ j < s.a (q + 1) ∧ (s.qs q).1 ≤ j ∧ j < (s.qs q).2 := by
    split at hj <;> omega
  have hcell : ∀ u, u < s.w → s.a u ≤ j → j < s.a (u + 1) → u = q := fun u hu h1 h2 =>
    Partition.cell_unique s.a s.w q1 hu hqw h1 h2 hjc.1 hjc.2.1
  refine ⟨q1, ?_, ?_, ?_, ?_, ?_, ?_, ?_, ?_⟩ <;> dsimp only
  · intro u hu
    by_cases huq : u = q
    · subst huq; simp only [upd_same]; split <;> dsimp only <;> omega
    · simp only [upd, huq, if_false]; exact q2 u hu
  · intro u j' hu h1 h2
    have hacc := q3 u j' hu h1 h2
    by_cases huq : u = q
    · subst huq
      simp only [upd_same]
      by_cases hjj : j' = j
      · subst hjj
        simp only [upd_same]
        have : (s.qs u).1 ≤ j' ∧ j' < (s.qs u).2 := ⟨hjc.2.2.1, hjc.2.2.2⟩
        simp only [this, and_self, if_true] at hacc
        split at hj <;> rename_i h0 <;> simp only [h0, if_true, if_false] <;> (split <;> omega)
      · simp only [upd, hjj, if_false]
        split at hj <;> rename_i h0 <;> simp only [h0, if_true, if_false] <;>
          (split at hacc <;> split <;> omega)
    · simp only [upd, huq, if_false]
      by_cases hjj : j' = j
      · subst hjj; exact absurd (hcell u hu h1 h2) huq
      · simp only [hjj, if_false]; exact hacc
  · intro j' hno
    have : j' ≠ j := by
      intro h; subst h; exact hno q hqw ⟨hjc.1, hjc.2.1⟩
    simp only [upd, this, if_false]; exact q4 j' hno
  · intro u o hu ho
    by_cases huk : u = k
    · subst huk; simp only [upd_same, offOf, Option.some.injEq] at ho; subst ho; exact q5 u off hu hoff
    · simp only [upd, huk, if_false] at ho; exact q5 u o hu ho
  · intro u o hu ho o' ho'
    have hold : qEmpty (s.qs ((u + o') % s.w)) = true := by
      by_cases huk : u = k
      · subst huk; simp only [upd_same, offOf, Option.some.injEq] at ho; subst ho
        exact q6 u off hu hoff o' ho'
      · simp only [upd, huk, if_false] at ho; exact q6 u o hu ho o' ho'
    have hneq : (u + o') % s.w ≠ q := by
      intro h; rw [h, hne] at hold; simp at hold
    simp only [upd, hneq, if_false]; exact hold
  · intro h
    have := q7 h q hqw
    rw [hne] at this; simp at this
  · intro h
    by_cases hLk : s.L = k
    · subst hLk; simp only [upd_same] at h; simp at h
    · simp only [upd, hLk, if_false] at h; exact q8 h
  · intro h
    by_cases hLk : s.L = k
    · subst hLk; simp only [upd_same] at h; simp at h
    · simp only [upd, hLk, if_false] at h; exact q9 h


theorem stepQ_pop (s s' : St) (k q : Nat) (r : Option Nat) (hq : InvQ s)
    (h : step s (.pop k q r) = some s') : InvQ s' := by
  simp only [step] at h
  split at h
  · rename_i hk
    have key : ∀ off, offOf (s.pc k) = some off →
        (if q = (k + off) % s.w then
          match r with
          | none =>
            if qEmpty (s.qs q) = true then
              some { s with pc := upd s.pc k (afterEmpty s.w off),
                            sawAll := s.sawAll || decide (s.w ≤ off + 1) }
            else none
          | some j =>
            if qEmpty (s.qs q) = false ∧ j = (if off = 0 then (s.qs q).1 else (s.qs q).2 - 1) then
              some { s with qs := upd s.qs q (if off = 0 then ((s.qs q).1 + 1, (s.qs q).2)
                                              else ((s.qs q).1, (s.qs q).2 - 1)),
                            popped := upd s.popped j (s.popped j + 1),
                            pc := upd s.pc k (.work off j) }
            else none
        else none) = some s' → InvQ s' := by
      intro off hoff h
      by_cases hqq : q = (k + off) % s.w
      · rw [if_pos hqq] at h
        cases r with
        | none =>
          dsimp only at h
          by_cases he : qEmpty (s.qs q) = true
          · rw [if_pos he] at h
            simp only [Option.some.injEq] at h; subst h
            rw [hqq] at he
            exact stepQ_popNone s k off hk hq hoff he
          · rw [if_neg he] at h; simp at h
        | some j =>
          dsimp only at h
          by_cases hg : qEmpty (s.qs q) = false ∧ j = (if off = 0 then (s.qs q).1 else (s.qs q).2 - 1)
          · rw [if_pos hg] at h
            simp only [Option.some.injEq] at h; subst h
            exact stepQ_popSome s k off q j hk hq hoff hqq hg.1 hg.2
          · rw [if_neg hg] at h; simp at h
      · rw [if_neg hqq] at h; simp at h
    split at h
    · rename_i off hpc; exact key off (by rw [hpc]; rfl) h
    · rename_i off j0 hpc; exact key off (by rw [hpc]; rfl) h
    · simp at h
  · simp at h

theorem stepQ (s s' : St) (e : Ev) (hi : Inv s ∧ InvQ s) (h : step s e = some s') :
    Inv s' ∧ InvQ s' := by
  refine ⟨step_inv s s' e hi.1 h, ?_⟩
  cases e with
  | spawn k => exact stepQ_spawn s s' k hi.2 h
  | skip k => exact stepQ_skip s s' k hi.2 h
  | task k => exact stepQ_task s s' k hi.2 h
  | pop k q r => exact stepQ_pop s s' k q r hi.2 h
  | chunk k j => exact stepQ_chunk s s' k j hi.2 h
  | exc k => exact stepQ_exc s s' k hi.2 h
  | dec k l => exact stepQ_dec s s' k l hi.1 hi.2 h
  | sig e => exact stepQ_sig s s' e hi.2 h

theorem invQ_of_accepted {w L : Nat} {a : Nat → Nat} (hL : L < w)
    (hm : ∀ k, k < w → a k ≤ a (k + 1)) {log : List Ev} {s : St}
    (h : runLog step (init w L a) log = some s) : Inv s ∧ InvQ s :=
  inv_of_runLog (fun s => Inv s ∧ InvQ s) (fun s e s' => stepQ s s' e)
    ⟨inv_init w L a hL, invQ_init w L a hm⟩ h

/-- the parameters never change -/
theorem frame_of_accepted {w L : Nat} {a : Nat → Nat} {log : List Ev} {s : St}
    (h : runLog step (init w L a) log = some s) : s.w = w ∧ s.L = L ∧ s.a = a := by
  refine inv_of_runLog (fun s => s.w = w ∧ s.L = L ∧ s.a = a) ?_ ⟨rfl, rfl, rfl⟩ h
  intro s e s' hf hs
  cases e <;> simp only [step] at hs <;> (repeat' split at hs) <;>
    first | (simp at hs; done) | (simp only [Option.some.injEq] at hs; subst hs; exact hf)

end PikaVerif.Bulk
