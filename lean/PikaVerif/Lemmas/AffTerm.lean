import PikaVerif.Lemmas.AffBalanced
/-! C15 (follow-up C15t): termination of the scatter / balanced loop nests.

The counting argument: in the `next_pu_index` loops the number of threads placed so far equals
the number of usable PUs lying *below* the `next_pu_index` of their core.  A pass of the outer
`for (;;)` that places nothing has pushed every `next_pu_index` to the end of its core, so the
threads placed equal **all** usable PUs the loop can see (`total`).  Hence:
* `goal ≤ total`  ⇒ every pass places a thread, the loop returns after at most `goal` passes
  (the fuel `goal + 1` of the model is never exhausted);
* `total < goal`  ⇒ the loop can never place the `goal`-th thread: it does not return.
Everything is generic in the mask test `inm core pu`, the per-core scan limit `ncp core` and the
number of cores, so that it applies to scatter, balanced and the per-socket loops of
numa-balanced (whose scan limit lacks the `core_offset`). -/
namespace PikaVerif.Aff
open PikaVerif

/-- number of indices below `m` at which `f` holds -/
def cntB (f : Nat → Bool) (m : Nat) : Nat := sumTo m (fun p => if f p then 1 else 0)

theorem cntB_succ (f : Nat → Bool) (m : Nat) :
    cntB f (m + 1) = cntB f m + (if f m then 1 else 0) := rfl

theorem cntB_mono (f : Nat → Bool) {a b : Nat} (h : a ≤ b) : cntB f a ≤ cntB f b := by
  induction b with
  | zero => have : a = 0 := by omega
            subst this; exact Nat.le_refl _
  | succ k ih =>
    by_cases hk : a = k + 1
    · subst hk; exact Nat.le_refl _
    · have := ih (by omega); rw [cntB_succ]; omega

theorem cntB_le (f : Nat → Bool) (m : Nat) : cntB f m ≤ m := by
  induction m with
  | zero => exact Nat.le_refl _
  | succ k ih => rw [cntB_succ]; split <;> omega

theorem cntB_congr {f g : Nat → Bool} {m : Nat} (h : ∀ p, p < m → f p = g p) :
    cntB f m = cntB g m := by
  unfold cntB
  apply sumTo_congr
  intro p hp; rw [h p hp]

theorem sumTo_le_sumTo {n : Nat} {f g : Nat → Nat} (h : ∀ t, t < n → f t ≤ g t) :
    sumTo n f ≤ sumTo n g := by
  induction n with
  | zero => exact Nat.le_refl _
  | succ k ih =>
    simp only [sumTo_succ]
    have := ih (fun t ht => h t (Nat.lt_succ_of_lt ht))
    have := h k (Nat.lt_succ_self k)
    omega

/-- exact effect of the `while` scan: it only moves forward, stays inside the core, passes
    exactly one usable PU if it reports one and none otherwise, and reports none only at the end
    of the core -/
theorem scan_count (inm : Nat → Bool) (ncp : Nat) : ∀ (fuel idx : Nat), ncp - idx < fuel →
    idx ≤ (scan inm ncp fuel idx).1 ∧
    (idx ≤ ncp → (scan inm ncp fuel idx).1 ≤ ncp) ∧
    cntB inm (scan inm ncp fuel idx).1 =
      cntB inm idx + (if (scan inm ncp fuel idx).2 then 1 else 0) ∧
    ((scan inm ncp fuel idx).2 = false → ncp ≤ (scan inm ncp fuel idx).1) := by
  intro fuel
  induction fuel with
  | zero => intro idx h; omega
  | succ f ih =>
    intro idx h
    simp only [scan]
    by_cases h1 : idx < ncp
    · simp only [h1, ↓reduceIte]
      cases h2 : inm idx with
      | true =>
        simp only [↓reduceIte]
        refine ⟨by omega, fun _ => by omega, ?_, by simp⟩
        rw [cntB_succ, h2]; simp
      | false =>
        simp only [Bool.false_eq_true, ↓reduceIte]
        obtain ⟨a, b, c, d⟩ := ih (idx + 1) (by omega)
        refine ⟨by omega, fun _ => b (by omega), ?_, d⟩
        rw [c, cntB_succ, h2]; simp
    · simp only [h1, ↓reduceIte]
      refine ⟨Nat.le_refl _, fun h => h, by simp, fun _ => by omega⟩

theorem scanPu_count (inm : Nat → Bool) (ncp idx : Nat) :
    idx ≤ (scanPu inm ncp idx).1 ∧
    (idx ≤ ncp → (scanPu inm ncp idx).1 ≤ ncp) ∧
    cntB inm (scanPu inm ncp idx).1 = cntB inm idx + (if (scanPu inm ncp idx).2 then 1 else 0) ∧
    ((scanPu inm ncp idx).2 = false → ncp ≤ (scanPu inm ncp idx).1) :=
  scan_count inm ncp (ncp - idx + 1) idx (by omega)

/-- usable PUs the loop nest can ever reach: per core, the PUs below the scan limit that pass
    the mask test -/
def total (inm : Nat → Nat → Bool) (ncp : Nat → Nat) (ncores : Nat) : Nat :=
  sumTo ncores (fun c => cntB (inm c) (ncp c))

/-- the counting invariant: `k` threads placed = usable PUs below the `next_pu_index`es -/
structure TBase (inm : Nat → Nat → Bool) (ncp : Nat → Nat) (ncores k : Nat) (nxt : Nat → Nat) :
    Prop where
  le : ∀ c, nxt c ≤ ncp c
  count : k = sumTo ncores (fun c => cntB (inm c) (nxt c))

theorem TBase.le_total {inm ncp ncores k nxt} (h : TBase inm ncp ncores k nxt) :
    k ≤ total inm ncp ncores := by
  rw [h.count]
  exact sumTo_le_sumTo (fun c _ => cntB_mono (inm c) (h.le c))

/-- position-dependent part: inside a pass that started with `k0` threads placed, being at
    core `c`; while nothing was placed in this pass every core passed is exhausted -/
structure TPos (ncp : Nat → Nat) (goal k0 c k : Nat) (nxt : Nat → Nat) : Prop where
  lt : k < goal
  mono : k0 ≤ k
  stuck : k = k0 → ∀ c', c' < c → ncp c' ≤ nxt c'

theorem sumTo_upd_fun (n : Nat) (F : Nat → Nat) (c v : Nat) (hc : c < n) :
    sumTo n (upd F c v) = sumTo n F - F c + v :=
  sumTo_upd_eq n (fun x => x) F c v hc

/-- one execution of the scan at core `c` -/
theorem tbase_step {inm : Nat → Nat → Bool} {ncp : Nat → Nat} {ncores k : Nat} {nxt : Nat → Nat}
    {c : Nat} (hc : c < ncores) (h : TBase inm ncp ncores k nxt) :
    TBase inm ncp ncores (k + (if (scanPu (inm c) (ncp c) (nxt c)).2 then 1 else 0))
      (upd nxt c (scanPu (inm c) (ncp c) (nxt c)).1) := by
  obtain ⟨s1, s2, s3, _⟩ := scanPu_count (inm c) (ncp c) (nxt c)
  refine ⟨?_, ?_⟩
  · intro c'
    by_cases hcc : c' = c
    · subst hcc; simp only [upd_same]; exact s2 (h.le c')
    · simp only [upd, hcc, ↓reduceIte]; exact h.le c'
  · have e : (fun c' => cntB (inm c') (upd nxt c (scanPu (inm c) (ncp c) (nxt c)).1 c')) =
        upd (fun c' => cntB (inm c') (nxt c')) c (cntB (inm c) (scanPu (inm c) (ncp c) (nxt c)).1) := by
      funext c'
      by_cases hcc : c' = c
      · subst hcc; simp
      · simp [upd, hcc]
    rw [e, sumTo_upd_fun _ _ _ _ hc, s3]
    have l := le_sumTo (f := fun c' => cntB (inm c') (nxt c')) hc
    have := h.count
    omega

theorem tpos_step_none {ncp : Nat → Nat} {goal k0 c k : Nat} {nxt : Nat → Nat} {j : Nat}
    (h : TPos ncp goal k0 c k nxt) (hj : ncp c ≤ j) : TPos ncp goal k0 (c + 1) k (upd nxt c j) := by
  refine ⟨h.lt, h.mono, ?_⟩
  intro hk c' hc'
  by_cases hcc : c' = c
  · subst hcc; simpa using hj
  · simp only [upd, hcc, ↓reduceIte]; exact h.stuck hk c' (by omega)

theorem tpos_step_some {ncp : Nat → Nat} {goal k0 c k : Nat} {nxt : Nat → Nat} {j : Nat}
    (h : TPos ncp goal k0 c k nxt) (hg : k + 1 ≠ goal) :
    TPos ncp goal k0 (c + 1) (k + 1) (upd nxt c j) := by
  have := h.lt
  have := h.mono
  exact ⟨by omega, by omega, fun hk => by omega⟩

/-- a pass that ran through all cores without placing anything has placed all there is -/
theorem stuck_total {inm : Nat → Nat → Bool} {ncp : Nat → Nat} {ncores goal k0 k : Nat}
    {nxt : Nat → Nat} (hb : TBase inm ncp ncores k nxt) (hp : TPos ncp goal k0 ncores k nxt)
    (hk : k = k0) : k = total inm ncp ncores := by
  rw [hb.count]
  unfold total
  apply sumTo_congr
  intro c hc
  have h1 := hp.stuck hk c hc
  have h2 := hb.le c
  have : nxt c = ncp c := by omega
  rw [this]

/-! ## balanced, first phase (generic in offset / goal / number of cores) -/

def balInm (cfg : Cfg) (off : Nat) : Nat → Nat → Bool := fun c p => inMask cfg (c + off) p
def balNcp (cfg : Cfg) : Nat → Nat := fun c => corePus cfg.t c

/-- usable PUs the first phase of balanced (offset 0) / of a numa-balanced socket can reach -/
def balTotal (cfg : Cfg) (off ncores : Nat) : Nat := total (balInm cfg off) (balNcp cfg) ncores

theorem balCore_term (cfg : Cfg) (off goal ncores k0 : Nat) {c : Nat} (hc : c < ncores) (s : BSt)
    (h : TBase (balInm cfg off) (balNcp cfg) ncores s.k s.nxt ∧
      TPos (balNcp cfg) goal k0 c s.k s.nxt) :
    CtlP (fun s => TBase (balInm cfg off) (balNcp cfg) ncores s.k s.nxt ∧
            TPos (balNcp cfg) goal k0 (c + 1) s.k s.nxt)
      (fun s => TBase (balInm cfg off) (balNcp cfg) ncores s.k s.nxt ∧ s.k = goal) False
      (balCore cfg off goal c s) := by
  obtain ⟨hb, hp⟩ := h
  have st := tbase_step hc hb
  obtain ⟨_, _, _, s4⟩ := scanPu_count (balInm cfg off c) (balNcp cfg c) (s.nxt c)
  unfold balCore
  unfold balInm balNcp at st s4
  generalize scanPu (fun p => inMask cfg (c + off) p) (corePus cfg.t c) (s.nxt c) = r at st s4
  obtain ⟨j, u⟩ := r
  cases u with
  | false =>
    simp only [Bool.not_false, ↓reduceIte, CtlP]
    simp only [Bool.false_eq_true, ↓reduceIte, Nat.add_zero] at st
    exact ⟨st, tpos_step_none hp (s4 rfl)⟩
  | true =>
    simp only [Bool.not_true, Bool.false_eq_true, ↓reduceIte, upd_same]
    simp only [↓reduceIte] at st
    by_cases hn : s.k + 1 = goal
    · simp only [hn, ↓reduceIte, CtlP]
      rw [hn] at st
      exact ⟨st, trivial⟩
    · simp only [hn, ↓reduceIte, CtlP]
      exact ⟨st, tpos_step_some hp hn⟩

theorem balPass_term (cfg : Cfg) (off goal ncores : Nat) (s : BSt)
    (hb : TBase (balInm cfg off) (balNcp cfg) ncores s.k s.nxt) (hk : s.k < goal) :
    CtlP (fun s' => TBase (balInm cfg off) (balNcp cfg) ncores s'.k s'.nxt ∧
            TPos (balNcp cfg) goal s.k ncores s'.k s'.nxt)
      (fun s' => TBase (balInm cfg off) (balNcp cfg) ncores s'.k s'.nxt ∧ s'.k = goal) False
      (balPass cfg off goal ncores s) := by
  unfold balPass
  exact forRange_inv (balCore cfg off goal)
    (fun c s' => TBase (balInm cfg off) (balNcp cfg) ncores s'.k s'.nxt ∧
      TPos (balNcp cfg) goal s.k c s'.k s'.nxt) _ False ncores s
    (fun c s' hc hs => balCore_term cfg off goal ncores s.k hc s' hs)
    ⟨hb, hk, Nat.le_refl _, fun _ _ h => absurd h (Nat.not_lt_zero _)⟩

/-- enough usable PUs: the loop returns, with fuel to spare -/
theorem balLoop_terminates (cfg : Cfg) (off goal ncores : Nat)
    (hg : goal ≤ balTotal cfg off ncores) : ∀ (f : Nat) (s : BSt),
    TBase (balInm cfg off) (balNcp cfg) ncores s.k s.nxt → s.k < goal → goal ≤ f + s.k →
    ∃ b, balLoop cfg off goal ncores f s = some b ∧ b.k = goal := by
  intro f
  induction f with
  | zero => intro s _ h1 h2; omega
  | succ f ih =>
    intro s hb hk hf
    simp only [balLoop]
    have hp := balPass_term cfg off goal ncores s hb hk
    cases hr : balPass cfg off goal ncores s with
    | fin s' => rw [hr] at hp; exact ⟨s', rfl, hp.2⟩
    | err => rw [hr] at hp; exact hp.elim
    | run s' =>
      rw [hr] at hp
      obtain ⟨hb', hp'⟩ := hp
      simp only
      by_cases he : s'.k = s.k
      · have := stuck_total hb' hp' he
        have := hp'.lt
        unfold balTotal at hg
        omega
      · simp only [he, ↓reduceIte]
        have := hp'.mono
        exact ih s' hb' hp'.lt (by omega)

/-- too few usable PUs: the loop never returns -/
theorem balLoop_diverges (cfg : Cfg) (off goal ncores : Nat)
    (hg : balTotal cfg off ncores < goal) : ∀ (f : Nat) (s : BSt),
    TBase (balInm cfg off) (balNcp cfg) ncores s.k s.nxt → s.k < goal →
    balLoop cfg off goal ncores f s = none := by
  intro f
  induction f with
  | zero => intro s _ _; rfl
  | succ f ih =>
    intro s hb hk
    simp only [balLoop]
    have hp := balPass_term cfg off goal ncores s hb hk
    cases hr : balPass cfg off goal ncores s with
    | fin s' =>
      rw [hr] at hp
      have := hp.1.le_total
      unfold balTotal at hg
      have := hp.2
      omega
    | err => rfl
    | run s' =>
      rw [hr] at hp
      simp only
      split
      · rfl
      · exact ih s' hp.1 hp.2.lt

theorem init_TBase (inm : Nat → Nat → Bool) (ncp : Nat → Nat) (ncores : Nat) :
    TBase inm ncp ncores 0 (fun _ => 0) :=
  ⟨fun _ => Nat.zero_le _, (sumTo_eq_zero (fun _ _ => rfl)).symm⟩

/-- **first phase of balanced / of a numa-balanced socket returns iff the cores it scans hold
    at least `goal` usable PUs** -/
theorem balPhase1_isSome (cfg : Cfg) (off goal ncores : Nat) :
    (balPhase1 cfg off goal ncores).isSome = decide (goal ≤ balTotal cfg off ncores) := by
  unfold balPhase1
  by_cases h0 : goal = 0
  · simp [h0]
  · simp only [h0, ↓reduceIte]
    by_cases hg : goal ≤ balTotal cfg off ncores
    · obtain ⟨b, hb, _⟩ := balLoop_terminates cfg off goal ncores hg (goal + 1) BSt.init
        (init_TBase _ _ _) (by simp [BSt.init]; omega) (by omega)
      simp [hb, hg]
    · have := balLoop_diverges cfg off goal ncores (by omega) (goal + 1) BSt.init
        (init_TBase _ _ _) (by simp [BSt.init]; omega)
      simp [this, hg]

theorem balPhase1_k (cfg : Cfg) (off goal ncores : Nat) (b : BSt)
    (h : balPhase1 cfg off goal ncores = some b) : b.k = goal := by
  have hs := balPhase1_isSome cfg off goal ncores
  rw [h] at hs
  have hg : goal ≤ balTotal cfg off ncores := by simpa using hs.symm
  unfold balPhase1 at h
  by_cases h0 : goal = 0
  · simp only [h0, ↓reduceIte, Option.some.injEq] at h
    subst h; simp [BSt.init, h0]
  · simp only [h0, ↓reduceIte] at h
    obtain ⟨b', hb', hk⟩ := balLoop_terminates cfg off goal ncores hg (goal + 1) BSt.init
      (init_TBase _ _ _) (by simp [BSt.init]; omega) (by omega)
    rw [hb'] at h
    simp only [Option.some.injEq] at h
    subst h; exact hk

/-- the second phase never raises "already set" when started on fresh entries -/
theorem balPhase2_noerr (cfg : Cfg) (b : BSt) (cn cm ncores : Nat) (s : ASt)
    (h : ∀ i, s.k ≤ i → s.aff i = []) :
    CtlP (fun s' => ∀ i, s'.k ≤ i → s'.aff i = []) (fun _ => False) False
      (balPhase2 cfg b cn cm ncores s) := by
  unfold balPhase2
  refine forRange_inv _ (fun _ s' => ∀ i, s'.k ≤ i → s'.aff i = []) (fun _ => False) False
    ncores s ?_ h
  intro c s1 _ h1
  refine forRange_inv _ (fun _ s' => ∀ i, s'.k ≤ i → s'.aff i = []) (fun _ => False) False
    (b.cnt c) s1 ?_ h1
  intro j s2 _ h2
  unfold balAssign
  simp only [h2 s2.k (Nat.le_refl _), ne_eq, not_true_eq_false, ↓reduceIte, CtlP]
  intro i hi
  have : i ≠ s2.k := by omega
  simp only [upd, this, ↓reduceIte]
  exact h2 i (by omega)

/-! ## scatter -/

def scInm (cfg : Cfg) : Nat → Nat → Bool := fun c p => inMask cfg c p

/-- usable PUs the scatter decoder / the first phase of balanced can reach -/
def usable (cfg : Cfg) : Nat := total (scInm cfg) (balNcp cfg) (effCores cfg)

theorem usable_eq_balTotal (cfg : Cfg) : usable cfg = balTotal cfg 0 (effCores cfg) := rfl

theorem scatterCore_term (cfg : Cfg) (k0 : Nat) {c : Nat} (hc : c < effCores cfg) (s : SSt)
    (h : (TBase (scInm cfg) (balNcp cfg) (effCores cfg) s.a.k s.nxt ∧
      TPos (balNcp cfg) cfg.n k0 c s.a.k s.nxt) ∧ ∀ i, s.a.k ≤ i → s.a.aff i = []) :
    CtlP (fun s => (TBase (scInm cfg) (balNcp cfg) (effCores cfg) s.a.k s.nxt ∧
            TPos (balNcp cfg) cfg.n k0 (c + 1) s.a.k s.nxt) ∧ ∀ i, s.a.k ≤ i → s.a.aff i = [])
      (fun s => TBase (scInm cfg) (balNcp cfg) (effCores cfg) s.a.k s.nxt ∧ s.a.k = cfg.n) False
      (scatterCore cfg c s) := by
  obtain ⟨⟨hb, hp⟩, hf⟩ := h
  have st := tbase_step hc hb
  obtain ⟨_, _, _, s4⟩ := scanPu_count (scInm cfg c) (balNcp cfg c) (s.nxt c)
  unfold scatterCore
  unfold scInm balNcp at st s4
  simp only [hf s.a.k (Nat.le_refl _), ne_eq, not_true_eq_false, ↓reduceIte]
  generalize scanPu (fun p => inMask cfg c p) (corePus cfg.t c) (s.nxt c) = r at st s4
  obtain ⟨j, u⟩ := r
  cases u with
  | false =>
    simp only [Bool.not_false, ↓reduceIte, CtlP]
    simp only [Bool.false_eq_true, ↓reduceIte, Nat.add_zero] at st
    exact ⟨⟨st, tpos_step_none hp (s4 rfl)⟩, hf⟩
  | true =>
    simp only [Bool.not_true, Bool.false_eq_true, ↓reduceIte, upd_same, assign,
      hf s.a.k (Nat.le_refl _), ne_eq, not_true_eq_false]
    simp only [↓reduceIte] at st
    by_cases hn : s.a.k + 1 = cfg.n
    · simp only [hn, ↓reduceIte, CtlP]
      rw [hn] at st
      exact ⟨st, trivial⟩
    · simp only [hn, ↓reduceIte, CtlP]
      refine ⟨⟨st, tpos_step_some hp hn⟩, ?_⟩
      intro i hi
      have : i ≠ s.a.k := by omega
      simp only [upd, this, ↓reduceIte]
      exact hf i (by omega)

theorem scatterPass_term (cfg : Cfg) (s : SSt)
    (hb : TBase (scInm cfg) (balNcp cfg) (effCores cfg) s.a.k s.nxt) (hk : s.a.k < cfg.n)
    (hf : ∀ i, s.a.k ≤ i → s.a.aff i = []) :
    CtlP (fun s' => (TBase (scInm cfg) (balNcp cfg) (effCores cfg) s'.a.k s'.nxt ∧
            TPos (balNcp cfg) cfg.n s.a.k (effCores cfg) s'.a.k s'.nxt) ∧
            ∀ i, s'.a.k ≤ i → s'.a.aff i = [])
      (fun s' => TBase (scInm cfg) (balNcp cfg) (effCores cfg) s'.a.k s'.nxt ∧ s'.a.k = cfg.n)
      False (scatterPass cfg s) := by
  unfold scatterPass
  exact forRange_inv (scatterCore cfg)
    (fun c s' => (TBase (scInm cfg) (balNcp cfg) (effCores cfg) s'.a.k s'.nxt ∧
      TPos (balNcp cfg) cfg.n s.a.k c s'.a.k s'.nxt) ∧ ∀ i, s'.a.k ≤ i → s'.a.aff i = []) _ False
    (effCores cfg) s
    (fun c s' hc hs => scatterCore_term cfg s.a.k hc s' hs)
    ⟨⟨hb, hk, Nat.le_refl _, fun _ _ h => absurd h (Nat.not_lt_zero _)⟩, hf⟩

theorem scatterLoop_terminates (cfg : Cfg) (hg : cfg.n ≤ usable cfg) : ∀ (f : Nat) (s : SSt),
    TBase (scInm cfg) (balNcp cfg) (effCores cfg) s.a.k s.nxt → s.a.k < cfg.n →
    (∀ i, s.a.k ≤ i → s.a.aff i = []) → cfg.n ≤ f + s.a.k →
    ∃ aff pn, scatterLoop cfg f s = .ok aff pn := by
  intro f
  induction f with
  | zero => intro s _ h1 _ h2; omega
  | succ f ih =>
    intro s hb hk hfr hf
    simp only [scatterLoop]
    have hp := scatterPass_term cfg s hb hk hfr
    cases hr : scatterPass cfg s with
    | fin s' => exact ⟨_, _, rfl⟩
    | err => rw [hr] at hp; exact hp.elim
    | run s' =>
      rw [hr] at hp
      obtain ⟨⟨hb', hp'⟩, hfr'⟩ := hp
      simp only
      by_cases he : s'.a.k = s.a.k
      · have := stuck_total hb' hp' he
        have := hp'.lt
        unfold usable at hg
        omega
      · simp only [he, ↓reduceIte]
        have := hp'.mono
        exact ih s' hb' hp'.lt hfr' (by omega)

theorem scatterLoop_diverges (cfg : Cfg) (hg : usable cfg < cfg.n) : ∀ (f : Nat) (s : SSt),
    TBase (scInm cfg) (balNcp cfg) (effCores cfg) s.a.k s.nxt → s.a.k < cfg.n →
    (∀ i, s.a.k ≤ i → s.a.aff i = []) → scatterLoop cfg f s = .diverge := by
  intro f
  induction f with
  | zero => intro s _ _ _; rfl
  | succ f ih =>
    intro s hb hk hfr
    simp only [scatterLoop]
    have hp := scatterPass_term cfg s hb hk hfr
    cases hr : scatterPass cfg s with
    | fin s' =>
      rw [hr] at hp
      have := hp.1.le_total
      unfold usable at hg
      have := hp.2
      omega
    | err => rw [hr] at hp; exact hp.elim
    | run s' =>
      rw [hr] at hp
      simp only
      split
      · rfl
      · exact ih s' hp.1.1 hp.1.2.lt hp.2

/-! ## `usable` in terms of the machine and the mask -/

theorem cntTo_add_core (cfg : Cfg) {c : Nat} (hc : c < cfg.t.nc) : ∀ j, j ≤ cfg.t.pus c →
    cntTo cfg (base cfg.t c + j) = cntTo cfg (base cfg.t c) + cntB (fun p => inMask cfg c p) j := by
  intro j
  induction j with
  | zero => intro _; simp [cntB]
  | succ k ih =>
    intro hk
    have := ih (by omega)
    rw [← Nat.add_assoc, cntTo_succ, this, cntB_succ, inMask_eq cfg hc (by omega)]
    omega

/-- the usable PUs of the first `m` cores -/
theorem total_eq_cntTo (cfg : Cfg) : ∀ m, m ≤ cfg.t.nc →
    total (scInm cfg) (balNcp cfg) m = cntTo cfg (base cfg.t m) := by
  intro m
  induction m with
  | zero => intro _; rfl
  | succ k ih =>
    intro hk
    have hc : k < cfg.t.nc := by omega
    unfold total at ih ⊢
    rw [sumTo_succ, ih (by omega), base_succ, cntTo_add_core cfg hc _ (Nat.le_refl _)]
    simp [balNcp, corePus_eq cfg.t hc]
    rfl

theorem usable_eq (cfg : Cfg) : usable cfg = cntTo cfg (base cfg.t (effCores cfg)) :=
  total_eq_cntTo cfg _ (effCores_le cfg)

/-- with the process mask in use the decoders see every PU of the mask -/
theorem usable_mask (cfg : Cfg) (h : cfg.usePm = true) : usable cfg = countMask cfg := by
  rw [usable_eq]
  have : effCores cfg = cfg.t.nc := by simp [effCores, h]
  rw [this]
  exact cntTo_mask cfg h

/-- with the mask ignored they see the PUs of the first `min(max_cores, #cores)` cores -/
theorem usable_nomask (cfg : Cfg) (h : cfg.usePm = false) :
    usable cfg = base cfg.t (min cfg.maxCores cfg.t.nc) := by
  rw [usable_eq, cntTo_all cfg h]
  simp [effCores, h]

theorem scatter_init_TBase (cfg : Cfg) :
    TBase (scInm cfg) (balNcp cfg) (effCores cfg) ASt.init.k (fun _ => 0) :=
  init_TBase _ _ _

theorem usable_enough (cfg : Cfg) (hwf : WF cfg.t)
    (hc : cfg.usePm = true ∨ cfg.n ≤ cfg.maxCores) (hn : cfg.n ≤ avail cfg) :
    cfg.n ≤ usable cfg := by
  rw [usable_eq]; exact enough cfg hwf hc hn

end PikaVerif.Aff
