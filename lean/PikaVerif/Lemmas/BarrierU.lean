import PikaVerif.Lemmas.Barrier6
/-!
# Termination measure of the coarse barrier model (C09u)

The coarse model `PikaVerif.Barrier` accepts one **stutter**: `poll t tok seen` with
`seen = tok` (an iteration of the wait loop that finds the phase byte unchanged) leaves the state
exactly as it is (`stutter_id`), and can be repeated any number of times.

A second class of events does not make progress by itself: a **CAS miss** of the ticket search
(`cas … (.miss v)`, `cas2 … (.miss v)`: the node was full, `++current`).  A miss changes the state
(the cursor moves), so it is not a stutter, but the pc-rank cannot pay for it: the cursor is
cyclic.  The measure `mu B` below (`B` = any bound on `expected`)

* strictly decreases with every accepted event that is neither `inv`, a stutter, nor a miss,
* is unchanged by a `cas` miss and grows by at most `1` with a `cas2` miss
  (the `seen` that preceded it had paid `1`).
-/
namespace PikaVerif.Barrier
open PikaVerif

/-- the one stutter of the model: a poll that sees the byte of its own token -/
def isStutter : Ev → Bool
  | .poll _ tok seen => decide (seen = tok)
  | _ => false

/-- a failed ticket CAS that sends the search loop to the next node -/
def isMiss : Ev → Bool
  | .cas _ _ _ (.miss _) => true
  | .cas2 _ _ _ (.miss _) => true
  | _ => false

def isMiss2 : Ev → Bool
  | .cas2 _ _ _ (.miss _) => true
  | _ => false

def isInv : Ev → Bool
  | .inv _ _ => true
  | _ => false

/-- **The stutter leaves the state unchanged.** -/
theorem stutter_id (s s' : St) (e : Ev) (hst : isStutter e = true) (h : step s e = some s') : s' = s := by
  cases e <;> simp only [isStutter, decide_eq_true_eq, Bool.false_eq_true] at hst
  case poll t tok seen =>
    subst hst
    simp only [step] at h
    split at h
    · rename_i hg
      simp only [Option.some.injEq, if_true] at h
      subst h
      have : upd s.pc t .polling = s.pc := by
        funext u; simp only [upd]; split
        · rename_i hu; subst hu; exact hg.2.1.symm
        · rfl
      rw [this]
    · simp at h

/-- cost of one call of `base.arrive` when `expected ≤ B`: `start`, at most `3` events per round
    with `m` going `B → ⌈B/2⌉ → … → 1`, `last`, `compl`, `publish` -/
def cc (B : Nat) : Nat := 3 * B + 8

/-- rank of a program counter -/
def rank (B : Nat) : Pc → Nat
  | .fin => 0
  | .idle => 1
  | .retn => 2
  | .polling => 3
  | .arr u => u * cc B + 3
  | .want u => u * cc B + 4
  | .wantDrop => cc B + 5
  | .try u _ _ m => u * cc B + 3 * m + 7
  | .try2 u _ _ m => u * cc B + 3 * m + 6 + (if 1 < m then 0 else 5)
  | .won u _ => u * cc B + 6
  | .pub u _ => u * cc B + 5

/-- potential of an operation not yet started -/
def opRank (B : Nat) : Op → Nat
  | .arrive u => u * cc B + 4
  | .aw => cc B + 4
  | .drop => cc B + 5
  | .wait => 3

/-- the measure -/
def mu (B : Nat) (s : St) : Nat := sumTo s.n (fun t => rank B (s.pc t))

theorem rank_afterCall (B : Nat) (aw : Bool) (u : Nat) : rank B (afterCall aw u) ≤ u * cc B + 3 := by
  unfold afterCall
  split
  · split <;> simp [rank]
  · simp [rank]

theorem step_expected_le (s s' : St) (e : Ev) (h : step s e = some s') : s'.expected ≤ s.expected := by
  cases e <;> simp only [step] at h <;> (repeat' split at h) <;>
    first | (simp at h; done) | (simp only [Option.some.injEq] at h; subst h; simp)

theorem step_n (s s' : St) (e : Ev) (h : step s e = some s') : s'.n = s.n := by
  cases e <;> simp only [step] at h <;> (repeat' split at h) <;>
    first | (simp at h; done) | (simp only [Option.some.injEq] at h; subst h; rfl)

end PikaVerif.Barrier
