import PikaVerif.Lemmas.DequeTag
/-! Solo runs of the deque model (follow-up C17t): a thread that takes steps alone finishes its
operation within a fixed number of its own events.  The runs are constructed explicitly, phase by
phase (`SoloRun`): anchor load, helping stabilisation of an anchor another thread left unstable,
the operation proper on the stable anchor, the stabilisation of the thread's own push. -/
namespace PikaVerif.Deque
open PikaVerif

/-! ## Two frame facts about every step -/

theorem step_n {fx : Bool} {s s' : St} {e : Ev} (h : stepG fx s e = some s') : s'.n = s.n := by
  cases e <;> simp only [stepG] at h <;> (repeat' split at h) <;>
    first
    | (simp at h; done)
    | (simp only [Option.some.injEq] at h; subst h; rfl)

theorem run_n {fx : Bool} {log : List Ev} {s0 s : St} (h : runLog (stepG fx) s0 log = some s) :
    s.n = s0.n :=
  inv_of_runLog (fun s => s.n = s0.n) (fun _ _ _ hs hst => (step_n hst).trans hs) rfl h

/-- only finitely many node identities are allocated -/
def FinUsed (s : St) : Prop := ∃ M, ∀ x, M ≤ x → s.used x = false

theorem step_used_shape {fx : Bool} {s s' : St} {e : Ev} (h : stepG fx s e = some s') :
    s'.used = s.used ∨ ∃ n b, s'.used = upd s.used n b := by
  cases e <;> simp only [stepG] at h <;> (repeat' split at h) <;>
    first
    | (simp at h; done)
    | (simp only [Option.some.injEq] at h; subst h; first | exact Or.inl rfl | exact Or.inr ⟨_, _, rfl⟩)

theorem step_finUsed {fx : Bool} {s s' : St} {e : Ev} (hf : FinUsed s) (h : stepG fx s e = some s') :
    FinUsed s' := by
  obtain ⟨M, hM⟩ := hf
  rcases step_used_shape h with hu | ⟨n, b, hu⟩
  · exact ⟨M, fun x hx => by rw [hu]; exact hM x hx⟩
  · refine ⟨max M (n + 1), fun x hx => ?_⟩
    have h1 : M ≤ x := by omega
    have h2 : x ≠ n := by omega
    rw [hu]; simp [upd, h2, hM x h1]

theorem finUsed_of_accepted {fx : Bool} {n : Nat} {log : List Ev} {s : St}
    (h : runLog (stepG fx) (init n) log = some s) : FinUsed s :=
  inv_of_runLog FinUsed (fun _ _ _ hf hs => step_finUsed hf hs) ⟨0, fun _ _ => rfl⟩ h

/-- the freelist can always hand out a node: some non-null identity is not allocated -/
theorem FinUsed.fresh {s : St} (hf : FinUsed s) : ∃ x, x ≠ 0 ∧ s.used x = false := by
  obtain ⟨M, hM⟩ := hf
  exact ⟨M + 1, by omega, hM _ (by omega)⟩

/-! ## Solo runs -/

/-- thread `t` alone can take at most `B` steps from `s` and reach a state satisfying `P` -/
def SoloRun (fx : Bool) (t B : Nat) (s : St) (P : St → Prop) : Prop :=
  ∃ evs : List Ev, evs.length ≤ B ∧ (∀ e ∈ evs, Ev.tid e = t) ∧
    ∃ s', runLog (stepG fx) s evs = some s' ∧ P s'

def After (o : Option St) (P : St → Prop) : Prop := ∃ s', o = some s' ∧ P s'

@[simp] theorem after_some (s : St) (P : St → Prop) : After (some s) P ↔ P s := by
  simp [After]
@[simp] theorem after_none (P : St → Prop) : After none P ↔ False := by
  simp [After]

theorem SoloRun.intro {fx : Bool} {t B : Nat} {s : St} {P : St → Prop} (evs : List Ev)
    (hl : evs.length ≤ B) (ht : ∀ e ∈ evs, Ev.tid e = t) (h : After (runLog (stepG fx) s evs) P) :
    SoloRun fx t B s P :=
  ⟨evs, hl, ht, h⟩

theorem SoloRun.bind {fx : Bool} {t B1 B2 : Nat} {s : St} {P Q : St → Prop}
    (h1 : SoloRun fx t B1 s P) (h2 : ∀ s', P s' → SoloRun fx t B2 s' Q) :
    SoloRun fx t (B1 + B2) s Q := by
  obtain ⟨e1, l1, t1, s1, r1, p1⟩ := h1
  obtain ⟨e2, l2, t2, s2, r2, p2⟩ := h2 s1 p1
  refine ⟨e1 ++ e2, by simp; omega, ?_, s2, ?_, p2⟩
  · intro e he
    rcases List.mem_append.1 he with h | h
    · exact t1 e h
    · exact t2 e h
  · rw [runLog_append, r1]; exact r2

theorem SoloRun.mono {fx : Bool} {t B B' : Nat} {s : St} {P Q : St → Prop}
    (h : SoloRun fx t B s P) (hb : B ≤ B') (hq : ∀ s', P s' → Q s') : SoloRun fx t B' s Q := by
  obtain ⟨e1, l1, t1, s1, r1, p1⟩ := h
  exact ⟨e1, by omega, t1, s1, r1, hq s1 p1⟩

/-- what a solo run of `t` never changes: the number of threads, the other threads' program
    counters, the value stored in a node (outside `alloc_node`) -/
structure Keep (t : Nat) (s s' : St) : Prop where
  n : s'.n = s.n
  others : ∀ u, u ≠ t → s'.pc u = s.pc u
  data : ∀ x, (s'.nodes x).data = (s.nodes x).data

theorem Keep.refl (t : Nat) (s : St) : Keep t s s := ⟨rfl, fun _ _ => rfl, fun _ => rfl⟩

theorem Keep.trans {t : Nat} {s s1 s2 : St} (h1 : Keep t s s1) (h2 : Keep t s1 s2) : Keep t s s2 :=
  ⟨h2.n.trans h1.n, fun u hu => (h2.others u hu).trans (h1.others u hu),
   fun x => (h2.data x).trans (h1.data x)⟩

/-- history part of the state unchanged -/
def SameHist (s s' : St) : Prop :=
  s'.chain = s.chain ∧ s'.pushed = s.pushed ∧ s'.popped = s.popped

/-! ## Phase: `stabilize(lrs)` run alone on the current anchor (6 events at most) -/

theorem solo_stab {fx : Bool} (s : St) (t : Nat) (k : Kont) (d : Bool) (ht : t < s.n)
    (hpc : s.pc t = .stRd1 k d s.anchor)
    (hprev : (inward d (s.nodes (s.anchor.endp d))).ptr ≠ 0) :
    SoloRun fx t 6 s (fun s' => s'.pc t = kont k ∧
      s'.anchor = ⟨s.anchor.l, s.anchor.r, 0, s.anchor.tag + 1⟩ ∧ Keep t s s' ∧ SameHist s s') := by
  by_cases hl : (outward d (s.nodes (inward d (s.nodes (s.anchor.endp d))).ptr)).ptr = s.anchor.endp d
  · refine SoloRun.intro
      [.rd t (inward d (s.nodes (s.anchor.endp d))), .chk t true,
       .rd t (outward d (s.nodes (inward d (s.nodes (s.anchor.endp d))).ptr)), .cas t true]
      (by simp) (by simp [Ev.tid]) ?_
    simp [runLog, stepG, ht, hpc, hprev, hl, SameHist]
    refine ⟨rfl, fun u hu => by simp [upd, hu], fun _ => rfl⟩
  · refine SoloRun.intro
      [.rd t (inward d (s.nodes (s.anchor.endp d))), .chk t true,
       .rd t (outward d (s.nodes (inward d (s.nodes (s.anchor.endp d))).ptr)), .chk t true,
       .lcas t true, .cas t true]
      (by simp) (by simp [Ev.tid]) ?_
    simp [runLog, stepG, ht, hpc, hprev, hl, SameHist]
    refine ⟨rfl, fun u hu => by simp [upd, hu], fun x => ?_⟩
    simp only [upd]
    split
    · next h => simp [h]
    · rfl

theorem endp_stab (a : Anchor) (d : Bool) :
    (⟨a.l, a.r, 0, a.tag + 1⟩ : Anchor).endp d = a.endp d := by
  cases d <;> rfl

/-- the node a stabilisation starts from names a real neighbour -/
theorem Glob.stab_prev_ne_zero {A : Anchor} {C : List Nat} {N : Nat → Node} {U : Nat → Bool}
    (g : Glob A C N U) (h : A.st ≠ 0) :
    (inward (stabSide A) (N (A.endp (stabSide A)))).ptr ≠ 0 := by
  have hs := g.st_cases h
  have hn := g.nbr_inward (stabSide A) (g.ends_ne_of_st h) (Or.inr hs)
  exact (g.mem _ (nbr_mem hn).2).1

/-! ## Phase: a pop on a stable (or one-element) non-empty anchor (5 events at most) -/

theorem solo_pop_stable {fx : Bool} (s : St) (t : Nat) (d : Bool) (ht : t < s.n)
    (hpc : s.pc t = .popLd d) (h0 : s.anchor.endp d ≠ 0)
    (hst : s.anchor.l = s.anchor.r ∨ s.anchor.st = 0) :
    SoloRun fx t 5 s (fun s' => s'.pc t = .retn true (s.nodes (s.anchor.endp d)).data ∧
      Keep t s s' ∧ s'.chain = chainPop d s.chain ∧ s'.pushed = s.pushed ∧
      s'.popped = (s.nodes (s.anchor.endp d)).data :: s.popped) := by
  by_cases hlr : s.anchor.l = s.anchor.r
  · refine SoloRun.intro [.ld t s.anchor, .cas t true, .free t (s.anchor.endp d)]
      (by simp) (by simp [Ev.tid]) ?_
    simp [runLog, stepG, ht, hpc, h0, hlr]
    exact ⟨rfl, fun u hu => by simp [upd, hu], fun _ => rfl⟩
  · have hs0 : s.anchor.st = 0 := by rcases hst with h | h; exact absurd h hlr; exact h
    refine SoloRun.intro [.ld t s.anchor, .chk t true,
        .rd t (inward d (s.nodes (s.anchor.endp d))), .cas t true, .free t (s.anchor.endp d)]
      (by simp) (by simp [Ev.tid]) ?_
    simp [runLog, stepG, ht, hpc, h0, hlr, hs0]
    exact ⟨rfl, fun u hu => by simp [upd, hu], fun _ => rfl⟩

/-- a pop that finds its end pointer null answers "empty" after one event -/
theorem solo_pop_empty {fx : Bool} (s : St) (t : Nat) (d : Bool) (ht : t < s.n)
    (hpc : s.pc t = .popLd d) (h0 : s.anchor.endp d = 0) :
    SoloRun fx t 1 s (fun s' => s'.pc t = .retn false 0 ∧ Keep t s s' ∧ SameHist s s') := by
  refine SoloRun.intro [.ld t s.anchor] (by simp) (by simp [Ev.tid]) ?_
  simp [runLog, stepG, ht, hpc, h0, SameHist]
  exact ⟨rfl, fun u hu => by simp [upd, hu], fun _ => rfl⟩

/-- **pop, any anchor**: alone, a pop on a non-empty deque reaches its `return true` within 12
    events (anchor load, helping stabilisation of an unstable anchor another thread left behind,
    reload, pop proper, free), and the value is the one stored in the end node. -/
theorem solo_pop_nonempty {fx : Bool} (s : St) (t : Nat) (d : Bool) (ht : t < s.n)
    (hg : Glob s.anchor s.chain s.nodes s.used)
    (hpc : s.pc t = .popLd d) (h0 : s.anchor.endp d ≠ 0) :
    SoloRun fx t 12 s (fun s' => s'.pc t = .retn true (s.nodes (s.anchor.endp d)).data ∧
      Keep t s s' ∧ s'.chain = chainPop d s.chain ∧ s'.pushed = s.pushed ∧
      s'.popped = (s.nodes (s.anchor.endp d)).data :: s.popped) := by
  by_cases hst : s.anchor.l = s.anchor.r ∨ s.anchor.st = 0
  · exact (solo_pop_stable s t d ht hpc h0 hst).mono (by omega) (fun _ h => h)
  · have hlr : s.anchor.l ≠ s.anchor.r := fun h => hst (Or.inl h)
    have hs0 : s.anchor.st ≠ 0 := fun h => hst (Or.inr h)
    have hprev := hg.stab_prev_ne_zero hs0
    -- the load finds the anchor unstable: help
    have r1 : SoloRun fx t 1 s (fun s1 => s1.pc t = .stRd1 (.popLoop d) (stabSide s.anchor) s.anchor ∧
        s1.anchor = s.anchor ∧ s1.nodes = s.nodes ∧ Keep t s s1 ∧ SameHist s s1) := by
      refine SoloRun.intro [.ld t s.anchor] (by simp) (by simp [Ev.tid]) ?_
      simp [runLog, stepG, ht, hpc, h0, hlr, hs0, SameHist]
      exact ⟨rfl, fun u hu => by simp [upd, hu], fun _ => rfl⟩
    have r2 := r1.bind (B2 := 6 + 5) (Q := fun s' => s'.pc t = .retn true (s.nodes (s.anchor.endp d)).data ∧
      Keep t s s' ∧ s'.chain = chainPop d s.chain ∧ s'.pushed = s.pushed ∧
      s'.popped = (s.nodes (s.anchor.endp d)).data :: s.popped) (by
      rintro s1 ⟨p1, a1, n1, k1, c1, pu1, po1⟩
      have := solo_stab (fx := fx) s1 t (.popLoop d) (stabSide s.anchor) (by rw [k1.n]; exact ht)
        (by rw [p1, a1]) (by rw [a1, n1]; exact hprev)
      refine this.bind ?_
      rintro s2 ⟨p2, a2, k2, c2, pu2, po2⟩
      have e2 : s2.anchor.endp d = s.anchor.endp d := by rw [a2, endp_stab, a1]
      have := solo_pop_stable (fx := fx) s2 t d (by rw [k2.n, k1.n]; exact ht) (by simpa [kont] using p2)
        (by rw [e2]; exact h0) (Or.inr (by rw [a2]))
      refine this.mono (Nat.le_refl _) ?_
      rintro s3 ⟨p3, k3, c3, pu3, po3⟩
      have kk := (k1.trans k2)
      have hd : (s2.nodes (s.anchor.endp d)).data = (s.nodes (s.anchor.endp d)).data := kk.data _
      rw [e2, hd] at p3 po3
      exact ⟨p3, kk.trans k3, by rw [c3, c2, c1], by rw [pu3, pu2, pu1], by rw [po3, po2, po1]⟩)
    exact r2.mono (by omega) (fun _ h => h)

/-! ## Phase: a push on an empty deque (2 events), on a stable anchor (3 + 6 events) -/

theorem solo_push_empty {fx : Bool} (s : St) (t : Nat) (d : Bool) (n : Nat) (ht : t < s.n)
    (hpc : s.pc t = .pushLd d n) (h0 : s.anchor.endp d = 0) :
    SoloRun fx t 2 s (fun s' => s'.pc t = .retn true 0 ∧ Keep t s s' ∧
      s'.chain = chainPush d s.chain n ∧ s'.pushed = (s.nodes n).data :: s.pushed ∧
      s'.popped = s.popped) := by
  refine SoloRun.intro [.ld t s.anchor, .cas t true] (by simp) (by simp [Ev.tid]) ?_
  simp [runLog, stepG, ht, hpc, h0]
  exact ⟨rfl, fun u hu => by simp [upd, hu], fun _ => rfl⟩

theorem solo_push_stable {fx : Bool} (s : St) (t : Nat) (d : Bool) (n : Nat) (ht : t < s.n)
    (hpc : s.pc t = .pushLd d n) (h0 : s.anchor.endp d ≠ 0) (hs0 : s.anchor.st = 0) :
    SoloRun fx t 9 s (fun s' => s'.pc t = .retn true 0 ∧ Keep t s s' ∧
      s'.chain = chainPush d s.chain n ∧ s'.pushed = (s.nodes n).data :: s.pushed ∧
      s'.popped = s.popped) := by
  -- load, inward link store, anchor CAS: the anchor is now unstable, by this thread
  have r1 : SoloRun fx t 3 s (fun s1 => t < s1.n ∧ s1.pc t = .stRd1 .pushDone d s1.anchor ∧
      (inward d (s1.nodes (s1.anchor.endp d))).ptr ≠ 0 ∧ Keep t s s1 ∧
      s1.chain = chainPush d s.chain n ∧ s1.pushed = (s.nodes n).data :: s.pushed ∧
      s1.popped = s.popped) := by
    refine SoloRun.intro [.ld t s.anchor, .link t n (s.anchor.endp d), .cas t true]
      (by simp) (by simp [Ev.tid]) ?_
    simp [runLog, stepG, ht, hpc, h0, hs0]
    refine ⟨?_, rfl, fun u hu => by simp [upd, hu], fun x => ?_⟩
    · cases d <;> simp [Anchor.endp, upd, inward, setInward] <;> simpa [Anchor.endp] using h0
    · simp only [upd]; split
      · next h => simp [h]
      · rfl
  have r2 := r1.bind (B2 := 6) (Q := fun s' => s'.pc t = .retn true 0 ∧ Keep t s s' ∧
      s'.chain = chainPush d s.chain n ∧ s'.pushed = (s.nodes n).data :: s.pushed ∧
      s'.popped = s.popped) (by
    rintro s1 ⟨t1, p1, hp1, k1, c1, pu1, po1⟩
    refine (solo_stab (fx := fx) s1 t .pushDone d t1 p1 hp1).mono (Nat.le_refl _) ?_
    rintro s2 ⟨p2, _, k2, c2, pu2, po2⟩
    exact ⟨by simpa [kont] using p2, k1.trans k2, by rw [c2, c1], by rw [pu2, pu1], by rw [po2, po1]⟩)
  exact r2.mono (by omega) (fun _ h => h)

/-- **push, any anchor**: alone, a push that owns its node reaches `return true` within 16 events
    (anchor load, helping stabilisation, reload, link store, anchor CAS, own stabilisation). -/
theorem solo_push_any {fx : Bool} (s : St) (t : Nat) (d : Bool) (n : Nat) (ht : t < s.n)
    (hg : Glob s.anchor s.chain s.nodes s.used)
    (hpc : s.pc t = .pushLd d n) :
    SoloRun fx t 16 s (fun s' => s'.pc t = .retn true 0 ∧ Keep t s s' ∧
      s'.chain = chainPush d s.chain n ∧ s'.pushed = (s.nodes n).data :: s.pushed ∧
      s'.popped = s.popped) := by
  by_cases h0 : s.anchor.endp d = 0
  · exact (solo_push_empty s t d n ht hpc h0).mono (by omega) (fun _ h => h)
  by_cases hs0 : s.anchor.st = 0
  · exact (solo_push_stable s t d n ht hpc h0 hs0).mono (by omega) (fun _ h => h)
  have hprev := hg.stab_prev_ne_zero hs0
  have r1 : SoloRun fx t 1 s (fun s1 => s1.pc t = .stRd1 (.pushLoop d n) (stabSide s.anchor) s.anchor ∧
      s1.anchor = s.anchor ∧ s1.nodes = s.nodes ∧ Keep t s s1 ∧ SameHist s s1) := by
    refine SoloRun.intro [.ld t s.anchor] (by simp) (by simp [Ev.tid]) ?_
    simp [runLog, stepG, ht, hpc, h0, hs0, SameHist]
    exact ⟨rfl, fun u hu => by simp [upd, hu], fun _ => rfl⟩
  have r2 := r1.bind (B2 := 6 + 9) (Q := fun s' => s'.pc t = .retn true 0 ∧ Keep t s s' ∧
      s'.chain = chainPush d s.chain n ∧ s'.pushed = (s.nodes n).data :: s.pushed ∧
      s'.popped = s.popped) (by
    rintro s1 ⟨p1, a1, n1, k1, c1, pu1, po1⟩
    have := solo_stab (fx := fx) s1 t (.pushLoop d n) (stabSide s.anchor) (by rw [k1.n]; exact ht)
      (by rw [p1, a1]) (by rw [a1, n1]; exact hprev)
    refine this.bind ?_
    rintro s2 ⟨p2, a2, k2, c2, pu2, po2⟩
    have e2 : s2.anchor.endp d = s.anchor.endp d := by rw [a2, endp_stab, a1]
    have := solo_push_stable (fx := fx) s2 t d n (by rw [k2.n, k1.n]; exact ht) (by simpa [kont] using p2)
      (by rw [e2]; exact h0) (by rw [a2])
    refine this.mono (Nat.le_refl _) ?_
    rintro s3 ⟨p3, k3, c3, pu3, po3⟩
    have kk := (k1.trans k2)
    have hd : (s2.nodes n).data = (s.nodes n).data := kk.data _
    rw [hd] at pu3
    exact ⟨p3, kk.trans k3, by rw [c3, c2, c1], by rw [pu3, pu2, pu1], by rw [po3, po2, po1]⟩)
  exact r2.mono (by omega) (fun _ h => h)

/-! ## Whole operations, from `idle` to `idle` -/

theorem Glob.map_pop {A : Anchor} {C : List Nat} {N : Nat → Node} {U : Nat → Bool}
    (g : Glob A C N U) (d : Bool) (h0 : A.endp d ≠ 0) (f : Nat → Nat) :
    C.map f = if d then (chainPop d C).map f ++ [f (A.endp d)]
              else f (A.endp d) :: (chainPop d C).map f := by
  have hm := g.end_mem d h0
  have hne : C ≠ [] := by intro hc; rw [hc] at hm; simp at hm
  cases d
  · have h1 := g.head_eq hne
    cases C with
    | nil => exact absurd rfl hne
    | cons x l => simp at h1; simp [chainPop, Anchor.endp, h1]
  · have h2 := dropLast_split C A.r (g.last_eq hne)
    simp only [chainPop, Anchor.endp, if_true]
    conv => lhs; rw [h2]
    simp

theorem contents_congr {s s' : St} (hd : ∀ x, (s'.nodes x).data = (s.nodes x).data) (C : List Nat) :
    C.map (fun n => (s'.nodes n).data) = C.map (fun n => (s.nodes n).data) :=
  List.map_congr_left (fun x _ => hd x)

/-- A whole pop by `t` alone on a non-empty deque. -/
theorem solo_pop_op_nonempty {fx : Bool} (s : St) (t : Nat) (d : Bool) (x : Nat) (ht : t < s.n)
    (hg : Glob s.anchor s.chain s.nodes s.used) (hidle : s.pc t = .idle) (hne : s.chain ≠ []) :
    ∃ (mid : List Ev) (v : Nat) (s' : St), mid.length ≤ 12 ∧ (∀ e ∈ mid, Ev.tid e = t) ∧
      runLog (stepG fx) s (.inv t false d x :: mid ++ [.ret t true v]) = some s' ∧
      s'.pc t = .idle ∧ s'.n = s.n ∧ (∀ u, u ≠ t → s'.pc u = s.pc u) ∧
      contents s = (if d then contents s' ++ [v] else v :: contents s') ∧
      s'.popped = v :: s.popped ∧ s'.pushed = s.pushed := by
  have h0 : s.anchor.endp d ≠ 0 := fun h => hne (hg.nil_of_end d h)
  obtain ⟨mid, hl, htid, s1, hr, p1, k1, c1, pu1, po1⟩ :=
    solo_pop_nonempty (fx := fx) { s with pc := upd s.pc t (.popLd d) } t d ht hg (by simp) h0
  refine ⟨mid, (s.nodes (s.anchor.endp d)).data, { s1 with pc := upd s1.pc t .idle }, hl, htid, ?_,
    by simp, k1.n, ?_, ?_, po1, pu1⟩
  · have ht1 : t < s1.n := by rw [k1.n]; exact ht
    have hr' : runLog (stepG fx) { s with pc := upd s.pc t (.popLd d) } mid = some s1 := hr
    simp [runLog, stepG, ht, hidle, runLog_append, hr']
    simp at p1
    simp [ht1, p1]
  · intro u hu
    have := k1.others u hu
    simp [upd, hu] at this ⊢
    exact this
  · have hd : ∀ y, (s1.nodes y).data = (s.nodes y).data := k1.data
    have := hg.map_pop d h0 (fun n => (s.nodes n).data)
    simp only [contents]
    rw [this]
    have hc : s1.chain = chainPop d s.chain := c1
    simp only [hc, contents_congr hd]

/-- A whole pop by `t` alone on an empty deque: three events, the answer is "empty". -/
theorem solo_pop_op_empty {fx : Bool} (s : St) (t : Nat) (d : Bool) (x : Nat) (ht : t < s.n)
    (hg : Glob s.anchor s.chain s.nodes s.used) (hidle : s.pc t = .idle) (he : s.chain = []) :
    ∃ s' : St, runLog (stepG fx) s [.inv t false d x, .ld t s.anchor, .ret t false 0] = some s' ∧
      s'.pc t = .idle ∧ s'.n = s.n ∧ (∀ u, u ≠ t → s'.pc u = s.pc u) ∧
      contents s' = [] ∧ s'.popped = s.popped ∧ s'.pushed = s.pushed := by
  have h0 : s.anchor.endp d = 0 := by
    have h1 := hg.hd; have h2 := hg.lst
    rw [he] at h1 h2
    cases d <;> simp [Anchor.endp] <;> simpa using ‹_›
  simp [runLog, stepG, ht, hidle, h0, contents, he]
  intro u hu
  simp [upd, hu]

/-- A whole push by `t` alone. -/
theorem solo_push_op {fx : Bool} (s : St) (t : Nat) (d : Bool) (v : Nat) (ht : t < s.n)
    (hg : Glob s.anchor s.chain s.nodes s.used) (hf : FinUsed s) (hidle : s.pc t = .idle) :
    ∃ (mid : List Ev) (s' : St), mid.length ≤ 17 ∧ (∀ e ∈ mid, Ev.tid e = t) ∧
      runLog (stepG fx) s (.inv t true d v :: mid ++ [.ret t true 0]) = some s' ∧
      s'.pc t = .idle ∧ s'.n = s.n ∧ (∀ u, u ≠ t → s'.pc u = s.pc u) ∧
      contents s' = (if d then contents s ++ [v] else v :: contents s) ∧
      s'.pushed = v :: s.pushed ∧ s'.popped = s.popped := by
  obtain ⟨nd, hnd0, hndu⟩ := hf.fresh
  have hnc : nd ∉ s.chain := fun hm => by
    have := (hg.mem nd hm).2; rw [hndu] at this; exact Bool.noConfusion this
  let N0 : Nat → Node := upd s.nodes nd ⟨⟨0, newTag fx (s.nodes nd).left⟩, ⟨0, newTag fx (s.nodes nd).right⟩, v⟩
  let s0 : St := { s with nodes := N0, used := upd s.used nd true,
                          pc := upd (upd s.pc t (.pushAlloc d v)) t (.pushLd d nd) }
  have hN0 : ∀ y, y ∈ s.chain → N0 y = s.nodes y := fun y hy => by
    have : y ≠ nd := fun h => hnc (h ▸ hy)
    simp [N0, this]
  have hg0 : Glob s0.anchor s0.chain s0.nodes s0.used :=
    hg.frame hN0 (fun y hy => by
      have : y ≠ nd := fun h => hnc (h ▸ hy)
      simp [s0, upd, this, (hg.mem y hy).2])
  obtain ⟨mid, hl, htid, s1, hr, p1, k1, c1, pu1, po1⟩ :=
    solo_push_any (fx := fx) s0 t d nd ht hg0 (by simp [s0])
  refine ⟨.alloc t nd :: mid, { s1 with pc := upd s1.pc t .idle }, by simp; omega, ?_, ?_,
    by simp, k1.n, ?_, ?_, ?_, po1⟩
  · intro e he
    rcases List.mem_cons.1 he with h | h
    · rw [h]; rfl
    · exact htid e h
  · have ht1 : t < s1.n := by rw [k1.n]; exact ht
    have hr' : runLog (stepG fx) s0 mid = some s1 := hr
    simp [runLog, stepG, ht, hidle, hnd0, hndu]
    have : ({ s with nodes := upd s.nodes nd ⟨⟨0, newTag fx (s.nodes nd).left⟩, ⟨0, newTag fx (s.nodes nd).right⟩, v⟩,
                     used := upd s.used nd true,
                     pc := upd (upd s.pc t (.pushAlloc d v)) t (.pushLd d nd) } : St) = s0 := rfl
    rw [this, runLog_append, hr']
    simp [runLog, stepG, ht1, p1]
  · intro u hu
    have := k1.others u hu
    simp [s0, upd, hu] at this ⊢
    exact this
  · have hd : ∀ y, (s1.nodes y).data = (N0 y).data := k1.data
    have hc : s1.chain = chainPush d s.chain nd := c1
    have hnd : (N0 nd).data = v := by simp [N0]
    have hmap : s.chain.map (fun n => (s1.nodes n).data) = s.chain.map (fun n => (s.nodes n).data) :=
      List.map_congr_left (fun y hy => by rw [hd y, hN0 y hy])
    simp only [contents, hc]
    cases d
    · simp [chainPush, hd nd, hnd, hmap]
    · simp [chainPush, hd nd, hnd, hmap]
  · have : s1.pushed = (N0 nd).data :: s.pushed := pu1
    simp [this, N0]

/-- Whole solo operation, any tagging discipline, from the structural invariant: at most
    `soloBound push` events of `t` from `inv` to `ret`; the answer is `false` exactly for a pop
    on the empty deque. -/
theorem solo_bound_of_glob {fx : Bool} (s : St) (t : Nat) (ht : t < s.n)
    (hg : Glob s.anchor s.chain s.nodes s.used) (hf : FinUsed s) (hidle : s.pc t = .idle)
    (push d : Bool) (v : Nat) :
    ∃ (evs : List Ev) (ok : Bool) (r : Nat) (s' : St), evs.length ≤ soloBound push ∧
      (∀ e ∈ evs, Ev.tid e = t) ∧ evs.head? = some (.inv t push d v) ∧
      evs.getLast? = some (.ret t ok r) ∧ runLog (stepG fx) s evs = some s' ∧ s'.pc t = .idle ∧
      (∀ u, u ≠ t → s'.pc u = s.pc u) ∧ (ok = false ↔ (push = false ∧ contents s = [])) := by
  have key : ∀ (mid : List Ev) (ok : Bool) (r : Nat), mid.length + 2 ≤ soloBound push →
      (∀ e ∈ mid, Ev.tid e = t) →
      (Ev.inv t push d v :: mid ++ [Ev.ret t ok r]).length ≤ soloBound push ∧
      (∀ e ∈ (Ev.inv t push d v :: mid ++ [Ev.ret t ok r]), Ev.tid e = t) ∧
      (Ev.inv t push d v :: mid ++ [Ev.ret t ok r]).head? = some (.inv t push d v) ∧
      (Ev.inv t push d v :: mid ++ [Ev.ret t ok r]).getLast? = some (.ret t ok r) := by
    intro mid ok r hl hm
    refine ⟨by simp; omega, ?_, rfl, ?_⟩
    · intro e he
      simp only [List.cons_append, List.mem_cons, List.mem_append] at he
      rcases he with he | he | he | he
      · rw [he]; rfl
      · exact hm e he
      · rw [he]; rfl
      · cases he
    · have : Ev.inv t push d v :: mid ++ [Ev.ret t ok r] = (Ev.inv t push d v :: mid) ++ [Ev.ret t ok r] := rfl
      rw [this, List.getLast?_append]; simp
  cases push
  · by_cases he : s.chain = []
    · obtain ⟨s', h1, h2, _, h3, _⟩ := solo_pop_op_empty (fx := fx) s t d v ht hg hidle he
      obtain ⟨k1, k2, k3, k4⟩ := key [.ld t s.anchor] false 0 (by simp [soloBound]) (by simp [Ev.tid])
      exact ⟨_, false, 0, s', k1, k2, k3, k4, h1, h2, h3, by simp [contents, he]⟩
    · obtain ⟨mid, r, s', h1, h2, h3, h4, _, h5, _⟩ :=
        solo_pop_op_nonempty (fx := fx) s t d v ht hg hidle he
      obtain ⟨k1, k2, k3, k4⟩ := key mid true r (by simp [soloBound]; omega) h2
      exact ⟨_, true, r, s', k1, k2, k3, k4, h3, h4, h5, by simp [contents, he]⟩
  · obtain ⟨mid, s', h1, h2, h3, h4, _, h5, _⟩ := solo_push_op (fx := fx) s t d v ht hg hf hidle
    obtain ⟨k1, k2, k3, k4⟩ := key mid true 0 (by simp [soloBound]; omega) h2
    exact ⟨_, true, 0, s', k1, k2, k3, k4, h3, h4, h5, by simp⟩

/-- facts about the state after a concrete log, for instantiating the theorems -/
theorem idle_of_map {lg : List Ev} {s : St} (h : runLog stepF (init 2) lg = some s) {c : List Nat}
    (hm : (runLog stepF (init 2) lg).map (fun s => (s.pc 0, contents s)) = some (.idle, c)) :
    s.pc 0 = .idle ∧ contents s = c := by
  rw [h] at hm
  simpa using hm

end PikaVerif.Deque
