import PikaVerif.Lemmas.Shared3
import PikaVerif.Model.SharedLife
/-!
Lemmas for the ownership layer of the shared-state model (`Model/SharedLife.lean`).

Part 1 (namespace `Shared`): one more invariant of the protocol model (`XInv`: a consumer that has stored
its continuation and still holds the lock is queued) and the *coverage* relation `Cov` between the
protocol state and the set of live references, preserved by every protocol event.
Part 2 (namespace `SharedLife`): the invariant `LfInv` of the layered model and its preservation.
-/
namespace PikaVerif.Shared
open PikaVerif

/-- A consumer that has stored its continuation and still holds the lock is queued. -/
structure XInv (s : St) : Prop where
  pushedQ : ∀ t k, s.pc t = .pushed k → s.phase k = .queued

theorem xinv_init (kind : Kind) (ss : Bool) : XInv (init kind ss) := by
  constructor; simp [init]

attribute [local grind] cHolds isProd PStage.rank consOf begun sawDone

set_option hygiene false in
macro "shx_step" : tactic => `(tactic| (
  simp only [step] at h
  split at h
  case isFalse => simp at h
  rename_i hg
  repeat' split at h
  all_goals first | (simp at h; done) | skip
  all_goals (
    simp only [Option.some.injEq] at h
    subst h
    constructor <;> dsimp only)
  all_goals first
    | assumption
    | (intro u; grind [upd])
    | grind [upd, mem_push]))

theorem step_xinv (s s' : St) (e : Ev) (hf : Full s) (hx : XInv s) (h : step s e = some s') : XInv s' := by
  have i6 := hf.inv.pushedEarly
  have p1 := hf.pinv.consPhase
  obtain ⟨x1⟩ := hx
  clear hf
  cases e <;> shx_step

/-- Coverage of the threads inside the protocol by references: `O j` = consumer `j`'s operation state
    holds a reference, `R` = the predecessor's receiver holds one. -/
structure Cov (b : St) (O : Nat → Prop) (R : Prop) (sd rh : Bool) : Prop where
  consHold : ∀ t k, consOf (b.pc t) = some k → O k
  queuedHold : ∀ k, b.phase k = .queued → O k
  opsJust : ∀ k, O k → b.phase k = .active ∨ b.phase k = .queued ∨ (sd = false ∧ b.phase k = .got)
  rcvHold : rh = true → b.pst.rank < 6 → R
  rcvJust : R → b.pst = .none ∨ isProd (b.pc b.ptid) = true


set_option hygiene false in
macro "shc_step" : tactic => `(tactic| (
  simp only [step] at h
  split at h
  case isFalse => simp at h
  rename_i hg
  repeat' split at h
  all_goals first | (simp at h; done) | skip
  all_goals (
    simp only [Option.some.injEq] at h
    subst h
    constructor <;> dsimp only)
  all_goals first
    | assumption
    | (intro u; grind [upd])
    | grind [upd, mem_push]))

section
variable (s s' : St) (O : Nat → Prop) (R : Prop) (sd rh : Bool) (hc : Cov s O R sd rh)
include hc
theorem step_cov_tdone (t : Nat) (h : step s (.tdone t) = some s') : Cov s' O R sd rh := by
  obtain ⟨v1,v2,v3,v4,v5⟩ := hc; shc_step
theorem step_cov_ret (t : Nat) (hg : isProd (s.pc t) = true → ¬R) (h : step s (.ret t) = some s') : Cov s' O R sd rh := by
  obtain ⟨v1,v2,v3,v4,v5⟩ := hc; shc_step
theorem step_cov_slAcq (t : Nat) (h : step s (.slAcq t) = some s') : Cov s' O R sd rh := by
  obtain ⟨v1,v2,v3,v4,v5⟩ := hc; shc_step
theorem step_cov_invComplete (t : Nat) (c : Compl) (h : step s (.invComplete t c) = some s') : Cov s' O R sd rh := by
  obtain ⟨v1,v2,v3,v4,v5⟩ := hc; shc_step
theorem step_cov_fire (t : Nat) (c : Compl) (h : step s (.fire t c) = some s') : Cov s' O R sd rh := by
  obtain ⟨v1,v2,v3,v4,v5⟩ := hc; shc_step
theorem step_cov_seen1 (t : Nat) (b : Bool) (hg : isProd (s.pc t) = true → ¬R) (h : step s (.seen1 t b) = some s') : Cov s' O R sd rh := by
  obtain ⟨v1,v2,v3,v4,v5⟩ := hc; shc_step
theorem step_cov_seen2 (t : Nat) (b : Bool) (h : step s (.seen2 t b) = some s') : Cov s' O R sd rh := by
  obtain ⟨v1,v2,v3,v4,v5⟩ := hc; shc_step
theorem step_cov_slRel (t : Nat) (h : step s (.slRel t) = some s') : Cov s' O R sd rh := by
  obtain ⟨v1,v2,v3,v4,v5⟩ := hc; shc_step
theorem step_cov_flag (t i : Nat) (h : step s (.flag t i) = some s') : Cov s' O R sd rh := by
  obtain ⟨v1,v2,v3,v4,v5⟩ := hc; shc_step
theorem step_cov_run (t i : Nat) (h : step s (.run t i) = some s') : Cov s' O R sd rh := by
  obtain ⟨v1,v2,v3,v4,v5⟩ := hc; shc_step
theorem step_cov_abort (t : Nat) (h : step s (.abort t) = some s') : Cov s' O R sd rh := by
  obtain ⟨v1,v2,v3,v4,v5⟩ := hc; shc_step
theorem step_cov_invConsume (t k : Nat) (O' : Nat → Prop) (hO : ∀ j, O' j ↔ (j = k ∨ O j))
    (h : step s (.invConsume t k) = some s') : Cov s' O' R sd rh := by
  obtain ⟨v1,v2,v3,v4,v5⟩ := hc; shc_step
theorem step_cov_rcv (t k : Nat) (r : RSig) (O' : Nat → Prop)
    (hO : ∀ j, O' j ↔ ((sd = false ∨ j ≠ k) ∧ O j))
    (p1 : ∀ t k, consOf (s.pc t) = some k → s.phase k = .active ∧ s.owner k = t)
    (c1 : ∀ k, k ∈ s.conts ↔ s.phase k = .queued)
    (h : step s (.rcv t k r) = some s') : Cov s' O' R sd rh := by
  obtain ⟨v1,v2,v3,v4,v5⟩ := hc; shc_step
end

/-- Events of a thread inside `set_predecessor_done` / `add_continuation` / the continuation loop. -/
def touchesB : Ev → Bool
  | .invComplete _ _ | .ret _ | .tdone _ | .invConsume _ _ => false
  | _ => true

set_option hygiene false in
macro "sht_step" : tactic => `(tactic| (
  simp only [step] at h
  split at h
  case isFalse => simp at h
  rename_i hg
  repeat' split at h
  all_goals first | (simp at h; done) | skip
  all_goals first
    | (simp [touchesB] at ht; done)
    | grind))

/-- Whoever reads or writes the shared state is covered by a reference. -/
theorem touch_covered (s s' : St) (O : Nat → Prop) (R : Prop) (sd : Bool) (hc : Cov s O R sd true)
    (x1 : ∀ t k, s.pc t = .pushed k → s.phase k = .queued) (e : Ev) (ht : touchesB e = true)
    (h : step s e = some s') : (∃ j, O j) ∨ R := by
  obtain ⟨v1,v2,v3,v4,v5⟩ := hc
  have w1 : ∀ t k, s.pc t = .want k → O k := fun t k h => v1 t k (by simp [h, consOf])
  have w2 : ∀ t k, s.pc t = .seenF k → O k := fun t k h => v1 t k (by simp [h, consOf])
  have w3 : ∀ t k, s.pc t = .clocked k → O k := fun t k h => v1 t k (by simp [h, consOf])
  have w4 : ∀ t k, s.pc t = .seenT2 k → O k := fun t k h => v1 t k (by simp [h, consOf])
  have w5 : ∀ t k, s.pc t = .visiting k → O k := fun t k h => v1 t k (by simp [h, consOf])
  have w6 : ∀ t k, s.pc t = .prod (some k) → O k := fun t k h => v1 t k (by simp [h, consOf])
  have w7 : ∀ t k, s.pc t = .pushed k → O k := fun t k h => v2 k (x1 t k h)
  clear v1 v2 v3 v5 x1
  cases e <;> sht_step
end PikaVerif.Shared

namespace PikaVerif.SharedLife
open PikaVerif PikaVerif.Shared

/-- Invariant of the layered model, part 1: the protocol invariants of the layer below, the list of
    references, the `freed` flag and counter, no touch after release. -/
structure LfCore (s : St) : Prop where
  full : Full s.b
  xinv : XInv s.b
  nodup : s.holders.Nodup
  freedIff : s.freed = true ↔ s.holders = []
  nfreeEq : s.nfree = if s.freed = true then 1 else 0
  noUaf : s.rcvHolds = true → s.uaf = false

/-- Invariant of the layered model: part 1 and the coverage of the threads inside the protocol. -/
structure LfInv (s : St) : Prop where
  core : LfCore s
  cov : Cov s.b (fun j => Ref.ops j ∈ s.holders) (Ref.rcv ∈ s.holders) s.selfdel s.rcvHolds

theorem nodup_dedup (l : List Nat) : (dedup l).Nodup := by
  induction l with
  | nil => simp [dedup]
  | cons a l ih =>
    simp only [dedup]; split
    · exact ih
    · exact List.nodup_cons.mpr ⟨by assumption, ih⟩

theorem nodup_map_snd (l : List Nat) (h : l.Nodup) : (l.map Ref.snd).Nodup := by
  induction l with
  | nil => simp
  | cons a l ih =>
    have h' := List.nodup_cons.mp h
    simp only [List.map_cons]
    refine List.nodup_cons.mpr ⟨?_, ih h'.2⟩
    intro hm
    obtain ⟨b, hb, he⟩ := List.mem_map.mp hm
    cases he
    exact h'.1 hb

theorem nodup_initHolders (c : Cfg) : (initHolders c).Nodup := by
  have h1 := nodup_map_snd _ (nodup_dedup c.snds)
  have h2 : ((if c.handle then [Ref.handle] else []) ++ (dedup c.snds).map Ref.snd).Nodup := by
    split
    · simp only [List.singleton_append]
      exact List.nodup_cons.mpr ⟨by simp, h1⟩
    · simpa using h1
  unfold initHolders
  split
  · simp only [List.singleton_append]
    refine List.nodup_cons.mpr ⟨?_, h2⟩
    split <;> simp
  · simpa using h2

theorem ops_not_init (c : Cfg) (j : Nat) : Ref.ops j ∉ initHolders c := by
  unfold initHolders
  split <;> split <;> simp

theorem lfinv_init (c : Cfg) (h : c.rcvHolds = true) : LfInv (init c) := by
  refine ⟨⟨full_init _ _, xinv_init _ _, nodup_initHolders c, ?_, ?_, ?_⟩, ?_⟩
  · simp [init, initHolders, h]
  · simp [init]
  · intro _; simp [init]
  · refine ⟨?_, ?_, ?_, ?_, ?_⟩
    · intro t k; simp [init, Shared.init, consOf]
    · intro k; simp [init, Shared.init]
    · intro k hk; exact absurd hk (ops_not_init c k)
    · intro _ _; simp [init, initHolders, h]
    · intro _; left; simp [init, Shared.init]

theorem not_freed_of_mem {s : St} (hi : LfCore s) {r : Ref} (h : r ∈ s.holders) : s.freed = false := by
  cases hf : s.freed with
  | false => rfl
  | true => have := hi.freedIff.mp hf; rw [this] at h; simp at h

/-- A release keeps the invariant, provided the coverage relation survives the loss of that reference. -/
theorem release_inv {s s' : St} {r : Ref} {n : Nat} {fr : Bool} (hi : LfCore s)
    (h : release s r n fr = some s')
    (hcov : r ∈ s.holders → Cov s.b (fun j => Ref.ops j ∈ s.holders.erase r) (Ref.rcv ∈ s.holders.erase r)
      s.selfdel s.rcvHolds) : LfInv s' := by
  unfold release at h
  split at h
  · rename_i hg
    obtain ⟨hm, hn, hfr⟩ := hg
    simp only [Option.some.injEq] at h
    subst h
    have hnf := not_freed_of_mem hi hm
    have hlen := List.length_erase_of_mem hm
    refine ⟨⟨hi.full, hi.xinv, hi.nodup.erase r, ?_, ?_, ?_⟩, hcov hm⟩
    · dsimp only
      rw [hnf, Bool.false_or, hfr, List.eq_nil_iff_length_eq_zero, hlen]
      simp; omega
    · dsimp only
      rw [hnf, Bool.false_or, hi.nfreeEq, hnf]
      cases fr <;> simp
    · intro hr; dsimp only; rw [hnf, hi.noUaf hr]; rfl
  · simp at h

theorem _root_.PikaVerif.Shared.Cov.congr {b : Shared.St} {O O' : Nat → Prop} {R R' : Prop} {sd rh : Bool} (h : Cov b O R sd rh)
    (hO : ∀ j, O j ↔ O' j) (hR : R ↔ R') : Cov b O' R' sd rh := by
  have e1 : O = O' := funext fun j => propext (hO j)
  have e2 : R = R' := propext hR
  subst e1; subst e2; exact h

theorem inProd_eq (p : Pc) : inProd p = isProd p := by cases p <;> rfl

theorem base_core {s : St} {e : Shared.Ev} {b' : Shared.St} {H : List Ref} (hi : LfCore s)
    (hb : Shared.step s.b e = some b') (hnd : H.Nodup) (hne : s.freed = true ↔ H = [])
    (hsafe : s.rcvHolds = true → touches e = true → s.freed = false) :
    LfCore { s with b := b', holders := H, uaf := s.uaf || (s.freed && touches e) } := by
  refine ⟨step_full _ _ e hi.full hb, step_xinv _ _ e hi.full hi.xinv hb, hnd, hne, hi.nfreeEq, ?_⟩
  intro hr
  have hsafe := hsafe hr
  dsimp only
  rw [hi.noUaf hr]
  cases ht : touches e with
  | false => simp
  | true => simp [hsafe ht]

/-- A thread inside the protocol is covered by a live reference: the state is not freed. -/
theorem touch_safe {s : St} (hi : LfInv s) (hr : s.rcvHolds = true) {e : Shared.Ev} {b' : Shared.St}
    (hb : Shared.step s.b e = some b') (ht : touchesB e = true) : s.freed = false := by
  have hc := hi.cov
  rw [hr] at hc
  rcases touch_covered s.b b' _ _ _ hc hi.core.xinv.pushedQ e ht hb with ⟨j, hj⟩ | hR
  · exact not_freed_of_mem hi.core hj
  · exact not_freed_of_mem hi.core hR

theorem touches_eq (e : Shared.Ev) : touches e = true → touchesB e = true ∨ ∃ t k, e = .invConsume t k := by
  cases e <;> simp [touches, touchesB]

theorem invConsume_unused {b b' : Shared.St} {t k : Nat} (h : Shared.step b (.invConsume t k) = some b') :
    b.phase k = .unused := by
  simp only [Shared.step] at h
  split at h
  · rename_i hg; exact hg.2.2
  · simp at h

/-- Generic protocol events: the set of references does not change. -/
theorem base_same {s : St} {e : Shared.Ev} {b' : Shared.St} (hi : LfInv s)
    (hb : Shared.step s.b e = some b')
    (hcov : Cov b' (fun j => Ref.ops j ∈ s.holders) (Ref.rcv ∈ s.holders) s.selfdel s.rcvHolds)
    (hnc : ∀ t k, e ≠ .invConsume t k) :
    LfInv { s with b := b', holders := s.holders, uaf := s.uaf || (s.freed && touches e) } := by
  refine ⟨base_core hi.core hb hi.core.nodup hi.core.freedIff ?_, hcov⟩
  intro hr ht
  rcases touches_eq e ht with h1 | ⟨t, k, h2⟩
  · exact touch_safe hi hr hb h1
  · exact absurd h2 (hnc t k)

theorem step_lfinv_base (s s' : St) (e : Shared.Ev) (hi : LfInv s) (h : step s (.base e) = some s') : LfInv s' := by
  simp only [step] at h
  split at h
  case isFalse => simp at h
  rename_i hg
  unfold baseStep at h
  split at h
  case h_2 => simp at h
  rename_i b' hb
  simp only [Option.some.injEq] at h
  subst h
  have hc := hi.cov
  cases e with
  | tdone t => exact base_same hi hb (step_cov_tdone _ _ _ _ _ _ hc t hb) (by intros; simp)
  | slAcq t => exact base_same hi hb (step_cov_slAcq _ _ _ _ _ _ hc t hb) (by intros; simp)
  | invComplete t c => exact base_same hi hb (step_cov_invComplete _ _ _ _ _ _ hc t c hb) (by intros; simp)
  | fire t c => exact base_same hi hb (step_cov_fire _ _ _ _ _ _ hc t c hb) (by intros; simp)
  | seen2 t b => exact base_same hi hb (step_cov_seen2 _ _ _ _ _ _ hc t b hb) (by intros; simp)
  | slRel t => exact base_same hi hb (step_cov_slRel _ _ _ _ _ _ hc t hb) (by intros; simp)
  | flag t i => exact base_same hi hb (step_cov_flag _ _ _ _ _ _ hc t i hb) (by intros; simp)
  | run t i => exact base_same hi hb (step_cov_run _ _ _ _ _ _ hc t i hb) (by intros; simp)
  | abort t => exact base_same hi hb (step_cov_abort _ _ _ _ _ _ hc t hb) (by intros; simp)
  | ret t =>
    refine base_same hi hb (step_cov_ret _ _ _ _ _ _ hc t ?_ hb) (by intros; simp)
    intro hp hR
    simp [guard, inProd_eq, hp, hR] at hg
  | seen1 t b =>
    refine base_same hi hb (step_cov_seen1 _ _ _ _ _ _ hc t b ?_ hb) (by intros; simp)
    intro hp hR
    simp [guard, inProd_eq, hp, hR] at hg
  | rcv t k r =>
    have hsd : s.selfdel = false := by simpa [guard] using hg
    refine base_same hi hb (step_cov_rcv _ _ _ _ _ _ hc t k r _ ?_ hi.core.full.pinv.consPhase hi.core.full.cinv.contsQ hb) (by intros; simp)
    intro j; simp [hsd]
  | invConsume t k =>
    have hm : Ref.snd k ∈ s.holders := by simpa [guard] using hg
    have hun := invConsume_unused hb
    have hno : Ref.ops k ∉ s.holders := by
      intro ho
      rcases hc.opsJust k ho with h1 | h1 | ⟨_, h1⟩ <;> simp [hun] at h1
    have hnf := not_freed_of_mem hi.core hm
    have hcov := step_cov_invConsume _ _ _ _ _ _ hc t k (fun j => j = k ∨ Ref.ops j ∈ s.holders) (fun _ => Iff.rfl) hb
    refine ⟨base_core hi.core hb ?_ ?_ (fun _ _ => hnf), hcov.congr ?_ ?_⟩
    · simp only [holdAfter]
      exact List.nodup_cons.mpr ⟨fun hx => hno ((List.erase_sublist).subset hx), hi.core.nodup.erase _⟩
    · simp [holdAfter, hnf]
    · intro j
      simp only [holdAfter, List.mem_cons, Ref.ops.injEq]
      rw [List.mem_erase_of_ne (by simp)]
    · simp only [holdAfter, List.mem_cons]
      rw [List.mem_erase_of_ne (by simp)]
      simp

theorem step_lfinv_consumeCopy (s s' : St) (t k n : Nat) (hi : LfInv s)
    (h : step s (.consumeCopy t k n) = some s') : LfInv s' := by
  simp only [step] at h
  split at h
  case isFalse => simp at h
  rename_i hg
  obtain ⟨hh, _, _⟩ := hg
  unfold baseStep at h
  split at h
  case h_2 => simp at h
  rename_i b' hb
  simp only [Option.some.injEq] at h
  subst h
  have hc := hi.cov
  have hun := invConsume_unused hb
  have hno : Ref.ops k ∉ s.holders := by
    intro ho
    rcases hc.opsJust k ho with h1 | h1 | ⟨_, h1⟩ <;> simp [hun] at h1
  have hnf := not_freed_of_mem hi.core hh
  have hcov := step_cov_invConsume _ _ _ _ _ _ hc t k (fun j => j = k ∨ Ref.ops j ∈ s.holders) (fun _ => Iff.rfl) hb
  refine ⟨base_core hi.core hb ?_ ?_ (fun _ _ => hnf), hcov.congr ?_ ?_⟩
  · exact List.nodup_cons.mpr ⟨hno, hi.core.nodup⟩
  · simp [hnf]
  · intro j; simp
  · simp

theorem step_lfinv_rcvDel (s s' : St) (t k : Nat) (r : RSig) (n : Nat) (fr : Bool) (hi : LfInv s)
    (h : step s (.rcvDel t k r n fr) = some s') : LfInv s' := by
  simp only [step] at h
  split at h
  case isFalse => simp at h
  rename_i hsd
  split at h
  case h_2 => simp at h
  rename_i s1 hs1
  unfold baseStep at hs1
  split at hs1
  case h_2 => simp at hs1
  rename_i b' hb
  simp only [Option.some.injEq] at hs1
  subst hs1
  have hc := hi.cov
  have hcore := base_core hi.core hb hi.core.nodup hi.core.freedIff
    (fun hr _ => touch_safe hi hr hb (by simp [touchesB]))
  refine release_inv hcore h ?_
  intro _
  dsimp only
  refine (step_cov_rcv _ _ _ _ _ _ hc t k r (fun j => (s.selfdel = false ∨ j ≠ k) ∧ Ref.ops j ∈ s.holders)
    (fun _ => Iff.rfl) hi.core.full.pinv.consPhase hi.core.full.cinv.contsQ hb).congr ?_ ?_
  · intro j
    rw [hi.core.nodup.mem_erase_iff]
    simp [hsd]
  · rw [List.mem_erase_of_ne (by simp)]

theorem step_lfinv_discard (s s' : St) (t k n : Nat) (fr : Bool) (hi : LfInv s)
    (h : step s (.discard t k n fr) = some s') : LfInv s' := by
  simp only [step] at h
  split at h
  case isFalse => simp at h
  refine release_inv hi.core h ?_
  intro _
  refine hi.cov.congr ?_ ?_
  · intro j; rw [List.mem_erase_of_ne (by simp)]
  · rw [List.mem_erase_of_ne (by simp)]

theorem step_lfinv_unrefR (s s' : St) (t n : Nat) (fr : Bool) (hi : LfInv s)
    (h : step s (.unrefR t n fr) = some s') : LfInv s' := by
  simp only [step] at h
  split at h
  case isFalse => simp at h
  rename_i hg
  obtain ⟨_, _, hfin, _⟩ := hg
  refine release_inv hi.core h ?_
  intro _
  obtain ⟨v1, v2, v3, v4, v5⟩ := hi.cov
  refine ⟨?_, ?_, ?_, ?_, ?_⟩
  · intro u j hj; rw [List.mem_erase_of_ne (by simp)]; exact v1 u j hj
  · intro j hj; rw [List.mem_erase_of_ne (by simp)]; exact v2 j hj
  · intro j hj; rw [List.mem_erase_of_ne (by simp)] at hj; exact v3 j hj
  · intro _ hlt; rw [hfin] at hlt; simp [PStage.rank] at hlt
  · intro hm; rw [hi.core.nodup.mem_erase_iff] at hm; exact absurd rfl hm.1

theorem step_lfinv (s s' : St) (e : Ev) (hi : LfInv s) (h : step s e = some s') : LfInv s' := by
  cases e with
  | base e => exact step_lfinv_base s s' e hi h
  | consumeCopy t k n => exact step_lfinv_consumeCopy s s' t k n hi h
  | rcvDel t k r n fr => exact step_lfinv_rcvDel s s' t k r n fr hi h
  | discard t k n fr => exact step_lfinv_discard s s' t k n fr hi h
  | unrefR t n fr => exact step_lfinv_unrefR s s' t n fr hi h

theorem lfinv_of_accepted {c : Cfg} (hc : c.rcvHolds = true) {log : List Ev} {s : St}
    (h : runLog step (init c) log = some s) : LfInv s :=
  inv_of_runLog LfInv (fun s e s' => step_lfinv s s' e) (lfinv_init c hc) h

/-! ### The layer below: every accepted log of the ownership model is an accepted log of the protocol model -/

theorem release_b {s s' : St} {r : Ref} {n : Nat} {fr : Bool} (h : release s r n fr = some s') : s'.b = s.b := by
  unfold release at h; split at h
  · simp only [Option.some.injEq] at h; subst h; rfl
  · simp at h

theorem baseStep_b {s s' : St} {e : Shared.Ev} {H : List Ref} (h : baseStep s e H = some s') :
    Shared.step s.b e = some s'.b := by
  unfold baseStep at h; split at h
  · rename_i b' hb; simp only [Option.some.injEq] at h; subst h; exact hb
  · simp at h

theorem step_proj (s s' : St) (e : Ev) (h : step s e = some s') :
    runLog Shared.step s.b e.proj = some s'.b := by
  cases e with
  | base e =>
    simp only [step] at h; split at h
    · simp [Ev.proj, runLog, baseStep_b h]
    · simp at h
  | consumeCopy t k n =>
    simp only [step] at h; split at h
    · simp [Ev.proj, runLog, baseStep_b h]
    · simp at h
  | rcvDel t k r n fr =>
    simp only [step] at h; split at h
    · split at h
      · rename_i s1 hs1
        simp [Ev.proj, runLog, baseStep_b hs1, release_b h]
      · simp at h
    · simp at h
  | discard t k n fr =>
    simp only [step] at h; split at h
    · simp [Ev.proj, release_b h]
    · simp at h
  | unrefR t n fr =>
    simp only [step] at h; split at h
    · simp [Ev.proj, release_b h]
    · simp at h

theorem runLog_proj (s s' : St) (log : List Ev) (h : runLog step s log = some s') :
    runLog Shared.step s.b (log.flatMap Ev.proj) = some s'.b := by
  induction log generalizing s with
  | nil => simp at h; subst h; simp
  | cons e es ih =>
    simp only [runLog] at h
    cases hs : step s e with
    | none => simp [hs] at h
    | some s1 =>
      simp only [hs] at h
      simp only [List.flatMap_cons, runLog_append, step_proj s s1 e hs, Option.bind_some]
      exact ih s1 h
end PikaVerif.SharedLife
