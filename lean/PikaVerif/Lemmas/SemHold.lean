import PikaVerif.Lemmas.Sem2
/-!
# The internal lock is released within three events of its holder (C08t)

The model has no event for a *failed* attempt on the internal spinlock (the driver drops the
`sl.lock` / `ag.yield` lines of a spinning thread), so termination of the real code is termination
of the model **modulo spinning on the internal lock**.  This file shows that such a spinning episode
is short: whenever the lock is held, its holder — running alone — releases it after at most three
events, in every reachable state (the holder is never blocked while it holds the lock).
-/
namespace PikaVerif.Sem
open PikaVerif

/-- the thread that performs an event -/
def actor : Ev → Nat
  | .inv t _ | .ret t _ | .slAcq t | .slRel t | .cvEnq t _ _ | .popResume t _ _ _ | .cvNone t
  | .cvWoke t _ _ | .take t _ | .add t _ _ | .suspend t | .woke t | .sleep t | .timeout t | .done t => t

/-- `r`, running alone from `s`, releases the lock within `k` events -/
def Releases (s : St) (r k : Nat) : Prop :=
  ∃ log s', log.length ≤ k ∧ (∀ e, e ∈ log → actor e = r) ∧ runLog step s log = some s' ∧ s'.lock = none

theorem Releases.cons {s s1 : St} {r k : Nat} (e : Ev) (he : step s e = some s1) (ha : actor e = r)
    (h : Releases s1 r k) : Releases s r (k + 1) := by
  obtain ⟨log, s', h1, h2, h3, h4⟩ := h
  refine ⟨e :: log, s', by simp; omega, ?_, by simp only [runLog, he]; exact h3, h4⟩
  intro e' he'
  simp only [List.mem_cons] at he'
  rcases he' with h | h
  · rw [h]; exact ha
  · exact h2 e' h

theorem Releases.mono {s : St} {r k k' : Nat} (h : Releases s r k) (hk : k ≤ k') : Releases s r k' := by
  obtain ⟨log, s', h1, h2, h3, h4⟩ := h
  exact ⟨log, s', by omega, h2, h3, h4⟩

theorem Releases.one {s s1 : St} {r : Nat} (e : Ev) (he : step s e = some s1) (ha : actor e = r)
    (hl : s1.lock = none) : Releases s r 1 :=
  ⟨[e], s1, by simp, by intro e' he'; simp at he'; rw [he']; exact ha, by simp only [runLog, he], hl⟩

/-- at the check of an acquire-type operation: take or enqueue / give up, then unlock -/
theorem releases_check (s : St) (r : Nat) (o : Op) (c : Bool) (hl : s.lock = some r) (hrn : r < s.n)
    (hp : s.pc r = .locked o c) (ho : ∀ k, o ≠ .rel k) : Releases s r 2 := by
  by_cases hval : 1 ≤ s.value
  · have e1 : step s (.take r (s.value - 1)) = some { s with value := s.value - 1, acquired := s.acquired + 1, tookOp := upd s.tookOp r true, pc := upd s.pc r .taken } := by
      cases o <;> first | (exact absurd rfl (ho _)) | simp [step, hrn, hl, hval, hp]
    exact Releases.cons _ e1 rfl (Releases.one (.slRel r) (s1 := { s with value := s.value - 1, acquired := s.acquired + 1, tookOp := upd s.tookOp r true, lock := none, pc := upd (upd s.pc r .taken) r (.retn true) }) (by simp [step, hrn, hl]) rfl rfl)
  · have hv : s.value < 1 := by omega
    cases o with
    | rel k => exact absurd rfl (ho k)
    | tryq =>
      exact Releases.mono (Releases.one (.slRel r) (s1 := { s with lock := none, pc := upd s.pc r (.retn false) }) (by simp [step, hrn, hl, hp, hv]) rfl rfl) (by omega)
    | acq =>
      have e1 : step s (.cvEnq r (s.queue.length + 1) false) = some { s with queue := s.queue ++ [r], pc := upd s.pc r (.enq false) } := by
        simp [step, hrn, hl, hp, hv]
      exact Releases.cons _ e1 rfl (Releases.one (.slRel r) (s1 := { s with queue := s.queue ++ [r], lock := none, pc := upd (upd s.pc r (.enq false)) r (.unl false false) }) (by simp [step, hrn, hl]) rfl rfl)
    | timed =>
      have e1 : step s (.cvEnq r (s.queue.length + 1) true) = some { s with queue := s.queue ++ [r], pc := upd s.pc r (.enq true) } := by
        simp [step, hrn, hl, hp, hv]
      exact Releases.cons _ e1 rfl (Releases.one (.slRel r) (s1 := { s with queue := s.queue ++ [r], lock := none, pc := upd (upd s.pc r (.enq true)) r (.unl true false) }) (by simp [step, hrn, hl]) rfl rfl)

/-- at the head of the notify loop: one `notify_one`, then unlock -/
theorem releases_loop (s : St) (hi : Inv s) (r i m : Nat) (hl : s.lock = some r) (hrn : r < s.n)
    (hp : s.pc r = .relL i m) : Releases s r 2 := by
  cases hq : s.queue with
  | nil =>
    have e1 : step s (.cvNone r) = some { s with pc := upd s.pc r (.relRes i m false) } := by
      simp [step, hrn, hl, hp, hq]
    exact Releases.cons _ e1 rfl (Releases.one (.slRel r) (s1 := { s with lock := none, pc := upd (upd s.pc r (.relRes i m false)) r (.retn false) }) (by simp [step, hrn, hl]) rfl rfl)
  | cons g rest =>
    have hgq : g ∈ s.queue := by rw [hq]; simp
    have hginQ := (hi.qIff g).1 hgq
    have hgr : g ≠ r := by intro he; rw [he, hp] at hginQ; simp [inQ] at hginQ
    have hnh : holds (s.pc g) = false := by
      cases hhg : holds (s.pc g) with
      | false => rfl
      | true => have := hi.lockHolder g hhg; rw [hl] at this; simp at this; exact absurd this.symm hgr
    have hsp : ∃ p', setPopped (s.pc g) = some p' := by
      cases hpg : s.pc g <;> simp [hpg, inQ, holds] at hginQ hnh <;> simp [setPopped, hginQ]
    obtain ⟨p', hp'⟩ := hsp
    cases hd : decide (s.pc g = .slp false) with
    | true =>
      have e1 : step s (.popResume r rest.length g true) = some { s with queue := rest, pc := upd (upd s.pc g p') r (.relRes i m (decide (rest ≠ []))) } := by
        simp [step, hrn, hl, hp, hq, hp', hd]
      exact Releases.cons _ e1 rfl (Releases.one (.slRel r) (s1 := { s with queue := rest, lock := none, pc := upd (upd (upd s.pc g p') r (.relRes i m (decide (rest ≠ [])))) r (if decide (rest ≠ []) then .relNL (i + 1) m else .retn false) }) (by simp [step, hrn, hl]) rfl rfl)
    | false =>
      have e1 : step s (.popResume r rest.length g false) = some { s with queue := rest, tok := upd s.tok g (s.tok g + 1), pc := upd (upd s.pc g p') r (.relRes i m (decide (rest ≠ []))) } := by
        simp [step, hrn, hl, hp, hq, hp', hd]
      exact Releases.cons _ e1 rfl (Releases.one (.slRel r) (s1 := { s with queue := rest, tok := upd s.tok g (s.tok g + 1), lock := none, pc := upd (upd (upd s.pc g p') r (.relRes i m (decide (rest ≠ [])))) r (if decide (rest ≠ []) then .relNL (i + 1) m else .retn false) }) (by simp [step, hrn, hl]) rfl rfl)

/-- **The lock holder releases the lock within three of its own events.** -/
theorem holder_releases (s : St) (hi : Inv s) (hi2 : Inv2 s) (r : Nat) (hl : s.lock = some r) :
    Releases s r 3 := by
  obtain ⟨hh, hrn⟩ := hi2.lockConv r hl
  have one : ∀ s1, step s (.slRel r) = some s1 → s1.lock = none → Releases s r 3 :=
    fun s1 h1 h2 => Releases.mono (Releases.one (.slRel r) h1 rfl h2) (by omega)
  cases hp : s.pc r <;> simp [hp, holds] at hh
  case locked o c =>
    cases o with
    | acq => exact Releases.mono (releases_check s r .acq c hl hrn hp (by simp)) (by omega)
    | tryq => exact Releases.mono (releases_check s r .tryq c hl hrn hp (by simp)) (by omega)
    | timed => exact Releases.mono (releases_check s r .timed c hl hrn hp (by simp)) (by omega)
    | rel k =>
      cases c with
      | true => have := hi2.carryOps r (.rel k) hp; simp at this
      | false =>
        cases hs1 : step s (.add r (s.value + k) k) with
        | none => simp [step, hrn, hl, hp] at hs1
        | some s1 =>
          have hi1 := step_inv s s1 _ hi hs1
          have hs1' := hs1
          simp [step, hrn, hl, hp] at hs1'
          by_cases hc : 0 < k ∧ 0 ≤ s.value + (k : Int)
          · have hl1 : s1.lock = some r := by rw [← hs1']
            have hn1 : r < s1.n := by rw [← hs1']; exact hrn
            have hp1 : s1.pc r = .relL 0 k := by rw [← hs1']; simp [hc]
            exact Releases.cons _ hs1 rfl (releases_loop s1 hi1 r 0 k hl1 hn1 hp1)
          · have hl1 : s1.lock = some r := by rw [← hs1']
            have hn1 : r < s1.n := by rw [← hs1']; exact hrn
            have hp1 : s1.pc r = .relFin := by rw [← hs1']; simp [hc]
            have e2 : step s1 (.slRel r) = some { s1 with lock := none, pc := upd s1.pc r (.retn false) } := by
              simp [step, hn1, hl1, hp1]
            exact Releases.mono (Releases.cons _ hs1 rfl (Releases.one _ e2 rfl rfl)) (by omega)
  case enq tm => exact one _ (by simp [step, hrn, hl, hp]; rfl) rfl
  case taken => exact one _ (by simp [step, hrn, hl, hp]; rfl) rfl
  case failing => exact one _ (by simp [step, hrn, hl, hp]; rfl) rfl
  case relRes i m more => exact one _ (by simp [step, hrn, hl, hp]; rfl) rfl
  case relFin => exact one _ (by simp [step, hrn, hl, hp]; rfl) rfl
  case relL i m => exact Releases.mono (releases_loop s hi r i m hl hrn hp) (by omega)
  case relk tm p =>
    cases hs1 : step s (.cvWoke r (!p) tm) with
    | none => cases p <;> cases tm <;> simp [step, hrn, hl, hp] at hs1
    | some s1 =>
      have hs1' := hs1
      cases p with
      | true =>
        simp [step, hrn, hl, hp] at hs1'
        have hl1 : s1.lock = some r := by rw [← hs1']
        have hn1 : r < s1.n := by rw [← hs1']; exact hrn
        have hp1 : s1.pc r = .locked (if tm then .timed else .acq) true := by rw [← hs1']; simp
        exact Releases.cons _ hs1 rfl (releases_check s1 r _ true hl1 hn1 hp1 (by cases tm <;> simp))
      | false =>
        cases tm with
        | true =>
          simp [step, hrn, hl, hp] at hs1'
          have hl1 : s1.lock = some r := by rw [← hs1']
          have hn1 : r < s1.n := by rw [← hs1']; exact hrn
          have hp1 : s1.pc r = .failing := by rw [← hs1']; simp
          have e2 : step s1 (.slRel r) = some { s1 with lock := none, pc := upd s1.pc r (.retn false) } := by
            simp [step, hn1, hl1, hp1]
          exact Releases.mono (Releases.cons _ hs1 rfl (Releases.one _ e2 rfl rfl)) (by omega)
        | false =>
          simp [step, hrn, hl, hp] at hs1'
          have hl1 : s1.lock = some r := by rw [← hs1']
          have hn1 : r < s1.n := by rw [← hs1']; exact hrn
          have hp1 : s1.pc r = .locked .acq false := by rw [← hs1']; simp
          exact Releases.cons _ hs1 rfl (releases_check s1 r _ false hl1 hn1 hp1 (by simp))

end PikaVerif.Sem
