import PikaVerif.Lemmas.Mtx2
/-!
# Termination measure of the mutex model (C06t)

The model `PikaVerif.Mtx` has **no stutter** on the mutex itself: a failed attempt to take the
internal spinlock is not an event of the model (`slAcq` is only accepted when the spinlock is free;
the hook points `sl.lock` / `ag.yield` of a spinning task are dropped by the driver before the
acceptor), a failed `try_lock` is a complete operation (`inv … ret fail`), and a timed wait ends
only by its deadline event `timeout`, which the model accepts exactly once per wait.  The only
events that can repeat without moving any operation forward are the harness marks `cs.enter` /
`cs.exit` (they change the history counters only); the program layer below allows one
`cs.enter … cs.exit` bracket per invoked operation, which is what the harness does.

`mu` is a natural-number measure on model states that strictly decreases with every accepted
event other than the start of a new operation (`inv`) and the mark `cs.enter`.  Potential argument:
an iteration of `lock()`'s wait loop (`again → enq → unl → susp → wokeNL → relk → again`, 6 events)
is paid for by the wake-up token (worth 6) that the agent consumes at `woke`; tokens are created
only by the `notify_one` of an `unlock` (`popResume`), which holds 7 in reserve at `disowned`.
-/
namespace PikaVerif.Mtx
open PikaVerif

/-- potential of one operation not yet started -/
def opRank : Op → Nat
  | .unlock => 11
  | _ => 10

/-- rank of a program counter -/
def rank : Pc → Nat
  | .fin => 0
  | .idle => 1
  | .retn _ _ => 2
  | .owned _ => 3
  | .notified => 3
  | .timedOut => 3
  | .sig => 4
  | .want o => opRank o + 1
  | .locked o => opRank o
  | .again _ => 10
  | .enq _ => 9
  | .unl _ _ => 8
  | .susp _ => 7
  | .slp _ => 7
  | .wokeNL tm _ => 12 - 6 * b2n tm
  | .relk tm _ => 11 - 6 * b2n tm
  | .disowned => 10

/-- value of a wake-up token -/
def tokW (k : Nat) : Nat := 6 * k

/-- the measure on model states: ranks + tokens + 1 per open critical-section mark -/
def mu (s : St) : Nat :=
  sumTo s.n (fun t => rank (s.pc t)) + sumTo s.n (fun t => tokW (s.tok t)) + sumTo s.n (fun t => b2n (s.inCS t))

attribute [local grind] rank opRank b2n tokW setPopped

set_option hygiene false in
macro "mu_step" t:term : tactic => `(tactic| (
  simp only [step] at h
  split at h
  case isFalse => simp at h
  rename_i hg
  have htn : $t < s.n := by grind
  have hle := le_sumTo (f := fun u => rank (s.pc u)) htn
  have hle2 := le_sumTo (f := fun u => tokW (s.tok u)) htn
  have hle3 := le_sumTo (f := fun u => b2n (s.inCS u)) htn
  repeat' split at h
  all_goals first | (simp at h; done) | skip
  all_goals (
    simp only [Option.some.injEq] at h
    subst h
    simp only [mu]
    try rw [sumTo_upd_eq _ rank _ _ _ htn]
    try rw [sumTo_upd_eq _ tokW _ _ _ htn]
    try rw [sumTo_upd_eq _ b2n _ _ _ htn]
    grind)))

theorem mu_slAcq (s s' : St) (t : Nat) (h : step s (.slAcq t) = some s') : mu s' < mu s := by mu_step t
theorem mu_ret (s s' : St) (t : Nat) (r : Res) (h : step s (.ret t r) = some s') : mu s' < mu s := by mu_step t
theorem mu_slRel (s s' : St) (t : Nat) (h : step s (.slRel t) = some s') : mu s' < mu s := by mu_step t
theorem mu_cvEnq (s s' : St) (t z : Nat) (b : Bool) (h : step s (.cvEnq t z b) = some s') : mu s' < mu s := by mu_step t
theorem mu_cvNone (s s' : St) (t : Nat) (h : step s (.cvNone t) = some s') : mu s' < mu s := by mu_step t
theorem mu_cvWoke (s s' : St) (t : Nat) (a b : Bool) (h : step s (.cvWoke t a b) = some s') : mu s' < mu s := by mu_step t
theorem mu_own (s s' : St) (t k : Nat) (w : Bool) (h : step s (.own t k w) = some s') : mu s' < mu s := by mu_step t
theorem mu_disown (s s' : St) (t : Nat) (h : step s (.disown t) = some s') : mu s' < mu s := by mu_step t
theorem mu_suspend (s s' : St) (t : Nat) (h : step s (.suspend t) = some s') : mu s' < mu s := by mu_step t
theorem mu_woke (s s' : St) (t : Nat) (h : step s (.woke t) = some s') : mu s' < mu s := by mu_step t
theorem mu_sleep (s s' : St) (t : Nat) (h : step s (.sleep t) = some s') : mu s' < mu s := by mu_step t
theorem mu_timeout (s s' : St) (t : Nat) (h : step s (.timeout t) = some s') : mu s' < mu s := by mu_step t
theorem mu_csExit (s s' : St) (t : Nat) (h : step s (.csExit t) = some s') : mu s' < mu s := by mu_step t
theorem mu_done (s s' : St) (t : Nat) (h : step s (.done t) = some s') : mu s' < mu s := by mu_step t

theorem mu_csEnter (s s' : St) (t : Nat) (h : step s (.csEnter t) = some s') : mu s' = mu s + 1 := by mu_step t

theorem mu_inv (s s' : St) (t : Nat) (o : Op) (h : step s (.inv t o) = some s') :
    mu s' + 1 = mu s + rank (.want o) := by
  simp only [step] at h
  split at h
  case isFalse => simp at h
  rename_i hg
  have htn : t < s.n := hg.1
  have hle := le_sumTo (f := fun u => rank (s.pc u)) htn
  simp only [Option.some.injEq] at h
  subst h
  simp only [mu]
  rw [sumTo_upd_eq _ rank _ _ _ htn]
  grind

theorem setPopped_rank {p p' : Pc} (h : setPopped p = some p') : rank p' = rank p ∧ p ≠ .disowned := by
  unfold setPopped at h
  split at h <;> simp at h <;> subst h <;> simp [rank]

theorem mu_popResume (s s' : St) (t z g : Nat) (d : Bool)
    (h : step s (.popResume t z g d) = some s') : mu s' < mu s := by
  simp only [step] at h
  split at h
  case isFalse => simp at h
  rename_i hg
  have htn : t < s.n := hg.1
  split at h
  case h_2 => simp at h
  rename_i g' rest hpc hq
  split at h
  case isFalse => simp at h
  split at h
  case h_2 => simp at h
  rename_i p' hp'
  obtain ⟨hrk, hnr⟩ := setPopped_rank hp'
  have hgt : t ≠ g := by intro he; rw [← he, hpc] at hnr; exact hnr rfl
  split at h
  case isFalse => simp at h
  simp only [Option.some.injEq] at h
  subst h
  have hw2 := sumTo_upd s.n rank (upd s.pc g p') t .notified htn
  rw [upd_other _ _ _ _ hgt, hpc] at hw2
  have e1 : rank Pc.disowned = 10 := rfl
  have e2 : rank Pc.notified = 3 := rfl
  rw [e1, e2] at hw2
  simp only [mu]
  by_cases hgn : g < s.n
  · have hw1 := sumTo_upd s.n rank s.pc g p' hgn
    have hw3 := sumTo_upd s.n tokW s.tok g (s.tok g + 1) hgn
    have e3 : tokW (s.tok g + 1) = tokW (s.tok g) + 6 := by simp [tokW]; omega
    rw [e3] at hw3
    split <;> omega
  · have hw1 := sumTo_upd_ge s.n rank s.pc g p' (by omega)
    have hw3 := sumTo_upd_ge s.n tokW s.tok g (s.tok g + 1) (by omega)
    split <;> omega

/-- **The measure strictly decreases with every accepted event that is not the start of a new
    operation or the harness mark `cs.enter`.** -/
theorem mu_step (s s' : St) (e : Ev) (hne : ∀ t o, e ≠ .inv t o) (hnc : ∀ t, e ≠ .csEnter t)
    (h : step s e = some s') : mu s' < mu s := by
  cases e with
  | inv t o => exact absurd rfl (hne t o)
  | csEnter t => exact absurd rfl (hnc t)
  | ret t r => exact mu_ret s s' t r h
  | slAcq t => exact mu_slAcq s s' t h
  | slRel t => exact mu_slRel s s' t h
  | cvEnq t z b => exact mu_cvEnq s s' t z b h
  | popResume t z g d => exact mu_popResume s s' t z g d h
  | cvNone t => exact mu_cvNone s s' t h
  | cvWoke t a b => exact mu_cvWoke s s' t a b h
  | own t k w => exact mu_own s s' t k w h
  | disown t => exact mu_disown s s' t h
  | suspend t => exact mu_suspend s s' t h
  | woke t => exact mu_woke s s' t h
  | sleep t => exact mu_sleep s s' t h
  | timeout t => exact mu_timeout s s' t h
  | csExit t => exact mu_csExit s s' t h
  | done t => exact mu_done s s' t h

end PikaVerif.Mtx
