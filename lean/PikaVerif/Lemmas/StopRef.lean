import PikaVerif.Model.StopRef
/-! The source count of every stop state equals the number of live sources owning it. -/
namespace PikaVerif.StopRef
open PikaVerif

theorem cntF_upd (H : Nat) (f : Nat → Handle) (st i : Nat) (v : Handle) (h : i < H) :
    cntF H (upd f i v) st = cntF H f st - isOn st (f i) + isOn st v := by
  simp only [cntF]
  exact sumTo_upd_eq H (isOn st) f i v h

theorem cntF_le (H : Nat) (f : Nat → Handle) (st i : Nat) (h : i < H) : isOn st (f i) ≤ cntF H f st :=
  le_sumTo (f := fun i => isOn st (f i)) h

theorem cntF_zero (H : Nat) (f : Nat → Handle) (st : Nat) (h : ∀ i, f i ≠ some (some st)) :
    cntF H f st = 0 := by
  simp only [cntF]
  apply sumTo_eq_zero
  intro t _
  simp [isOn, h t]

structure Inv (s : St) : Prop where
  fix : s.fix = true
  cnt : ∀ st, s.srcs st = liveSources s st
  freshS : ∀ i st, s.src i = some (some st) → st < s.next

theorem inv_init (H : Nat) : Inv (init true H) := by
  refine ⟨rfl, ?_, ?_⟩
  · intro st
    simp only [init, liveSources]
    rw [cntF_zero]
    intro i; simp
  · intro i st h; simp [init] at h

attribute [local grind] isOn incAt decAt

set_option hygiene false in
macro "ref_step" a:ident b:ident : tactic => `(tactic| (
  simp only [step] at h
  obtain ⟨h0, h1, h2⟩ := hi
  split at h
  case isFalse => simp at h
  rename_i hg
  have hgi : $a < s.H := by first | exact hg | exact hg.1
  have hgj : $b < s.H := by first | exact hg | exact hg.1 | exact hg.2 | exact hg.2.1
  have hz := cntF_zero s.H s.src s.next (fun i hc => Nat.lt_irrefl _ (h2 i _ hc))
  repeat' split at h
  all_goals first | (simp at h; done) | skip
  all_goals (
    simp only [Option.some.injEq] at h
    subst h
    refine ⟨?_, ?_, ?_⟩ <;> try dsimp only
  )
  all_goals first
    | assumption
    | (intro st; have e := h1 st; simp only [liveSources] at e ⊢
       have l1 := cntF_le s.H s.src st _ hgi
       have l2 := cntF_le s.H s.src st _ hgj
       try rw [cntF_upd _ _ _ _ _ hgj]
       try rw [cntF_upd _ _ _ _ _ hgi]
       grind [upd])
    | (intro u; grind [upd])
    | grind [upd]))

theorem step_inv (s s' : St) (o : Op) (hi : Inv s) (h : step s o = some s') : Inv s' := by
  cases o with
  | snew i => ref_step i i
  | snone i => ref_step i i
  | scopy i j => ref_step i j
  | smove i j => ref_step i j
  | sassign i j => ref_step i j
  | smassign i j => ref_step i j
  | sswap i j => ref_step i j
  | sdel i => ref_step i i
  | tget k i => ref_step k i
  | tnew k => ref_step k k
  | tcopy k l => ref_step k l
  | tmove k l => ref_step k l
  | tassign k l => ref_step k l
  | tmassign k l => ref_step k l
  | tswap k l => ref_step k l
  | tdel k => ref_step k k
  | rs i => ref_step i i

theorem inv_of_accepted {H : Nat} {log : List Op} {s : St}
    (h : runLog step (init true H) log = some s) : Inv s :=
  inv_of_runLog Inv (fun s e s' => step_inv s s' e) (inv_init H) h

end PikaVerif.StopRef
