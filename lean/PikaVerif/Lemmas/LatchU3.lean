import PikaVerif.Props.C09
import PikaVerif.Lemmas.LatchU2
/-!
# Final states of maximal runs of a latch program (C09u)
-/
namespace PikaVerif.Latch
open PikaVerif PikaVerif.C09

/-- events other than `inv` / `done` are passed to the model unchanged -/
theorem pstep_other (p : PSt) (e : Ev) (h1 : ∀ t o, e ≠ .inv t o) (h2 : ∀ t, e ≠ .done t) :
    pstep p e = (step p.s e).map (fun s' => ⟨s', p.prog⟩) := by
  cases e <;> first | rfl | exact absurd rfl (h1 _ _) | exact absurd rfl (h2 _)

theorem lstuck_of_pstuck (p : PSt) (h : PStuck p) : LStuck p.s := by
  intro e h1 h2
  have := h e
  rw [pstep_other p e h1 h2] at this
  cases hs : step p.s e with
  | none => rfl
  | some s' => rw [hs] at this; simp at this

/-- in a maximal state no thread is between two operations -/
theorem pstuck_not_idle (p : PSt) (h : PStuck p) (t : Nat) (ht : t < p.s.n) : p.s.pc t ≠ .idle := by
  intro hidle
  cases hp : p.prog t with
  | nil =>
    have := h (.done t)
    simp [pstep, hp, step, ht, hidle] at this
  | cons o rest =>
    have := h (.inv t o)
    simp [pstep, hp, step, ht, hidle] at this

/-- the invariants carried along a program run -/
structure PInv (n : Nat) (c : Int) (prog0 : Nat → List Op) (p : PSt) : Prop where
  reach : LReachable p.s
  inv : Inv p.s
  nEq : p.s.n = n
  initEq : p.s.init = c
  tot : totSum p = progTotal n prog0
  free : progFree n prog0 ≤ freeSum p
  fin : FinOk p

theorem pinv_of_run (n : Nat) (c : Int) (prog : Nat → List Op) (log : List Ev) (p : PSt)
    (h : runLog pstep (pinit n c prog) log = some p) : PInv n c prog p := by
  have hm := runLog_pstep_step log _ p h
  have hc := cover_log log _ p h
  have hp := cover_pinit n c prog
  have hr : LReachable p.s := ⟨n, c, log, hm⟩
  have hn : p.s.n = n ∧ p.s.init = c :=
    inv_of_runLog (step := step) (fun s => s.n = n ∧ s.init = c)
      (fun s e s' hi hs => by have := step_n s s' e hs; exact ⟨this.1.trans hi.1, this.2.trans hi.2⟩)
      ⟨rfl, rfl⟩ hm
  refine ⟨hr, (inv_of_accepted hm).1, hn.1, hn.2, by omega, by omega, ?_⟩
  exact runLog_finOk log _ p (by intro t ht; simp [pinit, init] at ht) h

/-- every thread of a maximal state is finished (with its whole program done) or blocked -/
theorem final_fin_or_blocked (n : Nat) (c : Int) (prog : Nat → List Op) (p : PSt)
    (hi : PInv n c prog p) (hst : PStuck p) (t : Nat) (ht : t < n) :
    (p.s.pc t = .fin ∧ p.prog t = []) ∨ LBlocked p.s t := by
  have := C09_latch_stuck_only_when_blocked p.s hi.reach (lstuck_of_pstuck p hst) t (by rw [hi.nEq]; exact ht)
  rcases this with h | h | h
  · exact absurd h (pstuck_not_idle p hst t (by rw [hi.nEq]; exact ht))
  · exact Or.inl ⟨h, hi.fin t h⟩
  · exact Or.inr h

/-- `decSum` never exceeds the updates of the program -/
theorem decSum_le (n : Nat) (c : Int) (prog : Nat → List Op) (p : PSt) (hi : PInv n c prog p) :
    p.s.decSum ≤ progTotal n prog := by
  have := hi.tot; simp only [totSum] at this; omega

/-- in a maximal state all free decrements have been applied -/
theorem final_decSum_ge (n : Nat) (c : Int) (prog : Nat → List Op) (p : PSt)
    (hi : PInv n c prog p) (hst : PStuck p) : progFree n prog ≤ p.s.decSum := by
  have hz : sumTo p.s.n (remFree p) = 0 := by
    apply sumTo_eq_zero
    intro t ht
    rcases final_fin_or_blocked n c prog p hi hst t (by rw [← hi.nEq]; exact ht) with h | h
    · simp [remFree, h.1, h.2, pend, inWait, Latch.free]
    · simp [remFree, h.1, pend, inWait]
  have := hi.free
  simp only [freeSum, hz] at this
  omega

/-- **covered programs**: all threads finished -/
theorem final_covered (n : Nat) (c : Int) (prog : Nat → List Op) (p : PSt)
    (hi : PInv n c prog p) (hst : PStuck p)
    (hpre : (progTotal n prog : Int) ≤ c) (hcov : c ≤ (progFree n prog : Int)) :
    p.s.counter = 0 ∧ ∀ t, t < n → p.s.pc t = .fin ∧ p.prog t = [] := by
  have h1 := decSum_le n c prog p hi
  have h2 := final_decSum_ge n c prog p hi hst
  have h3 := hi.inv.account
  rw [hi.initEq] at h3
  have hc : p.s.counter = 0 := by omega
  refine ⟨hc, fun t ht => ?_⟩
  rcases final_fin_or_blocked n c prog p hi hst t ht with h | h
  · exact h
  · exact absurd hc (C09_latch_all_released p.s hi.reach (lstuck_of_pstuck p hst) t h)

/-- the invariant `Wt` along a run whose updates do not reach the count -/
theorem wt_of_run (n : Nat) (c : Int) (prog : Nat → List Op) (hshort : (progTotal n prog : Int) < c)
    (log : List Ev) : ∀ (p p' : PSt), PInv n c prog p → Wt prog p → runLog pstep p log = some p' →
      PInv n c prog p' ∧ Wt prog p' := by
  induction log with
  | nil => intro p p' hi hw h; simp at h; subst h; exact ⟨hi, hw⟩
  | cons e es ih =>
    intro p p' hi hw h
    simp only [runLog] at h
    cases hs : pstep p e with
    | none => simp [hs] at h
    | some p1 =>
      simp only [hs] at h
      have hm := pstep_step p p1 e hs
      have hc := cover_step p p1 e hs
      have hn := step_n _ _ _ hm
      obtain ⟨n0, c0, l0, hl0⟩ := hi.reach
      have hr1 : LReachable p1.s := ⟨n0, c0, l0 ++ [e], by
        rw [runLog_append, hl0]; simp [runLog, hm]⟩
      have hi1 : PInv n c prog p1 :=
        ⟨hr1, step_inv _ _ _ hi.inv hm, hn.1.trans hi.nEq, hn.2.trans hi.initEq,
          hc.1.trans hi.tot, Nat.le_trans hi.free hc.2, finOk_step p p1 e hi.fin hs⟩
      have hd := decSum_le n c prog p1 hi1
      have ha := hi1.inv.account
      rw [hi1.initEq] at ha
      have hpos : 0 < p1.s.counter := by omega
      exact ih p1 p' hi1 (wt_step prog p p1 e hi.inv hpos hw hs) h

/-- a thread whose program has no waiting operation is never inside one -/
def Nw (prog0 : Nat → List Op) (p : PSt) : Prop :=
  ∀ t, hasWait (prog0 t) = false → hasWait (p.prog t) = false ∧ inWait (p.s.pc t) = false

theorem nw_step (prog0 : Nat → List Op) (p p' : PSt) (e : Ev) (hw : Nw prog0 p)
    (h : pstep p e = some p') : Nw prog0 p' := by
  have hs := pstep_step p p' e h
  by_cases hinv : ∃ t o, e = .inv t o
  · obtain ⟨t, o, he⟩ := hinv
    subst he
    obtain ⟨rest, hp, hp', htn, hidle⟩ := pstep_inv p p' t o h
    simp only [step] at hs
    rw [if_pos ⟨htn, hidle⟩] at hs
    simp only [Option.some.injEq] at hs
    intro u hu
    rw [← hs, hp']
    simp only [upd]
    split
    · rename_i hut; subst hut
      have h1 := (hw u hu).1
      rw [hp] at h1
      simp only [hasWait, Bool.or_eq_false_iff] at h1
      refine ⟨h1.2, ?_⟩
      cases o <;> simp [isWaitOp] at h1 <;> simp [inWait]
    · exact hw u hu
  · have hne : ∀ t o, e ≠ .inv t o := fun t o he => hinv ⟨t, o, he⟩
    have hp := pstep_prog p p' e hne h
    obtain ⟨t, htn, ho, hd, hwt⟩ := acc_step _ _ _ hne hs
    intro u hu
    rw [hp]
    refine ⟨(hw u hu).1, ?_⟩
    by_cases hut : u = t
    · subst hut
      cases hx : inWait (p'.s.pc u) with
      | false => rfl
      | true => have := hwt hx; rw [(hw u hu).2] at this; cases this
    · rw [(ho u hut).2]; exact (hw u hu).2

theorem nw_of_run (prog0 : Nat → List Op) (log : List Ev) : ∀ (p p' : PSt), Nw prog0 p →
    runLog pstep p log = some p' → Nw prog0 p' := by
  induction log with
  | nil => intro p p' hf h; simp at h; subst h; exact hf
  | cons e es ih =>
    intro p p' hf h
    simp only [runLog] at h
    cases hs : pstep p e with
    | none => simp [hs] at h
    | some p1 => simp only [hs] at h; exact ih p1 p' (nw_step prog0 p p1 e hf hs) h

/-- **short programs**: every thread whose program contains a `wait` / `arrive_and_wait` is blocked,
    every other thread has finished -/
theorem final_short (n : Nat) (c : Int) (prog : Nat → List Op) (log : List Ev) (p : PSt)
    (h : runLog pstep (pinit n c prog) log = some p) (hst : PStuck p)
    (hshort : (progTotal n prog : Int) < c) :
    0 < p.s.counter ∧ ∀ t, t < n →
      (hasWait (prog t) = true → LBlocked p.s t) ∧
      (hasWait (prog t) = false → p.s.pc t = .fin ∧ p.prog t = []) := by
  have hi0 : PInv n c prog (pinit n c prog) := pinv_of_run n c prog [] _ rfl
  have hw0 : Wt prog (pinit n c prog) := fun t ht => Or.inl ht
  obtain ⟨hi, hw⟩ := wt_of_run n c prog hshort log _ p hi0 hw0 h
  have hd := decSum_le n c prog p hi
  have ha := hi.inv.account
  rw [hi.initEq] at ha
  have hpos : 0 < p.s.counter := by omega
  refine ⟨hpos, fun t ht => ⟨fun hwt => ?_, fun hnw => ?_⟩⟩
  · rcases final_fin_or_blocked n c prog p hi hst t ht with h1 | h1
    · rcases hw t hwt with h2 | h2
      · rw [h1.2] at h2; simp [hasWait] at h2
      · rw [h1.1] at h2; simp [waitingPc] at h2
    · exact h1
  · rcases final_fin_or_blocked n c prog p hi hst t ht with h1 | h1
    · exact h1
    · -- a blocked thread is inside a waiting operation: its program contains one
      exfalso
      have hnw0 : Nw prog (pinit n c prog) := fun u hu => ⟨hu, by simp [pinit, init, inWait]⟩
      have := (nw_of_run prog log _ p hnw0 h t hnw).2
      rw [h1.1] at this; simp [inWait] at this

/-- a state in which the lock is free and every thread is finished or parked without a token
    accepts no event: it ends a maximal run -/
theorem pstuck_of_rest (p : PSt) (hl : p.s.lock = none)
    (h : ∀ t, t < p.s.n → p.s.pc t = .fin ∨ (p.s.pc t = .susp false ∧ p.s.tok t = 0)) : PStuck p := by
  intro e
  cases e <;> simp only [pstep, step] <;> (repeat' split) <;>
    first
    | rfl
    | (simp_all; done)
    | grind

theorem progCost_le : ∀ l : List Op, progCost l ≤ 14 * l.length
  | [] => Nat.le_refl _
  | o :: l => by
    have := progCost_le l
    simp only [progCost, List.length_cons]
    cases o <;> simp only [opRank] <;> omega

/-- the bound is linear in the number of operations: at most `n + 14 * (number of operations)` -/
theorem bound_le (n : Nat) (prog : Nat → List Op) :
    bound n prog ≤ n + 14 * sumTo n (fun t => (prog t).length) := by
  have h1 : sumTo n (fun t => progCost (prog t)) ≤ sumTo n (fun t => 14 * (prog t).length) :=
    sumTo_mono (fun t _ => progCost_le (prog t))
  have h2 : ∀ m, sumTo m (fun t => 14 * (prog t).length) = 14 * sumTo m (fun t => (prog t).length) := by
    intro m
    induction m with
    | zero => rfl
    | succ k ih => simp only [sumTo_succ, ih]; omega
  simp only [bound]
  rw [h2] at h1
  omega

end PikaVerif.Latch
