import PikaVerif.Model.Bulk
import PikaVerif.Lemmas.Partition
/-! Inductive invariants of the bulk protocol model. -/
namespace PikaVerif.Bulk
open PikaVerif

def isDecd : Pc → Nat
  | .decd => 1
  | _ => 0

theorem all_of_sumTo_eq {n : Nat} {f : Nat → Nat} (hle : ∀ t, f t ≤ 1) (h : sumTo n f = n) :
    ∀ t, t < n → f t = 1 := by
  induction n with
  | zero => intro t ht; omega
  | succ k ih =>
    simp only [sumTo_succ] at h
    have hk := hle k
    have hs : sumTo k f ≤ k := by
      clear h ih
      induction k with
      | zero => simp
      | succ m ihm => simp only [sumTo_succ]; have := hle m; omega
    intro t ht
    by_cases htk : t = k
    · subst htk; omega
    · exact ih (by omega) t (by omega)

theorem isDecd_le (p : Pc) : isDecd p ≤ 1 := by cases p <;> simp [isDecd]

/-- Counting / outcome part of the invariant. -/
structure Inv (s : St) : Prop where
  wL : s.L < s.w
  cnt : s.remaining + sumTo s.w (fun k => isDecd (s.pc k)) = s.w
  outside : ∀ k, s.w ≤ k → s.pc k = .idle
  outc : ∀ e, s.outcome = some e → s.remaining = 0 ∧ e = s.excThrown
  outn : s.outcome = none → 0 < s.remaining ∧ s.signals = 0
  sig1 : s.signals ≤ 1
  thr : s.excThrown = true ↔ 0 < s.threw
  finT : ∀ k, s.pc k = .fin true → s.excThrown = true

theorem inv_init (w L : Nat) (a : Nat → Nat) (h : L < w) : Inv (init w L a) := by
  refine ⟨h, ?_, ?_, ?_, ?_, ?_, ?_, ?_⟩ <;> simp [init]
  · rw [sumTo_eq_zero]; intro t _; simp [isDecd]
  · omega

attribute [local grind] isDecd cur qEmpty afterEmpty

theorem no_active_when_done (s : St) (hi : Inv s) (h0 : s.remaining = 0) :
    ∀ k, k < s.w → s.pc k = .decd := by
  have hc := hi.cnt
  rw [h0, Nat.zero_add] at hc
  intro k hk
  have := all_of_sumTo_eq (fun t => isDecd_le (s.pc t)) hc k hk
  cases hp : s.pc k <;> simp [hp, isDecd] at this
  rfl

set_option hygiene false in
macro "bulk_step" t:term : tactic => `(tactic| (
  simp only [step] at h
  have hdone := no_active_when_done s hi
  obtain ⟨h1,h2,h3,h4,h5,h6,h7,h8⟩ := hi
  repeat' split at h
  all_goals first | (simp at h; done) | skip
  all_goals (
    simp only [Option.some.injEq] at h
    subst h
    have htn : $t < s.w := by grind
    have hle := le_sumTo (f := fun u => isDecd (s.pc u)) htn
    refine ⟨?_, ?_, ?_, ?_, ?_, ?_, ?_, ?_⟩ <;> dsimp only
  )
  all_goals first
    | assumption
    | (rw [sumTo_upd_eq _ _ _ _ _ htn]; grind)
    | (intro u; grind [upd])
    | grind [upd]))

theorem step_inv_spawn (s s' : St) (k : Nat) (hi : Inv s) (h : step s (.spawn k) = some s') : Inv s' := by bulk_step k
theorem step_inv_skip (s s' : St) (k : Nat) (hi : Inv s) (h : step s (.skip k) = some s') : Inv s' := by bulk_step k
theorem step_inv_task (s s' : St) (k : Nat) (hi : Inv s) (h : step s (.task k) = some s') : Inv s' := by bulk_step k
theorem step_inv_pop (s s' : St) (k q : Nat) (r : Option Nat) (hi : Inv s) (h : step s (.pop k q r) = some s') : Inv s' := by bulk_step k
theorem step_inv_chunk (s s' : St) (k j : Nat) (hi : Inv s) (h : step s (.chunk k j) = some s') : Inv s' := by
  simp only [step] at h
  repeat' split at h
  all_goals first | (simp at h; done) | (simp only [Option.some.injEq] at h; subst h; exact hi)
theorem step_inv_exc (s s' : St) (k : Nat) (hi : Inv s) (h : step s (.exc k) = some s') : Inv s' := by bulk_step k
theorem step_inv_dec (s s' : St) (k : Nat) (l : Bool) (hi : Inv s) (h : step s (.dec k l) = some s') : Inv s' := by bulk_step k

theorem step_inv_sig (s s' : St) (e : Bool) (hi : Inv s) (h : step s (.sig e) = some s') : Inv s' := by
  simp only [step] at h
  obtain ⟨h1,h2,h3,h4,h5,h6,h7,h8⟩ := hi
  split at h
  · simp only [Option.some.injEq] at h; subst h
    refine ⟨h1, h2, h3, h4, ?_, ?_, h7, h8⟩ <;> dsimp only
    · intro hn; grind
    · omega
  · simp at h

theorem step_inv (s s' : St) (e : Ev) (hi : Inv s) (h : step s e = some s') : Inv s' := by
  cases e with
  | spawn k => exact step_inv_spawn s s' k hi h
  | skip k => exact step_inv_skip s s' k hi h
  | task k => exact step_inv_task s s' k hi h
  | pop k q r => exact step_inv_pop s s' k q r hi h
  | chunk k j => exact step_inv_chunk s s' k j hi h
  | exc k => exact step_inv_exc s s' k hi h
  | dec k l => exact step_inv_dec s s' k l hi h
  | sig e => exact step_inv_sig s s' e hi h

theorem inv_of_accepted {w L : Nat} {a : Nat → Nat} (hL : L < w) {log : List Ev} {s : St}
    (h : runLog step (init w L a) log = some s) : Inv s :=
  inv_of_runLog Inv (fun s e s' => step_inv s s' e) (inv_init w L a hL) h

end PikaVerif.Bulk
